"""C15 — a group picks only nodes it believes alive, by the set policy and tolerance (DESIGN.md 6/C15)."""
import json
import os
import re
import sys

sys.path.insert(0, os.path.dirname(os.path.abspath(__file__)))
import vlib
from vlib import clist, cpair, log

PID = "C15"
PROPS = "C15_Props.v"
TARGETS = ["C15_Props.vo", "C15_Check.vo", "C15_Ring.vo"]
PKG = "component/outbound"
HARNESS = ["outbound/common_test.go", "outbound/c15_test.go"]
EXPORT = ("component/outbound/dialer/zz_verif_c15_export.go", "harness/dialer/c15_export.go")
HOOK = ("component/outbound/zz_verif_c15_hook.go", "harness/outbound/c15_hook.go")
GROUP_SRC = "component/outbound/dialer_group.go"
SWITCH_ORDER = [2, 3, 0, 1, 4, 5]   # uniqueAliveDialerSets order as harness type numbers: tcp4 tcp6 dns4 dns6 udp4 udp6

# yield points inserted (in a scratch copy, via -overlay) into DialerGroup.SetSelectionPolicy; each anchor must occur
# exactly once in the source, otherwise the shape of the function changed and the tie is reported broken
PATCHES = [
    ("\t\t\tfor _, set := range uniqueAliveDialerSets(current.aliveDialerSets) {\n"
     "\t\t\t\tset.SetSelectionPolicy(policy.Policy)\n"
     "\t\t\t}\n",
     "\t\t\tverifC15Switched := 0\n"
     "\t\t\tfor _, set := range uniqueAliveDialerSets(current.aliveDialerSets) {\n"
     "\t\t\t\tset.SetSelectionPolicy(policy.Policy)\n"
     "\t\t\t\tverifC15Switched++\n"
     "\t\t\t\tverifC15Yield(verifC15Switched)\n"
     "\t\t\t}\n"),
    ("\t\t\taliveDialerSets: current.aliveDialerSets,\n\t\t}\n\t\tg.selectionState.Store(next)\n",
     "\t\t\taliveDialerSets: current.aliveDialerSets,\n\t\t}\n\t\tverifC15Yield(7)\n\t\tg.selectionState.Store(next)\n"),
]


def patched_group_source(sc):
    src = open(os.path.join(vlib.REPO, GROUP_SRC)).read()
    for old, new in PATCHES:
        if src.count(old) != 1:
            return None, "anchor not found exactly once in %s: %r" % (GROUP_SRC, old[:60])
        src = src.replace(old, new)
    path = sc.path("dialer_group_c15_hooked.go")
    with open(path, "w") as f:
        f.write(src)
    return path, None


MS = 1000000
HOUR = 3600 * 1000 * MS
TYPES = ["tU4", "tU6", "tT4", "tT6", "tD4", "tD6"]
TYPE_DEFS = ("Definition tU4 : ntype := (DDnsUdp, V4).\nDefinition tU6 : ntype := (DDnsUdp, V6).\n"
             "Definition tT4 : ntype := (DTcp, V4).\nDefinition tT6 : ntype := (DTcp, V6).\n"
             "Definition tD4 : ntype := (DDataUdp, V4).\nDefinition tD6 : ntype := (DDataUdp, V6).\n"
             + "".join("Definition d%d : nat := %d%%nat.\n" % (i, i) for i in range(8)))
POLS = ["fixed", "random", "min", "min_avg10", "min_moving_avg"]
MINPOLS = {"min": "MLast", "min_avg10": "MAvg10", "min_moving_avg": "MMoving"}


# ------------------------------------------------------------------ generation
def gen_policy(rng, n):
    p = rng.choice(["min", "min", "min_avg10", "min_moving_avg", "random", "fixed"])
    i = 0
    if p == "fixed":
        i = rng.choice([0, 0, max(n - 1, 0), n, -1, rng.randint(0, max(n - 1, 0))])
    return {"p": p, "i": i}


def gen_select(rng, n, hot, cur):
    tt = rng.choice(hot + [4, 4])
    v = 4 if tt % 2 == 0 else 6
    if tt in (2, 3):
        l4, isdns, udom = "tcp", rng.random() < 0.3, rng.choice([0, 0, 1, 2])
    elif tt in (0, 1):
        l4, isdns, udom = "udp", rng.random() < 0.7, 1
    else:
        l4, isdns, udom = "udp", rng.random() < 0.2, rng.choice([0, 2])
    excl = -1 if rng.random() < 0.4 else rng.randrange(n)
    return {"k": "select", "l4": l4, "v": v, "isdns": isdns, "udom": udom, "strict": rng.random() < 0.5,
            "excl": excl, "draws": 6 if cur == "random" else 1}


def gen_case(rng, big=False, allow_huge=True):
    n = rng.choice([1, 1, 2, 2, 3, 3, 3, 4, 6])
    tol = rng.choice([0, 0, 1, 30 * MS, 30 * MS, 100 * MS, 1000 * MS, 2 * HOUR])
    huge = allow_huge and rng.random() < 0.06   # sorting latencies at / above the one-hour sentinel
    offs = []
    for _ in range(n):
        o = rng.choice([0, 0, 0, 10 * MS, 50 * MS, tol, -20 * MS])
        if huge and rng.random() < 0.6:
            o = rng.choice([HOUR, HOUR - 1, HOUR - tol if tol < HOUR else HOUR])
        offs.append(o)
    levels = [0, 1, 20 * MS, 50 * MS, 80 * MS, 100 * MS, 100 * MS + tol, 100 * MS - tol if tol <= 100 * MS else 7 * MS,
              130 * MS, 50 * MS + tol, 10000 * MS, tol, max(tol - 1, 0)]
    levels = [l for l in levels if 0 <= l < HOUR // 2]
    fam = rng.choice([[4], [4], [4, 6]])
    hot = [t for t in range(6) if (4 if t % 2 == 0 else 6) in fam]
    if rng.random() < 0.5:
        hot = [t for t in hot if t in (2, 3)] or hot
    p0 = gen_policy(rng, n)
    focus = rng.random() < 0.3   # tolerance scenarios: few nodes, one type, many samples around +-tolerance
    if focus:
        n = rng.choice([2, 2, 3])
        tol = rng.choice([30 * MS, 30 * MS, 100 * MS, 0])
        offs = [rng.choice([0, 0, 10 * MS, tol]) for _ in range(n)]
        levels = [20 * MS, 50 * MS, 50 * MS + tol, 80 * MS, 100 * MS, 100 * MS + tol, max(100 * MS - tol, 1), 130 * MS, max(tol - 1, 0), tol]
        hot = [rng.choice([2, 2, 4, 0])]
        p0 = {"p": rng.choice(["min", "min", "min_avg10", "min_moving_avg"]), "i": 0}
    cur = p0["p"]
    ops = []
    n_ops = rng.randint(1, 70 if big else 30)
    for _ in range(n_ops):
        r = rng.random()
        d = rng.randrange(n)
        t = rng.choice(hot)
        if r < (0.6 if focus else 0.33):
            ops.append({"k": "sample", "d": d, "t": t, "lat": rng.choice(levels)})
        elif r < 0.43:
            ops.append({"k": "die", "d": d, "t": t})
        elif r < 0.50:
            ops.append({"k": "fail", "d": d, "t": t})
        elif r < 0.60:
            ops.append({"k": "notify", "d": d, "t": t, "alive": rng.random() < 0.5})
        elif r < 0.63:
            ops.append({"k": "silent", "d": d, "t": t, "lat": rng.choice(levels)})
        elif r < 0.70:
            pol = gen_policy(rng, n)
            o = {"k": "policy", "pol": pol}
            if rng.random() < 0.5:   # operations of other threads running inside the switch
                inner = []
                for _ in range(rng.randint(1, 4)):
                    rr = rng.random()
                    dd, t2 = rng.randrange(n), rng.choice(hot)
                    if rr < 0.3:
                        inner.append({"k": "sample", "d": dd, "t": t2, "lat": rng.choice(levels)})
                    elif rr < 0.45:
                        inner.append({"k": "notify", "d": dd, "t": t2, "alive": rng.random() < 0.5})
                    elif rr < 0.55:
                        inner.append({"k": "getmin", "d": 0, "t": t2, "excl": rng.choice([-1, dd]), "draws": 1})
                    else:
                        inner.append(gen_select(rng, n, hot, cur))
                o["hook"] = {"at": rng.randint(1, 7), "ops": inner}
            cur = pol["p"]
            ops.append(o)
        elif r < 0.73:
            ops.append({"k": "switchset", "t": t, "pol": {"p": rng.choice(["random", "min", "min_avg10", "min_moving_avg"]), "i": 0}})
        elif r < 0.77:
            ops.append({"k": rng.choice(["getmin", "getmin", "getrand"]), "d": 0, "t": t, "excl": rng.choice([-1, d]), "draws": 3})
        else:
            ops.append(gen_select(rng, n, hot, cur))
    return {"n": n, "offs": offs, "tol": tol, "p0": p0, "ops": ops}


def gen_boundary():
    """fixed boundary family, run on every invocation: all 2^6 alive patterns over the six health domains
    (a dead domain has every node dead; an alive one keeps all nodes or a single survivor), for 1-3 nodes,
    under random and a min policy, then every requested type x {strict, non-strict} x {no exclusion, the
    survivor excluded}.  Exercises every same-family and cross-family fallback chain."""
    cases = []
    minpols = ["min", "min_avg10", "min_moving_avg"]
    reqs = [("udp", 4, False, 2), ("udp", 6, False, 0), ("udp", 4, True, 1), ("udp", 6, True, 1),
            ("tcp", 4, False, 0), ("tcp", 6, True, 0)]
    for pat in range(64):
        n = 1 + pat % 3
        k = (pat // 3) % n
        single = (pat % 2 == 1)
        for pol in ("random", minpols[pat % 3]):
            ops = []
            for t in range(6):
                alive = (pat >> t) & 1
                for d in range(n):
                    if not alive or (single and d != k):
                        ops.append({"k": "die" if (pat + t) % 2 == 0 else "notify", "d": d, "t": t, "alive": False})
            if pol != "random" and n > 1:
                ops.append({"k": "sample", "d": k, "t": [t for t in range(6) if (pat >> t) & 1][0] if pat else 0, "lat": 50 * MS})
            for (l4, v, isdns, udom) in reqs:
                for strict in (True, False):
                    for excl in ((-1, k) if n > 1 else (-1,)):
                        ops.append({"k": "select", "l4": l4, "v": v, "isdns": isdns, "udom": udom, "strict": strict,
                                    "excl": excl, "draws": 3 if pol == "random" and n > 1 else 1})
            cases.append({"n": n, "offs": [0] * n, "tol": 30 * MS, "p0": {"p": pol, "i": 0}, "ops": ops})
    return cases


SETPOLS = ["min", "min_avg10", "min_moving_avg", "random"]


def _reads(n, draws_rand):
    """selections and direct set reads over tcp4 / data-udp4 / dns-udp4"""
    ops = []
    for (l4, v, isdns, udom) in (("tcp", 4, False, 0), ("udp", 4, False, 2)):
        for strict in (True, False):
            for excl in ((-1, 0) if n > 1 else (-1,)):
                ops.append({"k": "select", "l4": l4, "v": v, "isdns": isdns, "udom": udom, "strict": strict,
                            "excl": excl, "draws": draws_rand})
    for t in (2, 4, 0):
        for excl in ((-1, 0) if n > 1 else (-1,)):
            ops.append({"k": "getmin", "d": 0, "t": t, "excl": excl, "draws": 1})
        ops.append({"k": "getrand", "d": 0, "t": t, "excl": -1, "draws": 3})
    return ops


def _setup(n, latcfg, deadcfg):
    ops = []
    lat = [80 * MS, 50 * MS, 120 * MS]
    for t in (2, 4, 0):
        for d in range(n):
            if latcfg == 2 or (latcfg == 1 and d == n - 1):      # 0: nobody measured, 1: one node, 2: all
                ops.append({"k": "sample", "d": d, "t": t, "lat": lat[d]})
    if deadcfg == 1:      # the standing choice of tcp4 dies (forced), one node of data-udp4 is told dead
        ops.append({"k": "die", "d": n - 1 if latcfg == 1 else (1 if n > 1 and latcfg == 2 else 0), "t": 2})
        ops.append({"k": "notify", "d": 0, "t": 4, "alive": False})
    elif deadcfg == 2:    # data-udp4 and dns-udp4 wholly dead: fallback chain down to tcp4
        for d in range(n):
            ops.append({"k": "die", "d": d, "t": 4})
            ops.append({"k": "notify", "d": d, "t": 0, "alive": False})
    return ops


def gen_switch_direct():
    """fixed family (a): every ordered pair (published policy, per-set policy) of the four alive-set policies, with
    nobody / one node / every node measured and three health patterns; sets are switched by hand with the real
    AliveDialerSet.SetSelectionPolicy (all six, a prefix of the switch order, or two types), then every read
    (Select, GetMinLatency, GetRandExcluded) runs under the OLD published policy; notifications arrive in that
    window; then the group publishes, reads again, and everything is switched back."""
    cases = []
    k = 0
    for pub in SETPOLS:
        for sp in SETPOLS:
            if sp == pub:
                continue
            for latcfg in range(3):
                n = 2 + k % 2
                deadcfg = k % 3
                which = [SWITCH_ORDER, SWITCH_ORDER[:1 + k % 5], [2, 4]][(k // 3) % 3]
                draws = 3 if "random" in (pub, sp) else 1
                ops = _setup(n, latcfg, deadcfg)
                ops += [{"k": "switchset", "t": t, "pol": {"p": sp, "i": 0}} for t in which]
                ops += _reads(n, draws)
                ops += [{"k": "sample", "d": 0, "t": 2, "lat": 30 * MS}, {"k": "notify", "d": n - 1, "t": 2, "alive": False},
                        {"k": "notify", "d": n - 1, "t": 4, "alive": True}, {"k": "sample", "d": n - 1, "t": 4, "lat": 10 * MS}]
                ops += _reads(n, draws)
                ops.append({"k": "policy", "pol": {"p": sp, "i": 0}})
                ops += _reads(n, draws)[:6]
                ops += [{"k": "switchset", "t": t, "pol": {"p": pub, "i": 0}} for t in which[:2]]
                ops += _reads(n, draws)[:6]
                ops.append({"k": "policy", "pol": {"p": sp, "i": 0}})     # published unchanged: only the store happens
                ops.append({"k": "policy", "pol": {"p": pub, "i": 0}})
                ops += _reads(n, draws)[:4]
                cases.append({"n": n, "offs": [0, 10 * MS, 0][:n], "tol": 30 * MS, "p0": {"p": pub, "i": 0}, "ops": ops})
                k += 1
    return cases


def gen_switch_hooked():
    """fixed family (b): DialerGroup.SetSelectionPolicy itself, for every ordered pair of alive-set policies, with
    reads and notifications of other threads run at a yield point inside it (after 1..6 sets have been switched, or
    after the loop and before the state store)."""
    cases = []
    k = 0
    for pub in SETPOLS:
        for newp in SETPOLS:
            for at in ((7, 1 + k % 6) if newp != pub else (7,)):
                n = 2 + k % 2
                draws = 3 if "random" in (pub, newp) else 1
                ops = _setup(n, k % 3, (k // 2) % 3)
                inner = _reads(n, draws)
                inner += [{"k": "sample", "d": 0, "t": 2, "lat": 30 * MS}, {"k": "notify", "d": n - 1, "t": 4, "alive": False},
                          {"k": "die", "d": n - 1, "t": 2}]
                inner += _reads(n, draws)[:8]
                ops.append({"k": "policy", "pol": {"p": newp, "i": 0}, "hook": {"at": at, "ops": inner}})
                ops += _reads(n, draws)[:8]
                cases.append({"n": n, "offs": [0, 10 * MS, 0][:n], "tol": 30 * MS, "p0": {"p": pub, "i": 0}, "ops": ops})
                k += 1
    return cases


def gen_foreign():
    """fixed family: notifications naming a dialer that is NOT a member of the group (number n), alive and not alive,
    with and without a latency of its own, on full / partly dead / empty sets, followed by reads.  Outside the
    property's quantifier: only the correspondence implementation = raw model (index-0 aliasing, panics) is judged."""
    cases = []
    k = 0
    for n in (1, 2):
        for pol in ("random", "min"):
            for haslat in (False, True):
                for pattern in range(3):
                    for alive in (False, True):
                        ops = []
                        if pol == "min" and k % 2 == 0:
                            ops.append({"k": "sample", "d": 0, "t": 2, "lat": 60 * MS})
                        if pattern == 1:
                            ops.append({"k": "notify", "d": 0, "t": 2, "alive": False})
                        elif pattern == 2:
                            ops += [{"k": "notify", "d": d, "t": 2, "alive": False} for d in range(n)]
                        if haslat:
                            ops.append({"k": "silent", "d": n, "t": 2, "lat": 5 * MS})
                        ops.append({"k": "notify", "d": n, "t": 2, "alive": alive})
                        ops += [{"k": "getmin", "d": 0, "t": 2, "excl": -1, "draws": 1},
                                {"k": "getrand", "d": 0, "t": 2, "excl": -1, "draws": 3},
                                {"k": "select", "l4": "tcp", "v": 4, "isdns": False, "udom": 0, "strict": True, "excl": -1,
                                 "draws": 3 if pol == "random" else 1},
                                {"k": "notify", "d": n, "t": 2, "alive": not alive},
                                {"k": "notify", "d": 0, "t": 2, "alive": True},
                                {"k": "getmin", "d": 0, "t": 2, "excl": 0, "draws": 1},
                                {"k": "select", "l4": "tcp", "v": 4, "isdns": False, "udom": 0, "strict": False, "excl": -1,
                                 "draws": 3 if pol == "random" else 1}]
                        cases.append({"n": n, "offs": [0] * n, "tol": 0, "p0": {"p": pol, "i": 0}, "ops": ops, "foreign": True})
                        k += 1
    return cases


def gen_ring(rng, count):
    """sample sequences for a bare LatenciesN: lengths 0..40, ring sizes 1, 2, 3, 10, unequal samples across the wrap"""
    cases = []
    for i in range(count):
        n = [10, 10, 10, 1, 2, 3][i % 6]
        ln = [0, 1, n - 1, n, n + 1, 2 * n, 2 * n + 1, 25, 40][i % 9] if i < 27 else rng.randint(0, 40)
        ln = max(0, min(ln, 40))
        kind = i % 3
        if kind == 0:
            samples = [(j + 1) * 7 * MS for j in range(ln)]                   # strictly increasing: every window differs
        elif kind == 1:
            samples = [rng.choice([1, 20 * MS, 50 * MS, 333 * MS, 10000 * MS]) for _ in range(ln)]
        else:
            samples = [rng.randint(0, 2000) * MS + rng.randint(0, 999) for _ in range(ln)]
        cases.append({"n": 0, "offs": [], "tol": 0, "p0": {"p": "fixed", "i": 0}, "ops": [], "ring": {"n": n, "samples": samples}})
    return cases


def run_ring(sc, binary, cases):
    """LatenciesN against the ring model and the last-N-samples spec; returns (list of (case, codes), error)"""
    inp, outp = sc.path("c15_ring.in"), sc.path("c15_ring.out")
    with open(inp, "w") as f:
        for c in cases:
            f.write(json.dumps(c) + "\n")
    rc, so, se, dt = vlib.run_go_harness(binary, "TestVerifC15", inp, outp)
    if rc != 0:
        return None, "harness failed rc=%d: %s %s" % (rc, so[-1500:], se[-1500:])
    results = [json.loads(l) for l in open(outp)]
    terms = []
    for c, r in zip(cases, results):
        obs = clist(["(%s, %s)" % ("Some %d" % o[1] if o[0] else "None", "Some %d" % o[3] if o[2] else "None") for o in r["ring"]])
        terms.append("ring_check %d%%nat %s %s" % (c["ring"]["n"], clist([str(x) for x in c["ring"]["samples"]]), obs))
    text = ("From Coq Require Import List ZArith Bool Arith NArith.\nFrom Dae Require Import C15_Ring.\n"
            "Import ListNotations.\nOpen Scope Z_scope.\n"
            "Definition R := Eval vm_compute in [\n" + ";\n".join(terms) + "\n].\nPrint R.\n")
    ok, outtxt = vlib.coq_eval("C15_ring_%d" % os.getpid(), text)
    if not ok:
        return None, "coq evaluation failed: " + outtxt[-2000:]
    m = re.search(r"R\s*=\s*(.*?)\n\s*:\s*list", outtxt, re.S)
    body = re.sub(r"\s+|%N", "", m.group(1))
    per = re.findall(r"\[((?:\(\d+,\d+\);?)*)\]", body[1:-1])
    if len(per) != len(cases):
        return None, "cannot parse coq output for the ring cases"
    bad = []
    for c, p_ in zip(cases, per):
        codes = [(int(a), int(b)) for a, b in re.findall(r"\((\d+),(\d+)\)", p_)]
        if codes:
            bad.append((c, codes))
    return bad, None


# ------------------------------------------------------------------ Coq terms
class ZPool:
    """number notations are interpreted by running a Coq conversion function: name every distinct constant once"""

    def __init__(self):
        self.names = {}

    def z(self, x):
        if x not in self.names:
            self.names[x] = "z%d" % len(self.names)
        return self.names[x]

    def header(self):
        return "".join("Definition %s : Z := %s.\n" % (nm, str(x) if x >= 0 else "(%d)" % x) for x, nm in self.names.items())


POOL = ZPool()


def cz(x):
    return POOL.z(x)


def cnat(x):
    assert 0 <= x < 8
    return "d%d" % x


def coz(has, x):
    return "(Some %s)" % cz(x) if has else "None"


def cgpol(p):
    if p["p"] == "fixed":
        return "(GFixed %s)" % cz(p["i"])
    if p["p"] == "random":
        return "(GSet SRandom)"
    return "(GSet (SMin %s))" % MINPOLS[p["p"]]


def cspol(name):
    return "SRandom" if name == "random" else "(SMin %s)" % MINPOLS[name]


def cdump(d):
    return "(Build_set_dump %s %s %s %s %s %s %s)" % (
        TYPES[d["t"]],
        clist([cpair(cnat(e[0]), cz(e[1])) for e in d["entries"]]),
        clist([cz(i) for i in d["idx"]]),
        clist([coz(l[0] == 1, l[1]) for l in d["lat"]]),
        cspol(d["policy"]),
        "None" if d["best"] < 0 else "(Some %s)" % cnat(d["best"]),
        cz(d["bestlat"]))


def ccbs(cbs):
    return clist([cpair(TYPES[t], vlib.cbool(a == 1)) for t, a in cbs])


class BadObservation(Exception):
    pass


def step_to_coq(op, st, store, ctx):
    """one harness step -> list of Coq obs_step terms; `store` (dict) is updated with the reported rows"""
    out = []
    pre = []
    for row in st["store"]:
        k = (row["d"], row["t"])
        old = store.get(k, ((False, 0), (False, 0), (False, 0), True))
        trip = tuple((row["has"][i], row["lat"][i] if row["has"][i] else 0) for i in range(3))
        if trip != old[:3]:
            pre.append("SOp (MOp (OLat %s %s (%s, %s, %s))) [] []" % (cnat(row["d"]), TYPES[row["t"]],
                                                               coz(*trip[0]), coz(*trip[1]), coz(*trip[2])))
        if row["alive"] != old[3]:
            pre.append("SOp (MOp (OAlive %s %s %s)) [] []" % (cnat(row["d"]), TYPES[row["t"]], vlib.cbool(row["alive"])))
        store[k] = trip + (row["alive"],)
    out += pre
    k = op["k"]
    if st.get("panic"):
        if k == "notify":
            out.append("SPanic (MOp (ONotify %s %s %s))" % (cnat(op["d"]), TYPES[op["t"]], vlib.cbool(op["alive"])))
            return out
        raise BadObservation("operation %s panicked: %s" % (k, st["panic"]))
    dumps = clist([cdump(d) for d in st["dumps"]])
    cbs = ccbs(st["cbs"])
    if k in ("sample", "die", "fail", "notify"):
        if k == "notify":
            alive = op["alive"]
        else:
            alive = store.get((op["d"], op["t"]), (None, None, None, True))[3]
        out.append("SOp (MOp (ONotify %s %s %s)) %s %s" % (cnat(op["d"]), TYPES[op["t"]], vlib.cbool(alive), dumps, cbs))
    elif k == "silent":
        if st["dumps"] or st["cbs"]:
            raise BadObservation("silent sample produced set activity")
    elif k == "policy":
        newp, pub = op["pol"], ctx["pub"]
        both_set = pub["p"] != "fixed" and newp["p"] != "fixed"
        pts = st.get("points") or []
        if op.get("hook") and pts:
            want = ([] if pub["p"] == newp["p"] else [1, 2, 3, 4, 5, 6]) + [7]
            if not both_set or pts != want:
                raise BadObservation("yield points %r passed inside SetSelectionPolicy, expected %r" % (pts, want if both_set else []))
            pd = list(st.get("pointdumps") or [])
            if len(pd) != len(pts) - 1:
                raise BadObservation("missing set dumps at the yield points")
            for pt in pts:
                if pt < 7:
                    out.append("SOp (MSwitchSet %s %s) %s []" % (TYPES[SWITCH_ORDER[pt - 1]], cspol(newp["p"]), clist([cdump(pd[pt - 1])])))
                if pt == op["hook"]["at"]:
                    inner = st.get("inner") or []
                    if len(inner) != len(op["hook"]["ops"]):
                        raise BadObservation("nested operations did not all run")
                    for iop, ist in zip(op["hook"]["ops"], inner):
                        out += step_to_coq(iop, ist, store, ctx)
                if pt == 7:
                    out.append("SOp (MPublish %s) %s %s" % (cspol(newp["p"]), dumps, cbs))
        elif op.get("hook") and both_set:
            raise BadObservation("no yield point was passed inside SetSelectionPolicy")
        elif both_set and pub["p"] == newp["p"]:
            out.append("SOp (MPublish %s) %s %s" % (cspol(newp["p"]), dumps, cbs))
        else:
            out.append("SOp (MOp (OPolicy %s)) %s %s" % (cgpol(newp), dumps, cbs))
        ctx["pub"] = newp
    elif k == "switchset":
        out.append("SOp (MSwitchSet %s %s) %s %s" % (TYPES[op["t"]], cspol(op["pol"]["p"]), dumps, cbs))
    elif k in ("getmin", "getrand"):
        excl = "None" if op["excl"] < 0 else "(Some %s)" % cnat(op["excl"])
        if st["sels"]:
            if k == "getmin":
                seen = set()
                for x in st["sels"]:
                    if (x["d"], x["lat"]) in seen:
                        continue
                    seen.add((x["d"], x["lat"]))
                    out.append("SGetMin %s %s %s %s" % (TYPES[op["t"]], excl,
                                                         "None" if x["d"] < 0 else "(Some %s)" % cnat(x["d"]), cz(x["lat"])))
            else:
                ds = sorted(set(x["d"] for x in st["sels"]))
                out.append("SGetRand %s %s %s" % (TYPES[op["t"]], excl,
                                                   clist(["None" if d < 0 else "(Some %s)" % cnat(d) for d in ds])))
    elif k == "select":
        res = []
        seen = set()
        for s in st["sels"]:
            key = (s["d"], s["lat"], s["sel"], s["err"])
            if key in seen:
                continue
            seen.add(key)
            if s["err"] == "":
                if s["d"] < 0 or s["sel"] < 0:
                    raise BadObservation("selection without error returned nil dialer/type: %r" % (s,))
                res.append("OSok %s %s %s" % (cnat(s["d"]), cz(s["lat"]), TYPES[s["sel"]]))
            else:
                e = {"noalive": "ENoAlive", "nodialer": "ENoDialer", "range": "EOutOfRange"}.get(s["err"])
                if e is None:
                    raise BadObservation("unexpected selection error: " + s["err"])
                if s["d"] >= 0:
                    raise BadObservation("selection error together with a dialer: %r" % (s,))
                res.append("OSerr %s %s" % (e, cz(s["lat"])))
        rq = "(Build_reqtype %s %s %s %s)" % ("TCP" if op["l4"] == "tcp" else "UDP", "V4" if op["v"] == 4 else "V6",
                                              vlib.cbool(op["isdns"]), ["UUnset", "UDns", "UData"][op["udom"]])
        out.append("SSel %s %s %s %s" % (rq, vlib.cbool(op["strict"]),
                                         "None" if op["excl"] < 0 else "(Some %s)" % cnat(op["excl"]), clist(res)))
    return out


def case_to_coq(case, res):
    store = {}
    ctx = {"pub": case["p0"]}
    init = res["init"]
    if init["store"]:
        raise BadObservation("fresh dialers are not in the start state: %r" % (init["store"][:2],))
    steps = []
    owner = []  # index of harness op for each coq step (1-based coq step numbers)
    for i, (op, st) in enumerate(zip(case["ops"], res["steps"])):
        ss = step_to_coq(op, st, store, ctx)
        steps += ss
        owner += [i] * len(ss)
    term = ("(Build_obs_case %s %s %s %s\n  %s %s\n  %s %s)" % (
        cnat(case["n"]), clist([cz(o) for o in case["offs"]]), cz(case["tol"]), cgpol(case["p0"]),
        clist([cdump(d) for d in init["dumps"]]), ccbs(init["cbs"]),
        "[" + ";\n   ".join(steps) + "]", vlib.cbool(bool(case.get("foreign")))))
    return term, owner


CODE_NAMES = {1: "impl<>model set dump", 5: "impl<>model callbacks", 4: "impl<>model selection",
              2: "impl<>spec set state", 6: "impl<>spec selection", 3: "model<>spec set state",
              7: "model<>spec selection", 9: "panic/unexpected observation"}
SPEC_CODES = (2, 6, 9)
MODEL_CODES = (1, 4, 5)
THM_CODES = (3, 7)


def run_batch(sc, binary, cases, tag):
    global POOL
    POOL = ZPool()
    inp = sc.path("c15_%s.in" % tag)
    outp = sc.path("c15_%s.out" % tag)
    with open(inp, "w") as f:
        for c in cases:
            f.write(json.dumps(c) + "\n")
    rc, so, se, dt = vlib.run_go_harness(binary, "TestVerifC15", inp, outp)
    if rc != 0:
        return None, None, "harness failed rc=%d: %s %s" % (rc, so[-2000:], se[-2000:])
    results = [json.loads(l) for l in open(outp)]
    if len(results) != len(cases):
        return None, None, "harness returned %d results for %d cases" % (len(results), len(cases))
    terms = []
    pre = {}
    for i, (c, r) in enumerate(zip(cases, results)):
        if r.get("panic"):
            pre[i] = [(0, 9, "panic: " + r["panic"])]
            terms.append(None)
            continue
        try:
            terms.append(case_to_coq(c, r)[0])
        except BadObservation as e:
            pre[i] = [(0, 9, str(e))]
            terms.append(None)
    idx = [i for i, x in enumerate(terms) if x is not None]
    text = ("From Coq Require Import List ZArith Bool Arith NArith.\nFrom Dae Require Import C15_Spec C15_Model C15_Switch C15_Check.\n"
            "Import ListNotations.\nOpen Scope Z_scope.\n" + TYPE_DEFS + POOL.header() +
            "Definition cases : list obs_case := [\n" + ";\n".join(terms[i] for i in idx) + "\n].\n"
            "Definition R := Eval vm_compute in map check_case cases.\nPrint R.\n"
            "Definition S := Eval vm_compute in map case_signature cases.\nPrint S.\n")
    ok, outtxt = vlib.coq_eval("C15_cases_%s_%d" % (tag, os.getpid()), text)
    if not ok:
        return None, None, "coq evaluation failed: " + outtxt[-3000:]
    m = re.search(r"R\s*=\s*(.*?)\n\s*:\s*list", outtxt, re.S)
    body = re.sub(r"\s+|%N", "", m.group(1))
    per = re.findall(r"\[((?:\(\d+,\d+\);?)*)\]", body[1:-1])
    if len(per) != len(idx):
        return None, None, "cannot parse coq output (%d vs %d): %s" % (len(per), len(idx), body[:500])
    errors = {}
    for i, p in zip(idx, per):
        errors[i] = [(int(a), int(b), "") for a, b in re.findall(r"\((\d+),(\d+)\)", p)]
    errors.update(pre)
    m2 = re.search(r"S\s*=\s*(.*?)\n\s*:\s*list", outtxt, re.S)
    sigs = re.findall(r"\((\d+),(\d+),(\d+),(\d+),(\d+),(\d+)\)", re.sub(r"\s+|%N", "", m2.group(1))) if m2 else []
    return errors, sigs, None


def shrink(sc, binary, case, codes):
    """batched greedy minimisation: all prefixes in one evaluation, then rounds of all single-op removals"""
    def failing(cands):
        if not cands:
            return []
        errs, _, err = run_batch(sc, binary, cands, "shrink")
        if err is not None:
            return []
        return [k for k in range(len(cands)) if any(code in codes for (_, code, _) in errs.get(k, []))]

    cur = dict(case)
    ops = list(case["ops"])
    f = failing([dict(cur, ops=ops[:k]) for k in range(1, len(ops) + 1)])
    if f:
        ops = ops[:f[0] + 1]
    size = max(len(ops) // 2, 1)
    budget = 10
    while budget > 0 and len(ops) > 1:
        budget -= 1
        cands = [dict(cur, ops=ops[:i] + ops[i + size:]) for i in range(0, len(ops), size) if len(ops) - min(size, len(ops) - i) >= 1]
        f = failing(cands)
        if f:
            ops = cands[f[-1]]["ops"]
            size = min(size, max(len(ops) // 2, 1))
        elif size > 1:
            size = max(size // 2, 1)
        else:
            break
    # operations run inside a policy switch: a single one if possible, else drop them one at a time
    cands = []
    for i, op in enumerate(ops):
        if op.get("hook") and len(op["hook"]["ops"]) > 1:
            for j in range(len(op["hook"]["ops"])):
                cands.append(dict(cur, ops=ops[:i] + [dict(op, hook=dict(op["hook"], ops=[op["hook"]["ops"][j]]))] + ops[i + 1:]))
    f = failing(cands)
    if f:
        ops = cands[f[0]]["ops"]
    for _ in range(6):
        cands = []
        for i, op in enumerate(ops):
            if op.get("hook"):
                for j in range(len(op["hook"]["ops"])):
                    if len(op["hook"]["ops"]) > 1:
                        h2 = dict(op["hook"], ops=op["hook"]["ops"][:j] + op["hook"]["ops"][j + 1:])
                        cands.append(dict(cur, ops=ops[:i] + [dict(op, hook=h2)] + ops[i + 1:]))
        f = failing(cands)
        if not f:
            break
        ops = cands[f[-1]]["ops"]
    cur["ops"] = ops
    # simplify parameters
    cands = []
    for i in range(len(cur["offs"])):
        if cur["offs"][i] != 0:
            cands.append(dict(cur, offs=cur["offs"][:i] + [0] + cur["offs"][i + 1:]))
    if cur["tol"] != 0:
        cands.append(dict(cur, tol=0))
    for _ in range(4):
        f = failing(cands)
        if not f:
            break
        cur = cands[f[0]]
        cands = []
        for i in range(len(cur["offs"])):
            if cur["offs"][i] != 0:
                cands.append(dict(cur, offs=cur["offs"][:i] + [0] + cur["offs"][i + 1:]))
        if cur["tol"] != 0:
            cands.append(dict(cur, tol=0))
    return cur


def input_class(case):
    """coarse class of a failing input, only used to report one replay per class"""
    lats = [op.get("lat", 0) for op in case["ops"] if op["k"] in ("sample", "silent")]
    big = bool(case["offs"]) and max(case["offs"]) + max(lats + [0]) >= HOUR
    hooked = any(op.get("hook") for op in case["ops"])
    return (("latency-at-or-above-1h",) if big else ()) + (("inside-policy-switch",) if hooked else ()) + \
        (("non-member",) if case.get("foreign") else ())


def matchers_for(case):
    """ids describing a minimised failing input (for known_findings.txt); nothing is expected to fail"""
    return ["ops-" + "-".join(sorted(set(op["k"] for op in case["ops"])))]


def main(argv):
    args = vlib.main_args(argv)
    out = vlib.Outcome(PID, args.tier, args.seed)
    rng = vlib.rng_for(args.seed, PID)
    n_cases = 70 if args.tier == "quick" else 8000

    proof_ok, pinfo = vlib.proof_stage(out, PROPS, TARGETS)
    cov = {"obligations": pinfo["obligations"], "discharged": pinfo["discharged"],
           "checker_cmd": "cd /verif/coq && coq_makefile -f _CoqProject -o Makefile && make -j16 " + " ".join(TARGETS) +
                          " && coqc -Q . Dae C15_Props.v (Print Assumptions captured)",
           "theorems": pinfo.get("theorems", []), "print_assumptions": pinfo.get("assumptions", []),
           "trusted_base": vlib.TRUSTED_BASE_COMMON + [
               "verif-tagged read-only exports in package dialer (harness/dialer/c15_export.go): set dump, snapshotLatencyForPolicy, markAvailable/markUnavailable+informDialerGroupUpdate wrappers",
               "the dialer-side latency summary (last/avg10/moving average + recovery penalty) enters model and spec as observed data of each operation; time.Duration modelled as unbounded Z",
               "every set operation is atomic (the set mutex); DialerGroup.SetSelectionPolicy is modelled step by step (per-set switches, then the publish) with reads and notifications between any two steps; yield points are inserted by -overlay into a scratch copy of dialer_group.go (anchors checked on every run); dialers identified by their position in the group"]}
    out.coverage = cov
    out.assumptions = ["selection does not change group state (HandleNoAliveDialer's resuscitation probes are outside the property)",
                       "latencies/offsets/tolerance stay within int64 nanoseconds (no wrap-around)"]

    with vlib.Scratch() as sc:
        ov = {os.path.join(vlib.REPO, EXPORT[0]): os.path.join(vlib.VERIF, EXPORT[1]),
              os.path.join(vlib.REPO, HOOK[0]): os.path.join(vlib.VERIF, HOOK[1])}
        hooked, herr = patched_group_source(sc)
        if hooked is None:
            out.violation("hook", {"broken": "yield points can no longer be inserted into DialerGroup.SetSelectionPolicy", "why": herr},
                          "source shape of DialerGroup.SetSelectionPolicy changed; interleaving correspondence cannot be built",
                          no_failing_input=True)
            cov.update(evaluations=0, distinct_nontrivial=0, rule="", samples=[], traces_validated_against_impl=0)
            return out.finish()
        ov[os.path.join(vlib.REPO, GROUP_SRC)] = hooked
        binary, blog = vlib.build_go_test_binary(sc, PKG, HARNESS, extra_overlay=ov)
        if binary is None:
            out.violation("build", {"broken": "harness build against the repo failed", "log": blog[-3000:]},
                          "correspondence harness no longer builds against the repo", no_failing_input=True)
            cov.update(evaluations=0, distinct_nontrivial=0, rule="", samples=[], traces_validated_against_impl=0)
            return out.finish()
        corpus = []
        cdir = os.path.join(vlib.VERIF, "corpus", PID)
        if os.path.isdir(cdir):
            for n in sorted(os.listdir(cdir)):
                if n.endswith(".json"):
                    corpus.append(json.load(open(os.path.join(cdir, n))))
        # LatenciesN (the avg10 ring) on its own
        ring_cases = gen_ring(rng, 60 if args.tier == "quick" else 600)
        ring_bad, ring_err = run_ring(sc, binary, ring_cases)
        if ring_err:
            out.violation("ring_tie", {"correspondence": ring_err}, "LatenciesN correspondence could not be evaluated", no_failing_input=True)
        elif ring_bad:
            spec_bad = [(c, cd) for c, cd in ring_bad if any(code == 2 for _, code in cd)]
            if spec_bad:
                c, cd = min(spec_bad, key=lambda x: len(x[0]["ring"]["samples"]))
                k = min(st for st, code in cd if code == 2)
                small = dict(c, ring=dict(c["ring"], samples=c["ring"]["samples"][:k]))
                out.violation("ring", {"case": small, "errors": cd, "failing_sequences": len(spec_bad),
                                       "how": "feed `case` to TestVerifC15: LatenciesN(n) after the k-th AppendLatency; LastLatency/AvgLatency differ from the last sample / the truncated mean of the last min(k, n) samples (code 2), step k = number of appends"},
                              "LatenciesN average or last sample is not that of the last min(len, N) samples (%d failing sequences)" % len(spec_bad),
                              matchers=["latencies-n-ring"])
            else:
                out.violation("ring_tie", {"cases": [x[0] for x in ring_bad[:2]], "errors": ring_bad[0][1]},
                              "ring model and LatenciesN disagree without a spec failure", no_failing_input=True)
        boundary = gen_boundary() + gen_switch_direct() + gen_switch_hooked() + gen_foreign()
        cases = corpus + boundary + [gen_case(rng, big=(i % 5 == 0)) for i in range(n_cases)]
        all_err = {}
        sigs = []
        shard = 400
        tie_broken = None
        for s in range(0, len(cases), shard):
            errs, sg, err = run_batch(sc, binary, cases[s:s + shard], "b%d" % s)
            if err:
                tie_broken = err
                break
            for i, e in errs.items():
                if e:
                    all_err[s + i] = e
            sigs += sg
        n_eval = len(cases)

        def has(e, codes):
            return any(code in codes for (_, code, _) in e)

        widened = False
        has_spec_fail = any(has(e, SPEC_CODES) for e in all_err.values())
        need_widen = (not proof_ok) or any(not has(e, SPEC_CODES) for e in all_err.values())
        if need_widen and not has_spec_fail and not tie_broken:
            widened = True
            extra = [gen_case(rng, big=True) for _ in range(10 * n_cases if args.tier == "quick" else n_cases)]
            for s in range(0, len(extra), shard):
                errs, sg, err = run_batch(sc, binary, extra[s:s + shard], "w%d" % s)
                if err:
                    break
                for i, e in errs.items():
                    if e:
                        all_err[len(cases) + s + i] = e
                if any(has(e, SPEC_CODES) for e in all_err.values()):
                    break
            cases += extra
            n_eval = len(cases)

        spec_fail = sorted(i for i, e in all_err.items() if has(e, SPEC_CODES))
        model_fail = sorted(i for i, e in all_err.items() if has(e, MODEL_CODES))
        thm_fail = sorted(i for i, e in all_err.items() if has(e, THM_CODES))
        # one report per class of failing input
        classes = {}
        for i in spec_fail:
            classes.setdefault(input_class(cases[i]), []).append(i)
        n_reported = 0
        for cls in sorted(classes, key=lambda k: (len(k), k)):
            if n_reported >= 2:
                break
            i = classes[cls][0]
            codes = tuple(sorted(set(code for (_, code, _) in all_err[i] if code in SPEC_CODES)))
            small = shrink(sc, binary, cases[i], codes) if 9 not in codes else cases[i]
            errs, _, _ = run_batch(sc, binary, [small], "final")
            ms = matchers_for(small)
            what = ", ".join(CODE_NAMES[c] for c in codes)
            out.violation("impl_vs_spec_%d" % n_reported,
                          {"case": small, "errors": (errs or {}).get(0), "error_codes": CODE_NAMES, "matchers": ms,
                           "original_case_index": i, "failing_histories_in_class": len(classes[cls]),
                           "how": "feed `case` (one JSON line) to TestVerifC15 via VERIF_IN; error (step, code): the step counts model-level operations, code 6 = selection result not allowed by C15_Spec.select_ok, code 2 = set state not allowed (alive view / within_tol / switch_ok)"},
                          "%s on this history (%d failing histories in this class, %d in total)" % (what, len(classes[cls]), len(spec_fail)),
                          matchers=ms)
            n_reported += 1
        if not spec_fail and (model_fail or thm_fail or tie_broken or not proof_ok):
            what = {}
            if not proof_ok:
                what["proof"] = pinfo["failed"]
            if tie_broken:
                what["correspondence"] = tie_broken
            if model_fail:
                what["correspondence_case"] = {"case": cases[model_fail[0]], "errors": all_err[model_fail[0]]}
            if thm_fail:
                what["model_vs_spec_case"] = {"case": cases[thm_fail[0]], "errors": all_err[thm_fail[0]]}
            what["searched"] = "%d histories (widened=%s) with no impl<>spec disagreement" % (n_eval, widened)
            out.violation("tie", what, "proof obligation or model correspondence no longer checks; no failing input found",
                          no_failing_input=True)
        elif spec_fail and not proof_ok:
            out.violation("proof", {"proof": pinfo["failed"]}, "proof stage failed", no_failing_input=True)
        nontrivial = len(set(s for s in sigs if int(s[0]) > 0 and (int(s[1]) > 0 or int(s[2]) > 0 or int(s[4]) > 0)))
        first_gen = len(corpus) + len(boundary)
        cov.update(ring_sequences=len(ring_cases), ring_failing=len(ring_bad or []), evaluations=n_eval + len(ring_cases), distinct_nontrivial=nontrivial, distinct_signatures=len(set(sigs)),
                   rule="fixed families on every run: policy-switch states by hand (every ordered pair published/per-set policy x measured none/one/all x health pattern, reads via Select/GetMinLatency/GetRandExcluded under the old published policy, notifications in the window), policy switches with operations run at a yield point inside DialerGroup.SetSelectionPolicy (overlay-inserted, source-shape checked), notifications naming a non-member (raw model only); fixed boundary family (all 64 alive patterns over the six health domains x 1-3 nodes x random/min policy x every requested type x strict/non-strict x exclusion) + random histories over 1-6 nodes (offsets incl. negative and >= 1 h), tolerance in {0,1ns,30ms,100ms,1s,2h}, "
                        "latency levels on a grid with +-tolerance boundaries and ties, ops: probe success/forced death/probe failure/"
                        "direct set notification/silent sample/policy switch (6 policies, fixed index out of range)/selection "
                        "(all type flag variants, strict or not, any excluded node, repeated draws for random); signature = "
                        "(#notifications changing a set's standing choice, #selections answered from a fallback type, #no-alive results, "
                        "#last-resort results, #selections excluding the standing choice); non-trivial = at least one choice change and one "
                        "of fallback/no-alive/excluded-best",
                   traces_validated_against_impl=n_eval - len(model_fail),
                   comparisons="per operation: impl set dump = model set (entries in order, index map, latency map, policy, best); "
                               "callbacks equal; impl and model set states satisfy the spec (alive view, within_tol, switch_ok); "
                               "per selection: impl result in model's result set, impl and model results satisfy select_ok",
                   samples=[cases[first_gen] if len(cases) > first_gen else cases[0]],
                   widened_search=widened,
                   failing={"impl_vs_spec": len(spec_fail), "impl_vs_model": len(model_fail), "model_vs_spec": len(thm_fail)})
    return out.finish()


if __name__ == "__main__":
    sys.exit(main(sys.argv[1:]))
