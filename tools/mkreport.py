#!/usr/bin/env python3
"""Generate the as-built tables of DESIGN.md section 11 from evidence/, manifest.d/, known_findings.txt and seeded/."""
import json, os, re, sys
here = os.path.dirname(os.path.dirname(os.path.abspath(__file__)))
ready = open(os.path.join(here, "manifest.d", "READY")).read().split()
rows = []
for pid in ["C%02d" % i for i in range(1, 21)]:
    evp = os.path.join(here, "evidence", pid + ".json")
    if not os.path.exists(evp):
        rows.append("| %s | not built | | | | |" % pid)
        continue
    ev = json.load(open(evp))
    cov = ev.get("coverage", {})
    thms = cov.get("theorems") or []
    ass = cov.get("print_assumptions") or cov.get("assumptions_printed") or []
    closed = sum(1 for a in ass if "Closed" in str(a))
    opens = cov.get("open_obligations") or []
    rows.append("| %s | %s | %s/%s | %s closed of %s printed | %s | %s |" % (
        pid, "claimed" if pid in ready else "built, not claimed", cov.get("discharged", "?"), cov.get("obligations", "?"),
        closed, len(ass), cov.get("evaluations", "?"), ", ".join(map(str, opens)) if opens else "none"))
print("| id | status | obligations discharged | Print Assumptions | cases in the recorded run (thorough tier) | open obligations |")
print("|---|---|---|---|---|---|")
print("\n".join(rows))
print()
print("Theorems per property (names as in coq/Cnn_Props*.v and coq/Link_*.v listed in coq/LINKS_READY):")
print()
import glob
sys.path.insert(0, os.path.join(here, "tools"))
import vlib
for pid in ["C%02d" % i for i in range(1, 21)]:
    names = []
    for f in sorted(glob.glob(os.path.join(here, "coq", pid + "_Props*.v"))):
        names += vlib.props_theorems(os.path.basename(f))
    print("* **%s**: %s" % (pid, ", ".join("`%s`" % n for n in names)))
lr = os.path.join(here, "coq", "LINKS_READY")
if os.path.exists(lr):
    for f in open(lr).read().split():
        print("* **%s**: %s" % (f, ", ".join("`%s`" % n for n in vlib.props_theorems(f))))
print()
print("| seed | property | what it needs | caught by the check |")
print("|---|---|---|---|")
sd = os.path.join(here, "seeded")
for n in sorted(os.listdir(sd)) if os.path.isdir(sd) else []:
    m = json.load(open(os.path.join(sd, n, "meta.json")))
    print("| %s | %s | %s | %s |" % (n, m.get("breaks_property", m.get("property")), re.sub(r"\s+", " ", str(m.get("needs", "")))[:220].replace("|", "/"),
                                   ("yes: " if m.get("caught_by_check", True) else "NO: ") + re.sub(r"\s+", " ", str(m.get("check_note", m.get("caught_by", ""))))[:200].replace("|", "/")))
