"""C16 — node health follows the documented thresholds and is reported on edges only (DESIGN.md 6/C16)."""
import json
import os
import re
import sys

sys.path.insert(0, os.path.dirname(os.path.abspath(__file__)))
import vlib
from vlib import clist, cpair, log

PID = "C16"
PROPS = "C16_Props.v"
TARGETS = ["C16_Props.vo", "C16_Check.vo"]
HARNESS = ["control/common_test.go", "control/c16_test.go"]
EXPORT = ("component/outbound/dialer/zz_verif_c16_export.go", "dialer/c16_export.go")
DOMS = ["Tcp4", "Tcp6", "DnsUdp4", "DnsUdp6", "DataUdp4", "DataUdp6"]
MASK = (1 << 62) - 1
MULT = 131


# ------------------------------------------------------------------------------------------------
# translator: constants of the anchored source -> coq/gen/C16_Consts.v
# ------------------------------------------------------------------------------------------------

class AnchorMoved(Exception):
    pass


def _need(m, what):
    if not m:
        raise AnchorMoved(what)
    return m


def func_body(src, header_re, what):
    m = _need(re.search(header_re, src), what)
    i = src.index("{", m.end() - 1)
    depth = 0
    for j in range(i, len(src)):
        if src[j] == "{":
            depth += 1
        elif src[j] == "}":
            depth -= 1
            if depth == 0:
                return src[i:j + 1]
    raise AnchorMoved(what + " (unbalanced)")


def translate():
    rd = lambda p: open(os.path.join(vlib.REPO, p)).read()
    cc = rd("component/outbound/dialer/connectivity_check.go")
    dl = rd("component/outbound/dialer/dialer.go")
    sc = rd("component/outbound/dialer/sticky_cache.go")
    hd = rd("component/outbound/dialer/health_domain.go")
    cn = rd("control/connectivity.go")
    ad = rd("component/outbound/dialer/alive_dialer_set.go")
    c = {}
    notes = []      # shape anchors that are gone: the model may no longer be the code; the differential search still runs
    body = func_body(cc, r"func \(d \*Dialer\) markUnavailableInternal\(typ \*NetworkType, force bool, isTraffic bool\) collectionUpdate \{", "markUnavailableInternal")
    m = _need(re.search(r"threshold := (\d+)\s*\n\s*switch typ\.L4Proto \{\s*case consts\.L4ProtoStr_UDP:\s*if isTraffic \{(?:\s*//[^\n]*\n)*\s*threshold = (\d+)\s*\} else \{(?:\s*//[^\n]*\n)*\s*threshold = (\d+)\s*\}\s*case consts\.L4ProtoStr_TCP:\s*if isTraffic \{(?:\s*//[^\n]*\n)*\s*threshold = (\d+)\s*\}\s*\}", body),
              "threshold switch in markUnavailableInternal")
    c["thr_default"], c["thr_udp_traffic"], c["thr_udp_probe"], c["thr_tcp_traffic"] = (int(x) for x in m.groups())
    # the comparisons that use the threshold
    if not re.search(r"d\.trafficFailCount\[idx\]\.Add\(1\)\s*if int\(d\.trafficFailCount\[idx\]\.Load\(\)\) < threshold \{\s*alive = collection\.Alive\.Load\(\)", body):
        notes.append("markUnavailableInternal: traffic counter comparison / keep-current-state shape is gone")
    if not re.search(r"d\.failCount\[idx\]\+\+\s*if d\.failCount\[idx\] < threshold \{\s*alive = collection\.Alive\.Load\(\)", body):
        notes.append("markUnavailableInternal: probe counter comparison / keep-current-state shape is gone")
    rat = func_body(cc, r"func \(d \*Dialer\) ReportAvailableTraffic\(typ \*NetworkType\) \{", "ReportAvailableTraffic")
    if not re.search(r"\{\s*idx := typ\.Index\(\)\s*if d\.trafficFailCount\[idx\]\.Load\(\) != 0 \{\s*d\.trafficFailCount\[idx\]\.Store\(0\)\s*\}\s*"
                     r"if typ\.L4Proto == consts\.L4ProtoStr_UDP && typ\.EffectiveUdpHealthDomain\(\) == UdpHealthDomainData && !d\.MustGetAlive\(typ\) \{\s*"
                     r"d\.informDialerGroupUpdate\(d\.markAvailableTraffic\(typ\)\)\s*\}\s*\}$", rat):
        notes.append("ReportAvailableTraffic: order of the streak reset and the data-UDP revival block changed (no early return may precede the revival check)")
    chk = func_body(cc, r"func \(d \*Dialer\) check\(opts \*CheckOption, isResuscitation bool, cycle \*cycleResult\) \(ok bool, err error\) \{", "Dialer.check")
    c["probe_max_attempts"] = int(_need(re.search(r"const maxAttempts = (\d+)", chk), "maxAttempts").group(1))
    if not re.search(r"for i := 0; i < maxAttempts; i\+\+ \{\s*ctx, cancel := context\.WithTimeout\(d\.ctx, Timeout\)\s*start := time\.Now\(\)\s*ok, err = opts\.CheckFunc\(ctx, opts\.networkType\)\s*"
                     r"latency := time\.Since\(start\)\s*checkedAt = time\.Now\(\)\s*cancel\(\)\s*if ok && err == nil \{\s*bestLatency = latency\s*break\s*\}\s*"
                     r"if stderrors\.Is\(err, context\.Canceled\) \{\s*break\s*\}\s*if err == nil \{(?:\s*//[^\n]*\n)*\s*break\s*\}(?:\s*//[^\n]*\n)*\s*\}\s*if ok && err == nil \{", chk):
        notes.append("Dialer.check: the shape of the attempt loop (every attempt runs CheckFunc; break on success / context.Canceled / (false,nil); verdict from the last attempt) changed")
    if not re.search(r"\} else if err != nil && !stderrors\.Is\(err, context\.Canceled\) \{", chk):
        notes.append("Dialer.check: the failure branch after the loop changed")
    c["max_consecutive_failures"] = int(_need(re.search(r"maxConsecutiveFailures\s*=\s*(\d+)", sc), "maxConsecutiveFailures").group(1))
    _need(re.search(r"entry\.count\+\+\s*entry\.lastUpdated = now\s*if entry\.count >= maxConsecutiveFailures \{", sc), "recordProxyFailure comparison")
    for name in ("IdxDnsTcp4", "IdxDnsTcp6", "IdxDnsUdp4", "IdxDnsUdp6", "IdxTcp4", "IdxTcp6", "IdxUdp4", "IdxUdp6"):
        c[name] = int(_need(re.search(r"\b%s\s*=\s*(\d+)" % name, dl), name).group(1))
    # CollectionIndex: domain x version -> Idx name
    ci = func_body(hd, r"func \(k HealthKey\) CollectionIndex\(\) int \{", "CollectionIndex")
    idxmap = {}
    for domname, coqd in (("HealthDomainTCP", "Tcp"), ("HealthDomainDnsUDP", "DnsUdp"), ("HealthDomainDataUDP", "DataUdp")):
        m = _need(re.search(r"case %s:\s*switch k\.IpVersion \{\s*case consts\.IpVersionStr_4:\s*return (\w+)\s*case consts\.IpVersionStr_6:\s*return (\w+)" % domname, ci), "CollectionIndex " + domname)
        idxmap[coqd + "4"], idxmap[coqd + "6"] = m.group(1), m.group(2)
    # aliasing of the TCP-DNS collections
    al = {}
    for a in ("IdxDnsTcp4", "IdxDnsTcp6"):
        al[a] = _need(re.search(r"collections\[%s\] = collections\[(\w+)\]" % a, dl), "alias " + a).group(1)
    # escalation order
    esc = func_body(dl, r"func \(d \*Dialer\) markUnavailableFromProxyFailure\(\) \{", "markUnavailableFromProxyFailure")
    order = []
    for m in re.finditer(r"\{L4Proto: consts\.L4ProtoStr_(TCP|UDP), IpVersion: consts\.IpVersionStr_(4|6)(?:, UdpHealthDomain: UdpHealthDomain(Dns|Data))?(?:, IsDns: true)?\}", esc):
        l4, v, ud = m.groups()
        order.append(("Tcp" if l4 == "TCP" else ("DnsUdp" if ud == "Dns" else "DataUdp")) + v)
    if sorted(order) != sorted(DOMS):
        raise AnchorMoved("escalation list in markUnavailableFromProxyFailure: %s" % order)
    _need(re.search(r"d\.ReportUnavailableForced\(networkType, nil\)", esc), "escalation uses ReportUnavailableForced")
    # StandardHealthKeys order (group creation / floor order)
    sk = func_body(hd, r"func StandardHealthKeys\(\) \[6\]HealthKey \{", "StandardHealthKeys")
    std = []
    for m in re.finditer(r"\{Domain: HealthDomain(TCP|DnsUDP|DataUDP), IpVersion: consts\.IpVersionStr_(4|6)\}", sk):
        std.append({"TCP": "Tcp", "DnsUDP": "DnsUdp", "DataUDP": "DataUdp"}[m.group(1)] + m.group(2))
    if sorted(std) != sorted(DOMS):
        raise AnchorMoved("StandardHealthKeys: %s" % std)
    for name in ("outboundConnectivitySlotsPerDomain", "outboundConnectivityDomainTCP", "outboundConnectivityDomainDnsUDP", "outboundConnectivityDomainDataUDP"):
        c[name] = int(_need(re.search(r"\b%s\s*=\s*(?:uint32\()?(\d+)\)?" % name, cn), name).group(1))
    m = _need(re.search(r"outboundConnectivitySlotsPerOutbound\s*=\s*outboundConnectivitySlotsPerDomain \* (\d+)", cn), "SlotsPerOutbound")
    c["conn_domains"] = int(m.group(1))
    if not re.search(r"return uint32\(outbound\)\*outboundConnectivitySlotsPerOutbound \+ domainIdx\*outboundConnectivitySlotsPerDomain \+ ipVersionIdx", cn):
        # the model's conn_key is no longer known to be the code's formula: reported as a broken tie unless the
        # differential run finds a failing input (every key the implementation computes is compared with the model and the spec)
        notes.append("outboundConnectivityMapKey: the expected return expression is gone")
    if not re.search(r"outboundConnectivitySlotsPerDomain\s*=\s*uint32\(", cn):
        notes.append("outboundConnectivitySlotsPerDomain is no longer declared uint32")
    _need(re.search(r"sortingLatency: time\.Hour,", ad), "initial sorting latency time.Hour")
    lines = ["(* GENERATED by tools/c16.py from %s — do not edit. *)" % "component/outbound/dialer/{connectivity_check,dialer,sticky_cache,health_domain}.go, control/connectivity.go",
             "From Coq Require Import List NArith.", "From Dae Require Import C16_Spec.", "Import ListNotations.", "Open Scope N_scope.", ""]
    for k in ("probe_max_attempts", "thr_default", "thr_udp_traffic", "thr_udp_probe", "thr_tcp_traffic", "max_consecutive_failures",
              "IdxDnsTcp4", "IdxDnsTcp6", "IdxDnsUdp4", "IdxDnsUdp6", "IdxTcp4", "IdxTcp6", "IdxUdp4", "IdxUdp6"):
        lines.append("Definition %s : N := %d." % (k, c[k]))
    lines.append("Definition conn_slots_per_domain : N := %d." % c["outboundConnectivitySlotsPerDomain"])
    lines.append("Definition conn_dom_tcp : N := %d." % c["outboundConnectivityDomainTCP"])
    lines.append("Definition conn_dom_dnsudp : N := %d." % c["outboundConnectivityDomainDnsUDP"])
    lines.append("Definition conn_dom_dataudp : N := %d." % c["outboundConnectivityDomainDataUDP"])
    lines.append("Definition conn_domains : N := %d." % c["conn_domains"])
    lines.append("Definition index_of (d : dom) : N :=\n  match d with " + " | ".join("%s => %s" % (d, idxmap[d]) for d in DOMS) + " end.")
    lines.append("Definition canon (i : N) : N :=\n  if i =? IdxDnsTcp4 then %s else if i =? IdxDnsTcp6 then %s else i." % (al["IdxDnsTcp4"], al["IdxDnsTcp6"]))
    lines.append("Definition escalation_order : list dom := [%s]." % "; ".join(order))
    lines.append("Definition standard_order : list dom := [%s]." % "; ".join(std))
    lines.append("")
    vlib.write_if_changed(os.path.join(vlib.COQ, "gen", "C16_Consts.v"), "\n".join(lines))
    if notes:
        c["anchor_notes"] = notes
    return c



# ------------------------------------------------------------------------------------------------
# case generation
# ------------------------------------------------------------------------------------------------
POLICIES = ["min_last", "min_avg10", "min_moving_avg", "random", "fixed"]
COUNTED = ["timeout", "refused", "eof", "deadline", "nil"]
IGNORABLE = ["canceled", "canceled_wrapped", "closed", "closed_str", "op_canceled"]
CHECK_IGNORABLE = ["canceled", "canceled_wrapped"]     # the probe driver only recognises context.Canceled
IDX = [4, 5, 2, 3, 6, 7]   # only for reading the harness dump; the model takes its indices from gen/C16_Consts.v
THR = {("check", 0): 1, ("trans", 0): 1, ("traffic", 0): 10, ("check", 1): 3, ("trans", 1): 3, ("traffic", 1): 50}
# ^ generator bias only (where to put run lengths); nothing is compared against these numbers


def spec_ignorable(op):
    """error class by the property text: cancellation / teardown errors never count (forced reports always do)"""
    if op["kind"] == "forced":
        return False
    return op["err"] in IGNORABLE


def gen_case(rng, big=False, reload_p=0.35):
    nd = rng.choice([1, 1, 2, 2, 3, 4])
    addr_pool = rng.choice([["a1"], ["a1", "a2"], ["a1", ""], ["a1", "a1", "a2", ""], [""]])
    dialers = [{"addr": rng.choice(addr_pool)} for _ in range(nd)]
    with_reload = rng.random() < reload_p
    groups = []
    for _ in range(rng.choice([0, 1, 1, 2, 2, 3])):
        pol = rng.choice(["min_last", "min_last", "min_avg10", "min_moving_avg", "random", "fixed"])
        k = rng.randint(0 if rng.random() < 0.07 else 1, nd)
        if pol == "random" and with_reload:
            k = min(k, 1)       # the fallback pick of a random group is not a function of the history
        members = rng.sample(range(nd), k)
        offs = [rng.choice([0, 0, 0, 1000000, 250000000]) for _ in members]
        groups.append({"policy": pol, "members": members, "offsets": offs})
    # outbound ids over the whole range with boundary bias (multiples of 256/6 where id*6 crosses a byte boundary)
    pool = [0, 1, 2, 3, 41, 42, 43, 44, 45, 84, 85, 86, 127, 128, 129, 169, 170, 171, 212, 213, 251, 252]
    used = set()
    for gi, g in enumerate(groups):
        while True:
            r = rng.random()
            oid = gi + 2 if r < 0.25 else (rng.choice(pool) if r < 0.8 else rng.randint(0, 252))
            if oid not in used:
                break
        used.add(oid)
        g["oid"] = oid
    tol = rng.choice([0, 0, 1000000, 1000000000])
    ops = []
    target = rng.randint(5, 200 if big else 70)

    def fail(n, dom, kind, err=None, alt=None):
        if err is None:
            err = rng.choice(COUNTED)
        if kind == "check" and err == "nil":
            err = "timeout"     # (false, nil) from a probe means "not applicable"; that is the probe_skip op
        return {"op": "fail", "n": n, "dom": dom, "kind": kind, "err": err, "alt": bool(rng.random() < 0.2) if alt is None else alt}

    while len(ops) < target:
        r = rng.random()
        n = rng.randrange(nd)
        dom = rng.randrange(6)
        if r < 0.42:
            # a run of failures of one source around its threshold, possibly interrupted
            kind = rng.choice(["check", "trans", "traffic", "traffic"])
            thr = THR[(kind, 1 if dom >= 2 else 0)]
            run = max(1, thr + rng.choice([-2, -1, -1, 0, 0, 0, 1, 2]))
            if thr == 50 and rng.random() < 0.5:
                run = rng.choice([1, 2, 3, 5])
            cut = rng.randrange(run) if rng.random() < 0.3 else None
            for i in range(run):
                if cut is not None and i == cut:
                    c = rng.random()
                    if c < 0.3:
                        ops.append({"op": "traffic_ok", "n": n, "dom": dom, "alt": False})
                    elif c < 0.5:
                        ops.append({"op": "probe_ok", "n": n, "dom": dom, "alt": False})
                    elif c < 0.7:
                        ops.append(fail(n, dom, kind, err=rng.choice(CHECK_IGNORABLE if kind == "check" else IGNORABLE)))
                    elif c < 0.8:
                        ops.append({"op": "probe_skip", "n": n, "dom": dom, "alt": False})
                    elif c < 0.9:
                        ops.append(fail(n, dom, rng.choice(["check", "traffic"])))
                    else:
                        ops.append(fail(rng.randrange(nd), rng.randrange(6), rng.choice(["check", "traffic"])))
                ops.append(fail(n, dom, kind))
            if rng.random() < 0.4:
                # the type is probably dead now: failure reports through the other counters must not revive it
                for _ in range(rng.choice([1, 1, 2])):
                    ops.append(fail(n, dom, rng.choice([k for k in ("check", "trans", "traffic") if k != kind])))
        elif r < 0.56:
            ops.append({"op": "probe_ok", "n": n, "dom": dom, "alt": bool(rng.random() < 0.2)})
        elif r < 0.66:
            ops.append({"op": "traffic_ok", "n": n, "dom": dom if rng.random() < 0.5 else rng.choice([4, 5]), "alt": bool(rng.random() < 0.2)})
        elif r < 0.74:
            ops.append(fail(n, dom, "forced", err=rng.choice(COUNTED + IGNORABLE)))
        elif r < 0.80:
            kind = rng.choice(["check", "trans", "traffic"])
            ops.append(fail(n, dom, kind, err=rng.choice(CHECK_IGNORABLE if kind == "check" else IGNORABLE)))
        elif r < 0.83:
            ops.append({"op": "probe_skip", "n": n, "dom": dom, "alt": False})
        elif r < 0.88:
            # death transitions on one address in a row (escalation)
            for _ in range(rng.choice([2, 3, 3, 4])):
                ops.append(fail(rng.randrange(nd), rng.choice([0, 1]), "check"))
        elif r < 0.93:
            ops.append({"op": rng.choice(["supp_begin", "supp_begin", "supp_end", "supp_end", "quiesce"])})
        elif r < 0.95:
            ops.append({"op": "reset_global"})
        elif with_reload:
            if rng.random() < 0.5:
                ops.append({"op": "supp_begin"})
            if rng.random() < 0.5:
                ops.append({"op": "reset_global"})
            ops.append({"op": "reload"})
            if rng.random() < 0.6:
                ops.append({"op": "supp_end"})
    return {"dialers": dialers, "groups": groups, "tolerance": tol, "ops": ops[:target + 60]}


def reload_family(full):
    """fixed boundary family for the reload hand-over: 2-3 latency-policy groups over 2-4 nodes in every
    subset / overlap shape (disjoint, one shared node, nested both ways, identical, member order reversed, chains)
    x health pattern of one domain (all nodes dead in both IP versions / dead in one version only / exactly one node
    alive), the nodes killed by forced reports, then a reload.  full=False: for the patterns other than all-dead the
    domain rotates instead of being crossed."""
    shapes = [
        ("disjoint", 4, [[0, 1], [2, 3]]),
        ("one_shared", 3, [[0, 1], [1, 2]]),
        ("one_shared_first", 3, [[1, 0], [1, 2]]),
        ("nested", 3, [[0, 1, 2], [1, 2]]),
        ("nested_reversed_order", 3, [[0, 1, 2], [2, 1]]),
        ("nested_first_shared", 3, [[1, 0, 2], [1, 2]]),
        ("nested_inner_first", 3, [[1, 2], [0, 1, 2]]),
        ("identical", 2, [[0, 1], [0, 1]]),
        ("identical_reversed", 2, [[0, 1], [1, 0]]),
        ("chain3", 4, [[0, 1, 2], [1, 2], [2, 3]]),
        ("cycle3", 3, [[0, 1], [1, 2], [0, 2]]),
        ("nested3", 4, [[0, 1, 2, 3], [1, 2, 3], [2, 3]]),
        ("two_inside_one", 4, [[0, 1, 2, 3], [1, 2], [2, 3]]),
    ]
    fams = [(0, 1), (2, 3), (4, 5)]
    out = []
    k = 0
    for name, nd, groups in shapes:
        patterns = [("all_dead", None, (0, 1)), ("dead_v4_only", None, (0,)), ("dead_v6_only", None, (1,))] + [("one_alive", a, (0, 1)) for a in range(nd)]
        for pname, alive_node, vers in patterns:
            for fam in (fams if (full or pname == "all_dead") else [fams[k % 3]]):
                k += 1
                ops = []
                for n in range(nd):
                    if n == alive_node:
                        continue
                    for v in vers:
                        ops.append({"op": "fail", "n": n, "dom": fam[v], "kind": "forced", "err": "timeout", "alt": False})
                ops.append({"op": "reload"})
                pols = ["min_last", "min_avg10", "min_moving_avg"]
                out.append({"dialers": [{"addr": ""} for _ in range(nd)],
                            "groups": [{"policy": pols[(gi + k) % 3], "members": ms, "offsets": [0] * len(ms), "oid": 2 + gi} for gi, ms in enumerate(groups)],
                            "tolerance": 0, "ops": ops, "family": "%s/%s/%s" % (name, pname, DOMS[fam[0]][:-1])})
    return out


def cross_counter_family(full):
    """fixed boundary family: a node dies for a type through one counter (probe streak, transactional streak, traffic
    streak, forced report, escalation), optionally followed by a reload hand-over (counters cleared), and then receives
    failure reports through every counter - in particular those whose own streak is still below its threshold.  Only a
    success may make the node alive again: alive flags, transition callbacks and the connectivity slot are compared per step."""
    out = []
    for dom in range(6):
        udp = dom >= 2
        thr_probe, thr_traffic = (3, 50) if udp else (1, 10)     # generator bias only (run lengths)
        f = lambda kind, err="timeout": {"op": "fail", "n": 0, "dom": dom, "kind": kind, "err": err, "alt": False}
        kills = [("probe", [f("check")] * thr_probe), ("trans", [f("trans")] * thr_probe), ("traffic", [f("traffic")] * thr_traffic),
                 ("forced", [f("forced")]), ("escalation", None)]
        for kname, kops in kills:
            if kname == "escalation":
                # three death transitions on the node's address: tcp4, tcp6 probes and one more type take all types down
                kops = [{"op": "fail", "n": 0, "dom": 0, "kind": "check", "err": "refused", "alt": False},
                        {"op": "fail", "n": 0, "dom": 1, "kind": "check", "err": "refused", "alt": False}] + \
                       [{"op": "fail", "n": 0, "dom": 2, "kind": "forced", "err": "timeout", "alt": False},
                        {"op": "probe_ok", "n": 0, "dom": 2, "alt": False}] * 0 + \
                       [{"op": "fail", "n": 0, "dom": 3, "kind": "check", "err": "refused", "alt": False}] * 3
            for with_reload in ((False, True) if (full or kname in ("probe", "forced", "traffic")) else (False,)):
                orders = [["traffic", "check", "trans"], ["check", "traffic", "trans"], ["trans", "traffic", "check"]]
                for order in (orders if full else [orders[(dom + len(out)) % 3]]):
                    ops = list(kops) + ([{"op": "reload"}] if with_reload else []) + [f(k) for k in order] + [f("traffic", "canceled"), f("check", "canceled")]
                    ops += [{"op": "probe_ok", "n": 0, "dom": dom, "alt": False}, f("traffic")]
                    out.append({"dialers": [{"addr": "a1"}, {"addr": "a2"}],
                                "groups": [{"policy": "min_last", "members": [0], "offsets": [0], "oid": 2 + dom},
                                           {"policy": "min_avg10", "members": [0, 1], "offsets": [0, 0], "oid": 43 + dom}],
                                "tolerance": 0, "ops": ops,
                                "family": "cross_counter/%s/%s%s/%s" % (DOMS[dom], kname, "+reload" if with_reload else "", "-".join(order))})
    return out


def traffic_success_family(full):
    """fixed boundary family for "successful traffic": a type dies through every route - in particular those that leave
    the traffic streak at 0 (probe streak, transactional streak, reload hand-over with cleared counters; also forced,
    escalation, probe death + reload, and in the thorough tier the traffic streak itself) - while another node keeps the
    groups populated, then a successful traffic report arrives: a data-UDP type must come back (edge, counts cleared,
    membership, slot), any other type must stay dead; then a probe success and one more failure."""
    out = []
    for dom in range(6):
        udp = dom >= 2
        thr_probe, thr_traffic = (3, 50) if udp else (1, 10)     # generator bias only
        f = lambda kind, d=dom, err="timeout": {"op": "fail", "n": 0, "dom": d, "kind": kind, "err": err, "alt": False}
        routes = [("probe", [f("check")] * thr_probe), ("trans", [f("trans")] * thr_probe),
                  ("forced+reload", [f("forced"), {"op": "reload"}]),
                  ("probe+reload", [f("check")] * thr_probe + [{"op": "reload"}]),
                  ("forced", [f("forced")]),
                  ("escalation", [f("check", 0, "refused"), f("check", 1, "refused")] + [f("check", 3, "refused")] * 3)]
        if full:
            routes.append(("traffic", [f("traffic")] * thr_traffic))
            routes.append(("traffic+traffic_ok_other_node", [f("traffic")] * thr_traffic + [{"op": "traffic_ok", "n": 1, "dom": dom, "alt": False}]))
        for rname, rops in routes:
            ops = list(rops) + [{"op": "traffic_ok", "n": 0, "dom": dom, "alt": bool(len(out) % 2)},
                                {"op": "traffic_ok", "n": 0, "dom": dom, "alt": False},
                                {"op": "probe_ok", "n": 0, "dom": dom, "alt": False}, f("traffic"),
                                {"op": "traffic_ok", "n": 0, "dom": dom, "alt": False}]
            out.append({"dialers": [{"addr": "a1"}, {"addr": "a2"}],
                        "groups": [{"policy": "min_last", "members": [0, 1], "offsets": [0, 0], "oid": 2 + dom},
                                   {"policy": "min_avg10", "members": [1, 0], "offsets": [0, 0], "oid": 85 + dom}],
                        "tolerance": 0, "ops": ops, "family": "traffic_success/%s/%s" % (DOMS[dom], rname)})
    return out


def instance_family(full):
    """fixed boundary family for the reload hand-over by instance: node X has its own dialer instance in the group that
    overrides the check options (entries 0 and 1 carry the same name) while node Y (entry 2) is one shared instance;
    optionally a third group shares X's first instance.  Before the reload the two instances of X differ in one type
    (each of the six, either instance dead; in the thorough tier also differing counters through probe streaks);
    both group orders.  Every new instance must inherit the state of the old instance of the same node IN THE SAME
    GROUP; callbacks fired during inheritance, alive sets and connectivity slots are compared."""
    out = []
    for dom in range(6):
        for dead in (0, 1):
            for order in (0, 1):
                for third in ((False, True) if full else ((dom + dead + order) % 2 == 0,)):
                    groups = [{"policy": "min_last", "members": [0, 2], "offsets": [0, 0], "oid": 2},
                              {"policy": "min_avg10", "members": [1, 2], "offsets": [0, 0], "oid": 44}]
                    if order:
                        groups.reverse()
                    if third:
                        groups.append({"policy": "min_moving_avg", "members": [2, 0], "offsets": [0, 0], "oid": 86})
                    kill = [{"op": "fail", "n": dead, "dom": dom, "kind": "forced", "err": "timeout", "alt": False}]
                    if full and dom >= 2:
                        kill = [{"op": "fail", "n": dead, "dom": dom, "kind": "check", "err": "refused", "alt": False}] * 3
                    ops = [{"op": "probe_ok", "n": 1 - dead, "dom": dom, "alt": False}] + kill + [{"op": "reload"},
                           {"op": "fail", "n": 1 - dead, "dom": dom, "kind": "traffic", "err": "eof", "alt": False},
                           {"op": "probe_ok", "n": dead, "dom": dom, "alt": False}]
                    out.append({"dialers": [{"addr": "", "name": "X"}, {"addr": "", "name": "X"}, {"addr": "", "name": "Y"}],
                                "groups": groups, "tolerance": 0, "ops": ops,
                                "family": "instances/%s/instance%d_dead/%s%s" % (DOMS[dom], dead, "BA" if order else "AB", "+C" if third else "")})
    return out


def probe_loop_family():
    """fixed family for the two-attempt probe driver: the real Dialer.check is run with a scripted dial function for each of
    the six types; attempt outcomes x point at which teardown cancels the dialer's context (never, before attempt 1,
    between the attempts, during the retry, after the loop).  UDP types are first brought to one failure short of
    their threshold so that a wrongly counted probe shows in the alive flag, not only in the counter.  The cancelling
    probe is the last event for that dialer; a probe of the other node follows."""
    out = []
    variants = [("err", "err", "none"), ("err", "ok", "none"), ("ok", "err", "none"), ("skip", "err", "none"), ("err", "skip", "none"),
                ("err", "err", "between"), ("err", "ok", "between"), ("err", "err", "during2"), ("err", "err", "before"), ("ok", "ok", "before"),
                ("err", "err", "after"), ("err", "ok", "after")]
    for dom in range(6):
        for a1, a2, c in variants:
            pre = [{"op": "fail", "n": 0, "dom": dom, "kind": "check", "err": "refused", "alt": False}] * (2 if dom >= 2 else 0)
            ops = pre + [{"op": "probe2", "n": 0, "dom": dom, "a1": a1, "a2": a2, "cancel": c, "alt": False},
                         {"op": "probe2", "n": 1, "dom": dom, "a1": "err", "a2": "err", "cancel": "none", "alt": False}]
            out.append({"dialers": [{"addr": "a1"}, {"addr": "a1"}],
                        "groups": [{"policy": "min_last", "members": [0, 1], "offsets": [0, 0], "oid": 3 + dom}],
                        "tolerance": 0, "ops": ops, "family": "probe_loop/%s/%s-%s/cancel_%s" % (DOMS[dom], a1, a2, c)})
    return out


# ------------------------------------------------------------------------------------------------
# observation encodings (must mirror obs_full / obs_proj_* of coq/C16_Check.v)
# ------------------------------------------------------------------------------------------------

def hash_list(xs):
    h = 7
    for x in xs:
        h = (h * MULT + x + 1) & MASK
    return h


def flat_log(entries, cols):
    out = [len(entries)]
    for e in entries:
        out += [e[c] for c in cols]
    return out


def oid_of(case, gi):
    o = case["groups"][gi].get("oid")
    return gi + 2 if o is None else o


def kernel_slot(oid, dom):
    """the slot the kernel reads for (outbound, type): outbound*6 + domain*2 + ipversion (tproxy.c wan_outbound_is_alive);
    dom = 2*domain + ipversion.  Mirrors spec_slot of coq/C16_Spec.v (checked against the implementation's keys in Coq)."""
    return oid * 6 + dom


def keeps_sets(g):
    return g["policy"] != "fixed"


def is_min(g):
    return g["policy"].startswith("min")


def encode_step(case, st, bits):
    """returns (full list, proj list with log, proj list without log); updates bits (last written values)"""
    for g, dom, key, v in st["bits"]:
        bits[(g, dom)] = v              # last value written on behalf of (group, type): compared with the model
        bits[("slot", key)] = v         # the connectivity array as the kernel sees it (zero-initialised)
    kview = lambda gi, dom: bits.get(("slot", kernel_slot(oid_of(case, gi), dom)), 0)
    sets = {(s["g"], s["dom"]): s for s in st["sets"]}
    full = []
    for row in st["dialers"]:
        for i in range(8):
            full += row[i]
    full += flat_log(st["trans"], (0, 1, 2))
    for gi, g in enumerate(case["groups"]):
        for dom in range(6):
            vs = [b[3] for b in st["bits"] if b[0] == gi and b[1] == dom]
            full += [len(vs)] + vs
    for gi, g in enumerate(case["groups"]):
        if keeps_sets(g):
            for dom in range(6):
                s = sets[(gi, dom)]
                full.append(len(s["members"]))
                for m, l in zip(s["members"], s["lats"]):
                    full += [m, l]
                full += [s["best"] + 1, s["best_lat"]]
    for gi, g in enumerate(case["groups"]):
        full += [bits[(gi, dom)] for dom in range(6)]
    full += st["addr"] + st["supp"]
    alive = []
    for row in st["dialers"]:
        alive += [row[IDX[dom]][0] for dom in range(6)]
    grp, grpn = [], []
    for gi, g in enumerate(case["groups"]):
        if keeps_sets(g):
            mem = []
            for dom in range(6):
                ms = [m for m in g["members"] if m in sets[(gi, dom)]["members"]]
                mem += [len(ms)] + ms
            grp += mem
            grpn += mem
            if is_min(g):
                # the bit the kernel reads for (group, type), at the slot the property prescribes
                grp += [kview(gi, dom) for dom in range(6)]
                grpn += [kview(gi, dom) for dom in range(6)]
    lg = flat_log(st["trans"], (0, 1, 2))
    return full, (alive + lg + grp, alive + lg + grpn), (alive + grp, alive + grpn)


ATT = {"ok": "AOk", "err": "AErr", "skip": "ASkip"}
CAN = {"none": "CNone", "before": "CBefore1", "between": "CBetween", "during2": "CDuring2", "after": "CAfter"}


def lat_term(st):
    return clist(["L %d %d %s %d%%Z" % (n, g, DOMS[dom], raw) for n, g, dom, has, raw in st["lats"] if has])


def ev_term(op, st):
    o = op["op"]
    if o == "fail":
        return "(EFail %d %s %s %s %s)" % (op["n"], DOMS[op["dom"]], {"check": "KCheck", "trans": "KTrans", "traffic": "KTraffic", "forced": "KForced"}[op["kind"]],
                                           vlib.cbool(st["ign"]), lat_term(st))
    if o == "probe2":
        return "(probe_event %s %s %s %d %s %s)" % (ATT[op["a1"]], ATT[op["a2"]], CAN[op["cancel"]], op["n"], DOMS[op["dom"]], lat_term(st))
    if o == "probe_ok":
        return "(EProbeOk %d %s %s)" % (op["n"], DOMS[op["dom"]], lat_term(st))
    if o == "probe_skip":
        return "(EProbeSkip %d %s)" % (op["n"], DOMS[op["dom"]])
    if o == "traffic_ok":
        return "(ETrafficOk %d %s %s)" % (op["n"], DOMS[op["dom"]], lat_term(st))
    if o == "reload":
        return "(EReload %s)" % lat_term(st)
    return {"supp_begin": "ESuppBegin", "supp_end": "ESuppEnd", "quiesce": "EQuiesce", "reset_global": "EResetGlobal"}[o]


def addr_ids(case):
    ids = {}
    for d in case["dialers"]:
        if d["addr"] and d["addr"] not in ids:
            ids[d["addr"]] = len(ids) + 1
    return ids


def case_to_coq(case, res):
    ids = addr_ids(case)
    cfg = "(Build_config (fun n => nth (N.to_nat n) %s 0) %s (%d)%%Z)" % (
        clist([str(ids.get(d["addr"], 0)) for d in case["dialers"]]),
        clist(["(Build_group %s %s)" % ("PMin" if is_min(g) else ("PRandom" if g["policy"] == "random" else "PFixed"),
                                        clist(["(%d, (%d)%%Z)" % (m, o) for m, o in zip(g["members"], g["offsets"])])) for g in case["groups"]]),
        case["tolerance"])
    bits = {}
    f0, (p0, _), _ = encode_step(case, res["init"], bits)
    steps = []
    for op, st in zip(case["ops"], res["steps"]):
        full, pl, pn = encode_step(case, st, bits)
        proj, projn = pn if op["op"] == "reload" else pl
        post = clist([vlib.cbool(row[IDX[dom]][0]) for row in st["dialers"] for dom in range(6)]) if op["op"] == "reload" else "[]"
        ign_spec = vlib.cbool(spec_ignorable(op)) if op["op"] == "fail" else "false"
        if op["op"] == "probe2":
            ign_spec = "(verdict_is_ignore (spec_probe_verdict %s %s %s))" % (ATT[op["a1"]], ATT[op["a2"]], CAN[op["cancel"]])
        steps.append("(Build_obs_step %s %s %s %s %s %s)" % (ev_term(op, st), ign_spec,
                                                             hex(hash_list(full)), hex(hash_list(proj)), hex(hash_list(projn)), post))
    keys = clist(["(%d, %s, %d)" % (g, DOMS[dom], k) for g, dom, k in res["keys"]])
    return "(Build_obs_case %s %d%%nat %d%%nat %s %s %s\n  %s)" % (cfg, len(case["dialers"]), len(ids), hex(hash_list(f0)), hex(hash_list(p0)), keys, clist(steps))


HEADER = ("From Coq Require Import List NArith ZArith Bool.\nFrom Dae Require Import C16_Spec C16_Model C16_Check.\n"
          "Import ListNotations.\nOpen Scope N_scope.\n")


def evaluate(sc, binary, cases, tag, want_trace=False):
    """run cases on the implementation and in Coq.  Returns (errors: {case index: [(step, code, note)]}, sigs, fatal, results)"""
    inp, outp = sc.path("c16_%s.in" % tag), sc.path("c16_%s.out" % tag)
    with open(inp, "w") as f:
        for c in cases:
            f.write(json.dumps(c) + "\n")
    rc, so, se, dt = vlib.run_go_harness(binary, "TestVerifC16", inp, outp)
    if rc != 0:
        return None, None, "harness failed rc=%d: %s %s" % (rc, so[-2000:], se[-2000:]), None
    results = [json.loads(l) for l in open(outp)]
    for r in results:
        r["steps"] = r.get("steps") or []      # a history without events
    errors, terms, idx = {}, [], []
    for i, (c, r) in enumerate(zip(cases, results)):
        if r.get("panic"):
            errors[i] = [(0, 9, "panic: " + r["panic"])]
            continue
        terms.append(case_to_coq(c, r))
        idx.append(i)
    text = (HEADER + "Definition cases : list obs_case := [\n" + ";\n".join(terms) + "\n].\n"
            "Definition R := Eval vm_compute in map check_case cases.\nPrint R.\n"
            "Definition S := Eval vm_compute in map case_signature cases.\nPrint S.\n")
    if want_trace:
        text += "Definition T := Eval vm_compute in map (fun c => map (fun t => snd t) (trace_steps (oc_cfg c) (oc_nd c) (oc_na c) (oc_steps c) (m_init (oc_cfg c)) s_init)) cases.\nPrint T.\n"
    ok, outtxt = vlib.coq_eval("C16_cases_%s_%d" % (tag, os.getpid()), text)
    if not ok:
        return None, None, "coq evaluation failed: " + outtxt[-3000:], results
    m = re.search(r"R\s*=\s*(.*?)\n\s*:\s*list", outtxt, re.S)
    body = re.sub(r"\s+", "", m.group(1))
    per = re.findall(r"\[((?:\(\d+,\d+\);?)*)\]", body[1:-1])
    if len(per) != len(idx):
        return None, None, "cannot parse coq output (%d vs %d): %s" % (len(per), len(idx), body[:500]), results
    for i, p in zip(idx, per):
        e = [(int(a), int(b), "") for a, b in re.findall(r"\((\d+),(\d+)\)", p)]
        if e:
            errors[i] = e
    m2 = re.search(r"S\s*=\s*(.*?)\n\s*:\s*list", outtxt, re.S)
    sigs = re.findall(r"\((\d+),(\d+),(\d+),(\d+),(\d+),(\d+)\)", re.sub(r"\s+", "", m2.group(1))) if m2 else []
    if want_trace:
        mt = re.search(r"T\s*=\s*(.*?)\n\s*:\s*list", outtxt, re.S)
        return errors, sigs, None, (results, re.sub(r"\s+", "", mt.group(1)) if mt else "")
    return errors, sigs, None, results


def has_code(errs, codes):
    return any(code in codes for (_, code, _) in errs)


def shrink(sc, binary, case, pred, budget=14):
    """batched delta debugging on the op list (shortest failing prefix, then chunk deletions of halving size),
    then config reductions.  pred(errs) says whether a candidate still shows the failure."""
    def failing(cands, tag):
        errs, _, fatal, _ = evaluate(sc, binary, cands, tag)
        if fatal:
            return []
        return [i for i in range(len(cands)) if i in errs and pred(errs[i])]
    ops = case["ops"]
    cands = [dict(case, ops=ops[:k]) for k in range(0, len(ops))]
    if cands:
        f = failing(cands, "shp")
        budget -= 1
        if f:
            case = cands[f[0]]
    chunk = max(1, len(case["ops"]) // 2)
    while budget > 0:
        ops = case["ops"]
        cands = [dict(case, ops=ops[:i] + ops[i + chunk:]) for i in range(0, len(ops), chunk)]
        if chunk == 1:
            for gi in range(len(case["groups"])):
                cands.append(dict(case, groups=case["groups"][:gi] + case["groups"][gi + 1:]))
            for gi, g in enumerate(case["groups"]):
                for k in range(len(g["members"])):
                    g2 = dict(g, members=g["members"][:k] + g["members"][k + 1:], offsets=g["offsets"][:k] + g["offsets"][k + 1:])
                    cands.append(dict(case, groups=case["groups"][:gi] + [g2] + case["groups"][gi + 1:]))
            if case["tolerance"]:
                cands.append(dict(case, tolerance=0))
            if any(o.get("alt") for o in ops):
                cands.append(dict(case, ops=[dict(o, alt=False) for o in ops]))
        if not cands:
            break
        f = failing(cands, "shd")
        budget -= 1
        if f:
            case = cands[f[0]]
            chunk = min(chunk, max(1, len(case["ops"]) // 2))
        elif chunk > 1:
            chunk = max(1, chunk // 2)
        else:
            break
    return case


def describe(case, res, errs, codes):
    """what the implementation shows at the first disagreeing step (from its own dump)"""
    first = min(s for (s, code, _) in errs if code in codes)
    info = {"step": first, "step_numbering": "0 = initial state, k = after the k-th op"}
    bits = {}
    seq = [(None, res["init"])] + list(zip(case["ops"], res["steps"]))
    for k, (op, st) in enumerate(seq):
        encode_step(case, st, bits)
        if k != first:
            continue
        sets = {(s["g"], s["dom"]): s for s in st["sets"]}
        op = op or {"op": "initial state"}
        info["op"] = op
        info["alive_flags"] = {"node%d" % n: [row[IDX[dom]][0] for dom in range(6)] for n, row in enumerate(st["dialers"])}
        info["transition_callbacks"] = st["trans"]
        info["slot_writes_this_step"] = [{"group": b[0], "outbound_id": oid_of(case, b[0]), "type": DOMS[b[1]], "slot_written": b[2],
                                          "slot_the_kernel_reads": kernel_slot(oid_of(case, b[0]), b[1]), "value": b[3]} for b in st["bits"]]
        stale, empty = [], []
        for gi, g in enumerate(case["groups"]):
            for dom in range(6):
                if not keeps_sets(g):
                    continue
                s = sets[(gi, dom)]
                kv = bits.get(("slot", kernel_slot(oid_of(case, gi), dom)), 0)
                want = 1 if (s["members"] or not g["members"]) else 0
                if is_min(g) and kv != want:
                    stale.append({"group": gi, "outbound_id": oid_of(case, gi), "type": DOMS[dom], "alive_members": s["members"],
                                  "slot": kernel_slot(oid_of(case, gi), dom), "slot_value": kv, "expected": want})
                if g["members"] and not s["members"]:
                    empty.append({"group": gi, "type": DOMS[dom]})
        if stale:
            info["kernel_slot_disagrees_with_group_health"] = stale
        if op["op"] == "reload":
            info["groups_without_alive_member_after_reload"] = empty
            info["select_strict_finds_node"] = st.get("sel")
    return info


def main(argv):
    args = vlib.main_args(argv)
    out = vlib.Outcome(PID, args.tier, args.seed)
    rng = vlib.rng_for(args.seed, PID)
    n_cases = 90 if args.tier == "quick" else 3000
    cov = {"obligations": 0, "discharged": 0, "checker_cmd": "", "trusted_base": [], "evaluations": 0, "distinct_nontrivial": 0,
           "rule": "", "samples": [], "traces_validated_against_impl": 0}
    out.coverage = cov
    try:
        consts = translate()
    except (AnchorMoved, OSError) as e:
        # a constant can no longer be extracted: keep the last generated constants (if any) and still search for a failing
        # input; the broken tie is reported in the no-failing-input form only if the search finds nothing
        if not os.path.exists(os.path.join(vlib.COQ, "gen", "C16_Consts.v")):
            out.violation("anchor", {"broken": "translator: anchor moved: %s" % e}, "the source shape the constants translator expects is gone: %s" % e, no_failing_input=True)
            return out.finish()
        consts = {"anchor_notes": ["translator: anchor moved: %s (constants of the previous run kept)" % e]}
    proof_ok, pinfo = vlib.proof_stage(out, PROPS, TARGETS)
    if consts.get("anchor_notes"):
        proof_ok = False
        pinfo["failed"] = {"stage": "anchor", "notes": consts["anchor_notes"], "proof_stage": pinfo.get("failed")}
    cov.update(obligations=pinfo["obligations"], discharged=pinfo["discharged"],
               checker_cmd="cd /verif/coq && coq_makefile -f _CoqProject -o Makefile && make -j16 " + " ".join(TARGETS) + " && coqc -Q . Dae C16_Props.v (Print Assumptions captured)",
               theorems=pinfo.get("theorems", []), print_assumptions=pinfo.get("assumptions", []), extracted_constants=consts,
               trusted_base=vlib.TRUSTED_BASE_COMMON + [
                   "verif-tagged export file harness/dialer/c16_export.go injected into package dialer by -overlay (thin wrappers: Check with a supplied probe function, set dump, policy latency, tracker count, suppression read-out / quiesce-elapsed / reset)",
                   "latencies the alive sets read are taken from the implementation after each event and given to the model as data (the averaging arithmetic is not modelled)",
                   "Go maps modelled as total functions; order of notification across different groups is not observable (independent sets)",
                   "full dumps are compared through a 62-bit multiplicative hash computed identically in python and Coq"])
    out.assumptions = ["events are sequential (the dialer mutex serialises them); probe execution, timers of recovery back-off and the 15-minute expiry of failure entries are outside the model",
                       "the end of the 20 s quiesce window after a reload is an event (the harness moves the deadline into the past instead of waiting)",
                       "reload cases: groups with the random policy have at most one member (their fallback pick is random)",
                       "a probe failing with a closed-connection error (not context.Canceled) is counted by the probe driver; such errors are generated only for traffic / transactional reports"]

    with vlib.Scratch() as sc:
        extra = {os.path.join(vlib.REPO, EXPORT[0]): os.path.join(vlib.VERIF, "harness", EXPORT[1])}
        binary, blog = vlib.build_go_test_binary(sc, "control", HARNESS, out_name="c16.test", extra_overlay=extra)
        if binary is None:
            out.violation("build", {"broken": "harness build against the repository failed", "log": blog[-3000:]},
                          "correspondence harness no longer builds against /repo", no_failing_input=True)
            return out.finish()
        if args.replay:
            payload = json.load(open(args.replay))["replay"]
            case = payload.get("case", payload)
            errs, _, fatal, _ = evaluate(sc, binary, [case], "replay")
            print("replay:", "fatal: " + fatal if fatal else ("agrees (impl = model = spec)" if not errs else
                  "disagreements (step, code): %s  [1 impl<>model 2 impl<>spec 3 model<>spec 6 impl<>spec beyond stale slots]" % [(a, b) for a, b, _ in errs[0]]))
            return 1 if (fatal or errs) else 0
        corpus = []
        cdir = os.path.join(vlib.VERIF, "corpus", PID)
        if os.path.isdir(cdir):
            for n in sorted(os.listdir(cdir)):
                if n.endswith(".json"):
                    corpus.append(json.load(open(os.path.join(cdir, n))))
        family = (reload_family(args.tier == "thorough") + cross_counter_family(args.tier == "thorough")
                  + traffic_success_family(args.tier == "thorough") + instance_family(args.tier == "thorough") + probe_loop_family())
        corpus = corpus + family          # fixed inputs run first, like the corpus
        cases = corpus + [gen_case(rng, big=(args.tier == "thorough" and i % 3 == 0)) for i in range(n_cases)]
        all_err, all_res, sigs, fatal = {}, {}, [], None

        def run_all(cs, base, tagp):
            nonlocal fatal, sigs
            shard = 125 if args.tier == "quick" else 250
            for s in range(0, len(cs), shard):
                errs, sg, f, results = evaluate(sc, binary, cs[s:s + shard], "%s%d" % (tagp, s))
                if f:
                    fatal = f
                    return
                for i, e in errs.items():
                    all_err[base + s + i] = e
                    all_res[base + s + i] = results[i]
                sigs += sg

        run_all(cases, 0, "b")
        HARD, SOFT, TIE = (6, 9), (2,), (1, 3, 4)
        is_hard = lambda e: has_code(e, HARD)
        is_soft = lambda e: has_code(e, SOFT) and not has_code(e, HARD)
        widened = False
        if not fatal and (not proof_ok or any(has_code(e, TIE) for e in all_err.values())) and not any(has_code(e, HARD + SOFT) for e in all_err.values()):
            widened = True
            extra_cases = [gen_case(rng, big=True) for _ in range(10 * n_cases if args.tier == "quick" else 2 * n_cases)]
            base = len(cases)
            cases += extra_cases
            run_all(extra_cases, base, "w")
        n_eval = len(cases)
        hard = sorted((i for i, e in all_err.items() if is_hard(e)), key=lambda i: len(cases[i]["ops"]))
        soft = sorted((i for i, e in all_err.items() if is_soft(e)), key=lambda i: len(cases[i]["ops"]))
        tie_fail = sorted(i for i, e in all_err.items() if has_code(e, TIE) and not has_code(e, HARD + SOFT))
        F12 = "C16/slot-not-set-after-silent-best"
        reported_other = False
        if soft:
            # the only disagreement: a connectivity slot reads 0 while the group's set for that type has a member
            i = soft[0]
            known = any(e["property"] == PID and e["match"] == F12 for e in out.kf["open"])
            small = cases[i] if (known or i < len(corpus)) else shrink(sc, binary, cases[i], is_soft)
            errs, _, f3, results = evaluate(sc, binary, [small], "min")
            if f3 or 0 not in errs or not is_soft(errs[0]):
                small, errs, results = cases[i], {0: all_err[i]}, [all_res[i]]
            info = describe(small, results[0], errs[0], SOFT)
            reported_other = "violation" == out.violation("impl_vs_spec_slot", {"case": small, "errors": [(a, b) for a, b, _ in errs[0]], "first_failing_step": info, "matchers": [F12],
                                                "how": "./check C16 --replay <this file>: after the named step a latency-policy group has an alive member for the type but its connectivity slot still holds 0"},
                          "connectivity slot of a latency-policy group stays 0 after a node of that type revived (step %d, %s); %d histories show only this" % (info["step"], json.dumps(info.get("op")), len(soft)),
                          matchers=[F12])
        FLOOR = "C16/reload-leaves-group-without-alive-member"

        def model_agrees(e):
            """the model of the unchanged code predicts the implementation's full state (hence the same set of
            (group, type) pairs without alive member) up to and including the first step that contradicts the property"""
            first = min(s for (s, code, _) in e if code in HARD)
            return not any(code == 1 and s <= first for (s, code, _) in e)

        def classify(case, res, e):
            info0 = describe(case, res, e, HARD)
            # the recorded defect, and only it: a reload leaves a non-empty group without alive member AND the model of the
            # unchanged code (which reproduces the recorded defect) predicts exactly this outcome
            return FLOOR if (info0.get("groups_without_alive_member_after_reload") and model_agrees(e)) else "other"

        by_class = {}
        for i in hard:
            e = all_err[i]
            if has_code(e, (9,)):
                out.violation("impl_panic", {"case": cases[i], "errors": e}, "implementation panicked on this history")
                reported_other = True
                continue
            by_class.setdefault(classify(cases[i], all_res[i], e), i)     # hard is sorted by size: smallest of each class
        log("impl<>spec classes: %s" % {c: (i, cases[i].get("family")) for c, i in by_class.items()})
        for cls, i in sorted(by_class.items(), key=lambda kv: kv[0] != "other"):
            e = all_err[i]
            want_tie = has_code(e, (1,)) and not model_agrees(e)
            pred = (lambda er: is_hard(er) and (not want_tie or not model_agrees(er))) if cls == "other" else (lambda er: is_hard(er) and model_agrees(er))
            small = cases[i] if (i < len(corpus) and cls != "other") else shrink(sc, binary, cases[i], pred, budget=8)
            errs, _, f3, results = evaluate(sc, binary, [small], "min")
            if f3 or 0 not in errs or not is_hard(errs[0]) or classify(small, results[0], errs[0]) != cls:
                small, errs, results = cases[i], {0: e}, [all_res[i]]
            info = describe(small, results[0], errs[0], HARD)
            matchers = [FLOOR] if classify(small, results[0], errs[0]) == FLOOR else []
            info["model_of_unchanged_code_predicts_this_state"] = model_agrees(errs[0])
            reported_other = reported_other or not matchers
            out.violation("impl_vs_spec" if not matchers else "impl_vs_spec_reload",
                          {"case": small, "errors": [(a, b) for a, b, _ in errs[0]], "first_failing_step": info, "matchers": matchers,
                           "how": "./check C16 --replay <this file>: after the named step the implementation's alive flags / transition callbacks / group membership differ from the property"},
                          "after step %d (%s) the implementation disagrees with the property%s" % (info["step"], json.dumps(info.get("op")),
                              ": a non-empty group is left without an alive member" if info.get("groups_without_alive_member_after_reload") else ""),
                          matchers=matchers)
        if fatal or ((not proof_ok or tie_fail) and not reported_other):
            what = {}
            if not proof_ok:
                what["proof"] = pinfo["failed"]
            if fatal:
                what["correspondence"] = fatal
            if tie_fail:
                what["correspondence_case"] = {"case": cases[tie_fail[0]], "errors": all_err[tie_fail[0]]}
            what["searched"] = "%d histories (widened=%s)" % (n_eval, widened)
            out.violation("tie", what, "proof obligation or model correspondence no longer checks; no failing input found", no_failing_input=True)
        nontrivial = len(set(s for s in sigs if int(s[0]) > 0 and int(s[2]) > 0))
        cov.update(evaluations=n_eval, distinct_nontrivial=nontrivial, distinct_signatures=len(set(sigs)),
                   rule="fixed probe-loop family (real two-attempt Dialer.check with a scripted dial function: attempt outcomes x cancellation point, six types) + fixed instance family (one node with its own dialer instance in a group overriding the check options plus shared instances, instances differing in each type before a reload, both group orders) + fixed traffic-success family (death through every route incl. those leaving the traffic streak at 0, then successful traffic: data-UDP revives, other types do not) + fixed cross-counter family (death through probe / transactional / traffic streak, forced report or escalation, optionally a reload hand-over, then failures through every counter, ignorable errors, a success) + fixed reload family (2-3 groups x 2-4 nodes in all overlap shapes x all-dead / one-version-dead / one-alive per domain, then reload) + random histories over 1-4 nodes (shared / empty proxy addresses), 0-3 groups (3 latency policies, random, fixed; shared nodes; offsets; tolerance), "
                        "built from runs of probe / transactional / traffic failures of length threshold-2..threshold+2 with interruptions (success, ignorable error, skipped probe, other source), "
                        "forced reports, escalation bursts, suppression scopes and quiesce end, global reset, reloads; both spellings of each network type. "
                        "signature = (threshold deaths, escalations, revivals, suppressed failures, slot clears, reloads) saturated at 3; non-trivial = at least one threshold death and one revival",
                   traces_validated_against_impl=n_eval - len([i for i in all_err if has_code(all_err[i], (1,))]),
                   impl_vs_spec_failures=len(hard), impl_vs_spec_slot_only_failures=len(soft), impl_vs_model_only_failures=len(tie_fail),
                   steps_evaluated=sum(len(c["ops"]) for c in cases),
                   comparisons="per step: hash of the implementation's full dump (8 slots x (alive, failCount, trafficFailCount) per node, transition callbacks, slot writes, every alive set's entries/latencies/best, tracker counts, suppression) = model; "
                               "projection (alive per node x domain, transition callbacks, members per group x type, slot value of latency groups) impl = spec and model = spec",
                   reload_family_cases=len(family),
                   samples=[cases[len(corpus)]] if len(cases) > len(corpus) else [cases[0]], widened_search=widened)
    return out.finish()


if __name__ == "__main__":
    sys.exit(main(sys.argv[1:]))
