"""C19 — kernel and control plane agree on every shared structure, constant and map key (DESIGN.md 6/C19).

Pipeline of one run:
  1. translate: parse every struct/union/enum declaration, #define and map definition of control/kern/tproxy.c and
     ebpf_sync_defs.h (small C declaration parser below), and every Go mirror (harness/c19tool/c19_extract.go:
     go/parser + go/types over bpf_stub.go, bpf_utils.go incl. the PARAM literal, the consts files) and write both
     into coq/gen/C19_Decls.v (declaration language of C19_Lang.v) together with the pair table and the shared
     constants (C value, Go value, JSON spec value).
  2. prove: C19_Props.v (C19_layouts_agree etc. are vm_compute over C19_Decls.v, the key theorems are for all inputs).
  3. correspond:
     a. layout FUNCTIONS vs compilers: clang sizeof/offsetof/_Alignof of every translated C declaration (host, and
        -target bpf through _Static_assert), go/types.Sizes (amd64, arm64) and the compiled stub types (reflect in the Go
        harness) must equal c_layout / go_layout of the translated declarations;
     b. key constructors: the real Go functions (stub-build ones directly, real-build ones lifted by AST into the test
        binary) and the real C expressions (get_tuples, wan_outbound_is_alive, route() through a map-lookup spy) run on
        the same generated entities; raw bytes compared impl(Go)=impl(C), impl=model, model=spec, impl=spec in Coq.
"""
import ipaddress
import json
import os
import re
import shutil
import sys

sys.path.insert(0, os.path.dirname(os.path.abspath(__file__)))
import vlib
import cbuild
from vlib import log

PID = "C19"
PROPS = "C19_Props.v"
TARGETS = ["C19_Props.vo", "C19_Check.vo"]
HARNESS = ["control/common_test.go", "control/c19_test.go"]

# Go struct types of the bpf*/_bpf* family that are not exchanged with the kernel (reason recorded in the evidence)
GO_ONLY = {"bpfIfParams": "NIC offload flags read from netlink; never written to a map or load-time parameter"}


class Anchor(Exception):
    pass


# ----------------------------------------------------------------------------------------------------------------
# C side: declaration parser
# ----------------------------------------------------------------------------------------------------------------

def strip_c_comments(s):
    s = re.sub(r"/\*.*?\*/", lambda m: re.sub(r"[^\n]", " ", m.group(0)), s, flags=re.S)
    return re.sub(r"//[^\n]*", "", s)


C_SCALARS = {
    "__u8": ("KU", 1), "__u16": ("KU", 2), "__u32": ("KU", 4), "__u64": ("KU", 8),
    "u8": ("KU", 1), "u16": ("KU", 2), "u32": ("KU", 4), "u64": ("KU", 8),
    "__s8": ("KS", 1), "__s16": ("KS", 2), "__s32": ("KS", 4), "__s64": ("KS", 8),
    "__be16": ("KBE", 2), "__be32": ("KBE", 4), "__be64": ("KBE", 8),
    "bool": ("KBool", 1), "char": ("KChar", 1), "int": ("KS", 4),
}


def c_eval(expr, defines):
    """evaluate a C integer constant expression built from literals and known macros"""
    e = expr.strip()
    e = re.sub(r"\b(0[xX][0-9a-fA-F]+|\d+)[uUlL]*\b", r"\1", e)
    e = re.sub(r"\bBIT\(", "(1<<(", e)
    if "(1<<(" in e:
        e = e + ")" * e.count("(1<<(")

    def sub(m):
        n = m.group(0)
        if n in defines:
            return "(%d)" % defines[n]
        raise KeyError(n)
    e = re.sub(r"\b[A-Za-z_]\w*\b", sub, e)
    e = e.replace("/", "//")
    if not re.fullmatch(r"[\s0-9a-fA-FxX()+\-*/<>|&~]*", e):
        raise KeyError(expr)
    return int(eval(e, {"__builtins__": {}}))


def parse_defines(src):
    raw = {}
    for m in re.finditer(r"^[ \t]*#define[ \t]+(\w+)[ \t]+((?:[^\n\\]|\\\n)+)$", src, re.M):
        raw.setdefault(m.group(1), m.group(2).replace("\\\n", " ").strip())
    vals = {}
    progress = True
    while progress:
        progress = False
        for n, e in raw.items():
            if n in vals:
                continue
            try:
                vals[n] = c_eval(e, vals)
                progress = True
            except Exception:
                pass
    return vals


def match_brace(s, i):
    assert s[i] == "{"
    d = 0
    for j in range(i, len(s)):
        if s[j] == "{":
            d += 1
        elif s[j] == "}":
            d -= 1
            if d == 0:
                return j
    raise Anchor("unbalanced braces in C source")


def norm(name):
    return name.replace("_", "").lower()


def is_pad_name(n):
    return n == "_" or norm(n).startswith("pad")


def split_items(body):
    """split a struct body at top-level ';'"""
    items, d, cur = [], 0, ""
    for ch in body:
        if ch == "{":
            d += 1
        elif ch == "}":
            d -= 1
        if ch == ";" and d == 0:
            if cur.strip():
                items.append(cur.strip())
            cur = ""
        else:
            cur += ch
    if cur.strip():
        items.append(cur.strip())
    return items


class CDecls:
    def __init__(self, src_by_file):
        self.aggr = {}     # (kind, name) -> {'kind','name','fields'|None,'attr_aligned','file','line','why'}
        self.enums = {}    # name -> {'packed':bool,'values':[(n,v)],'file','line'}
        self.order = []
        self.defines = {}
        self.maps = {}
        self.statics = {}
        for f, src in src_by_file.items():
            self.defines.update(parse_defines(strip_c_comments(src)))
        for f, src in src_by_file.items():
            self._scan(f, strip_c_comments(src))

    # -- enums first (their constants are usable in array dimensions), then aggregates
    def _scan(self, f, s):
        for m in re.finditer(r"^enum(\s+__attribute__\(\(packed\)\))?\s+(\w+)\s*\{", s, re.M):
            j = match_brace(s, m.end() - 1)
            vals, nxt = [], 0
            for it in s[m.end():j].split(","):
                it = it.strip()
                if not it:
                    continue
                if "=" in it:
                    n, e = it.split("=", 1)
                    nxt = c_eval(e, {**self.defines, **dict(vals)})
                    n = n.strip()
                else:
                    n = it
                vals.append((n, nxt))
                nxt += 1
            self.enums[m.group(2)] = {"packed": bool(m.group(1)), "values": vals, "file": f, "line": s.count("\n", 0, m.start()) + 1}
        for m in re.finditer(r"^(struct|union)\s+(\w+)\s*\{", s, re.M):
            j = match_brace(s, m.end() - 1)
            tail = re.match(r"\s*(__attribute__\(\(aligned\((\d+)\)\)\))?\s*(\w+\s+SEC\(\"\.maps\"\))?\s*;", s[j + 1:j + 200])
            if not tail:
                raise Anchor("cannot parse end of %s %s" % (m.group(1), m.group(2)))
            if tail.group(3):
                continue   # named map type (struct map_lpm_type {...} unused_lpm_type SEC(".maps"))
            d = {"kind": m.group(1), "name": m.group(2), "aligned": int(tail.group(2)) if tail.group(2) else 0,
                 "file": f, "line": s.count("\n", 0, m.start()) + 1, "why": None}
            try:
                d["fields"] = self._fields(s[m.end():j])
            except KeyError as e:
                d["fields"] = None
                d["why"] = "uses %s" % e.args[0]
            self.aggr[(m.group(1), m.group(2))] = d
            self.order.append((m.group(1), m.group(2)))
        for m in re.finditer(r"^static const (\w+) (\w+)(?:\s*=\s*([^;]+))?;", s, re.M):
            self.statics[m.group(2)] = c_eval(m.group(3), self.defines) if m.group(3) else 0
        for m in re.finditer(r"\nstruct(?: \w+)? \{\n((?:[^}]*?))\n\} (\w+) SEC\(\"\.maps\"\);", s):
            body, name = m.group(1), m.group(2)
            e = {}
            for mm in re.finditer(r"__uint\((\w+),\s*([^;]+)\);", body):
                try:
                    e[mm.group(1)] = c_eval(mm.group(2), {**self.defines, "BPF_F_NO_PREALLOC": 1, "LIBBPF_PIN_BY_NAME": 1})
                except Exception:
                    e[mm.group(1)] = mm.group(2).strip()
            for mm in re.finditer(r"__type\((\w+),\s*([^;]+)\);", body):
                e["type_" + mm.group(1)] = mm.group(2).strip()
            self.maps[name] = e

    def _type(self, spec):
        """spec: type words -> tree"""
        spec = re.sub(r"\bconst\b|\bvolatile\b", "", spec).strip()
        m = re.fullmatch(r"(struct|union)\s+(\w+)", spec)
        if m:
            return {"k": "ref", "kind": m.group(1), "name": m.group(2)}
        m = re.fullmatch(r"enum\s+(\w+)", spec)
        if m:
            if m.group(1) not in self.enums:
                raise KeyError("enum " + m.group(1))
            return {"k": "scalar", "kind": "KEnum", "w": self.enum_width(m.group(1))}
        if spec in C_SCALARS:
            k, w = C_SCALARS[spec]
            return {"k": "scalar", "kind": k, "w": w}
        raise KeyError(spec)

    def enum_width(self, name):
        e = self.enums[name]
        mx = max([v for _, v in e["values"]] + [0])
        if e["packed"]:
            return 1 if mx < 256 else 2 if mx < 65536 else 4
        return 4

    def _fields(self, body):
        fs = []
        for it in split_items(body):
            m = re.match(r"(struct|union)\s*\{", it)
            if m:
                j = match_brace(it, m.end() - 1)
                inner = self._fields(it[m.end():j])
                rest = it[j + 1:].strip()
                am = re.match(r"__attribute__\(\(aligned\((\d+)\)\)\)\s*", rest)
                t = {"k": m.group(1), "f": inner}
                if am:
                    t = {"k": "aligned", "a": int(am.group(1)), "t": t}
                    rest = rest[am.end():]
                fs.append((rest, t))   # rest == "" -> anonymous member
                continue
            m = re.fullmatch(r"(.+?)\s+\*?(\w+)((?:\s*\[[^\]]+\])*)", it, re.S)
            if not m or "*" in it or "(" in m.group(1):
                raise KeyError(it)
            t = self._type(m.group(1))
            dims = re.findall(r"\[([^\]]+)\]", m.group(3))
            for dexp in reversed(dims):
                t = {"k": "arr", "n": c_eval(dexp, {**self.defines, **{n: v for e in self.enums.values() for n, v in e["values"]}}), "e": t}
            fs.append((m.group(2), t))
        return fs

    def resolve(self, kind, name, seen=()):
        """full tree of an aggregate with references expanded; raises KeyError when not translatable"""
        if (kind, name) in seen:
            raise KeyError("recursive " + name)
        d = self.aggr.get((kind, name))
        if d is None:
            raise KeyError("%s %s" % (kind, name))
        if d["fields"] is None:
            raise KeyError(d["why"])
        t = {"k": kind, "f": [(n, self._expand(ft, seen + ((kind, name),))) for n, ft in d["fields"]]}
        if d["aligned"]:
            t = {"k": "aligned", "a": d["aligned"], "t": t}
        return t

    def _expand(self, t, seen):
        if t["k"] == "ref":
            return self.resolve(t["kind"], t["name"], seen)
        if t["k"] == "arr":
            return {"k": "arr", "n": t["n"], "e": self._expand(t["e"], seen)}
        if t["k"] in ("struct", "union"):
            return {"k": t["k"], "f": [(n, self._expand(ft, seen)) for n, ft in t["f"]]}
        if t["k"] == "aligned":
            return {"k": "aligned", "a": t["a"], "t": self._expand(t["t"], seen)}
        return t


def c_paths(t, prefix=""):
    """C member designators of every leaf, in the traversal order of C19_Lang.leaves with allm = true"""
    k = t["k"]
    if k == "scalar":
        return [prefix]
    if k == "arr":
        if t["e"]["k"] == "scalar":
            return [prefix]
        out = []
        for i in range(t["n"]):
            out += c_paths(t["e"], "%s[%d]" % (prefix, i))
        return out
    if k in ("struct", "union"):
        out = []
        for n, ft in t["f"]:
            p = prefix if n == "" else (n if prefix == "" else prefix + "." + n)
            out += c_paths(ft, p)
        return out
    if k == "aligned":
        return c_paths(t["t"], prefix)
    raise Anchor("c_paths: " + k)


def coq_str(s):
    assert '"' not in s
    return '"%s"' % s


def c_tree_to_coq(t, fname=None):
    k = t["k"]
    if k == "scalar":
        kind = "KPad" if (fname is not None and is_pad_name(fname)) else t["kind"]
        return "(TScalar %s %d)" % (kind, t["w"])
    if k == "arr":
        return "(TArr %d %s)" % (t["n"], c_tree_to_coq(t["e"], fname))
    if k in ("struct", "union"):
        if fname is not None and is_pad_name(fname):
            raise Anchor("aggregate padding field " + fname)
        return "(%s [%s])" % ("TStruct" if k == "struct" else "TUnion",
                              "; ".join("(%s, %s)" % (coq_str(norm(n)), c_tree_to_coq(ft, n)) for n, ft in t["f"]))
    if k == "aligned":
        return "(TAligned %d %s)" % (t["a"], c_tree_to_coq(t["t"], fname))
    raise Anchor("c_tree_to_coq: " + k)


def go_tree_to_coq(t, fname=None):
    k = t["k"]
    if k in ("u", "s", "bool"):
        kind = {"u": "KU", "s": "KS", "bool": "KBool"}[k]
        if fname is not None and is_pad_name(fname):
            kind = "KPad"
        return "(TScalar %s %d)" % (kind, t["w"])
    if k == "arr":
        return "(TArr %d %s)" % (t["n"], go_tree_to_coq(t["e"], fname))
    if k == "struct":
        if fname is not None and is_pad_name(fname):
            raise Anchor("aggregate padding field " + fname)
        fs = []
        for f in t["f"]:
            if f["t"]["k"] == "marker":
                fs.append("(%s, TMarker)" % coq_str("_"))
            else:
                fs.append("(%s, %s)" % (coq_str("_" if f["n"] == "_" else norm(f["n"])), go_tree_to_coq(f["t"], f["n"])))
        return "(TStruct [%s])" % "; ".join(fs)
    if k == "marker":
        return "TMarker"
    raise Anchor("go_tree_to_coq: " + k)


def go_type_norm(name):
    n = name.lstrip("_")
    if n.startswith("bpf"):
        n = n[3:]
    return n.lower()


def read(rel):
    p = os.path.join(vlib.REPO, rel)
    if not os.path.exists(p):
        raise Anchor("anchor moved: %s missing" % rel)
    return open(p).read()


def build_go_tool(sc):
    src = os.path.join(vlib.VERIF, "harness", "c19tool", "c19_extract.go")
    out = sc.path("c19x")
    env = vlib.go_env()
    env.pop("GOFLAGS", None)
    rc, so, se, dt = vlib.run(["go", "build", "-o", out, src], cwd=sc.dir, env=env, timeout=600)
    if rc != 0:
        raise Anchor("c19_extract.go does not build: " + (so + se)[-1500:])
    rc, so, se, dt = vlib.run([out, vlib.REPO], cwd=sc.dir, env=env, timeout=300)
    if rc != 0:
        raise Anchor("c19_extract failed: " + (so + se)[-1500:])
    return json.loads(so)


def extract_c_conn_expr(src):
    """constants of the slot expression in wan_outbound_is_alive"""
    s = strip_c_comments(src)
    m = re.search(r"\nwan_outbound_is_alive\(struct [^)]*\)\n\{(.*?)\n\}", s, re.S)
    if not m:
        raise Anchor("anchor moved: wan_outbound_is_alive")
    b = m.group(1)
    k = re.search(r"key = \(\(__u32\)outbound \* (\d+)\) \+ \(domain_idx \* (\d+)\) \+ ip_idx;", b)
    ip = re.search(r"ip_idx = skb->protocol == bpf_htons\(ETH_P_IP\) \? (\d+) : (\d+);", b)
    dom = re.search(r"if \(l4proto == IPPROTO_UDP\) \{\s*if \(dport == bpf_htons\(53\)\)\s*domain_idx = (\d+);\s*else\s*domain_idx = (\d+);", b)
    d0 = re.search(r"__u32 domain_idx = (\d+);", b)
    early = re.search(r"if \(dport == bpf_htons\(53\)\)\s*return true;", b)
    if not (k and ip and dom and d0):
        raise Anchor("anchor moved: slot expression of wan_outbound_is_alive has a new shape")
    return {"mul_outbound": int(k.group(1)), "mul_domain": int(k.group(2)), "ip4": int(ip.group(1)), "ip6": int(ip.group(2)),
            "dom_tcp": int(d0.group(1)), "dom_dns": int(dom.group(1)), "dom_data": int(dom.group(2)), "dns_early_return": bool(early)}



# ----------------------------------------------------------------------------------------------------------------
# Go-side magic-number mirrors of kernel enumerations
# ----------------------------------------------------------------------------------------------------------------
BOOL_FIELDS = {"IsWanIngressDirection", "Must", "HasRouting", "Not", "FromWan", "UseRedirectPeer", "HasBpfGetCurrentTask"}
DATA_FIELDS = {"LastSeenNs", "Mark", "Pid", "Dscp", "Ifindex", "Sport", "Dport", "PortStart", "PortEnd", "TproxyPort", "ControlPlanePid",
               "Dae0Ifindex", "DaeNetnsId", "DaeSocketMark", "Timestamp", "PrefixLen", "Padding2"}
TCP_STATE_WORDS = {"closing": "TCP_STATE_CLOSING", "established": "TCP_STATE_ACTIVE", "active": "TCP_STATE_ACTIVE"}


def field_domain(field):
    typ, leaf = field.split(".")[0], field.split(".")[-1]
    if typ == "bpfIfParams":
        return ("go_only", None)
    if leaf == "State" and typ == "bpfConnState":
        return ("enum", "tcp_state")
    if leaf == "Type" and typ == "bpfMatchSet":
        return ("enum", "MatchType")
    if leaf == "Type" and typ == "bpfDaeEvent":
        return ("enum", "dae_event_type")
    if leaf == "L4proto":
        return ("ipproto", None)
    if leaf == "Outbound":
        return ("outbound", None)
    if leaf in BOOL_FIELDS:
        return ("bool", None)
    if leaf in DATA_FIELDS:
        return ("data", None)
    return ("unknown", None)


def magic_numbers(go, cd, gc):
    """returns (rows for Coq, unrecognised list, janitor closing literal, all uses annotated)"""
    rows, unrec, annotated = [], [], []
    jan = []
    cenum_by = {name: dict(e["values"]) for name, e in cd.enums.items()}
    allc = {n: v for e in cd.enums.values() for n, v in e["values"]}
    allc.update({"IPPROTO_TCP": 6, "IPPROTO_UDP": 17})
    for u in go.get("magic_uses", []):
        kind, enum = field_domain(u["field"])
        where = "%s %s %s @%s:%d %s()" % (u["field"], u["op"], re.sub(r"\s+", " ", u["text"]), u["file"], u["line"], u["func"])
        if kind in ("go_only", "data"):
            annotated.append((where, kind, "not an enumeration"))
            continue
        txt = re.sub(r"^\w+\((.*)\)$", r"\1", u["text"].strip())
        val = None
        required_name = None
        if u["value"] in ("true", "false"):
            val = 1 if u["value"] == "true" else 0
        elif u["value"] != "":
            val = int(u["value"])
        m = re.fullmatch(r"(\w+)\.(\w+)", txt)
        if m:
            nm = m.group(2)
            if val is None and ("consts." + nm) in gc:
                val = int(gc["consts." + nm])
            if nm in allc:
                required_name = nm
            elif nm.startswith("Outbound"):
                cn = "OUTBOUND_" + re.sub(r"(?<!^)(?=[A-Z])", "_", nm[len("Outbound"):]).upper()
                if cn in cd.defines:
                    required_name = cn
                    allc[cn] = cd.defines[cn]
            if val is None and required_name:
                val = allc[required_name]     # a named constant of an external package (unix.IPPROTO_TCP): its name is its meaning
        if val is None:
            unrec.append(where + ": constant cannot be evaluated")
            continue
        if kind == "unknown":
            unrec.append(where + ": field of a kernel-mirror struct compared/assigned with a constant, but C19 has no enumeration recorded for it")
            continue
        if kind == "enum":
            allowed = sorted(set(cenum_by[enum].values())) if enum in cenum_by else None
            if allowed is None:
                raise Anchor("anchor moved: enum %s" % enum)
        elif kind == "ipproto":
            allowed = [6, 17]
        elif kind == "bool":
            allowed = [0, 1]
        else:
            allowed = list(range(256))
        required = allc.get(required_name) if required_name else None
        meaning = required_name
        if kind == "enum" and enum == "tcp_state" and required is None:
            words = u["then"] if u["op"] == "==" else (u["else"] if u["op"] == "!=" else [])
            hits = set()
            for w in words:
                for kw, en in TCP_STATE_WORDS.items():
                    if kw in w.lower():
                        hits.add(en)
            if len(hits) == 1:
                meaning = hits.pop()
                required = cenum_by["tcp_state"].get(meaning)
                if required is None:
                    raise Anchor("anchor moved: enumerator %s of enum tcp_state" % meaning)
                if u["func"] == "cleanupConnStateMapBeforeLocked" and meaning == "TCP_STATE_CLOSING" and u["op"] == "==":
                    jan.append(val)
            else:
                unrec.append(where + ": cannot infer which tcp_state the branch means (identifiers %s)" % words[:8])
                continue
        rows.append((where, val, required, allowed, u["literal"], meaning))
        annotated.append((where, kind, "literal" if u["literal"] else "named", meaning))
    if len(jan) != 1:
        raise Anchor("anchor moved: the conn-state janitor's `value.State == <closing>` test was found %d times" % len(jan))
    return rows, unrec, jan[0], annotated


def parse_go_limit_init():
    """steps of package consts' init() after the Atoi block, and the C derivations of the dependent limits"""
    src = read("common/consts/ebpf.go")
    m = re.search(r"^func init\(\) \{\n(.*?)^\}\n", src, re.S | re.M)
    if not m:
        raise Anchor("anchor moved: init() of common/consts/ebpf.go")
    body = re.sub(r"//[^\n]*", "", m.group(1))
    head = re.match(r'\s*if MaxMatchSetLen_ != "" \{\s*i, err := strconv\.Atoi\(MaxMatchSetLen_\)\s*if err != nil \{\s*panic\(err\)\s*\}\s*MaxMatchSetLen = i\s*\}', body)
    if not head:
        raise Anchor("anchor moved: init() of common/consts no longer starts with the Atoi(MaxMatchSetLen_) block")
    rest = body[head.end():]
    steps = []
    while rest.strip():
        g = re.match(r"\s*if MaxMatchSetLen%(\d+) != 0 \{\s*panic\([^\n]*\)\s*\}", rest)
        r = re.match(r"\s*MaxMatchSetLen = \(MaxMatchSetLen \+ (\d+)\) / (\d+) \* (\d+)\s*\n", rest)
        if g:
            steps.append("IGuardMod %s" % g.group(1))
            rest = rest[g.end():]
        elif r and r.group(2) == r.group(3):
            steps.append("IRoundUp %s %s" % (r.group(1), r.group(2)))
            rest = rest[r.end():]
        else:
            raise Anchor("unrecognised statement in init() of common/consts/ebpf.go: %r" % rest.strip()[:120])
    if not re.search(r"^\tMaxMatchSetLen_\s*=\s*\"\"\s*$", src, re.M) or not re.search(r"^\tMaxMatchSetLen\s*=\s*32 \* 32\s*$", src, re.M):
        raise Anchor("anchor moved: MaxMatchSetLen_/MaxMatchSetLen declarations")
    mk = read("Makefile")
    if "-DMAX_MATCH_SET_LEN=$(MAX_MATCH_SET_LEN)" not in mk or "common/consts.MaxMatchSetLen_=$(MAX_MATCH_SET_LEN)" not in mk:
        raise Anchor("anchor moved: Makefile no longer passes MAX_MATCH_SET_LEN to both C (-D) and Go (-X)")
    c = strip_c_comments(read("control/kern/tproxy.c"))
    if not re.search(r"#ifndef MAX_MATCH_SET_LEN\s*\n#define MAX_MATCH_SET_LEN", c):
        raise Anchor("anchor moved: #ifndef MAX_MATCH_SET_LEN guard in tproxy.c")
    lpm = re.search(r"#define MAX_LPM_NUM \(MAX_MATCH_SET_LEN \+ (\d+)\)", c)
    bm = re.search(r"struct domain_routing \{\s*__u32 bitmap\[MAX_MATCH_SET_LEN / (\d+)\];\s*\}", c)
    rm = re.search(r"__type\(value, struct match_set\);\s*__uint\(max_entries, MAX_MATCH_SET_LEN\);", c)
    if not (lpm and bm and rm):
        raise Anchor("anchor moved: C derivations of MAX_LPM_NUM / domain_routing.bitmap / routing_map.max_entries from MAX_MATCH_SET_LEN")
    gd = set(re.findall(r"N := len\(n\.\w+\) / (\d+)", read("component/routing/domain_matcher/ahocorasick_slimtrie.go")))
    if len(gd) != 1:
        raise Anchor("anchor moved: bitmap word count of the Go domain matcher")
    return {"steps": steps, "c_lpm_add": int(lpm.group(1)), "c_bitmap_div": int(bm.group(1)), "go_bitmap_div": int(gd.pop())}


# key types: struct types that are (or embed) the key of a map the control plane shares
KEY_STRUCTS = ("tuples_key", "tuples", "redirect_tuple", "lpm_key")
# every function of tproxy.c that BUILDS an object of a key type, and how this check exercises it
KEY_BUILDERS = {
    "get_tuples": "run by harness/c/c19_layout.c on a destination pre-filled with 0xAA",
    "copy_reversed_tuples": "run by harness/c/c19_layout.c on a destination pre-filled with 0xAA",
    "fill_redirect_tuple_from_forward_packet": "run by harness/c/c19_layout.c on a destination pre-filled with 0xAA",
    "route": "run by harness/c/c19_layout.c with its per-CPU scratch pre-filled with 0xAA (lpm_key members of route_ctx)",
    "load_redirect_tuple_fast": "kernel-only key (redirect_track is never keyed by the control plane); static rule: caller's object is zero-initialised",
    "load_redirect_tuple_slow": "kernel-only key (redirect_track is never keyed by the control plane); static rule: caller's object is zero-initialised",
}
# builders that clear / fully define their destination themselves, so an uninitialised local may be handed to them
SELF_CLEARING = {"get_tuples": 2, "copy_reversed_tuples": 2}   # name -> 1-based index of the destination argument


def split_functions(s):
    """(name, params, body) of every top-level function definition of comment-stripped C source"""
    out = []
    for m in re.finditer(r"\n(?:static\s+)?(?:[\w\s\*]+?)\b(\w+)\(([^;{}]*?)\)\s*\n\{", s):
        i = m.end() - 1
        j = match_brace(s, i)
        out.append((m.group(1), m.group(2), s[i:j + 1]))
    return out


def scan_key_builders(src):
    s = strip_c_comments(src)
    funcs = split_functions(s)
    found, local_sites = {}, []
    kt = "|".join(KEY_STRUCTS)
    for name, params, body in funcs:
        writes = False
        for pm in re.finditer(r"(const\s+)?struct (%s) \*(\w+)" % kt, params):
            if pm.group(1):
                continue
            v = pm.group(3)
            if re.search(r"\b%s->[\w\.\[\]]+\s*=[^=]" % v, body) or re.search(r"__builtin_mem(cpy|set)\(\s*&?%s\b" % v, body) \
               or re.search(r"bpf_skb_load_bytes\([^;]*&?%s->" % v, body):
                writes = True
        if re.search(r"lpm_key_\w+\.(prefixlen|data)\b\s*=[^=]|__builtin_memcpy\(\s*\w+->lpm_key_\w+\.data", body):
            writes = True
        if writes:
            found[name] = True
        # locals of key type
        for lm in re.finditer(r"\n\s*struct (%s) (\w+)\s*(=\s*\{[^;]*\})?;" % kt, body):
            typ, var, init = lm.group(1), lm.group(2), lm.group(3)
            rest = body[lm.end():]
            if init is not None:
                if not re.fullmatch(r"=\s*\{\s*0?\s*\}", init.strip()):
                    raise Anchor("key-typed local %s in %s() has a partial initialiser; the C driver does not cover it" % (var, name))
                local_sites.append((name, typ, var, "zero-initialised"))
                continue
            um = re.search(r"&%s\b|\b%s\b" % (var, var), rest)
            call = None
            if um:
                # the statement containing the first use
                st = rest.rfind(";", 0, um.start()) + 1
                en = rest.find(";", um.start())
                stmt = rest[st:en]
                cm = re.match(r"\s*(\w+)\((.*)\)\s*$", stmt, re.S)
                if cm and cm.group(1) in SELF_CLEARING:
                    args = [a.strip() for a in cm.group(2).split(",")]
                    if args[SELF_CLEARING[cm.group(1)] - 1] == "&" + var:
                        call = cm.group(1)
            if call is None:
                raise Anchor("uninitialised key-typed local %s in %s() is not first handed to a known self-clearing key builder" % (var, name))
            local_sites.append((name, typ, var, "filled by " + call))
    new = sorted(set(found) - set(KEY_BUILDERS))
    gone = sorted(set(KEY_BUILDERS) - set(found))
    if new:
        raise Anchor("new key-building function(s) in tproxy.c: %s — extend harness/c/c19_layout.c (poisoned destination) and KEY_BUILDERS" % ", ".join(new))
    if gone:
        raise Anchor("anchor moved: key-building function(s) %s no longer found" % ", ".join(gone))
    m = re.search(r"copy_reversed_tuples\(struct tuples_key \*key,\s*struct tuples_key \*dst\)\s*\{(.*?)\n\}", s, re.S)
    if not m:
        raise Anchor("anchor moved: copy_reversed_tuples")
    stmts = [x.strip() for x in m.group(1).split(";") if x.strip()]
    memset = bool(stmts) and re.sub(r"\s+", "", stmts[0]) == "__builtin_memset(dst,0,sizeof(*dst))"
    assigns = sorted(re.sub(r"\s+", "", x) for x in stmts if "->" in x and "memset" not in x)
    if assigns != sorted(["dst->dip=key->sip", "dst->sip=key->dip", "dst->sport=key->dport", "dst->dport=key->sport", "dst->l4proto=key->l4proto"]):
        raise Anchor("anchor moved: member assignments of copy_reversed_tuples changed: %s" % assigns)
    return {"builders": sorted(found), "local_sites": local_sites, "reversed_memset": memset}


def translate(sc):
    """returns (info dict, coq text).  info carries everything later stages need."""
    tproxy = read("control/kern/tproxy.c")
    defs_h = read("control/kern/ebpf_sync_defs.h")
    cd = CDecls({"control/kern/ebpf_sync_defs.h": defs_h, "control/kern/tproxy.c": tproxy})
    go = build_go_tool(sc)
    spec = json.loads(read("common/consts/ebpf_sync_spec.json"))
    if go.get("param_literal_found") != 1:
        raise Anchor("anchor moved: PARAM composite literal not found exactly once in control/bpf_utils.go")

    # ---- C declarations
    c_decls, c_skipped = [], []
    for kind, name in cd.order:
        try:
            t = cd.resolve(kind, name)
            c_decls.append({"kind": kind, "name": name, "tree": t, "paths": c_paths(t)})
        except KeyError as e:
            c_skipped.append({"name": "%s %s" % (kind, name), "why": str(e.args[0])})
    c_by_norm = {}
    for d in c_decls:
        if d["kind"] == "struct":
            c_by_norm[norm(d["name"])] = d

    # ---- Go declarations
    go_structs = [s for s in go["structs"] if s["translatable"]]
    stub = {s["name"]: s for s in go_structs if s["build"] == "stub"}
    real = {s["name"]: s for s in go_structs if s["build"] == "real"}
    pairs, unpaired = [], []
    for nm, s in stub.items():
        if nm in GO_ONLY:
            continue
        c = c_by_norm.get(go_type_norm(nm))
        if c is None:
            unpaired.append(nm)
        else:
            pairs.append((c["name"], "stub:" + nm))
    for nm, s in real.items():
        if nm in GO_ONLY:
            continue
        c = c_by_norm.get(go_type_norm(nm))
        if c is None:
            unpaired.append("real:" + nm)
        else:
            pairs.append((c["name"], "real:" + nm))
    if "dae_param" not in [d["name"] for d in c_decls]:
        raise Anchor("anchor moved: struct dae_param")
    pairs.append(("dae_param", "real:PARAM"))
    skipped_c_names = {x["name"].split()[1] for x in c_skipped}
    for nm in list(stub) + list(real):
        if go_type_norm(nm) in {norm(x) for x in skipped_c_names}:
            raise Anchor("C declaration mirrored by %s is not translatable" % nm)
    gopairs = [nm for nm in real if nm in stub]

    go_decl_list = [("stub:" + nm, s) for nm, s in stub.items()] + [("real:" + nm, s) for nm, s in real.items()] + \
                   [("real:PARAM", go["param_literal"])]

    # ---- constants
    gc = go["consts"]
    cenum = {n: v for e in cd.enums.values() for n, v in e["values"]}
    consts = []   # (name, c, go, json or None)

    def add(name, cv, gv, jv=None):
        consts.append((name, cv, gv, jv))

    def need(d, k, what):
        if k not in d:
            raise Anchor("anchor moved: %s %s not found" % (what, k))
        return int(d[k]) if not isinstance(d[k], int) else d[k]
    for i, mt in enumerate(spec["match_types"]):
        add("MatchType_" + mt, need(cenum, "MatchType_" + mt, "C enum"), need(gc, "consts.MatchType_" + mt, "Go const"), i)
    c_mt = [n for n, _ in cd.enums["MatchType"]["values"]]
    g_mt = [k[len("consts."):] for k in gc if k.startswith("consts.MatchType_")]
    if sorted(c_mt) != sorted(g_mt) or len(c_mt) != len(spec["match_types"]):
        extra = sorted(set(c_mt) ^ set(g_mt))
        for n in extra:
            add(n, cenum.get(n, 0xffffffff), int(gc.get("consts." + n, 0xfffffffe)), None)
    for e in spec["l4_proto"]:
        add("L4ProtoType_" + e["name"], need(cenum, "L4ProtoType_" + e["name"], "C enum"), need(gc, "consts.L4ProtoType_" + e["name"], "Go const"), e["value"])
    for e in spec["ip_version"]:
        add("IpVersionType_" + e["name"], need(cenum, "IpVersionType_" + e["name"], "C enum"), need(gc, "consts.IpVersion_" + e["name"], "Go const"), e["value"])
    for e in spec["outbound"]:
        goname = "Outbound" + "".join(w.capitalize() for w in e["name"].split("_"))
        add("OUTBOUND_" + e["name"], need(cd.defines, "OUTBOUND_" + e["name"], "C define"), need(gc, "consts." + goname, "Go const"), e["value"])
    add("MAX_MATCH_SET_LEN", need(cd.defines, "MAX_MATCH_SET_LEN", "C define"), need(gc, "consts.var.MaxMatchSetLen", "Go var"))
    add("TASK_COMM_LEN", need(cd.defines, "TASK_COMM_LEN", "C define"), need(gc, "consts.TaskCommLen", "Go const"))
    add("TPROXY_MARK", need(cd.defines, "TPROXY_MARK", "C define"), need(gc, "consts.TproxyMark", "Go const"))
    add("MAX_CONN_STATE_NUM", need(cd.defines, "MAX_CONN_STATE_NUM", "C define"), need(gc, "control(real).defaultConnStateMapMaxEntries", "Go const"))
    add("MAX_CONN_STATE_NUM(stub)", need(cd.defines, "MAX_CONN_STATE_NUM", "C define"), need(gc, "control(stub).defaultConnStateMapMaxEntries", "Go const"))
    add("fast_sock.max_entries", need(cd.maps.get("fast_sock", {}), "max_entries", "C map"), need(gc, "control(real).fastSockPlaceholderMaxEntries", "Go const"))
    add("conn_state_map.max_entries", need(cd.maps.get("conn_state_map", {}), "max_entries", "C map"), need(gc, "control(real).defaultConnStateMapMaxEntries", "Go const"))
    add("zero_key", need(cd.statics, "zero_key", "C static"), need(gc, "consts.ZeroKey", "Go const"))
    add("one_key", need(cd.statics, "one_key", "C static"), need(gc, "consts.OneKey", "Go const"))
    add("two_key", need(cd.statics, "two_key", "C static"), need(gc, "consts.TwoKey", "Go const"))
    add("IPPROTO_TCP", 6, need(gc, "consts.IPPROTO_TCP", "Go const"))    # C value checked by the C driver (prints IPPROTO_*)
    add("IPPROTO_UDP", 17, need(gc, "consts.IPPROTO_UDP", "Go const"))
    kb = scan_key_builders(tproxy)
    mrows, munrec, jan_lit, mann = magic_numbers(go, cd, gc)
    lim = parse_go_limit_init()
    cp_src = read("control/control_plane.go")
    jt = {}
    for nm in ("tcpConnStateTimeoutEstablished", "tcpConnStateTimeoutClosing"):
        mm = re.search(r"^\s*%s\s*=\s*(\d+)\s*\*\s*time\.(Second|Minute)\b" % nm, cp_src, re.M)
        if not mm:
            raise Anchor("anchor moved: " + nm)
        jt[nm] = int(mm.group(1)) * (10 ** 9 if mm.group(2) == "Second" else 60 * 10 ** 9)
    for en in ("TCP_STATE_ACTIVE", "TCP_STATE_CLOSING"):
        if en not in cenum:
            raise Anchor("anchor moved: enumerator " + en)
    ce = extract_c_conn_expr(tproxy)
    add("connectivity.slots_per_outbound", ce["mul_outbound"], need(gc, "control.outboundConnectivitySlotsPerOutbound", "Go const"))
    add("connectivity.slots_per_domain", ce["mul_domain"], need(gc, "control.outboundConnectivitySlotsPerDomain", "Go const"))
    add("connectivity.domain_tcp", ce["dom_tcp"], need(gc, "control.outboundConnectivityDomainTCP", "Go const"))
    add("connectivity.domain_dns_udp", ce["dom_dns"], need(gc, "control.outboundConnectivityDomainDnsUDP", "Go const"))
    add("connectivity.domain_data_udp", ce["dom_data"], need(gc, "control.outboundConnectivityDomainDataUDP", "Go const"))
    add("connectivity.map_entries", need(cd.maps.get("outbound_connectivity_map", {}), "max_entries", "C map"),
        256 * need(gc, "control.outboundConnectivitySlotsPerOutbound", "Go const"))
    sk = dict(x.split("=") for x in go.get("stats_key_literals", []))
    if set(sk) != {"udpOverflow", "tcpOverflow"}:
        raise Anchor("anchor moved: readMapOverflowCounters stats keys")
    add("BPF_STATS_UDP_CONN_OVERFLOW", need(cenum, "BPF_STATS_UDP_CONN_OVERFLOW", "C enum"), int(sk["udpOverflow"]))
    add("BPF_STATS_TCP_CONN_OVERFLOW", need(cenum, "BPF_STATS_TCP_CONN_OVERFLOW", "C enum"), int(sk["tcpOverflow"]))
    add("domain_routing.bitmap_words", need(cd.defines, "MAX_MATCH_SET_LEN", "C define") // 32, need(gc, "consts.var.MaxMatchSetLen", "Go var") // 32)

    # ---- Coq text
    L = ["(* GENERATED by tools/c19.py from control/kern/tproxy.c, ebpf_sync_defs.h, control/bpf_stub.go, control/bpf_utils.go,",
         "   common/consts/*.go, ebpf_sync_spec.json on every run.  Do not edit. *)",
         "From Coq Require Import List NArith String.", "From Dae Require Import C19_Spec C19_Lang.",
         "Import ListNotations.", "Open Scope string_scope.", "Open Scope N_scope.", ""]
    cname = {}
    for d in c_decls:
        ident = "c_%s_%s" % (d["kind"], d["name"])
        cname[d["name"]] = ident
        d["ident"] = ident
        L.append("Definition %s : ty := %s." % (ident, c_tree_to_coq(d["tree"])))
    gname = {}
    for key, s in go_decl_list:
        ident = "go_" + key.replace(":", "_")
        gname[key] = ident
        L.append("Definition %s : ty := %s." % (ident, go_tree_to_coq(s["tree"])))
    L.append("")
    L.append("Definition c_decls : list (string * ty) := [%s]." % "; ".join("(%s, %s)" % (coq_str(d["kind"] + " " + d["name"]), d["ident"]) for d in c_decls))
    L.append("Definition go_decls : list (string * ty) := [%s]." % "; ".join("(%s, %s)" % (coq_str(k), gname[k]) for k, _ in go_decl_list))
    L.append("Definition pairs : list (string * ty * string * ty) := [%s]." %
             "; ".join("(%s, %s, %s, %s)" % (coq_str(c), cname[c], coq_str(g), gname[g]) for c, g in pairs))
    L.append("Definition gopairs : list (string * ty * ty) := [%s]." %
             "; ".join("(%s, %s, %s)" % (coq_str(n), gname["real:" + n], gname["stub:" + n]) for n in gopairs))
    L.append("Definition unpaired_go : list string := [%s]." % "; ".join(coq_str(u) for u in unpaired))
    L.append("Definition shared_consts : list (string * N * N * option N) := [%s]." %
             ";\n  ".join("(%s, %s, %s, %s)" % (coq_str(n), vlib.cN(c), vlib.cN(g), "None" if j is None else "Some %s" % vlib.cN(j)) for n, c, g, j in consts))
    L.append("")
    L.append("(* slot expression of wan_outbound_is_alive (C) and the constants of control/connectivity.go (Go) *)")
    for k in ("mul_outbound", "mul_domain", "ip4", "ip6", "dom_tcp", "dom_dns", "dom_data"):
        L.append("Definition c_conn_%s : N := %d." % (k, ce[k]))
    L.append("Definition c_conn_dns_early_return : bool := %s." % vlib.cbool(ce["dns_early_return"]))
    for k, g in (("slots_per_outbound", "outboundConnectivitySlotsPerOutbound"), ("slots_per_domain", "outboundConnectivitySlotsPerDomain"),
                 ("dom_tcp", "outboundConnectivityDomainTCP"), ("dom_dns", "outboundConnectivityDomainDnsUDP"), ("dom_data", "outboundConnectivityDomainDataUDP")):
        L.append("Definition go_conn_%s : N := %d." % (k, int(gc["control." + g])))
    L.append("Definition c_conn_map_entries : N := %d." % cd.maps["outbound_connectivity_map"]["max_entries"])
    L.append("(* Go uses of kernel-mirror struct fields against constants: (use, value, value the meaning requires, declared C values) *)")
    L.append("Definition magic_uses : list (string * N * option N * list N) := [%s]." % ";\n  ".join(
        "(%s, %d, %s, [%s])" % (coq_str(w.replace('"', "'")), v, "None" if r is None else "Some %d" % r,
                                "; ".join(str(a) for a in (al if len(al) <= 64 else [v]))) for w, v, r, al, lit, mean in mrows))
    L.append("Definition c_tcp_state_active : N := %d." % cenum["TCP_STATE_ACTIVE"])
    L.append("Definition c_tcp_state_closing : N := %d." % cenum["TCP_STATE_CLOSING"])
    L.append("Definition go_janitor_closing_literal : N := %d." % jan_lit)
    L.append("Definition go_tcp_timeout_established_ns : N := %d." % jt["tcpConnStateTimeoutEstablished"])
    L.append("Definition go_tcp_timeout_closing_ns : N := %d." % jt["tcpConnStateTimeoutClosing"])
    L.append("(* init() of common/consts/ebpf.go after the Atoi block; C derivations from MAX_MATCH_SET_LEN *)")
    L.append("Definition go_init_steps : list init_step := [%s]." % "; ".join(lim["steps"]))
    L.append("Definition c_limit_lpm_add : N := %d." % lim["c_lpm_add"])
    L.append("Definition c_limit_bitmap_div : N := %d." % lim["c_bitmap_div"])
    L.append("Definition go_limit_bitmap_div : N := %d." % lim["go_bitmap_div"])
    L.append("(* does copy_reversed_tuples() clear its destination before assigning the members? *)")
    L.append("Definition c_reversed_memset : bool := %s." % vlib.cbool(kb["reversed_memset"]))
    for req in ("tuples_key", "lpm_key", "match_set", "domain_routing"):
        if req not in cname:
            raise Anchor("anchor moved: struct " + req)
    for req in ("stub:bpfTuplesKey", "stub:_bpfLpmKey", "real:_bpfLpmKey", "stub:bpfMatchSet"):
        if req not in gname:
            raise Anchor("anchor moved: Go type " + req)
    L.append("")
    info = {"cd": cd, "c_decls": c_decls, "c_skipped": c_skipped, "go": go, "go_decl_list": go_decl_list, "pairs": pairs, "gopairs": gopairs,
            "unpaired": unpaired, "consts": consts, "conn_expr": ce, "spec": spec, "key_builders": kb,
            "magic_rows": mrows, "magic_unrecognised": munrec, "magic_annotated": mann, "cenum": cenum, "jan_timeouts": jt, "limit": lim}
    return info, "\n".join(L) + "\n"


# ----------------------------------------------------------------------------------------------------------------
# stage 3 helpers: generated C header, lifted Go functions, parsing of Coq output
# ----------------------------------------------------------------------------------------------------------------

def lift_mac_expr(tproxy_src):
    s = strip_c_comments(tproxy_src)
    m = re.search(r"__be32 mac_be\[4\] = \{(.*?)\};", s, re.S)
    if not m:
        raise Anchor("anchor moved: mac_be initialiser of do_tproxy_lan_ingress")
    init = m.group(1)
    if "pkt->ethh.h_source" not in init:
        raise Anchor("anchor moved: mac_be initialiser no longer reads pkt->ethh.h_source")
    canon = re.sub(r"\s+", "", init.replace("pkt->ethh.h_source", "H"))
    # the other sites (wan egress) assign the same two words
    others = []
    for mm in re.finditer(r"scratch->mac_be\[2\] = (bpf_htonl\(.*?\));\s*scratch->mac_be\[3\] = (bpf_htonl\(.*?\));", s, re.S):
        others.append(re.sub(r"\s+", "", ("0,0,%s,%s," % (mm.group(1), mm.group(2))).replace("ethh->h_source", "H")))
    same = all(o == canon for o in others)
    return init.replace("pkt->ethh.h_source", "h"), len(others), same


def gen_c_header(info, tproxy_src):
    L = ["/* generated by tools/c19.py */", "#include <stddef.h>", "static void c19_print_layouts(void)", "{"]
    for d in info["c_decls"]:
        T = "%s %s" % (d["kind"], d["name"])
        L.append('\tprintf("S %s|%%zu|%%zu\\n", sizeof(%s), (size_t)_Alignof(%s));' % (T, T, T))
        for p in d["paths"]:
            L.append('\tprintf("F %s|%s|%%zu|%%zu\\n", offsetof(%s, %s), sizeof(((%s *)0)->%s));' % (T, p, T, p, T, p))
    L.append("}")
    init, nother, same = lift_mac_expr(tproxy_src)
    L.append("/* lifted from do_tproxy_lan_ingress: the mac_be initialiser */")
    L.append("static void c19_mac_be(const unsigned char *h, __be32 out[4])\n{\n\t__be32 mac_be[4] = {%s};\n\tmemcpy(out, mac_be, 16);\n}" % init)
    return "\n".join(L) + "\n", {"mac_other_sites": nother, "mac_sites_identical": same}


def extract_go_func(src, header_re):
    m = re.search(header_re, src, re.M)
    if not m:
        raise Anchor("anchor moved: %s not found in control/bpf_utils.go" % header_re)
    i = src.index("{", m.end() - 1)
    j = match_brace(src, i)
    return src[i:j + 1]


def lift_janitor_go():
    """clock read + timeouts, and the per-entry selection loop of cleanupConnStateMapBeforeLocked, as source text"""
    cp = read("control/control_plane.go")
    m = re.search(r"^func \(c \*ControlPlane\) cleanupConnStateMapBeforeLocked\(aggressiveCleanup bool, staleBeforeNs uint64\) \(udpStats, tcpStats mapCleanupStats\) \{\n(.*?)^}\n", cp, re.S | re.M)
    if not m:
        raise Anchor("anchor moved: cleanupConnStateMapBeforeLocked(aggressiveCleanup bool, staleBeforeNs uint64)")
    body = m.group(1)
    a0 = body.find("\tvar ts unix.Timespec\n")
    a1 = body.find("\tscratch := c.connStateJanitorScratch()")
    b0 = body.find("\t\t\tfor i := range count {\n")
    if a0 < 0 or a1 < a0 or b0 < a1:
        raise Anchor("anchor moved: shape of cleanupConnStateMapBeforeLocked (clock read / scratch / per-entry loop)")
    j = match_brace(body, body.index("{", b0))
    region_a, region_b = body[a0:a1], body[b0:j + 1]
    if "unix.ClockGettime(unix.CLOCK_MONOTONIC, &ts)" not in region_a:
        raise Anchor("anchor moved: janitor clock read")
    if re.search(r"\bc\.(?!log\b)\w+", region_a) or re.search(r"\bc\.\w+", region_b) or "bpf." in region_a + region_b:
        raise Anchor("anchor moved: janitor selection uses ControlPlane state")
    region_a = region_a.replace("unix.ClockGettime(unix.CLOCK_MONOTONIC, &ts)", "c19ClockGettime(&ts)")
    return ("type c19JanLog struct{}\n\nfunc (c19JanLog) Errorf(string, ...any) {}\n\ntype c19JanCtx struct{ log c19JanLog }\n\nvar c19Clock int64\n\n"
            "func c19ClockGettime(ts *unix.Timespec) error {\n\t*ts = unix.NsecToTimespec(c19Clock)\n\treturn nil\n}\n\n"
            "// source text of ControlPlane.cleanupConnStateMapBeforeLocked: clock read and timeouts, then the per-entry selection\n"
            "func c19JanitorSelect(aggressiveCleanup bool, staleBeforeNs uint64, keysOut []bpfTuplesKey, valuesOut []bpfConnState) (udpKeysToDelete, tcpKeysToDelete []bpfTuplesKey, udpStats, tcpStats mapCleanupStats) {\n"
            "\tc := c19JanCtx{}\n\t_ = c\n" + region_a + "\tcount := len(keysOut)\n" + region_b + "\n\treturn\n}\n")


def gen_lifted_go():
    src = read("control/bpf_utils.go")
    body_lpm = extract_go_func(src, r"^func cidrToBpfLpmKey\(prefix netip\.Prefix\) _bpfLpmKey \{")
    body_enc = extract_go_func(src, r"^func \(r bpfPortRange\) Encode\(\) \(b \[16\]byte\) \{")
    return ("//go:build verif\n\npackage control\n\n// GENERATED by tools/c19.py: source text of the real-build functions of control/bpf_utils.go\n\n"
            "import (\n\t\"encoding/binary\"\n\t\"net/netip\"\n\n\t\"github.com/daeuniverse/dae/common\"\n\t\"golang.org/x/sys/unix\"\n)\n\n"
            "var _ = binary.LittleEndian\nvar _ = common.Htons\n\n" + lift_janitor_go() + "\n"
            "func verifC19RealCidrToBpfLpmKey(prefix netip.Prefix) _bpfLpmKey " + body_lpm + "\n\n"
            "func verifC19RealPortRangeEncode(r bpfPortRange) (b [16]byte) " + body_enc + "\n")


class CoqTerm:
    """parser for the subset of printed Coq terms used here: numbers, "strings", true/false, (tuples), [lists;..],
    constructor applications are not needed."""

    def __init__(self, s):
        self.s = s
        self.i = 0

    def ws(self):
        while self.i < len(self.s) and self.s[self.i].isspace():
            self.i += 1

    def parse(self):
        self.ws()
        c = self.s[self.i]
        if c == '"':
            j = self.s.index('"', self.i + 1)
            v = self.s[self.i + 1:j]
            self.i = j + 1
            return v
        if c == "(":
            self.i += 1
            items = [self.parse()]
            self.ws()
            while self.s[self.i] == ",":
                self.i += 1
                items.append(self.parse())
                self.ws()
            assert self.s[self.i] == ")", self.s[self.i:self.i + 30]
            self.i += 1
            return tuple(items)
        if c == "[":
            self.i += 1
            self.ws()
            items = []
            if self.s[self.i] == "]":
                self.i += 1
                return items
            items.append(self.parse())
            self.ws()
            while self.s[self.i] == ";":
                self.i += 1
                items.append(self.parse())
                self.ws()
            assert self.s[self.i] == "]", self.s[self.i:self.i + 30]
            self.i += 1
            return items
        m = re.match(r"[A-Za-z_0-9']+", self.s[self.i:])
        tok = m.group(0)
        self.i += len(tok)
        if tok.isdigit():
            return int(tok)
        return {"true": True, "false": False}.get(tok, tok)


def coq_values(output, names):
    """`Definition X := Eval vm_compute in ... . Print X.` prints `X = term : type`"""
    res = {}
    for n in names:
        m = re.search(r"^%s =\s" % re.escape(n), output, re.M)
        if not m:
            return None
        t = CoqTerm(output[m.end():])
        res[n] = t.parse()
    return res


def flatten_tuple(t):
    """Coq prints (a, b, c, d) for nested pairs: already flat in concrete syntax"""
    return t


# ----------------------------------------------------------------------------------------------------------------
# case generation (entities), one seeded PRNG
# ----------------------------------------------------------------------------------------------------------------
V4_EDGE = [0, 0xffffffff, 0x01020304, 0x7f000001, 0x0a000001, 0xc0a80101, 0xe0000001, 0x00000001, 0xff000000, 0x000000ff, 0x80000000]
V6_EDGE = [0, 1, (1 << 128) - 1, 0x20010db8 << 96 | 1, 0xfe80 << 112 | 1, 0xffff << 32 | 0x01020304, 0xffff << 32, 0xffff << 32 | 0xffffffff,
           0xfffe << 32 | 0x01020304, 1 << 127, 0x0064ff9b << 96 | 0x01020304, 0xff02 << 112 | 0xfb]
PORT_EDGE = [0, 1, 53, 80, 255, 256, 443, 5353, 0xff00, 0x00ff, 65535, 0x3500]
PROTO_EDGE = [6, 17, 6, 17, 6, 17, 1, 58, 0, 255]


def gen_addr(rng, fam=None):
    fam = fam or rng.choice("446")
    if fam == "4":
        return ("4", rng.choice(V4_EDGE) if rng.random() < 0.4 else rng.getrandbits(32))
    return ("6", rng.choice(V6_EDGE) if rng.random() < 0.45 else rng.getrandbits(128))


def gen_flow(rng, fam=None):
    s = gen_addr(rng, fam)
    d = gen_addr(rng, s[0])
    port = lambda: rng.choice(PORT_EDGE) if rng.random() < 0.5 else rng.getrandbits(16)
    return {"src": s, "dst": d, "sport": port(), "dport": port(), "proto": rng.choice(PROTO_EDGE),
            "gs": rng.choice("46") if s[0] == "4" else "6", "gd": rng.choice("46") if d[0] == "4" else "6",
            "mac": "%012x" % (rng.choice([0, (1 << 48) - 1, 0x010203040506]) if rng.random() < 0.3 else rng.getrandbits(48))}


def gen_case(rng, kind=None):
    kind = kind or rng.choice(["tuple"] * 4 + ["rev"] * 3 + ["jan"] * 2 + ["conn"] * 3 + ["lpm"] * 4 + ["dom"] * 2 + ["ms"] * 3 + ["mac"])
    if kind == "tuple":
        return {"k": "tuple", "flow": gen_flow(rng)}
    if kind == "rev":
        return {"k": "rev", "flow": gen_flow(rng)}
    if kind == "jan":
        f = gen_flow(rng)
        f["proto"] = 6
        closing, est = 10 * 10 ** 9, 120 * 10 ** 9
        a1 = rng.choice([closing + 1, closing + 10 ** 9, est - 1, est, closing + rng.randrange(1, est - closing)])
        a2 = rng.choice([est + 1, est + 10 ** 9, est + rng.randrange(1, 10 ** 12)])
        return {"k": "jan", "flow": f, "fin": rng.random() < 0.5, "rst": rng.random() < 0.4, "ages": [a1, a2]}
    if kind == "conn":
        dom = rng.choice([0, 1, 2, 2])
        ob = rng.choice([0, 1, 2, 127, 128, 251, 252, 253, 254, 255]) if rng.random() < 0.5 else rng.randrange(256)
        if dom == 0:
            nt = {"udp": False, "dom": rng.choice([0, 0, 1, 2]), "isdns": rng.random() < 0.3}
            l4, dport = 6, rng.choice([80, 443, 0, 65535, 5353, 54, 52])
        elif dom == 1:
            nt = {"udp": True, "dom": 1, "isdns": rng.random() < 0.8}
            l4, dport = 17, 53
        else:
            nt = {"udp": True, "dom": rng.choice([0, 2]), "isdns": rng.random() < 0.2}
            l4, dport = 17, rng.choice([80, 443, 0, 65535, 5353, 54, 52, 0x3500])
        return {"k": "conn", "outbound": ob, "dom": dom, "v6": rng.random() < 0.5, "nt": nt, "l4proto": l4, "dport": dport}
    if kind == "lpm":
        pa = gen_addr(rng)
        width = 32 if pa[0] == "4" else 128
        bits = rng.choice([0, 1, 7, 8, 9, width - 1, width, width // 2, 24 if width == 32 else 64]) if rng.random() < 0.6 else rng.randint(0, width)
        grep = rng.choice("46") if pa[0] == "4" else "6"
        f = gen_flow(rng, pa[0])
        r = rng.random()
        mask = ((1 << width) - 1) >> bits
        if r < 0.45:     # inside: keep the prefix bits, random host bits
            f["dst"] = (pa[0], (pa[1] & ~mask & ((1 << width) - 1)) | (rng.getrandbits(width) & mask))
        elif r < 0.8 and bits > 0:   # just outside: flip one prefix bit (biased to the last one)
            b = bits - 1 if rng.random() < 0.6 else rng.randrange(bits)
            f["dst"] = (pa[0], ((pa[1] & ~mask & ((1 << width) - 1)) | (rng.getrandbits(width) & mask)) ^ (1 << (width - 1 - b)))
        f["gd"] = rng.choice("46") if f["dst"][0] == "4" else "6"
        return {"k": "lpm", "paddr": pa, "pbits": bits, "grep": grep, "flow": f}
    if kind == "dom":
        f = gen_flow(rng)
        while f["dst"][1] == 0:
            f = gen_flow(rng)
        return {"k": "dom", "flow": f, "grep": f["gd"]}
    if kind == "mac":
        f = gen_flow(rng)
        return {"k": "mac", "flow": f}
    mk = rng.choice(["port", "sport", "l4proto", "ipversion", "dscp", "pname", "ip", "sip", "mac", "domain", "fallback"])
    c = {"k": "ms", "kind": mk, "a": 0, "b": 0, "pname": "", "not": rng.random() < 0.3, "must": rng.random() < 0.3,
         "mark": rng.choice([0, 1, 0xffffffff, 0x08000000, 0x01020304]) if rng.random() < 0.6 else rng.getrandbits(32),
         "outbound": rng.choice([0, 1, 2, 100, 251])}
    if mk in ("port", "sport"):
        lo = rng.choice(PORT_EDGE) if rng.random() < 0.5 else rng.getrandbits(16)
        hi = rng.choice(PORT_EDGE) if rng.random() < 0.5 else rng.getrandbits(16)
        c["a"], c["b"] = min(lo, hi), max(lo, hi)
    elif mk in ("l4proto", "ipversion"):
        c["a"] = rng.choice([1, 2, 3])
    elif mk == "dscp":
        c["a"] = rng.choice([0, 1, 46, 63, 255, rng.getrandbits(8)])
    elif mk == "pname":
        name = rng.choice([b"curl", b"a", b"0123456789abcdef", b"", bytes(rng.getrandbits(8) for _ in range(16))])
        c["pname"] = (name + b"\0" * 16)[:16].hex()
    elif mk in ("ip", "sip", "mac"):
        c["a"] = rng.choice([0, 1, 2, 255, 256, 1031, 65536])
    return c


def ip_str(a, rep):
    fam, v = a
    if fam == "4":
        s = str(ipaddress.IPv4Address(v))
        return s if rep == "4" else "::ffff:" + s
    s = str(ipaddress.IPv6Address(v))
    if (v >> 32) == 0xffff:
        s = "::ffff:" + str(ipaddress.IPv4Address(v & 0xffffffff))
    return s


def ap_str(a, rep, port):
    s = ip_str(a, rep)
    return "%s:%d" % (s, port) if ":" not in s else "[%s]:%d" % (s, port)


def go_inputs(c):
    """Go harness input lines for one case"""
    k = c["k"]
    f = c.get("flow")
    if k == "tuple":
        return [{"op": "tuple", "src": ap_str(f["src"], f["gs"], f["sport"]), "dst": ap_str(f["dst"], f["gd"], f["dport"]), "proto": f["proto"]}]
    if k == "rev":    # the control plane's key for the flow a reply packet f belongs to: tuple (dst -> src)
        return [{"op": "tuple", "src": ap_str(f["dst"], f["gd"], f["dport"]), "dst": ap_str(f["src"], f["gs"], f["sport"]), "proto": f["proto"]}]
    if k == "jan":
        return []      # needs the kernel-written bytes first: see run_impl
    if k == "conn":
        return [{"op": "conn", "outbound": c["outbound"], "l4": "udp" if c["nt"]["udp"] else "tcp", "ipv": "6" if c["v6"] else "4",
                 "isdns": c["nt"]["isdns"], "dom": c["nt"]["dom"]}]
    if k == "lpm":
        fam, v = c["paddr"]
        bits = c["pbits"] + (96 if (fam == "4" and c["grep"] == "6") else 0)
        return [{"op": "lpm", "prefix": "%s/%d" % (ip_str(c["paddr"], c["grep"]), bits)}]
    if k == "dom":
        return [{"op": "domkey", "ip": ip_str(f["dst"], c["grep"])}]
    if k == "mac":
        return [{"op": "mackey", "pname": f["mac"]}]
    return [{"op": "matchset", "kind": c["kind"], "a": c["a"], "b": c["b"], "pname": c["pname"], "not": c["not"], "must": c["must"],
             "mark": c["mark"], "outbound": c["outbound"]}]


def t_line(f):
    fam = f["src"][0]
    w = 8 if fam == "4" else 32
    return "T %s %0*x %0*x %d %d %d %s" % (fam, w, f["src"][1], w, f["dst"][1], f["sport"], f["dport"], f["proto"], f["mac"])


def c_inputs(c, go_res):
    k = c["k"]
    if k in ("tuple", "dom", "mac", "rev"):
        return [t_line(c["flow"])]
    if k == "jan":
        f = c["flow"]
        w = 8 if f["src"][0] == "4" else 32
        return ["J %s %0*x %0*x %d %d %d" % (f["src"][0], w, f["src"][1], w, f["dst"][1], f["sport"], f["dport"], 1 if c["rst"] else 0)]
    if k == "conn":
        return ["K %d %d %d %s" % (c["outbound"], c["l4proto"], c["dport"], "6" if c["v6"] else "4")]
    if k == "lpm":
        hx = go_res[0].get("hex") or "-"
        f2 = dict(c["flow"])
        if f2["dport"] == 53:      # a DNS packet is answered "control plane routing" whether or not the rule hit
            f2["dport"] = 443
        return [t_line(c["flow"]), "P 0 %s" % hx, t_line(f2), "P 0 -"]
    return ["V %s" % (go_res[0].get("hex") or "00")]


def run_impl(sc, gobin, cbin, cases, tag):
    """fills c['go'] (list of harness results) and c['c'] (list of answer lines)"""
    inp, outp = sc.path("c19_%s.in" % tag), sc.path("c19_%s.out" % tag)
    counts = []
    with open(inp, "w") as fh:
        for c in cases:
            ins = go_inputs(c)
            counts.append(len(ins))
            for x in ins:
                fh.write(json.dumps(x) + "\n")
    rc, so, se, dt = vlib.run_go_harness(gobin, "TestVerifC19", inp, outp)
    if rc != 0:
        return "Go harness failed rc=%d: %s %s" % (rc, so[-1500:], se[-1500:])
    res = [json.loads(l) for l in open(outp)]
    if len(res) != sum(counts):
        return "Go harness answered %d lines for %d inputs" % (len(res), sum(counts))
    i = 0
    lines, ccounts = [], []
    for c, n in zip(cases, counts):
        c["go"] = res[i:i + n]
        i += n
        ci = c_inputs(c, c["go"])
        ccounts.append(len(ci))
        lines += ci
    rc, so, se, dt = vlib.run([cbin], cwd=os.path.dirname(cbin), input="\n".join(lines) + "\n", timeout=300)
    if rc != 0:
        return "C driver failed rc=%d: %s" % (rc, (so[-500:] + se[-1500:]))
    outl = so.split("\n")
    if outl and outl[-1] == "":
        outl.pop()
    if len(outl) != len(lines):
        return "C driver answered %d lines for %d commands" % (len(outl), len(lines))
    i = 0
    for c, n in zip(cases, ccounts):
        c["c"] = outl[i:i + n]
        i += n
    # second Go pass: the janitor's selection on the bytes the kernel code wrote
    jan = [c for c in cases if c["k"] == "jan"]
    if jan:
        inp2, outp2 = sc.path("c19_%s_j.in" % tag), sc.path("c19_%s_j.out" % tag)
        todo = []
        with open(inp2, "w") as fh:
            for c in jan:
                m = re.match(r"J key=(\w+) syn=(\w+) fin=(\w+)$", c["c"][0])
                if not m:
                    c["go"] = [{"err": "kernel lifecycle did not produce SYN and FIN entries: " + c["c"][0]}]
                    continue
                fh.write(json.dumps({"op": "janitor", "keyhex": m.group(1), "valhex": m.group(3) if c["fin"] else m.group(2), "ages": c["ages"]}) + "\n")
                todo.append(c)
        if todo:
            rc, so, se, dt = vlib.run_go_harness(gobin, "TestVerifC19", inp2, outp2)
            if rc != 0:
                return "Go harness (janitor pass) failed rc=%d: %s %s" % (rc, so[-1500:], se[-1500:])
            res = [json.loads(l) for l in open(outp2)]
            if len(res) != len(todo):
                return "Go harness (janitor pass) answered %d lines for %d inputs" % (len(res), len(todo))
            for c, r in zip(todo, res):
                c["go"] = [r]
    return None


# ----------------------------------------------------------------------------------------------------------------
# cases -> Coq
# ----------------------------------------------------------------------------------------------------------------

def hexbytes(h):
    """byte list as one hex literal expanded in Coq (parsing one number is much cheaper than a list of literals)"""
    n = len(h) // 2
    return "(be_bytes %d%%nat 0x%s)" % (n, h) if n else "[]"


def c_ip(a, pool):
    return "(%s %s)" % ("IP4" if a[0] == "4" else "IP6", pool.n(a[1]))


def c_go(a, rep, pool):
    if a[0] == "4":
        return "(G4 %s)" % pool.n(a[1]) if rep == "4" else "(G6 %s)" % pool.n((0xffff << 32) | a[1])
    return "(G6 %s)" % pool.n(a[1])


def c_flow(f, pool):
    return "(mkflow %s %s %d %d %d)" % (c_ip(f["src"], pool), c_ip(f["dst"], pool), f["sport"], f["dport"], f["proto"])


def parse_t(line):
    """T <hex> [ip=..] [sip=..] [mac=..] [dom=..] route=N"""
    parts = line.split()
    if not parts or parts[0] != "T":
        return None
    d = {"tuple": parts[1]}
    for p in parts[2:]:
        k, v = p.split("=", 1)
        d[k] = v
    return d


MS_TYPE = {"port": "Port", "sport": "SourcePort", "l4proto": "L4Proto", "ipversion": "IpVersion", "dscp": "Dscp", "pname": "ProcessName",
           "ip": "IpSet", "sip": "SourceIpSet", "mac": "Mac", "domain": "DomainSet", "fallback": "Fallback"}


def case_to_coq(c, pool, info):
    """returns (coq term or None, pre_errors list of (code, text))"""
    k = c["k"]
    g = c["go"]
    pre = []
    for r in g:
        if r.get("err"):
            return None, [(4, "Go side failed: " + r["err"])]
    for l in c["c"]:
        if l.startswith("ERR"):
            return None, [(5, "C side failed: " + l)]
    f = c.get("flow")
    if k == "tuple":
        t = parse_t(c["c"][0])
        return "(KTuple %s %s %s %s %s)" % (c_flow(f, pool), c_go(f["src"], f["gs"], pool), c_go(f["dst"], f["gd"], pool),
                                            hexbytes(g[0]["hex"]), hexbytes(t["tuple"])), pre
    if k == "jan":
        r = g[0]
        return "(KJan %s %d %s %s %s %s)" % (vlib.cbool(c["fin"]), r["state"], pool.n(c["ages"][0]), pool.n(c["ages"][1]),
                                             vlib.cbool(r["deleted"][0]), vlib.cbool(r["deleted"][1])), pre
    if k == "rev":
        t = parse_t(c["c"][0])
        if "rev" not in t or "rt" not in t:
            return None, [(5, "C driver did not report the reversed / redirect keys: " + c["c"][0])]
        prior = "aa" * (len(t["rev"]) // 2)
        return "(KRev %s %s %s %s %s %s %s)" % (c_flow(f, pool), c_go(f["src"], f["gs"], pool), c_go(f["dst"], f["gd"], pool), hexbytes(prior),
                                                 hexbytes(g[0]["hex"]), hexbytes(t["rev"]), hexbytes(t["rt"])), pre
    if k == "conn":
        m = re.match(r"K (\S+) alive=(\d) lookups=(\d+)", c["c"][0])
        ck = "None" if m.group(1) == "none" else "(Some %s)" % m.group(1)
        dom = ["DomTCP", "DomDnsUDP", "DomDataUDP"][c["dom"]]
        nt = "(mknt %s %s %s)" % (vlib.cbool(c["nt"]["udp"]), vlib.cbool(c["v6"]), ["UdUnset", "UdDns", "UdData"][c["nt"]["dom"]])
        return "(KConn %d %s %s %s %d %s %d %s)" % (c["outbound"], dom, vlib.cbool(c["v6"]), nt, c["l4proto"], vlib.cbool(c["dport"] == 53),
                                                    g[0]["key"], ck), pre
    if k == "lpm":
        t = parse_t(c["c"][0])
        if "ip" not in t or "sip" not in t:
            return None, [(5, "route() issued no LPM lookups: " + c["c"][0])]
        hit = (int(parse_t(c["c"][2])["route"]) & 0xff) == 1
        pa = c["paddr"]
        gbits = c["pbits"] + (96 if (pa[0] == "4" and c["grep"] == "6") else 0)
        return "(KLpm (mkprefix %s %d) %s %d %s %s %s %s %s)" % (c_ip(pa, pool), c["pbits"], c_go(pa, c["grep"], pool), gbits, hexbytes(g[0]["hex"]),
                                                              c_flow(f, pool), hexbytes(t["ip"]), hexbytes(t["sip"]), vlib.cbool(hit)), pre
    if k == "dom":
        t = parse_t(c["c"][0])
        if len(g[0].get("keys") or []) != 1:
            return None, [(4, "Go produced %d domain keys for one address" % len(g[0].get("keys") or []))]
        if "dom" not in t:
            return None, [(5, "route() issued no domain_routing_map lookup: " + c["c"][0])]
        return "(KDom %s %s %s %s)" % (c_flow(f, pool), c_go(f["dst"], c["grep"], pool), hexbytes(g[0]["keys"][0]), hexbytes(t["dom"])), pre
    if k == "mac":
        t = parse_t(c["c"][0])
        if len(g[0].get("keys") or []) != 1:
            return None, [(4, "Go produced %d keys for one MAC" % len(g[0].get("keys") or []))]
        if "mac" not in t:
            return None, [(5, "route() issued no MAC lookup: " + c["c"][0])]
        return "(KMac %s %s %s)" % (hexbytes(f["mac"]), hexbytes(g[0]["keys"][0]), hexbytes(t["mac"])), pre
    # match set
    m = re.match(r"V index=(\d+) port_start=(\d+) port_end=(\d+) l4proto_type=(\d+) ip_version=(\d+) dscp=(\d+) not=(\d+) type=(\d+) outbound=(\d+) must=(\d+) mark=(\d+) pname=(\w+)", c["c"][0])
    if not m:
        return None, [(5, "C side cannot read the Go match_set image: " + c["c"][0])]
    idx, ps, pe, l4m, ipm, dscp, not_, typ, ob, must, mark = [int(x) for x in m.groups()[:11]]
    pn = m.group(12)
    img = bytes.fromhex(g[0]["hex"])
    consts = {n: cv for n, cv, gv, jv in info["consts"]}
    want_type = consts["MatchType_" + MS_TYPE[c["kind"]]]
    if c["kind"] == "fallback":     # addFallback parses its own outbound expression: no mark, no must, no negation
        c = dict(c, must=False, mark=0)
        c["not"] = False
    hdr_ok = (typ == want_type and ob == c["outbound"] and must == int(c["must"]) and mark == c["mark"] and not_ == int(c["not"]))
    if not hdr_ok:
        pre.append((6, "match_set header as read by C (type=%d outbound=%d must=%d mark=%d not=%d) differs from what Go was asked to write (type=%d outbound=%d must=%d mark=%d not=%d)"
                    % (typ, ob, must, mark, not_, want_type, c["outbound"], int(c["must"]), c["mark"], int(c["not"]))))
    voff = info["go_value_off"]
    val = img[voff:voff + 16].hex()
    kind = c["kind"]
    if kind in ("port", "sport"):
        v, r = "(MSPortRange %d %d)" % (c["a"], c["b"]), "(MSPortRange %d %d)" % (ps, pe)
    elif kind == "l4proto":
        v, r = "(MSMask %d)" % c["a"], "(MSMask %d)" % l4m
    elif kind == "ipversion":
        v, r = "(MSMask %d)" % c["a"], "(MSMask %d)" % ipm
    elif kind == "dscp":
        v, r = "(MSDscp %d)" % c["a"], "(MSDscp %d)" % dscp
    elif kind == "pname":
        v, r = "(MSPname %s)" % hexbytes(c["pname"]), "(MSPname %s)" % hexbytes(pn)
    elif kind in ("ip", "sip", "mac"):
        v, r = "(MSIndex %d)" % c["a"], "(MSIndex %d)" % idx
    else:
        v, r = "(MSIndex 0)", "(MSIndex %d)" % idx
    return "(KMs %s %s %s)" % (v, hexbytes(val), r), pre


def evaluate(cases, tag, info):
    pool = vlib.NumPool()
    terms, idx, errors = [], [], {}
    for i, c in enumerate(cases):
        t, pre = case_to_coq(c, pool, info)
        if pre:
            errors[i] = list(pre)
        if t is not None:
            terms.append(t)
            idx.append(i)
    text = ("From Coq Require Import List NArith Bool String.\nFrom Dae Require Import C19_Spec C19_Lang C19_Model C19_Check.\n"
            "Import ListNotations.\nOpen Scope N_scope.\n" + pool.header() +
            "Definition cases : list kcase := [\n" + ";\n".join(terms) + "\n].\n"
            "Definition R := Eval vm_compute in map check_case cases.\nPrint R.\n"
            "Definition S := Eval vm_compute in map case_signature cases.\nPrint S.\n")
    ok, out = vlib.coq_eval("C19_cases_%s" % tag, text)
    if not ok:
        return None, None, "coq evaluation failed: " + out[-2500:]
    vals = coq_values(out, ["R", "S"])
    if vals is None or len(vals["R"]) != len(idx):
        return None, None, "cannot parse coq output: " + out[:600]
    for i, codes in zip(idx, vals["R"]):
        if codes:
            errors.setdefault(i, [])
            errors[i] += [(code, "") for code in codes]
    return errors, [tuple(s) for s in vals["S"]], None


# ----------------------------------------------------------------------------------------------------------------
# layout stage: model vs compilers, compilers vs compilers
# ----------------------------------------------------------------------------------------------------------------

def parse_c_layout_output(text):
    sizes, fields, consts, maps = {}, {}, {}, {}
    for l in text.split("\n"):
        if l.startswith("S "):
            n, s, a = l[2:].split("|")
            sizes[n] = (int(s), int(a))
        elif l.startswith("F "):
            n, p, o, s = l[2:].split("|")
            fields.setdefault(n, []).append((p, int(o), int(s)))
        elif l.startswith("C "):
            _, n, v = l.split()
            consts[n] = int(v)
        elif l.startswith("M "):
            _, n, ks, vs, mx = l.split()
            maps[n] = (int(ks), int(vs), int(mx))
    return sizes, fields, consts, maps


def norm_path(p):
    return ".".join(norm(x) for x in p.split("."))


def go_norm_path(p):
    return ".".join("_" if x == "_" else norm(x) for x in p.split("."))


def layout_stage(sc, info, cbin, go_layouts):
    """returns (tie_problems, violations, stats).  violations: list of (matcher, payload, description)"""
    tie, viol = [], []
    text = ("From Coq Require Import List NArith Bool String.\nFrom Dae Require Import C19_Spec C19_Lang C19_Model C19_Check.\n"
            "From Dae.gen Require Import C19_Decls.\nImport ListNotations.\nOpen Scope N_scope.\n"
            "Definition CS := Eval vm_compute in c_summary.\nPrint CS.\nDefinition CF := Eval vm_compute in c_first_summary.\nPrint CF.\n"
            "Definition GS := Eval vm_compute in go_summary.\nPrint GS.\nDefinition PR := Eval vm_compute in pair_report.\nPrint PR.\n"
            "Definition GP := Eval vm_compute in gopair_report.\nPrint GP.\nDefinition CR := Eval vm_compute in const_report.\nPrint CR.\n"
            "Definition MR := Eval vm_compute in magic_report.\nPrint MR.\n"
            "Definition OK := Eval vm_compute in (forallb (fun d => ty_ok (snd d) && lang_ok LC (snd d)) c_decls, forallb (fun d => ty_ok (snd d) && lang_ok LGo (snd d)) go_decls).\nPrint OK.\n")
    ok, out = vlib.coq_eval("C19_layouts", text)
    vals = coq_values(out, ["CS", "CF", "GS", "PR", "GP", "CR", "MR", "OK"]) if ok else None
    if vals is None:
        return ["layout evaluation in Coq failed: " + out[-1500:]], [], {}
    if vals["OK"] != (True, True):
        tie.append("a declaration is outside the shape covered by C19_layout_functions_sound (ty_ok/lang_ok): %s" % (vals["OK"],))
    # --- clang
    rc, so, se, dt = vlib.run([cbin], cwd=os.path.dirname(cbin), input="L\n", timeout=60)
    if rc != 0:
        return ["C driver failed on L: " + se[-800:]], [], {}
    csz, cfl, cconst, cmaps = parse_c_layout_output(so)
    n_cmp = 0
    cl_leaf = {}   # decl -> {normpath: (off, size)}
    for (name, size, align, leaves) in vals["CS"]:
        if name not in csz:
            tie.append("clang did not report " + name)
            continue
        if csz[name] != (size, align):
            tie.append("c_layout(%s) size/align %s <> clang %s" % (name, (size, align), csz[name]))
        cf = cfl.get(name, [])
        if len(cf) != len(leaves):
            tie.append("c_layout(%s): %d leaves, clang table %d" % (name, len(leaves), len(cf)))
            continue
        cl_leaf[name] = {}
        for (ln, off, w, n, pad), (p, co, cs) in zip(leaves, cf):
            n_cmp += 1
            cl_leaf[name][norm_path(p)] = (co, cs)
            if norm_path(p) != ln or off != co or w * n != cs:
                tie.append("c_layout(%s).%s = (off %d, %d x %d) <> clang %s (off %d, size %d)" % (name, ln, off, w, n, p, co, cs))
    if cconst.get("IPPROTO_TCP") != 6 or cconst.get("IPPROTO_UDP") != 17:
        tie.append("IPPROTO_* of the C headers: %s" % cconst)
    # --- go/types (amd64, arm64) for every Go declaration, reflect for stub types
    gt = {}
    for key, s in info["go_decl_list"]:
        gt[key] = s["sizes"]
    refl = {"stub:" + l["name"]: l for l in go_layouts}
    go_leaf = {}
    for (name, size, align, leaves) in vals["GS"]:
        sources = [("go/types " + arch, gt[name][arch]) for arch in ("amd64", "arm64")]
        if name in refl:
            sources.append(("compiled (reflect)", refl[name]))
        elif name.startswith("stub:"):
            tie.append("Go harness does not report the compiled layout of %s (new type: add it to harness/control/c19_test.go)" % name)
        for what, lay in sources:
            if (lay["size"], lay["align"]) != (size, align):
                tie.append("go_layout(%s) size/align %s <> %s %s" % (name, (size, align), what, (lay["size"], lay["align"])))
            ll = lay["leaves"]
            if len(ll) != len(leaves):
                tie.append("go_layout(%s): %d leaves, %s %d" % (name, len(leaves), what, len(ll)))
                continue
            for (ln, off, w, n, pad), l in zip(leaves, ll):
                n_cmp += 1
                if go_norm_path(l["path"]) != ln or l["off"] != off or l["size"] != w or l["n"] != n:
                    tie.append("go_layout(%s).%s = (off %d, %d x %d) <> %s %s" % (name, ln, off, w, n, what, l))
        src = refl.get(name) or gt[name]["amd64"]
        go_leaf[name] = (src["size"], [(go_norm_path(l["path"]), l["off"], l["size"], l["n"]) for l in src["leaves"]])
    # --- compilers vs compilers: the property itself on the compilers' numbers (first union member, padding dropped)
    cfirst = {name: (size, leaves) for (name, size, align, leaves) in vals["CF"]}
    gsum = {name: (size, leaves) for (name, size, align, leaves) in vals["GS"]}
    for (cn, gn, agree) in vals["PR"]:
        cname = "struct " + cn
        problems = []
        if cname in cl_leaf and gn in go_leaf:
            c_data = [(ln, cl_leaf[cname][ln][0], w, n) for (ln, off, w, n, pad) in cfirst[cname][1] if not pad and ln in cl_leaf[cname]]
            g_data = [(ln, off, w, n) for (ln, off, w, n), (_, _, _, _, pad) in zip(go_leaf[gn][1], gsum[gn][1]) if not pad]
            if csz[cname][0] != go_leaf[gn][0]:
                problems.append("sizeof %d (clang) <> %d (Go)" % (csz[cname][0], go_leaf[gn][0]))
            for i in range(max(len(c_data), len(g_data))):
                a = c_data[i] if i < len(c_data) else None
                b = g_data[i] if i < len(g_data) else None
                if a != b:
                    problems.append("field #%d: C %s <> Go %s  (name, offset, width, count)" % (i, a, b))
                    break
        if problems or not agree:
            m_agree = "model: pair_agree = %s" % agree
            viol.append(("layout:%s:%s" % (cn, gn), {"c_decl": cname, "go_decl": gn, "compilers": problems, "model": m_agree,
                                                     "c_layout": cfirst.get(cname), "go_layout": gsum.get(gn)},
                         "C %s and Go %s do not have the same layout: %s" % (cname, gn, "; ".join(problems) or m_agree)))
            if bool(problems) == bool(agree):
                tie.append("pair %s/%s: compilers say %s, model says agree=%s" % (cn, gn, problems, agree))
    for (n, agree) in vals["GP"]:
        if not agree:
            viol.append(("realstub:%s" % n, {"go_type": n, "real": gsum.get("real:" + n), "stub": gsum.get("stub:" + n)},
                         "real-build and stub-build declarations of Go type %s differ" % n))
    for (n, agree), (n2, cv, gv, jv) in zip(vals["CR"], info["consts"]):
        if not agree:
            viol.append(("const:%s" % n, {"constant": n, "c_value": cv, "go_value": gv, "json_spec_value": jv},
                         "shared constant %s: C %s, Go %s, JSON spec %s" % (n, cv, gv, jv)))
    for (n, agree), (where, val, req, allowed, lit, meaning) in zip(vals["MR"], info["magic_rows"]):
        if not agree:
            fld = where.split()[0]
            viol.append(("magic:%s:%s" % (fld, where.split("@")[1].split(":")[0]),
                         {"go_use": where, "go_value": val, "written_as": "integer literal" if lit else "named constant", "meaning_in_go": meaning,
                          "value_of_that_enumerator_in_c": req, "declared_c_values": allowed if len(allowed) <= 64 else "0..255",
                          "c_enum_tcp_state": {k: v for k, v in info["cenum"].items() if k.startswith("TCP_STATE_")}},
                         "Go uses %s for %s where the kernel's %s is %s (declared C values %s): %s"
                         % (val, fld, meaning or "enumeration", req, allowed if len(allowed) <= 16 else "...", where)))
    for u in info["magic_unrecognised"]:
        tie.append("unrecognised use of a kernel-mirror field against a constant: " + u)
    if cconst.get("TCP_STATE_ACTIVE") != info["cenum"].get("TCP_STATE_ACTIVE") or cconst.get("TCP_STATE_CLOSING") != info["cenum"].get("TCP_STATE_CLOSING"):
        tie.append("enum tcp_state: parser %s, clang %s" % ({k: v for k, v in info["cenum"].items() if k.startswith("TCP_STATE_")}, cconst))
    for u in info["unpaired"]:
        viol.append(("unpaired:%s" % u, {"go_type": u}, "Go mirror type %s has no C declaration of the corresponding name" % u))
    # --- map key/value sizes (C side) against the mirrors used for them
    stats = {"layout_numbers_compared": n_cmp, "c_maps": cmaps}
    return tie, viol, stats


LIMIT_PROBES = [32, 1000, 1024, 1056, 2048]


def limit_stage(sc, d, info):
    """differential for the build-time override: C limits compiled with -DMAX_MATCH_SET_LEN=N, Go limits of a binary linked with
    -X consts.MaxMatchSetLen_=N, the model's derivations.  returns (tie, violations, stats)"""
    import subprocess
    tie, viol = [], []
    ok, out = vlib.coq_eval("C19_limits", "From Coq Require Import List NArith Bool String.\nFrom Dae Require Import C19_Spec C19_Lang C19_Model C19_Check.\n"
                            "Import ListNotations.\nOpen Scope N_scope.\nDefinition LR := Eval vm_compute in limit_report [%s].\nPrint LR.\n" % "; ".join(str(n) for n in LIMIT_PROBES))
    vals = coq_values(out, ["LR"]) if ok else None
    if vals is None:
        return ["limit evaluation in Coq failed: " + out[-800:]], [], {}
    model = {}
    for row in vals["LR"]:
        n, (acc, m, agree), (cr, cw, cl) = row[0], row[1], row[2]
        model[n] = {"accepted": acc, "go_limit": m, "agree": agree, "c": (cr, cw, cl)}
    # C: the model's numbers must be what clang derives (compile-time assertions, parse only)
    procs = []
    for n in LIMIT_PROBES:
        cr, cw, cl = model[n]["c"]
        fn = os.path.join(d, "c19_lim_%d.c" % n)
        open(fn, "w").write('#include "tproxy.c"\n_Static_assert(MAX_MATCH_SET_LEN == %d, "rule limit");\n_Static_assert(MAX_LPM_NUM == %d, "lpm slots");\n'
                            '_Static_assert(sizeof(struct domain_routing) / sizeof(__u32) == %d, "bitmap words");\n'
                            '_Static_assert(sizeof(*((typeof(routing_map) *)0)->max_entries) / sizeof(int) == %d, "routing_map entries");\n' % (cr, cl, cw, cr))
        procs.append((n, subprocess.Popen(["clang", "-DMAX_MATCH_SET_LEN=%d" % n, "-Wno-everything", "-fsyntax-only", "-I", d, fn], cwd=d,
                                          stdout=subprocess.PIPE, stderr=subprocess.PIPE, text=True)))
    # Go: one test binary of package consts per N, linked with -X as the Makefile does
    ov = sc.path("overlay_consts.json")
    json.dump({"Replace": {os.path.join(vlib.REPO, "common", "consts", "zz_verif_c19limit_test.go"): os.path.join(vlib.VERIF, "harness", "consts", "c19limit_test.go")}}, open(ov, "w"))
    gprocs = []
    for n in LIMIT_PROBES:
        outb = sc.path("consts_%d.test" % n)
        gprocs.append((n, outb, subprocess.Popen(["go", "test", "-c", "-vet=off", "-tags", vlib.TAGS, "-overlay", ov,
                                                  "-ldflags", "-X github.com/daeuniverse/dae/common/consts.MaxMatchSetLen_=%d" % n, "-o", outb, "./common/consts"],
                                                 cwd=vlib.REPO, env=vlib.go_env(), stdout=subprocess.PIPE, stderr=subprocess.PIPE, text=True)))
    for n, p in procs:
        so, se = p.communicate(timeout=120)
        if p.returncode != 0:
            tie.append("C limits for -DMAX_MATCH_SET_LEN=%d differ from the model's derivation %s: %s" % (n, model[n]["c"], se[-300:]))
    observed = {}
    for n, outb, p in gprocs:
        so, se = p.communicate(timeout=600)
        if p.returncode != 0 or not os.path.exists(outb):
            return tie + ["Go limit helper does not build for N=%d: %s" % (n, (so + se)[-600:])], [], {}
        res = sc.path("limit_%d.out" % n)
        rc, so, se, dt = vlib.run_go_harness(outb, "TestVerifC19Limit", "/dev/null", res, timeout=60)
        if rc == 0 and os.path.exists(res):
            a, b = open(res).read().split()
            observed[n] = {"accepted": True, "go_limit": int(a), "go_words": int(b)}
        elif "panic" in so + se:
            observed[n] = {"accepted": False, "panic": [l for l in (so + se).split("\n") if "panic" in l][:1]}
        else:
            return tie + ["Go limit helper failed for N=%d: %s" % (n, (so + se)[-600:])], [], {}
    for n in LIMIT_PROBES:
        o, mo = observed[n], model[n]
        cr, cw, cl = mo["c"]
        if o["accepted"] != mo["accepted"] or (o["accepted"] and o["go_limit"] != mo["go_limit"]):
            tie.append("limit override N=%d: Go binary %s, model of init() %s" % (n, o, mo))
        if o["accepted"] and not (o["go_limit"] == cr and o["go_words"] == cw and cw * 32 == cr and o["go_limit"] <= cl):
            viol.append(("limit:%d" % n, {"MAX_MATCH_SET_LEN": n, "kernel": {"rules": cr, "bitmap_words": cw, "lpm_slots": cl},
                                          "control_plane": {"rules": o["go_limit"], "bitmap_words": o["go_words"], "lpm_ring_modulus": o["go_limit"]},
                                          "how": "make MAX_MATCH_SET_LEN=%d: clang -DMAX_MATCH_SET_LEN=%d control/kern/tproxy.c; go build -ldflags '-X github.com/daeuniverse/dae/common/consts.MaxMatchSetLen_=%d'" % (n, n, n)},
                         "build option MAX_MATCH_SET_LEN=%d: kernel runs with %d rules / %d bitmap words / %d LPM slots, control plane with %d rules / %d words" % (n, cr, cw, cl, o["go_limit"], o["go_words"])))
    return tie, viol, {"probes": LIMIT_PROBES, "observed": observed, "go_init_steps": info["limit"]["steps"]}


def bpf_target_check(sc, d, info, csz, cfl):
    """second opinion: the same numbers hold for -target bpf (compile-time _Static_assert)"""
    L = ['#include "tproxy.c"']
    for name, (s, a) in csz.items():
        L.append('_Static_assert(sizeof(%s) == %d, "sizeof %s");' % (name, s, name))
        L.append('_Static_assert(_Alignof(%s) == %d, "alignof %s");' % (name, a, name))
        for (p, o, fs) in cfl.get(name, []):
            L.append('_Static_assert(offsetof(%s, %s) == %d, "offsetof %s.%s");' % (name, p, o, name, p))
    open(os.path.join(d, "c19_bpf_sa.c"), "w").write("\n".join(L) + "\n")
    inc = "/usr/include/x86_64-linux-gnu"
    rc, so, se, dt = vlib.run(["clang", "-target", "bpf", "-D__x86_64__", "-O2", "-Wno-everything", "-fsyntax-only", "-I", d, "-I", inc, "c19_bpf_sa.c"],
                              cwd=d, timeout=120)
    if rc == 0:
        return "agrees", None
    if "static_assert" in se or "static assertion" in se:
        return "differs", se[-1200:]
    return "unavailable", se[-400:]


# ----------------------------------------------------------------------------------------------------------------
# shrinking: simplify the fields of a failing entity while it keeps failing with the same code
# ----------------------------------------------------------------------------------------------------------------

def simpler_values(v, width):
    c = [0, 1, v & 0xff, v >> (width - 8) << (width - 8) if width >= 8 else 0, v & ~(v - 1) if v else 0]
    return [x for x in dict.fromkeys(c) if x != v and x < v]


def shrink(sc, gobin, cbin, case, want, info):
    def fails(c):
        c = json.loads(json.dumps(c))
        for k in ("go", "c"):
            c.pop(k, None)
        fix_lists(c)
        if run_impl(sc, gobin, cbin, [c], "shrink"):
            return False
        errs, _, e = evaluate([c], "shrink", info)
        return e is None and any(code == want for code, _ in errs.get(0, []))
    cur = json.loads(json.dumps(case))
    for k in ("go", "c"):
        cur.pop(k, None)
    fix_lists(cur)
    steps = 0
    changed = True
    while changed and steps < 10:
        changed = False
        cands = []
        f = cur.get("flow")
        if f:
            for fld in ("sport", "dport"):
                cands += [("flow", fld, x) for x in simpler_values(f[fld], 16)[:2]]
            for fld in ("src", "dst"):
                w = 32 if f[fld][0] == "4" else 128
                cands += [("flow", fld, (f[fld][0], x)) for x in simpler_values(f[fld][1], w)[:2]]
            if f["proto"] not in (6, 17):
                cands.append(("flow", "proto", 6))
        for fld, w in (("outbound", 8), ("a", 32), ("b", 32), ("mark", 32), ("pbits", 8)):
            if fld in cur and isinstance(cur[fld], int):
                cands += [(None, fld, x) for x in simpler_values(cur[fld], w)[:2]]
        for fld in ("not", "must"):
            if cur.get(fld):
                cands.append((None, fld, False))
        for where, fld, val in cands:
            steps += 1
            if steps > 10:
                break
            t = json.loads(json.dumps(cur))
            fix_lists(t)
            if where:
                t[where][fld] = val
            else:
                t[fld] = val
            if t.get("k") == "ms" and t.get("kind") in ("port", "sport") and t["a"] > t["b"]:
                continue
            if fails(t):
                cur = t
                changed = True
                break
    return cur


def fix_lists(c):
    """json round trip turns tuples into lists"""
    for key in ("paddr",):
        if key in c:
            c[key] = tuple(c[key])
    if "flow" in c:
        for key in ("src", "dst"):
            c["flow"][key] = tuple(c["flow"][key])


def matcher_of(case, code):
    k = case["k"]
    if k == "ms":
        return "key:ms:%s:code%d" % (case["kind"], code)
    if k == "conn":
        return "key:conn:dom%d:code%d" % (case["dom"], code)
    if k == "jan":
        return "janitor:%s:code%d" % ("closing" if case["fin"] else "active", code)
    if k == "lpm":
        return "key:lpm:%s:%s:code%d" % (case["paddr"][0], case["grep"], code)
    f = case["flow"]
    return "key:%s:%s%s:code%d" % (k, f["src"][0], f["dst"][0], code)


DESCR_JAN = "the control plane's janitor applies the wrong timeout class to a conn_state entry the kernel wrote (state value mismatch)"
DESCR = {4: "the bytes the Go constructor produces differ from the key of the entity", 5: "the bytes the kernel code computes differ from the key of the entity",
         6: "control plane and kernel compute different keys / values for the same entity"}


def strip_obs(c):
    return {k: v for k, v in c.items() if k not in ()}


def main(argv):
    args = vlib.main_args(argv)
    out = vlib.Outcome(PID, args.tier, args.seed)
    rng = vlib.rng_for(args.seed, PID)
    n_cases = 450 if args.tier == "quick" else 20000
    cov = {"obligations": 0, "discharged": 0,
           "checker_cmd": "cd /verif/coq && coq_makefile -f _CoqProject -o Makefile && make -j16 " + " ".join(TARGETS) + " && coqc -Q . Dae C19_Props.v (Print Assumptions captured)",
           "trusted_base": vlib.TRUSTED_BASE_COMMON + [
               "tools/c19.py C declaration parser and harness/c19tool/c19_extract.go (go/parser + go/types): cross-checked on every run against clang's sizeof/offsetof/_Alignof of every parsed member (host and -target bpf) and against go/types.Sizes (amd64, arm64) and the compiled stub types (reflect)",
               "name normalisation pairing C and Go declarations and fields (lower-case, underscores removed, bpf prefix removed); fields named pad*/_ are padding",
               "harness/c shim headers and maprt.h (host stand-in for the BPF map runtime; LPM trie lookup used for the end-to-end hit test)",
               "bpf2go's real output (bpf_bpfel.go) is not available in this sandbox: the stub-build types stand for it",
               "little-endian hosts (amd64/arm64); the match_set value theorem is explicitly refuted for big-endian hosts"],
           "evaluations": 0, "distinct_nontrivial": 0, "traces_validated_against_impl": 0, "samples": []}
    out.coverage = cov
    out.assumptions = ["dae targets little-endian 64-bit hosts (amd64, arm64) and the bpfel target",
                       "kernel LPM trie semantics: longest entry whose first prefixlen bits equal the key's, prefixlen host-order u32, data compared from byte 0, MSB first",
                       "a map key is the in-memory image of the Go value passed to cilium/ebpf (binary.Write-free fast path for fixed-size host-layout structs)"]

    with vlib.Scratch() as sc:
        # ---- 1. translate
        try:
            info, txt = translate(sc)
        except Anchor as e:
            out.violation("translate", {"broken": "translator", "why": str(e)}, "C19 translator cannot read the anchored declarations: %s" % e, no_failing_input=True)
            return out.finish()
        log("translated in %.1fs" % (vlib.time.time() - out.t0))
        vlib.write_if_changed(os.path.join(vlib.COQ, "gen", "C19_Decls.v"), txt)
        cov["declarations"] = {"c_translated": [d["kind"] + " " + d["name"] for d in info["c_decls"]], "c_kernel_only_skipped": info["c_skipped"],
                               "go": [k for k, _ in info["go_decl_list"]], "pairs": info["pairs"], "real_vs_stub": info["gopairs"],
                               "go_only": GO_ONLY, "shared_constants": len(info["consts"])}
        cov["key_builders"] = {"functions": {n: KEY_BUILDERS[n] for n in info["key_builders"]["builders"]},
                               "key_typed_locals": ["%s(): struct %s %s — %s" % x for x in info["key_builders"]["local_sites"]],
                               "copy_reversed_tuples_clears_destination": info["key_builders"]["reversed_memset"]}

        # ---- 2. proofs
        proof_ok, pinfo = vlib.proof_stage(out, PROPS, TARGETS)
        cov.update(obligations=pinfo["obligations"], discharged=pinfo["discharged"], theorems=pinfo.get("theorems", []),
                   print_assumptions=pinfo.get("assumptions", []))
        if not proof_ok:
            ok2, mlog = vlib.coq_make(["C19_Check.vo"])
            if not ok2:
                out.violation("tie", {"proof": pinfo["failed"], "check_build": mlog[-2000:]}, "C19 Coq development no longer builds", no_failing_input=True)
                return out.finish()

        log("proof stage done at %.1fs" % (vlib.time.time() - out.t0))
        # ---- 3. harnesses
        tie = []
        try:
            lifted = sc.path("c19_lifted_test.go")
            open(lifted, "w").write(gen_lifted_go())
            d = cbuild.prepare(sc)
            tproxy_src = read("control/kern/tproxy.c")
            hdr, macinfo = gen_c_header(info, tproxy_src)
            open(os.path.join(d, "c19_layout_gen.h"), "w").write(hdr)
        except (Anchor, cbuild.CBuildError) as e:
            out.violation("translate", {"broken": "lifting", "why": str(e)}, "C19 cannot lift the real-build functions / prepare the C build: %s" % e, no_failing_input=True)
            return out.finish()
        if not macinfo["mac_sites_identical"]:
            tie.append("the mac_be expressions of lan ingress and wan egress are no longer textually identical; only the lan-ingress one is run")
        cbin, clog = cbuild.compile(d, os.path.join(vlib.VERIF, "harness", "c", "c19_layout.c"), "c19drv")
        gobin, glog = vlib.build_go_test_binary(sc, "control", HARNESS,
                                                extra_overlay={os.path.join(vlib.REPO, "control", "zz_verif_c19_lifted_test.go"): lifted})
        if cbin is None or gobin is None:
            out.violation("build", {"broken": "harness build against the tree failed", "c_log": clog[-2500:] if cbin is None else "", "go_log": glog[-2500:] if gobin is None else ""},
                          "correspondence harness no longer builds against /repo", no_failing_input=True)
            return out.finish()

        # ---- 3a. layouts
        lcase = {"k": "layout"}
        inp, outp = sc.path("lay.in"), sc.path("lay.out")
        open(inp, "w").write(json.dumps({"op": "layout"}) + "\n")
        rc, so, se, dt = vlib.run_go_harness(gobin, "TestVerifC19", inp, outp)
        if rc != 0:
            out.violation("build", {"broken": "Go harness layout op", "log": (so + se)[-2000:]}, "Go harness failed", no_failing_input=True)
            return out.finish()
        gl = json.loads(open(outp).readline())
        for l in gl["layouts"]:
            if l["name"] == "bpfMatchSet":
                info["go_value_off"] = [x["off"] for x in l["leaves"] if x["path"] == "Value"][0]
        # compiled constants vs go/types evaluation
        for k, v in gl.get("consts", {}).items():
            if str(v) != str(info["go"]["consts"].get(k)):
                tie.append("Go constant %s: compiled %s, go/types %s" % (k, v, info["go"]["consts"].get(k)))
        ltie, lviol, lstats = layout_stage(sc, info, cbin, gl["layouts"])
        tie += ltie
        rc, so, se, dt = vlib.run([cbin], cwd=d, input="L\n", timeout=60)
        csz, cfl, _, cmaps = parse_c_layout_output(so)
        bpf_status, bpf_log = bpf_target_check(sc, d, info, csz, cfl)
        mtie, mviol, mstats = limit_stage(sc, d, info)
        tie += mtie
        lviol += mviol
        cov["limit_override"] = mstats
        if bpf_status == "differs":
            tie.append("clang -target bpf lays a declaration out differently from the host build: " + bpf_log)
        cov["layout_cross_checks"] = {"numbers_compared_model_vs_compilers": lstats.get("layout_numbers_compared", 0), "clang_target_bpf": bpf_status,
                                      "go_sizes": ["go/types gc/amd64", "go/types gc/arm64", "compiled stub types (reflect)"],
                                      "mac_expr_sites": macinfo}
        # map key/value sizes declared in C vs the Go mirrors used with those maps
        MAP_TYPES = {"conn_state_map": ("stub:bpfTuplesKey", "stub:bpfConnState"), "routing_handoff_map": ("stub:bpfTuplesKey", "stub:bpfRoutingHandoffEntry"),
                     "redirect_track": ("stub:bpfRedirectTuple", "stub:bpfRedirectEntry"), "routing_map": (4, "stub:bpfMatchSet"),
                     "domain_routing_map": (16, "stub:bpfDomainRouting"), "cookie_pid_map": (8, "stub:bpfPidPname"),
                     "outbound_connectivity_map": (4, 4), "routing_meta_map": (4, 4), "bpf_stats_map": (4, 8), "fast_sock": ("stub:bpfTuplesKey", 8)}
        gsz = {k: s["sizes"]["amd64"]["size"] for k, s in info["go_decl_list"]}
        for mname, (kt, vt) in MAP_TYPES.items():
            if mname not in cmaps:
                tie.append("map %s no longer declared in tproxy.c" % mname)
                continue
            ks = kt if isinstance(kt, int) else gsz.get(kt)
            vs = vt if isinstance(vt, int) else gsz.get(vt)
            if (cmaps[mname][0], cmaps[mname][1]) != (ks, vs):
                lviol.append(("mapsize:%s" % mname, {"map": mname, "c_key_value_size": cmaps[mname][:2], "go_key_value_size": (ks, vs), "go_types": (kt, vt)},
                              "map %s: kernel key/value size %s, control plane uses %s" % (mname, cmaps[mname][:2], (ks, vs))))
        n_layout_items = len(info["pairs"]) + len(info["gopairs"]) + len(info["consts"]) + len(MAP_TYPES) + len(info["magic_rows"])
        cov["magic_number_uses"] = {"checked": len(info["magic_rows"]), "integer_literals": sum(1 for r in info["magic_rows"] if r[4]),
                                    "not_enumerations_skipped": sum(1 for a in info["magic_annotated"] if a[1] in ("data", "go_only")),
                                    "unrecognised": info["magic_unrecognised"],
                                    "uses": [a[0] + " — " + str(a[-1]) for a in info["magic_annotated"] if a[1] not in ("data", "go_only")][:60]}

        log("layout stage done at %.1fs" % (vlib.time.time() - out.t0))
        # ---- 3b. key cases
        corpus = []
        cdir = os.path.join(vlib.VERIF, "corpus", PID)
        if os.path.isdir(cdir):
            for n in sorted(os.listdir(cdir)):
                c = json.load(open(os.path.join(cdir, n)))
                fix_lists(c)
                corpus.append(c)
        if args.replay:
            rp = json.load(open(args.replay))
            c = rp.get("replay", {}).get("case")
            if c:
                fix_lists(c)
                corpus, n_cases = [c], 0
        cases = corpus + [gen_case(rng) for _ in range(n_cases)]
        if args.tier == "thorough" and not args.replay:
            # exhaustive connectivity slots
            for ob in range(256):
                for dom in (0, 1, 2):
                    for v6 in (False, True):
                        nt = {"udp": dom != 0, "dom": {0: 0, 1: 1, 2: 2}[dom], "isdns": dom == 1}
                        cases.append({"k": "conn", "outbound": ob, "dom": dom, "v6": v6, "nt": nt, "l4proto": 6 if dom == 0 else 17, "dport": 53 if dom == 1 else 443})
        all_err, sigs = {}, []
        tie_broken = None
        shard = 3000
        for s in range(0, len(cases), shard):
            chunk = cases[s:s + shard]
            e = run_impl(sc, gobin, cbin, chunk, "b%d" % s)
            if e:
                tie_broken = e
                break
            errs, sg, e = evaluate(chunk, "b%d" % s, info)
            if e:
                tie_broken = e
                break
            for i, v in errs.items():
                if v:
                    all_err[s + i] = v
            sigs += sg
        n_eval = len(cases)
        spec_codes = (4, 5, 6)
        has_spec_fail = any(any(code in spec_codes for code, _ in e) for e in all_err.values()) or bool(lviol)
        widened = False
        if (tie or not proof_ok or any(all(code not in spec_codes for code, _ in e) for e in all_err.values())) and not has_spec_fail and not tie_broken and not args.replay:
            widened = True
            extra = [gen_case(rng) for _ in range(10 * max(n_cases, 1500))]
            for s in range(0, len(extra), shard):
                chunk = extra[s:s + shard]
                if run_impl(sc, gobin, cbin, chunk, "w%d" % s):
                    break
                errs, sg, e = evaluate(chunk, "w%d" % s, info)
                if e:
                    break
                for i, v in errs.items():
                    if v:
                        all_err[len(cases) + s + i] = v
                sigs += sg
            cases += extra
            n_eval = len(cases)

        # ---- 4. classify
        for matcher, payload, descr in lviol:
            out.violation("layout_" + re.sub(r"\W+", "_", matcher), dict(payload, how="declaration-level: compare the two declarations named here (./check C19 re-extracts them)"),
                          descr, matchers=[matcher])
        spec_fail = sorted(i for i, e in all_err.items() if any(code in spec_codes for code, _ in e))
        model_fail = sorted(i for i, e in all_err.items() if any(code in (1, 2) for code, _ in e))
        thm_fail = sorted(i for i, e in all_err.items() if any(code == 3 for code, _ in e))
        reported = set()
        for i in spec_fail:
            code = [c for c, _ in all_err[i] if c in spec_codes]
            code = 6 if 6 in code else code[0]
            m = matcher_of(cases[i], code)
            if m in reported:
                continue
            reported.add(m)
            small = cases[i]
            if not any(t for c, t in all_err[i] if c == code and t):
                small = shrink(sc, gobin, cbin, cases[i], code, info)
                run_impl(sc, gobin, cbin, [small], "final")
            texts = [t for c, t in all_err[i] if t]
            out.violation("impl_vs_spec_" + re.sub(r"\W+", "_", m), {"case": small, "codes": sorted(set(c for c, _ in all_err[i])), "notes": texts,
                                                                     "how": "./check C19 --replay <this file>: feeds the entity to TestVerifC19 and to harness/c/c19_layout.c and compares the raw bytes"},
                          "%s (%s; %d failing entities of this class)" % (DESCR_JAN if cases[i]["k"] == "jan" else DESCR[code], m, sum(1 for j in spec_fail if matcher_of(cases[j], code) == m)), matchers=[m])
            if len(reported) >= 6:
                break
        if not spec_fail and not lviol and (model_fail or thm_fail or tie_broken or tie or not proof_ok):
            what = {}
            if not proof_ok:
                what["proof"] = pinfo["failed"]
            if tie_broken:
                what["correspondence"] = tie_broken
            if tie:
                what["layout_function_vs_compiler"] = tie[:12]
            if model_fail:
                c0 = cases[model_fail[0]]
                what["correspondence_case"] = {"case": c0, "errors": all_err[model_fail[0]]}
            if thm_fail:
                what["model_vs_spec_case"] = {"case": cases[thm_fail[0]], "errors": all_err[thm_fail[0]]}
            what["searched"] = "%d entities (widened=%s) with no impl<>spec disagreement" % (n_eval, widened)
            out.violation("tie", what, "proof obligation or model correspondence no longer checks; no failing input found", no_failing_input=True)
        elif tie and (spec_fail or lviol):
            out.notes.append({"tie_problems": tie[:12]})

        by_kind = {}
        for s in sigs:
            by_kind[s[0]] = by_kind.get(s[0], 0) + 1
        distinct = len(set(sigs))
        sample = next((c for c in cases[len(corpus):] if c["k"] == "tuple"), cases[0] if cases else lcase)
        cov.update(evaluations=n_eval + n_layout_items, distinct_nontrivial=distinct,
                   rule="entities from one seeded PRNG, boundary-biased (addresses 0/all-ones/mapped/NAT64/multicast, ports 0/53/65535/byte-swapped 53, prefix lengths 0/1/7/8/9/width-1/width with "
                        "destinations just inside / one bit outside, outbound ids 0/1/251..255, all match_set kinds); signature = (case kind, address or value class, Go representation / prefix class, "
                        "port or hit class); every distinct signature counted (all are non-trivial: each runs both real constructors); plus the exhaustive declaration/constant/map-size items",
                   cases_by_kind={{1: "tuple", 2: "connectivity", 3: "lpm", 4: "domain", 5: "match_set", 6: "mac", 7: "reversed_tuple", 8: "conn_state_janitor"}.get(k, str(k)): v for k, v in sorted(by_kind.items())},
                   traces_validated_against_impl=n_eval - len(model_fail),
                   comparisons="per entity: Go bytes = Go model, C bytes = C model, models = spec, Go bytes = spec, C bytes = spec, Go bytes = C bytes; "
                               "LPM: C trie holding the Go key hits for the packet iff the prefix contains the address; declarations: model layouts = clang = go/types = compiled",
                   samples=[{k: v for k, v in sample.items()}], widened_search=widened, layout_items=n_layout_items)
    return out.finish()


if __name__ == "__main__":
    sys.exit(main(sys.argv[1:]))
