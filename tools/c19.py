"""C19 — kernel and control plane agree on every shared structure, constant and map key (DESIGN.md 6/C19).

Pipeline of one run:
  1. translate: parse every struct/union/enum declaration, #define and map definition of control/kern/tproxy.c and
     ebpf_sync_defs.h (small C declaration parser below), and every Go mirror (harness/c19tool/c19_extract.go:
     go/parser + go/types over bpf_stub.go, bpf_utils.go incl. the PARAM literal, the consts files) and write both
     into coq/gen/C19_Decls.v (declaration language of C19_Lang.v) together with the pair table and the shared
     constants (C value, Go value, JSON spec value).
  2. prove: C19_Props.v (C19_layouts_agree etc. are vm_compute over C19_Decls.v, the key theorems are for all inputs).
  3. correspond:
     a. layout FUNCTIONS vs compilers: clang sizeof/offsetof/_Alignof of every translated C declaration (host, and
        -target bpf through _Static_assert), go/types.Sizes (amd64, arm64) and the compiled stub types (reflect in the Go
        harness) must equal c_layout / go_layout of the translated declarations;
     b. key constructors: the real Go functions (stub-build ones directly, real-build ones lifted by AST into the test
        binary) and the real C expressions (get_tuples, wan_outbound_is_alive, route() through a map-lookup spy) run on
        the same generated entities; raw bytes compared impl(Go)=impl(C), impl=model, model=spec, impl=spec in Coq.
"""
import ipaddress
import json
import os
import re
import shutil
import sys

sys.path.insert(0, os.path.dirname(os.path.abspath(__file__)))
import vlib
import cbuild
from vlib import log

PID = "C19"
PROPS = "C19_Props.v"
TARGETS = ["C19_Props.vo", "C19_Check.vo"]
HARNESS = ["control/common_test.go", "control/c19_test.go"]

# Go struct types of the bpf*/_bpf* family that are not exchanged with the kernel (reason recorded in the evidence)
GO_ONLY = {"bpfIfParams": "NIC offload flags read from netlink; never written to a map or load-time parameter"}


class Anchor(Exception):
    pass


# ----------------------------------------------------------------------------------------------------------------
# C side: declaration parser
# ----------------------------------------------------------------------------------------------------------------

def strip_c_comments(s):
    s = re.sub(r"/\*.*?\*/", lambda m: re.sub(r"[^\n]", " ", m.group(0)), s, flags=re.S)
    return re.sub(r"//[^\n]*", "", s)


C_SCALARS = {
    "__u8": ("KU", 1), "__u16": ("KU", 2), "__u32": ("KU", 4), "__u64": ("KU", 8),
    "u8": ("KU", 1), "u16": ("KU", 2), "u32": ("KU", 4), "u64": ("KU", 8),
    "__s8": ("KS", 1), "__s16": ("KS", 2), "__s32": ("KS", 4), "__s64": ("KS", 8),
    "__be16": ("KBE", 2), "__be32": ("KBE", 4), "__be64": ("KBE", 8),
    "bool": ("KBool", 1), "char": ("KChar", 1), "int": ("KS", 4),
}


def c_eval(expr, defines):
    """evaluate a C integer constant expression built from literals and known macros"""
    e = expr.strip()
    e = re.sub(r"\b(0[xX][0-9a-fA-F]+|\d+)[uUlL]*\b", r"\1", e)
    e = re.sub(r"\bBIT\(", "(1<<(", e)
    if "(1<<(" in e:
        e = e + ")" * e.count("(1<<(")

    def sub(m):
        n = m.group(0)
        if n in defines:
            return "(%d)" % defines[n]
        raise KeyError(n)
    e = re.sub(r"\b[A-Za-z_]\w*\b", sub, e)
    e = e.replace("/", "//")
    if not re.fullmatch(r"[\s0-9a-fA-FxX()+\-*/<>|&~]*", e):
        raise KeyError(expr)
    return int(eval(e, {"__builtins__": {}}))


def parse_defines(src):
    raw = {}
    for m in re.finditer(r"^[ \t]*#define[ \t]+(\w+)[ \t]+((?:[^\n\\]|\\\n)+)$", src, re.M):
        raw.setdefault(m.group(1), m.group(2).replace("\\\n", " ").strip())
    vals = {}
    progress = True
    while progress:
        progress = False
        for n, e in raw.items():
            if n in vals:
                continue
            try:
                vals[n] = c_eval(e, vals)
                progress = True
            except Exception:
                pass
    return vals


def match_brace(s, i):
    assert s[i] == "{"
    d = 0
    for j in range(i, len(s)):
        if s[j] == "{":
            d += 1
        elif s[j] == "}":
            d -= 1
            if d == 0:
                return j
    raise Anchor("unbalanced braces in C source")


def norm(name):
    return name.replace("_", "").lower()


def is_pad_name(n):
    return n == "_" or norm(n).startswith("pad")


def split_items(body):
    """split a struct body at top-level ';'"""
    items, d, cur = [], 0, ""
    for ch in body:
        if ch == "{":
            d += 1
        elif ch == "}":
            d -= 1
        if ch == ";" and d == 0:
            if cur.strip():
                items.append(cur.strip())
            cur = ""
        else:
            cur += ch
    if cur.strip():
        items.append(cur.strip())
    return items


class CDecls:
    def __init__(self, src_by_file):
        self.aggr = {}     # (kind, name) -> {'kind','name','fields'|None,'attr_aligned','file','line','why'}
        self.enums = {}    # name -> {'packed':bool,'values':[(n,v)],'file','line'}
        self.order = []
        self.defines = {}
        self.maps = {}
        self.statics = {}
        for f, src in src_by_file.items():
            self.defines.update(parse_defines(strip_c_comments(src)))
        for f, src in src_by_file.items():
            self._scan(f, strip_c_comments(src))

    # -- enums first (their constants are usable in array dimensions), then aggregates
    def _scan(self, f, s):
        for m in re.finditer(r"^enum(\s+__attribute__\(\(packed\)\))?\s+(\w+)\s*\{", s, re.M):
            j = match_brace(s, m.end() - 1)
            vals, nxt = [], 0
            for it in s[m.end():j].split(","):
                it = it.strip()
                if not it:
                    continue
                if "=" in it:
                    n, e = it.split("=", 1)
                    nxt = c_eval(e, {**self.defines, **dict(vals)})
                    n = n.strip()
                else:
                    n = it
                vals.append((n, nxt))
                nxt += 1
            self.enums[m.group(2)] = {"packed": bool(m.group(1)), "values": vals, "file": f, "line": s.count("\n", 0, m.start()) + 1}
        for m in re.finditer(r"^(struct|union)\s+(\w+)\s*\{", s, re.M):
            j = match_brace(s, m.end() - 1)
            tail = re.match(r"\s*(__attribute__\(\(aligned\((\d+)\)\)\))?\s*(\w+\s+SEC\(\"\.maps\"\))?\s*;", s[j + 1:j + 200])
            if not tail:
                raise Anchor("cannot parse end of %s %s" % (m.group(1), m.group(2)))
            if tail.group(3):
                continue   # named map type (struct map_lpm_type {...} unused_lpm_type SEC(".maps"))
            d = {"kind": m.group(1), "name": m.group(2), "aligned": int(tail.group(2)) if tail.group(2) else 0,
                 "file": f, "line": s.count("\n", 0, m.start()) + 1, "why": None}
            try:
                d["fields"] = self._fields(s[m.end():j])
            except KeyError as e:
                d["fields"] = None
                d["why"] = "uses %s" % e.args[0]
            self.aggr[(m.group(1), m.group(2))] = d
            self.order.append((m.group(1), m.group(2)))
        for m in re.finditer(r"^static const (\w+) (\w+)(?:\s*=\s*([^;]+))?;", s, re.M):
            self.statics[m.group(2)] = c_eval(m.group(3), self.defines) if m.group(3) else 0
        for m in re.finditer(r"\nstruct(?: \w+)? \{\n((?:[^}]*?))\n\} (\w+) SEC\(\"\.maps\"\);", s):
            body, name = m.group(1), m.group(2)
            e = {}
            for mm in re.finditer(r"__uint\((\w+),\s*([^;]+)\);", body):
                try:
                    e[mm.group(1)] = c_eval(mm.group(2), {**self.defines, "BPF_F_NO_PREALLOC": 1, "LIBBPF_PIN_BY_NAME": 1})
                except Exception:
                    e[mm.group(1)] = mm.group(2).strip()
            for mm in re.finditer(r"__type\((\w+),\s*([^;]+)\);", body):
                e["type_" + mm.group(1)] = mm.group(2).strip()
            self.maps[name] = e

    def _type(self, spec):
        """spec: type words -> tree"""
        spec = re.sub(r"\bconst\b|\bvolatile\b", "", spec).strip()
        m = re.fullmatch(r"(struct|union)\s+(\w+)", spec)
        if m:
            return {"k": "ref", "kind": m.group(1), "name": m.group(2)}
        m = re.fullmatch(r"enum\s+(\w+)", spec)
        if m:
            if m.group(1) not in self.enums:
                raise KeyError("enum " + m.group(1))
            return {"k": "scalar", "kind": "KEnum", "w": self.enum_width(m.group(1))}
        if spec in C_SCALARS:
            k, w = C_SCALARS[spec]
            return {"k": "scalar", "kind": k, "w": w}
        raise KeyError(spec)

    def enum_width(self, name):
        e = self.enums[name]
        mx = max([v for _, v in e["values"]] + [0])
        if e["packed"]:
            return 1 if mx < 256 else 2 if mx < 65536 else 4
        return 4

    def _fields(self, body):
        fs = []
        for it in split_items(body):
            m = re.match(r"(struct|union)\s*\{", it)
            if m:
                j = match_brace(it, m.end() - 1)
                inner = self._fields(it[m.end():j])
                rest = it[j + 1:].strip()
                am = re.match(r"__attribute__\(\(aligned\((\d+)\)\)\)\s*", rest)
                t = {"k": m.group(1), "f": inner}
                if am:
                    t = {"k": "aligned", "a": int(am.group(1)), "t": t}
                    rest = rest[am.end():]
                fs.append((rest, t))   # rest == "" -> anonymous member
                continue
            m = re.fullmatch(r"(.+?)\s+\*?(\w+)((?:\s*\[[^\]]+\])*)", it, re.S)
            if not m or "*" in it or "(" in m.group(1):
                raise KeyError(it)
            t = self._type(m.group(1))
            dims = re.findall(r"\[([^\]]+)\]", m.group(3))
            for dexp in reversed(dims):
                t = {"k": "arr", "n": c_eval(dexp, {**self.defines, **{n: v for e in self.enums.values() for n, v in e["values"]}}), "e": t}
            fs.append((m.group(2), t))
        return fs

    def resolve(self, kind, name, seen=()):
        """full tree of an aggregate with references expanded; raises KeyError when not translatable"""
        if (kind, name) in seen:
            raise KeyError("recursive " + name)
        d = self.aggr.get((kind, name))
        if d is None:
            raise KeyError("%s %s" % (kind, name))
        if d["fields"] is None:
            raise KeyError(d["why"])
        t = {"k": kind, "f": [(n, self._expand(ft, seen + ((kind, name),))) for n, ft in d["fields"]]}
        if d["aligned"]:
            t = {"k": "aligned", "a": d["aligned"], "t": t}
        return t

    def _expand(self, t, seen):
        if t["k"] == "ref":
            return self.resolve(t["kind"], t["name"], seen)
        if t["k"] == "arr":
            return {"k": "arr", "n": t["n"], "e": self._expand(t["e"], seen)}
        if t["k"] in ("struct", "union"):
            return {"k": t["k"], "f": [(n, self._expand(ft, seen)) for n, ft in t["f"]]}
        if t["k"] == "aligned":
            return {"k": "aligned", "a": t["a"], "t": self._expand(t["t"], seen)}
        return t


def c_paths(t, prefix=""):
    """C member designators of every leaf, in the traversal order of C19_Lang.leaves with allm = true"""
    k = t["k"]
    if k == "scalar":
        return [prefix]
    if k == "arr":
        if t["e"]["k"] == "scalar":
            return [prefix]
        out = []
        for i in range(t["n"]):
            out += c_paths(t["e"], "%s[%d]" % (prefix, i))
        return out
    if k in ("struct", "union"):
        out = []
        for n, ft in t["f"]:
            p = prefix if n == "" else (n if prefix == "" else prefix + "." + n)
            out += c_paths(ft, p)
        return out
    if k == "aligned":
        return c_paths(t["t"], prefix)
    raise Anchor("c_paths: " + k)


def coq_str(s):
    assert '"' not in s
    return '"%s"' % s


def c_tree_to_coq(t, fname=None):
    k = t["k"]
    if k == "scalar":
        kind = "KPad" if (fname is not None and is_pad_name(fname)) else t["kind"]
        return "(TScalar %s %d)" % (kind, t["w"])
    if k == "arr":
        return "(TArr %d %s)" % (t["n"], c_tree_to_coq(t["e"], fname))
    if k in ("struct", "union"):
        if fname is not None and is_pad_name(fname):
            raise Anchor("aggregate padding field " + fname)
        return "(%s [%s])" % ("TStruct" if k == "struct" else "TUnion",
                              "; ".join("(%s, %s)" % (coq_str(norm(n)), c_tree_to_coq(ft, n)) for n, ft in t["f"]))
    if k == "aligned":
        return "(TAligned %d %s)" % (t["a"], c_tree_to_coq(t["t"], fname))
    raise Anchor("c_tree_to_coq: " + k)


def go_tree_to_coq(t, fname=None):
    k = t["k"]
    if k in ("u", "s", "bool"):
        kind = {"u": "KU", "s": "KS", "bool": "KBool"}[k]
        if fname is not None and is_pad_name(fname):
            kind = "KPad"
        return "(TScalar %s %d)" % (kind, t["w"])
    if k == "arr":
        return "(TArr %d %s)" % (t["n"], go_tree_to_coq(t["e"], fname))
    if k == "struct":
        if fname is not None and is_pad_name(fname):
            raise Anchor("aggregate padding field " + fname)
        fs = []
        for f in t["f"]:
            if f["t"]["k"] == "marker":
                fs.append("(%s, TMarker)" % coq_str("_"))
            else:
                fs.append("(%s, %s)" % (coq_str("_" if f["n"] == "_" else norm(f["n"])), go_tree_to_coq(f["t"], f["n"])))
        return "(TStruct [%s])" % "; ".join(fs)
    if k == "marker":
        return "TMarker"
    raise Anchor("go_tree_to_coq: " + k)


def go_type_norm(name):
    n = name.lstrip("_")
    if n.startswith("bpf"):
        n = n[3:]
    return n.lower()


def read(rel):
    p = os.path.join(vlib.REPO, rel)
    if not os.path.exists(p):
        raise Anchor("anchor moved: %s missing" % rel)
    return open(p).read()


def build_go_tool(sc):
    src = os.path.join(vlib.VERIF, "harness", "c19tool", "c19_extract.go")
    out = sc.path("c19x")
    env = vlib.go_env()
    env.pop("GOFLAGS", None)
    rc, so, se, dt = vlib.run(["go", "build", "-o", out, src], cwd=sc.dir, env=env, timeout=600)
    if rc != 0:
        raise Anchor("c19_extract.go does not build: " + (so + se)[-1500:])
    rc, so, se, dt = vlib.run([out, vlib.REPO], cwd=sc.dir, env=env, timeout=300)
    if rc != 0:
        raise Anchor("c19_extract failed: " + (so + se)[-1500:])
    return json.loads(so)


def extract_c_conn_expr(src):
    """constants of the slot expression in wan_outbound_is_alive"""
    s = strip_c_comments(src)
    m = re.search(r"\nwan_outbound_is_alive\(struct [^)]*\)\n\{(.*?)\n\}", s, re.S)
    if not m:
        raise Anchor("anchor moved: wan_outbound_is_alive")
    b = m.group(1)
    k = re.search(r"key = \(\(__u32\)outbound \* (\d+)\) \+ \(domain_idx \* (\d+)\) \+ ip_idx;", b)
    ip = re.search(r"ip_idx = skb->protocol == bpf_htons\(ETH_P_IP\) \? (\d+) : (\d+);", b)
    dom = re.search(r"if \(l4proto == IPPROTO_UDP\) \{\s*if \(dport == bpf_htons\(53\)\)\s*domain_idx = (\d+);\s*else\s*domain_idx = (\d+);", b)
    d0 = re.search(r"__u32 domain_idx = (\d+);", b)
    early = re.search(r"if \(dport == bpf_htons\(53\)\)\s*return true;", b)
    if not (k and ip and dom and d0):
        raise Anchor("anchor moved: slot expression of wan_outbound_is_alive has a new shape")
    return {"mul_outbound": int(k.group(1)), "mul_domain": int(k.group(2)), "ip4": int(ip.group(1)), "ip6": int(ip.group(2)),
            "dom_tcp": int(d0.group(1)), "dom_dns": int(dom.group(1)), "dom_data": int(dom.group(2)), "dns_early_return": bool(early)}


def translate(sc):
    """returns (info dict, coq text).  info carries everything later stages need."""
    tproxy = read("control/kern/tproxy.c")
    defs_h = read("control/kern/ebpf_sync_defs.h")
    cd = CDecls({"control/kern/ebpf_sync_defs.h": defs_h, "control/kern/tproxy.c": tproxy})
    go = build_go_tool(sc)
    spec = json.loads(read("common/consts/ebpf_sync_spec.json"))
    if go.get("param_literal_found") != 1:
        raise Anchor("anchor moved: PARAM composite literal not found exactly once in control/bpf_utils.go")

    # ---- C declarations
    c_decls, c_skipped = [], []
    for kind, name in cd.order:
        try:
            t = cd.resolve(kind, name)
            c_decls.append({"kind": kind, "name": name, "tree": t, "paths": c_paths(t)})
        except KeyError as e:
            c_skipped.append({"name": "%s %s" % (kind, name), "why": str(e.args[0])})
    c_by_norm = {}
    for d in c_decls:
        if d["kind"] == "struct":
            c_by_norm[norm(d["name"])] = d

    # ---- Go declarations
    go_structs = [s for s in go["structs"] if s["translatable"]]
    stub = {s["name"]: s for s in go_structs if s["build"] == "stub"}
    real = {s["name"]: s for s in go_structs if s["build"] == "real"}
    pairs, unpaired = [], []
    for nm, s in stub.items():
        if nm in GO_ONLY:
            continue
        c = c_by_norm.get(go_type_norm(nm))
        if c is None:
            unpaired.append(nm)
        else:
            pairs.append((c["name"], "stub:" + nm))
    for nm, s in real.items():
        if nm in GO_ONLY:
            continue
        c = c_by_norm.get(go_type_norm(nm))
        if c is None:
            unpaired.append("real:" + nm)
        else:
            pairs.append((c["name"], "real:" + nm))
    if "dae_param" not in [d["name"] for d in c_decls]:
        raise Anchor("anchor moved: struct dae_param")
    pairs.append(("dae_param", "real:PARAM"))
    skipped_c_names = {x["name"].split()[1] for x in c_skipped}
    for nm in list(stub) + list(real):
        if go_type_norm(nm) in {norm(x) for x in skipped_c_names}:
            raise Anchor("C declaration mirrored by %s is not translatable" % nm)
    gopairs = [nm for nm in real if nm in stub]

    go_decl_list = [("stub:" + nm, s) for nm, s in stub.items()] + [("real:" + nm, s) for nm, s in real.items()] + \
                   [("real:PARAM", go["param_literal"])]

    # ---- constants
    gc = go["consts"]
    cenum = {n: v for e in cd.enums.values() for n, v in e["values"]}
    consts = []   # (name, c, go, json or None)

    def add(name, cv, gv, jv=None):
        consts.append((name, cv, gv, jv))

    def need(d, k, what):
        if k not in d:
            raise Anchor("anchor moved: %s %s not found" % (what, k))
        return int(d[k]) if not isinstance(d[k], int) else d[k]
    for i, mt in enumerate(spec["match_types"]):
        add("MatchType_" + mt, need(cenum, "MatchType_" + mt, "C enum"), need(gc, "consts.MatchType_" + mt, "Go const"), i)
    c_mt = [n for n, _ in cd.enums["MatchType"]["values"]]
    g_mt = [k[len("consts."):] for k in gc if k.startswith("consts.MatchType_")]
    if sorted(c_mt) != sorted(g_mt) or len(c_mt) != len(spec["match_types"]):
        extra = sorted(set(c_mt) ^ set(g_mt))
        for n in extra:
            add(n, cenum.get(n, 0xffffffff), int(gc.get("consts." + n, 0xfffffffe)), None)
    for e in spec["l4_proto"]:
        add("L4ProtoType_" + e["name"], need(cenum, "L4ProtoType_" + e["name"], "C enum"), need(gc, "consts.L4ProtoType_" + e["name"], "Go const"), e["value"])
    for e in spec["ip_version"]:
        add("IpVersionType_" + e["name"], need(cenum, "IpVersionType_" + e["name"], "C enum"), need(gc, "consts.IpVersion_" + e["name"], "Go const"), e["value"])
    for e in spec["outbound"]:
        goname = "Outbound" + "".join(w.capitalize() for w in e["name"].split("_"))
        add("OUTBOUND_" + e["name"], need(cd.defines, "OUTBOUND_" + e["name"], "C define"), need(gc, "consts." + goname, "Go const"), e["value"])
    add("MAX_MATCH_SET_LEN", need(cd.defines, "MAX_MATCH_SET_LEN", "C define"), need(gc, "consts.var.MaxMatchSetLen", "Go var"))
    add("TASK_COMM_LEN", need(cd.defines, "TASK_COMM_LEN", "C define"), need(gc, "consts.TaskCommLen", "Go const"))
    add("TPROXY_MARK", need(cd.defines, "TPROXY_MARK", "C define"), need(gc, "consts.TproxyMark", "Go const"))
    add("MAX_CONN_STATE_NUM", need(cd.defines, "MAX_CONN_STATE_NUM", "C define"), need(gc, "control(real).defaultConnStateMapMaxEntries", "Go const"))
    add("MAX_CONN_STATE_NUM(stub)", need(cd.defines, "MAX_CONN_STATE_NUM", "C define"), need(gc, "control(stub).defaultConnStateMapMaxEntries", "Go const"))
    add("fast_sock.max_entries", need(cd.maps.get("fast_sock", {}), "max_entries", "C map"), need(gc, "control(real).fastSockPlaceholderMaxEntries", "Go const"))
    add("conn_state_map.max_entries", need(cd.maps.get("conn_state_map", {}), "max_entries", "C map"), need(gc, "control(real).defaultConnStateMapMaxEntries", "Go const"))
    add("zero_key", need(cd.statics, "zero_key", "C static"), need(gc, "consts.ZeroKey", "Go const"))
    add("one_key", need(cd.statics, "one_key", "C static"), need(gc, "consts.OneKey", "Go const"))
    add("two_key", need(cd.statics, "two_key", "C static"), need(gc, "consts.TwoKey", "Go const"))
    add("IPPROTO_TCP", 6, need(gc, "consts.IPPROTO_TCP", "Go const"))    # C value checked by the C driver (prints IPPROTO_*)
    add("IPPROTO_UDP", 17, need(gc, "consts.IPPROTO_UDP", "Go const"))
    ce = extract_c_conn_expr(tproxy)
    add("connectivity.slots_per_outbound", ce["mul_outbound"], need(gc, "control.outboundConnectivitySlotsPerOutbound", "Go const"))
    add("connectivity.slots_per_domain", ce["mul_domain"], need(gc, "control.outboundConnectivitySlotsPerDomain", "Go const"))
    add("connectivity.domain_tcp", ce["dom_tcp"], need(gc, "control.outboundConnectivityDomainTCP", "Go const"))
    add("connectivity.domain_dns_udp", ce["dom_dns"], need(gc, "control.outboundConnectivityDomainDnsUDP", "Go const"))
    add("connectivity.domain_data_udp", ce["dom_data"], need(gc, "control.outboundConnectivityDomainDataUDP", "Go const"))
    add("connectivity.map_entries", need(cd.maps.get("outbound_connectivity_map", {}), "max_entries", "C map"),
        256 * need(gc, "control.outboundConnectivitySlotsPerOutbound", "Go const"))
    sk = dict(x.split("=") for x in go.get("stats_key_literals", []))
    if set(sk) != {"udpOverflow", "tcpOverflow"}:
        raise Anchor("anchor moved: readMapOverflowCounters stats keys")
    add("BPF_STATS_UDP_CONN_OVERFLOW", need(cenum, "BPF_STATS_UDP_CONN_OVERFLOW", "C enum"), int(sk["udpOverflow"]))
    add("BPF_STATS_TCP_CONN_OVERFLOW", need(cenum, "BPF_STATS_TCP_CONN_OVERFLOW", "C enum"), int(sk["tcpOverflow"]))
    add("domain_routing.bitmap_words", need(cd.defines, "MAX_MATCH_SET_LEN", "C define") // 32, need(gc, "consts.var.MaxMatchSetLen", "Go var") // 32)

    # ---- Coq text
    L = ["(* GENERATED by tools/c19.py from control/kern/tproxy.c, ebpf_sync_defs.h, control/bpf_stub.go, control/bpf_utils.go,",
         "   common/consts/*.go, ebpf_sync_spec.json on every run.  Do not edit. *)",
         "From Coq Require Import List NArith String.", "From Dae Require Import C19_Spec C19_Lang.",
         "Import ListNotations.", "Open Scope string_scope.", "Open Scope N_scope.", ""]
    cname = {}
    for d in c_decls:
        ident = "c_%s_%s" % (d["kind"], d["name"])
        cname[d["name"]] = ident
        d["ident"] = ident
        L.append("Definition %s : ty := %s." % (ident, c_tree_to_coq(d["tree"])))
    gname = {}
    for key, s in go_decl_list:
        ident = "go_" + key.replace(":", "_")
        gname[key] = ident
        L.append("Definition %s : ty := %s." % (ident, go_tree_to_coq(s["tree"])))
    L.append("")
    L.append("Definition c_decls : list (string * ty) := [%s]." % "; ".join("(%s, %s)" % (coq_str(d["kind"] + " " + d["name"]), d["ident"]) for d in c_decls))
    L.append("Definition go_decls : list (string * ty) := [%s]." % "; ".join("(%s, %s)" % (coq_str(k), gname[k]) for k, _ in go_decl_list))
    L.append("Definition pairs : list (string * ty * string * ty) := [%s]." %
             "; ".join("(%s, %s, %s, %s)" % (coq_str(c), cname[c], coq_str(g), gname[g]) for c, g in pairs))
    L.append("Definition gopairs : list (string * ty * ty) := [%s]." %
             "; ".join("(%s, %s, %s)" % (coq_str(n), gname["real:" + n], gname["stub:" + n]) for n in gopairs))
    L.append("Definition unpaired_go : list string := [%s]." % "; ".join(coq_str(u) for u in unpaired))
    L.append("Definition shared_consts : list (string * N * N * option N) := [%s]." %
             ";\n  ".join("(%s, %s, %s, %s)" % (coq_str(n), vlib.cN(c), vlib.cN(g), "None" if j is None else "Some %s" % vlib.cN(j)) for n, c, g, j in consts))
    L.append("")
    L.append("(* slot expression of wan_outbound_is_alive (C) and the constants of control/connectivity.go (Go) *)")
    for k in ("mul_outbound", "mul_domain", "ip4", "ip6", "dom_tcp", "dom_dns", "dom_data"):
        L.append("Definition c_conn_%s : N := %d." % (k, ce[k]))
    L.append("Definition c_conn_dns_early_return : bool := %s." % vlib.cbool(ce["dns_early_return"]))
    for k, g in (("slots_per_outbound", "outboundConnectivitySlotsPerOutbound"), ("slots_per_domain", "outboundConnectivitySlotsPerDomain"),
                 ("dom_tcp", "outboundConnectivityDomainTCP"), ("dom_dns", "outboundConnectivityDomainDnsUDP"), ("dom_data", "outboundConnectivityDomainDataUDP")):
        L.append("Definition go_conn_%s : N := %d." % (k, int(gc["control." + g])))
    L.append("Definition c_conn_map_entries : N := %d." % cd.maps["outbound_connectivity_map"]["max_entries"])
    for req in ("tuples_key", "lpm_key", "match_set", "domain_routing"):
        if req not in cname:
            raise Anchor("anchor moved: struct " + req)
    for req in ("stub:bpfTuplesKey", "stub:_bpfLpmKey", "real:_bpfLpmKey", "stub:bpfMatchSet"):
        if req not in gname:
            raise Anchor("anchor moved: Go type " + req)
    L.append("")
    info = {"cd": cd, "c_decls": c_decls, "c_skipped": c_skipped, "go": go, "go_decl_list": go_decl_list, "pairs": pairs, "gopairs": gopairs,
            "unpaired": unpaired, "consts": consts, "conn_expr": ce, "spec": spec}
    return info, "\n".join(L) + "\n"


if __name__ == "__main__" and len(sys.argv) > 1 and sys.argv[1] == "--translate-only":
    with vlib.Scratch() as sc:
        info, txt = translate(sc)
        sys.stdout.write(txt)
        print(json.dumps(info["c_skipped"], indent=1))
        print(info["pairs"], info["unpaired"])
    sys.exit(0)
