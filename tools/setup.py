"""setup_cmd: build the Coq development of every claimed property and warm the Go build cache.
Tolerant: a file that does not build is reported, the check of its property will report it again."""
import json, os, sys
sys.path.insert(0, os.path.dirname(os.path.abspath(__file__)))
import vlib
claimed = sorted(n[:-5] for n in os.listdir(os.path.join(vlib.VERIF, "manifest.d")) if n.endswith(".json"))
files = vlib.coq_project_files()
targets = [f[:-2] + ".vo" for f in files
           if f.startswith(("common/", "gen/")) or any(os.path.basename(f).startswith(p + "_") for p in claimed)]
ok, log = vlib.coq_make(targets, timeout=3000)
print(log[-1500:])
if not ok:
    print("setup: some Coq targets failed; building per property")
    for p in claimed:
        t = [f[:-2] + ".vo" for f in files if os.path.basename(f).startswith(p + "_")]
        ok1, _ = vlib.coq_make(t, timeout=1500)
        print("  ", p, "ok" if ok1 else "FAILED")
rc, so, se, dt = vlib.run(["go", "build", "-tags", vlib.TAGS, "./..."], cwd=vlib.REPO, env=vlib.go_env(), timeout=3000)
print("go build warm: rc=%d %.0fs %s" % (rc, dt, se[-500:]))
pkgs = sorted(set(os.path.relpath(r, os.path.join(vlib.VERIF, "harness")) for r, d, fs in os.walk(os.path.join(vlib.VERIF, "harness")) if any(f == "common_test.go" for f in fs)))
with vlib.Scratch() as sc:
    for pkg in pkgs:
        b, l = vlib.build_go_test_binary(sc, pkg, [pkg + "/common_test.go"])
        print("warm test build", pkg, bool(b))
sys.exit(0)
