import os, sys
sys.path.insert(0, os.path.dirname(os.path.abspath(__file__)))
import vlib
ok, log = vlib.coq_make([f[:-2] + ".vo" for f in vlib.coq_project_files()], timeout=3000)
print(log[-2000:])
if not ok:
    sys.exit(1)
rc, so, se, dt = vlib.run(["go", "build", "-tags", vlib.TAGS, "./..."], cwd=vlib.REPO, env=vlib.go_env(), timeout=3000)
print("go build warm: rc=%d %.0fs %s" % (rc, dt, se[-500:]))
with vlib.Scratch() as sc:
    for pkg in ("control",):
        b, l = vlib.build_go_test_binary(sc, pkg, ["control/common_test.go"])
        print("warm test build", pkg, bool(b))
sys.exit(0)
