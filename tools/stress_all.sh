#!/bin/bash
# run every claimed quick check concurrently (heavy load) with the given seed; print one line per property
cd "$(dirname "$0")/.."
seed=${1:-1}
for p in $(cat manifest.d/READY); do (VERIF_SEED=$seed ./check $p --tier quick > /tmp/stress_${seed}_$p.out 2>/tmp/stress_${seed}_$p.err; echo "rc=$?" >> /tmp/stress_${seed}_$p.out) & done; wait
for p in $(cat manifest.d/READY); do echo "$p seed=$seed $(tail -1 /tmp/stress_${seed}_$p.out) known=$(grep -c KNOWN-FINDING /tmp/stress_${seed}_$p.out) $(grep '^VIOLATION' /tmp/stress_${seed}_$p.out | sed 's#replay=.*/##' | tr '\n' ' ' | cut -c1-200)"; done
