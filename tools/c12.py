"""C12 — address sets match by CIDR containment, in userspace and in kernel key form (DESIGN.md 6/C12)."""
import ipaddress
import json
import os
import re
import sys

sys.path.insert(0, os.path.dirname(os.path.abspath(__file__)))
import vlib
from vlib import clist, cpair, log

PID = "C12"
PROPS = "C12_Props.v"
TARGETS = ["C12_Props.vo", "C12_Check.vo"]
HARNESS = ["control/common_test.go", "control/c12_test.go"]
HARNESS_DNS = ["dns/common_test.go", "dns/c12_test.go"]

SPEC_CODES = {2, 5, 8, 11, 14, 22, 26, 27, 28, 29, 31, 90, 91}      # impl <> spec (90 panic, 91 error)
MODEL_CODES = {1, 4, 7, 10, 13, 15, 20, 21, 23, 30, 33, 34, 98, 99}     # impl <> model
THM_CODES = {3, 6, 9, 12, 24, 25, 32, 35}                       # model <> spec
CODE_TEXT = {
    1: "Prefix2bin128 <> model", 2: "Prefix2bin128 <> leading len bits of the mapped address", 3: "model Prefix2bin128 <> spec",
    4: "HasPrefix <> model trie", 5: "trie membership <> CIDR containment", 6: "model trie <> containment",
    7: "cidrToBpfLpmKey <> model", 8: "LPM lookup over the emitted keys <> CIDR containment", 9: "model LPM lookup <> containment",
    10: "canonicalizePrefixes <> model", 11: "canonicalizePrefixes changes the denoted set", 12: "model canonicalize changes the set",
    13: "hashLpmSet <> model", 14: "userspace trie and kernel keys disagree on a probe", 15: "Ipv6ByteSliceToUint32Array <> model",
    20: "lpm indices <> model", 21: "stored sets <> model", 22: "RoutingMatcher.Match <> first rule whose own set contains the address",
    23: "Match <> model", 24: "model Match <> spec", 25: "model kernel decision <> spec",
    26: "two rules share an LPM index though their sets differ", 27: "kernel decision over the stored sets <> spec",
    28: "the kernel keys written from the snapshot and the userspace trie disagree on a probe of a rule's set (index = 100*BuildKernspace call + rule)",
    29: "the kernel keys written from the snapshot do not describe the set the rule was given (index = 100*BuildKernspace call + rule)",
    33: "key lists handed to the kernel <> model (canonical list of every stored set, whatever the order)", 34: "per-set userspace trie <> model",
    35: "model key lists <> the set",
    30: "ResponseMatcher.Match <> model", 31: "ResponseMatcher.Match <> first rule whose own set contains an answer address",
    32: "model response match <> spec",
    90: "panic", 91: "error", 99: "observation of wrong length"}

V4_LENS = [0, 0, 1, 7, 8, 8, 9, 15, 16, 16, 17, 23, 24, 24, 25, 30, 31, 32, 32]
V6_LENS = [0, 0, 1, 7, 8, 9, 31, 32, 33, 48, 63, 64, 64, 65, 95, 96, 97, 103, 104, 120, 127, 128, 128]
M128 = (1 << 128) - 1
MAPPED = 0xffff << 32


# ------------------------------------------------------------------------------------------------
# lifting cidrToBpfLpmKey / addIp / addSourceIp from the source text (fail loudly if the anchors are gone)
# ------------------------------------------------------------------------------------------------

def lift_func(src, header_re, path):
    m = re.search(header_re, src, re.M)
    if not m:
        raise RuntimeError("anchor moved: %s not found in %s" % (header_re, path))
    end = src.find("\n}\n", m.start())
    if end < 0:
        raise RuntimeError("anchor moved: end of function %s not found in %s" % (header_re, path))
    return src[m.start():end + 3]


def lifted_source():
    p1 = os.path.join(vlib.REPO, "control", "bpf_utils.go")
    p2 = os.path.join(vlib.REPO, "control", "routing_matcher_builder.go")
    s1 = open(p1).read()
    s2 = open(p2).read()
    f = lift_func(s1, r"^func cidrToBpfLpmKey\(prefix netip\.Prefix\) _bpfLpmKey \{", p1)
    f = f.replace("func cidrToBpfLpmKey(", "func c12CidrToBpfLpmKey(").replace("_bpfLpmKey", "c12LpmKey")
    m = re.search(r"^type _bpfLpmKey struct \{\n(.*?)\n\}\n", s1, re.M | re.S)
    if not m:
        raise RuntimeError("anchor moved: type _bpfLpmKey not found in " + p1)
    typ = "type c12LpmKey struct {\n" + m.group(1) + "\n}\n"
    out = [f, typ]
    for name, new in (("addIp", "c12AddIpConstHash"), ("addSourceIp", "c12AddSourceIpConstHash")):
        g = lift_func(s2, r"^func \(b \*RoutingMatcherBuilder\) %s\(" % name, p2)
        if g.count("hashLpmSet(") != 1:
            raise RuntimeError("anchor moved: %s no longer calls hashLpmSet exactly once" % name)
        g = g.replace("hashLpmSet(", "c12ConstHash(").replace(") %s(" % name, ") %s(" % new, 1)
        out.append(g)
    # the replay of snapshot.BuildKernspace in the harness follows these lines; fail loudly when they move
    for pat, what in ((r"return buildRoutingKernspace\(log, bpf, s\.rules, s\.simulatedLpmTries, s\.dedupCount\)", "routingKernspaceSnapshot.BuildKernspace"),
                      (r"keys\[j\] = cidrToBpfLpmKey\(cidr\)", "key conversion loop of buildRoutingKernspace"),
                      (r"simulatedLpmTries:\s+b\.simulatedLpmTries,", "KernspaceSnapshot")):
        if not re.search(pat, s2):
            raise RuntimeError("anchor moved: %s (%s) not found in %s" % (what, pat, p2))
    head = ("//go:build verif\n\n// GENERATED by tools/c12.py from control/bpf_utils.go and control/routing_matcher_builder.go. Do not edit.\n\n"
            "package control\n\nimport (\n\t\"encoding/binary\"\n\t\"net/netip\"\n\n\t\"github.com/daeuniverse/dae/common\"\n"
            "\t\"github.com/daeuniverse/dae/common/consts\"\n\t\"github.com/daeuniverse/dae/component/routing\"\n"
            "\t\"github.com/daeuniverse/dae/pkg/config_parser\"\n)\n\n"
            "var _ = binary.LittleEndian\nvar _ = common.Ipv6ByteSliceToUint32Array\nvar _ = consts.MatchType_IpSet\n"
            "var _ *routing.Outbound\nvar _ *config_parser.Function\nvar _ netip.Prefix\n\n"
            "func c12ConstHash(prefixes []netip.Prefix) uint64 { return 7 }\n\n")
    return head + "\n".join(out)


# ------------------------------------------------------------------------------------------------
# generators.  A prefix is (fam, value, bits): fam '4' (value 32-bit), '6' (value 128-bit), 'm' (4in6 literal)
# ------------------------------------------------------------------------------------------------

def fmt_v4(x):
    return "%d.%d.%d.%d" % (x >> 24 & 255, x >> 16 & 255, x >> 8 & 255, x & 255)


def fmt_addr128(x, rng=None):
    if x >> 32 == 0xffff:
        if rng is not None and rng.random() < 0.3:
            return "::ffff:" + fmt_v4(x & 0xffffffff)
        return fmt_v4(x & 0xffffffff)
    return ipaddress.IPv6Address(x).compressed


def fmt_prefix(p, rng=None):
    fam, v, bits = p
    if fam == '4':
        if bits == 32 and rng is not None and rng.random() < 0.3:
            return fmt_v4(v)
        return "%s/%d" % (fmt_v4(v), bits)
    if fam == 'm':
        return "::ffff:%s/%d" % (fmt_v4(v & 0xffffffff), bits)
    s = ipaddress.IPv6Address(v).compressed
    if bits == 128 and rng is not None and rng.random() < 0.3:
        return s
    return "%s/%d" % (s, bits)


def p128(p):
    fam, v, bits = p
    if fam == '4':
        return (MAPPED | v, bits + 96)
    return (v, bits)


def rand_addr_bits(rng, width):
    r = rng.random()
    if r < 0.12:
        return 0
    if r < 0.24:
        return (1 << width) - 1
    if r < 0.4:
        x = rng.getrandbits(width)
        k = rng.randint(0, width)
        return x >> k << k
    if r < 0.5:
        return rng.choice([1, 1 << (width - 1), (1 << (width - 1)) - 1, 0x0a000000 % (1 << width), 0xc0a80000 % (1 << width)])
    return rng.getrandbits(width)


def gen_prefix(rng, others):
    r = rng.random()
    if others and r < 0.35:
        # related to an existing prefix: nested, sibling, parent, same with other host bits, or duplicate
        fam, v, bits = rng.choice(others)
        width = 32 if fam == '4' else 128
        lo = 96 if fam == 'm' else 0
        k = rng.random()
        if k < 0.15:
            return (fam, v, bits)
        if k < 0.2:
            return (fam, v, min(width, bits + rng.choice([1, 8])))      # same address, longer: denotes nothing new
        if k < 0.45:
            nb = min(width, bits + rng.choice([1, 1, 2, 8]))
            return (fam, v ^ (rng.getrandbits(width) & ((1 << (width - bits)) - 1)) if bits < width else v, nb)
        if k < 0.65:
            nb = max(lo, bits - rng.choice([1, 1, 2, 8]))
            return (fam, v, nb)
        if k < 0.85 and bits > lo:
            return (fam, v ^ (1 << (width - bits)), bits)      # sibling
        if fam == '4' and k < 0.95:
            return ('m', MAPPED | v, bits + 96)                # the same set written as a mapped literal
        return (fam, v ^ (rng.getrandbits(width) & ((1 << (width - bits)) - 1)) if bits < width else v, bits)
    fam = rng.choice("4444666mm"[:9])
    if fam == '4':
        bits = rng.choice(V4_LENS) if rng.random() < 0.8 else rng.randint(0, 32)
        v = rand_addr_bits(rng, 32)
        if rng.random() < 0.6:
            v = v >> (32 - bits) << (32 - bits) if bits else 0
        return ('4', v, bits)
    if fam == '6':
        bits = rng.choice(V6_LENS) if rng.random() < 0.8 else rng.randint(0, 128)
        v = rand_addr_bits(rng, 128)
        if rng.random() < 0.6:
            v = v >> (128 - bits) << (128 - bits) if bits else 0
        return ('6', v, bits)
    bits = rng.choice([96, 96, 97, 104, 112, 120, 127, 128, 128, 64, 0, 95]) if rng.random() < 0.85 else rng.randint(0, 128)
    return ('m', MAPPED | rand_addr_bits(rng, 32), bits)


def probes_for(p, rng):
    a, n = p128(p)
    host = (1 << (128 - n)) - 1
    first = a & ~host & M128
    last = first | host
    out = [first, last, a]
    if first > 0:
        out.append(first - 1)
    if last < M128:
        out.append(last + 1)
    if n > 0:
        out.append(first ^ (1 << (128 - n)))          # the sibling block
    if n < 128:
        out.append(first | (1 << (127 - n)))          # first address of the upper half
    if rng is not None and rng.random() < 0.5:
        out.append(first | (rng.getrandbits(128) & host))
    return out


def gen_set_case(rng, big=False):
    n = rng.choice([1, 1, 2, 2, 3, 3, 4, 5, 6, 8] + ([12, 20] if big else []))
    ps = []
    for _ in range(n):
        ps.append(gen_prefix(rng, ps))
    if rng.random() < 0.15:
        ps.append(rng.choice(ps))
    probes = []
    for p in ps:
        probes += probes_for(p, rng)
    probes += [0, M128, MAPPED, MAPPED | 0xffffffff, MAPPED - 1, (MAPPED | 0xffffffff) + 1, 1]
    probes += [rng.getrandbits(128) for _ in range(2)] + [MAPPED | rng.getrandbits(32) for _ in range(2)]
    seen = []
    for x in probes:
        if x not in seen:
            seen.append(x)
    limit = 56 if big else 30
    if len(seen) > limit:
        keep = seen[:]
        rng.shuffle(keep)
        seen = keep[:limit]
    return {"kind": "set", "prefixes": [fmt_prefix(p, rng) for p in ps], "probes": [fmt_addr128(x, rng) for x in seen]}


def sweep_cases(patterns):
    """every prefix length 0..32 / 0..128 once per address pattern, alone in its set, with its boundary probes"""
    out = []
    for pat in patterns:
        for fam, width in (('4', 32), ('6', 128)):
            v = pat & ((1 << width) - 1)
            for bits in range(width + 1):
                p = (fam, v, bits)
                probes = list(dict.fromkeys(probes_for(p, None) + [0, M128]))
                out.append({"kind": "set", "prefixes": [fmt_prefix(p)], "probes": [fmt_addr128(x) for x in probes]})
    return out


# the orders in which control_plane.go takes the kernel snapshot, writes the kernel keys from it and builds the
# userspace matcher: first start; staged reload (keys at listener cutover); staged reload rolled back (keys again);
# first start followed by a rollback rebuild
ORDERS = [("snapshot", "install", "userspace"), ("snapshot", "userspace", "install"),
          ("snapshot", "userspace", "install", "install"), ("snapshot", "install", "userspace", "install")]
STEP_COQ = {"snapshot": "SSnapshot", "install": "SInstall", "userspace": "SUserspace"}


def fmt_mac(m):
    return ":".join("%02x" % (m >> (8 * (5 - i)) & 255) for i in range(6))


def gen_builder_case(rng, big=False):
    pool = []
    for _ in range(rng.randint(1, 3)):
        s = []
        for _ in range(rng.randint(1, 4)):
            s.append(gen_prefix(rng, s))
        pool.append(s)
    macs = [rng.choice([0, 1, 0x001122334455, 0xffffffffffff, rng.getrandbits(48)]) for _ in range(3)]
    ops = []
    addrs = [0, MAPPED]
    macvals = [0]
    for _ in range(rng.randint(1, 12 if big else 7)):
        r = rng.random()
        if r < 0.2:
            ms = [rng.choice(macs) for _ in range(rng.randint(1, 3))]
            macvals += ms + [m ^ 1 for m in ms]
            ops.append({"op": "mac", "not": rng.random() < 0.4, "values": [fmt_mac(m) for m in ms]})
            continue
        s = list(rng.choice(pool))
        k = rng.random()
        if k < 0.3:
            rng.shuffle(s)
        elif k < 0.45:
            s = s + [rng.choice(s)]
        elif k < 0.6:
            s = s + [gen_prefix(rng, s)]
        elif k < 0.7 and len(s) > 1:
            s = s[:-1]
        for p in s:
            addrs += probes_for(p, rng)[:5]
        ops.append({"op": rng.choice(["ip", "ip", "sip"]), "not": rng.random() < 0.2, "values": [fmt_prefix(p, rng) for p in s]})
    packets = []
    for _ in range(24 if big else 12):
        packets.append([fmt_addr128(rng.choice(addrs), rng), fmt_addr128(rng.choice(addrs), rng), ipaddress.IPv6Address(rng.choice(macvals)).compressed])
    probes = list(dict.fromkeys(addrs + macvals))
    if len(probes) > (28 if big else 16):
        head, rest = probes[:4], probes[4:]
        rng.shuffle(rest)
        probes = head + rest[:(24 if big else 12)]
    return {"kind": "builder", "ops": ops, "packets": packets, "consthash": rng.random() < 0.35,
            "order": list(rng.choice(ORDERS)), "set_probes": [fmt_addr128(x, rng) for x in probes]}


def gen_response_case(rng, big=False):
    rules, addrs = [], [0, MAPPED | 0x01010101]
    for _ in range(rng.randint(1, 5)):
        s_ = []
        for _ in range(rng.randint(1, 4)):
            s_.append(gen_prefix(rng, s_))
        for p in s_:
            addrs += probes_for(p, rng)[:5]
        rules.append({"not": rng.random() < 0.3, "values": [fmt_prefix(p, rng) for p in s_]})
    answers = []
    for _ in range(20 if big else 10):
        answers.append([fmt_addr128(rng.choice(addrs), rng) for _ in range(rng.choice([0, 1, 1, 1, 2, 2, 3]))])
    return {"kind": "response", "rules": rules, "answers": answers}


# ------------------------------------------------------------------------------------------------
# Coq printing
# ------------------------------------------------------------------------------------------------

class Pool:
    """numbers above 32 bits that occur at least 3 times in a cases file become named constants (a Definition
    costs about a millisecond), the others are written in place in hex"""

    def __init__(self):
        self.count = {}

    def n(self, x):
        if x < 1 << 32:
            return hex(x) if x > 9 else str(x)
        self.count[x] = self.count.get(x, 0) + 1
        return "@%x@" % x

    def finish(self, text):
        names = {}
        for x, c in self.count.items():
            if c >= 3:
                names[x] = "k%d" % len(names)
        header = "".join("Definition %s : N := %s.\n" % (nm, hex(x)) for x, nm in names.items())
        body = re.sub(r"@([0-9a-f]+)@", lambda m: names.get(int(m.group(1), 16), "0x" + m.group(1)), text)
        return header, body


def pack4(ws):
    return ws[0] | ws[1] << 32 | ws[2] << 64 | ws[3] << 96


def cprefix(d, pool):
    return "(Build_prefix %s %s %d)" % (vlib.cbool(d["is4"]), pool.n(int(d["addr"], 16)), d["bits"])


def addr_val(s):
    a = ipaddress.ip_address(s)
    return (MAPPED | int(a)) if a.version == 4 else int(a)


def parse_prefix_str(s):
    """the orchestrator's own reading of a prefix string (cross-check of the production parser)"""
    if "/" in s:
        a, b = s.rsplit("/", 1)
        bits = int(b)
    else:
        a, bits = s, None
    ip = ipaddress.ip_address(a)
    if bits is None:
        bits = 32 if ip.version == 4 else 128
    return {"is4": ip.version == 4, "addr": "%x" % int(ip), "bits": bits}


def mac_val(s):
    return int(s.replace(":", ""), 16)


def set_case_to_coq(case, res, pool):
    parsed = res["parsed"]
    mine = [parse_prefix_str(s) for s in case["prefixes"]]
    if [(d["is4"], int(d["addr"], 16), d["bits"]) for d in parsed] != [(d["is4"], int(d["addr"], 16), d["bits"]) for d in mine]:
        raise ValueError("production parser read %r as %r" % (case["prefixes"], parsed))
    bins = [cpair(str(len(b)), pool.n(int(b, 2) if b else 0)) for b in res["bins"]]
    keys = [cpair(str(k["prefixlen"]), pool.n(pack4(k["data"]))) for k in res["keys"]]
    return ("(Build_set_case %s %s %s %s %s %s %s %s %s)" % (
        vlib.cbool(res["big"]), clist([cprefix(d, pool) for d in parsed]),
        clist([pool.n(addr_val(s)) for s in case["probes"]]), clist(bins),
        clist([vlib.cbool(h) for h in res["has"]]), clist(keys),
        clist([pool.n(pack4(ws)) for ws in res["probe_words"]]),
        clist([cprefix(d, pool) for d in res["canon"]]), pool.n(int(res["hash"], 16))))


def builder_case_to_coq(case, res, pool):
    ops = []
    for op in case["ops"]:
        if op["op"] == "mac":
            ops.append("(OpMac %s %s)" % (vlib.cbool(op["not"]), clist([pool.n(mac_val(s)) for s in op["values"]])))
        else:
            ops.append("(OpIp %s %s %s)" % (vlib.cbool(op["op"] == "sip"), vlib.cbool(op["not"]),
                                            clist([cprefix(parse_prefix_str(s), pool) for s in op["values"]])))
    if res["indices"] != res["value_indices"]:
        raise ValueError("compiledRules lpmIndex %r <> bpfMatchSet.Value index %r" % (res["indices"], res["value_indices"]))
    pk = ["(Build_packet %s %s %s)" % (pool.n(addr_val(p[0])), pool.n(addr_val(p[1])), pool.n(addr_val(p[2]))) for p in case["packets"]]
    order = case.get("order") or ["snapshot", "install", "userspace"]
    installs = res.get("installs") or []
    for k, inst in enumerate(installs):
        if inst.get("err"):
            raise ValueError("snapshot.BuildKernspace #%d: %s" % (k, inst["err"]))
        if inst["rule_idx"] != res["indices"]:
            raise ValueError("snapshot.BuildKernspace #%d: the snapshot's rules point at sets %r, the builder's at %r" % (k, inst["rule_idx"], res["indices"]))
    return ("(Build_builder_case %s %s %s %s %s %s %s %s %s %s %s)" % (
        vlib.cbool(res["big"]), vlib.cbool(case["consthash"]), clist(ops), clist(pk),
        clist([str(i) for i in res["indices"] or []]),
        clist([clist([cprefix(d, pool) for d in t]) for t in res["tries"] or []]),
        clist(["None" if m < 0 else "(Some %d)" % m for m in res["matches"] or []]),
        clist([STEP_COQ[x] for x in order]),
        clist([pool.n(addr_val(a)) for a in case.get("set_probes") or []]),
        clist([clist([clist([cpair(str(k["prefixlen"]), pool.n(pack4(k["data"]))) for k in ks]) for ks in inst["keys"]]) for inst in installs]),
        clist([clist([vlib.cbool(h) for h in row]) for row in res.get("trie_has") or []])))


def response_case_to_coq(case, res, pool):
    rules = ["(Build_resp_rule %s %s)" % (vlib.cbool(r["not"]), clist([cprefix(parse_prefix_str(v), pool) for v in r["values"]]))
             for r in case["rules"]]
    return "(Build_resp_case %s %s %s)" % (
        clist(rules), clist([clist([pool.n(addr_val(a)) for a in ans]) for ans in case["answers"]]),
        clist(["None" if m < 0 else "(Some %d)" % m for m in res["matches"] or []]))


def parse_err_lists(outtxt, name, n):
    m = re.search(name + r"\s*=\s*(.*?)\n\s*:\s*list", outtxt, re.S)
    if not m:
        return None
    body = re.sub(r"\s+", "", m.group(1))
    per = re.findall(r"\[((?:\(\d+,\d+\);?)*)\]", body[1:-1])
    if len(per) != n:
        return None
    return [[(int(a), int(b)) for a, b in re.findall(r"\((\d+),(\d+)\)", p)] for p in per]


def run_impl(binary, test, cases, sc, tag):
    inp, outp = sc.path("c12_%s.in" % tag), sc.path("c12_%s.out" % tag)
    with open(inp, "w") as f:
        for c in cases:
            f.write(json.dumps(c) + "\n")
    rc, so, se, dt = vlib.run_go_harness(binary, test, inp, outp)
    if rc != 0:
        return None, "harness failed rc=%d: %s %s" % (rc, so[-2000:], se[-2000:])
    results = [json.loads(l) for l in open(outp)]
    if len(results) != len(cases):
        return None, "harness answered %d of %d cases" % (len(results), len(cases))
    return results, None


def run_batch(sc, binaries, cases, tag):
    """binaries = (control test binary, dns test binary)
    -> (errors: {case index: [(i, code, text)]}, signatures {kind: [...]}, fatal error text)"""
    results = [None] * len(cases)
    for kinds, binary, test in ((("set", "builder"), binaries[0], "TestVerifC12"), (("response",), binaries[1], "TestVerifC12Response")):
        idx = [i for i, c in enumerate(cases) if c["kind"] in kinds]
        if not idx:
            continue
        res, err = run_impl(binary, test, [cases[i] for i in idx], sc, tag + kinds[0])
        if err:
            return None, None, err
        for i, r in zip(idx, res):
            results[i] = r
    pool = Pool()
    errors = {}
    terms = {"set": [], "builder": [], "response": []}
    conv = {"set": set_case_to_coq, "builder": builder_case_to_coq, "response": response_case_to_coq}
    for i, (c, r) in enumerate(zip(cases, results)):
        if r.get("panic"):
            errors[i] = [(0, 90, "panic: " + r["panic"])]
            continue
        if r.get("err"):
            errors[i] = [(0, 91, "error: " + r["err"])]
            continue
        try:
            terms[c["kind"]].append((i, conv[c["kind"]](c, r, pool)))
        except ValueError as e:
            errors[i] = [(0, 91, str(e))]
    header, body = pool.finish(
        "Definition scases : list set_case := [\n" + ";\n".join(t for _, t in terms["set"]) + "\n].\n"
        "Definition bcases : list builder_case := [\n" + ";\n".join(t for _, t in terms["builder"]) + "\n].\n"
        "Definition rcases : list resp_case := [\n" + ";\n".join(t for _, t in terms["response"]) + "\n].\n")
    text = ("From Coq Require Import List NArith Bool.\nFrom Dae Require Import C12_Spec C12_Model C12_Check.\n"
            "Import ListNotations.\nOpen Scope N_scope.\n" + header + body +
            "Definition RS := Eval vm_compute in map check_set_case scases.\nPrint RS.\n"
            "Definition RB := Eval vm_compute in map check_builder_case bcases.\nPrint RB.\n"
            "Definition RR := Eval vm_compute in map check_resp_case rcases.\nPrint RR.\n"
            "Definition SS := Eval vm_compute in map set_signature scases.\nPrint SS.\n"
            "Definition SB := Eval vm_compute in map builder_signature bcases.\nPrint SB.\n"
            "Definition SR := Eval vm_compute in map resp_signature rcases.\nPrint SR.\n")
    name = "C12_cases_%s_%d" % (tag, os.getpid())
    ok, outtxt = vlib.coq_eval(name, text)
    try:
        os.remove(os.path.join(vlib.COQ, "cases", name + ".v"))
    except OSError:
        pass
    if not ok:
        return None, None, "coq evaluation failed: " + outtxt[-3000:]
    for kind, nm in (("set", "RS"), ("builder", "RB"), ("response", "RR")):
        per = parse_err_lists(outtxt, nm, len(terms[kind]))
        if per is None:
            return None, None, "cannot parse coq output (%s): %s" % (nm, outtxt[:600])
        for (i, _), e in zip(terms[kind], per):
            if e:
                errors[i] = [(a, b, CODE_TEXT.get(b, "")) for a, b in e]
    sigs = {}
    for kind, nm, arity in (("set", "SS", 3), ("builder", "SB", 4), ("response", "SR", 3)):
        m = re.search(nm + r"\s*=\s*(.*?)\n\s*:\s*list", outtxt, re.S)
        pat = r"\(" + ",".join([r"(\d+)"] * arity) + r"\)"
        sigs[kind] = re.findall(pat, re.sub(r"\s+", "", m.group(1))) if m else []
    return errors, sigs, None


# ------------------------------------------------------------------------------------------------
# classification helpers
# ------------------------------------------------------------------------------------------------

def is_v6_len0(s):
    d = parse_prefix_str(s)
    return (not d["is4"]) and d["bits"] == 0


def case_prefix_strings(case):
    if case["kind"] == "set":
        return list(case["prefixes"])
    if case["kind"] == "response":
        return [v for r in case["rules"] for v in r["values"]]
    return [v for op in case["ops"] if op["op"] != "mac" for v in op["values"]]


def spec_codes(errs):
    return sorted(set(c for (_, c, _) in errs if c in SPEC_CODES))


PREFIX_CODES = {1, 2, 3, 7}


def shrink(sc, binaries, case, errs=None):
    """-> (minimal case, its disagreements).  Batched greedy minimisation keeping some impl<>spec disagreement:
    every round evaluates all one-element removals in a single harness + coqc call and keeps the first that
    still fails.  Set cases first try the (one prefix, one probe) pairs the disagreement indices point at."""

    def failing(cands, tag):
        if not cands:
            return None
        res, _, err = run_batch(sc, binaries, cands, tag)
        if err is not None:
            return None
        for k in range(len(cands)):
            if spec_codes(res.get(k, [])):
                return cands[k], res[k]
        return None

    best = (case, errs or [])
    if case["kind"] == "set":
        pi = [i for (i, c, _) in (errs or []) if c in PREFIX_CODES and i < len(case["prefixes"])]
        qi = [i for (i, c, _) in (errs or []) if c not in PREFIX_CODES and c < 90 and i < len(case["probes"])]
        ps = list(dict.fromkeys([case["prefixes"][i] for i in pi] + case["prefixes"]))
        qs = list(dict.fromkeys([case["probes"][i] for i in qi] + case["probes"]))
        hit = failing([dict(case, prefixes=[p_], probes=[q]) for p_ in ps[:6] for q in qs[:8]], "shrink0")
        if hit is not None:
            return hit
    lists = {"set": ("prefixes", "probes"), "builder": ("ops", "packets", "set_probes"), "response": ("rules", "answers")}[case["kind"]]
    for rnd in range(40):
        case = best[0]
        cands = []
        for key in lists:
            if len(case.get(key) or []) > 1:
                cands += [dict(case, **{key: case[key][:i] + case[key][i + 1:]}) for i in range(len(case[key]))]
        if case["kind"] == "builder" and case.get("packets") and len(case.get("set_probes") or []) > 0:
            cands.append(dict(case, packets=[]))
        if case["kind"] == "builder" and list(case.get("order") or []).count("install") > 1:
            o = list(case["order"])
            o.reverse()
            o.remove("install")
            o.reverse()
            cands.append(dict(case, order=o))
        if case["kind"] != "set":
            key = lists[0]
            for j, it in enumerate(case[key]):
                if len(it["values"]) > 1:
                    for i in range(len(it["values"])):
                        it2 = dict(it, values=it["values"][:i] + it["values"][i + 1:])
                        cands.append(dict(case, **{key: case[key][:j] + [it2] + case[key][j + 1:]}))
        if case["kind"] == "response":
            for j, ans in enumerate(case["answers"]):
                if len(ans) > 1:
                    cands += [dict(case, answers=case["answers"][:j] + [[x]] + case["answers"][j + 1:]) for x in ans]
        hit = failing(cands, "shrink%d" % (rnd + 1))
        if hit is None:
            break
        best = hit
    return best


def describe(errs):
    out = []
    for (_, c, text) in errs:
        if c in SPEC_CODES:
            t = text[:200] if c >= 90 and text else CODE_TEXT[c]
            if t not in out:
                out.append(t)
    return "; ".join(out)


def matchers_for(case):
    """matcher ids computed from the minimised failing input (for known_findings.txt)"""
    ps = case_prefix_strings(case)
    ids = []
    if ps and len(ps) <= 2 and any(is_v6_len0(x) for x in ps):
        ids.append("prefix2bin128-ipv6-len0")
    return ids


def empty_cov(cov):
    cov.update(evaluations=0, distinct_nontrivial=0, rule="", samples=[], traces_validated_against_impl=0)


def main(argv):
    args = vlib.main_args(argv)
    out = vlib.Outcome(PID, args.tier, args.seed)
    rng = vlib.rng_for(args.seed, PID)
    thorough = args.tier == "thorough"
    n_set, n_builder, n_resp = (4000, 1500, 600) if thorough else (140, 60, 30)

    proof_ok, pinfo = vlib.proof_stage(out, PROPS, TARGETS)
    cov = {"obligations": pinfo["obligations"], "discharged": pinfo["discharged"],
           "checker_cmd": "cd /verif/coq && coq_makefile -f _CoqProject -o Makefile && make -j16 " + " ".join(TARGETS) + " && coqc -Q . Dae C12_Props.v (Print Assumptions captured)",
           "theorems": pinfo.get("theorems", []), "print_assumptions": pinfo.get("assumptions", []),
           "trusted_base": vlib.TRUSTED_BASE_COMMON + [
               "the succinct trie is modelled as the set of its keys (has_prefix); the LOUDS bit level belongs to C11; here the real NewTrieFromPrefixes/HasPrefix are compared with that abstraction on every probe",
               "net/netip (ParsePrefix, As16, Addr.Less, Prefix equality) and sort.Slice are library code: As16 modelled as the big-endian bytes of the mapped 128-bit value, sort.Slice as the sorted list under the comparator (a strict total order)",
               "kernel LPM trie (kernel/bpf/lpm_trie.c) modelled as: byte-loop longest_prefix_match + lookup returns the longest stored key all of whose prefixlen bits the probe shares; the datapath key is the 16 address bytes with prefixlen 128 (tproxy.c); the C side of the lookup belongs to C02/C19",
               "cidrToBpfLpmKey and the constant-hash variants of addIp/addSourceIp are lifted from the source text of control/bpf_utils.go and control/routing_matcher_builder.go at run time (bpf_utils.go does not compile in the stub build)"]}
    out.coverage = cov
    out.assumptions = ["prefixes are valid (netip.ParsePrefix accepted them): length 0..32 for IPv4, 0..128 for IPv6, no zone; sets are non-empty (a function without parameters never reaches addIp)",
                       "LPM map capacity (max_entries) is not exceeded; all values written are 1",
                       "rule semantics beyond single address-set rules (AND/OR chains, must, other match types) belong to C01; a negated mac() rule is taken to exclude the zero MAC as the code documents"]

    with vlib.Scratch() as sc:
        try:
            lifted = lifted_source()
        except (RuntimeError, OSError) as e:
            out.violation("lift", {"broken": str(e)}, "cannot lift cidrToBpfLpmKey/addIp from the source: " + str(e), no_failing_input=True)
            empty_cov(cov)
            return out.finish()
        lp = sc.path("zz_verif_c12_lifted_test.go")
        with open(lp, "w") as f:
            f.write(lifted)
        b1, blog1 = vlib.build_go_test_binary(sc, "control", HARNESS, out_name="control_c12.test",
                                              extra_overlay={os.path.join(vlib.REPO, "control", "zz_verif_c12_lifted_test.go"): lp})
        b2, blog2 = (None, "") if b1 is None else vlib.build_go_test_binary(sc, "component/dns", HARNESS_DNS, out_name="dns_c12.test")
        if b1 is None or b2 is None:
            out.violation("build", {"broken": "harness build against the repository failed", "log": (blog1 + blog2)[-3000:]},
                          "correspondence harness no longer builds", no_failing_input=True)
            empty_cov(cov)
            return out.finish()
        binaries = (b1, b2)

        if args.replay:
            rp = json.load(open(args.replay))
            case = rp.get("replay", {}).get("case") or rp.get("case") or rp
            errs, _, err = run_batch(sc, binaries, [case], "replay")
            dis = errs.get(0, []) if errs else None
            print(json.dumps({"case": case, "fatal": err, "disagreements": dis,
                              "impl_vs_spec": [d for d in dis or [] if d[1] in SPEC_CODES],
                              "impl_vs_model": [d for d in dis or [] if d[1] in MODEL_CODES],
                              "model_vs_spec": [d for d in dis or [] if d[1] in THM_CODES]}, indent=1))
            return 1 if (err or dis) else 0

        corpus = []
        cdir = os.path.join(vlib.VERIF, "corpus", PID)
        if os.path.isdir(cdir):
            for n in sorted(os.listdir(cdir)):
                if n.endswith(".json"):
                    corpus.append(json.load(open(os.path.join(cdir, n))))
        sweep = sweep_cases([0xaa55aa55aa55aa55aa55aa55aa55aa55] + ([0, M128, 0x20010db80a0b0c0d0102030405060708] if thorough else []))
        cases = corpus + sweep + [gen_set_case(rng, big=(thorough and i % 5 == 0)) for i in range(n_set)] \
            + [gen_builder_case(rng, big=(thorough and i % 4 == 0)) for i in range(n_builder)] \
            + [gen_response_case(rng, big=(thorough and i % 4 == 0)) for i in range(n_resp)]

        all_err = {}
        sigs = {"set": [], "builder": [], "response": []}
        state = {"tie": None}
        shard = 400

        def run_all(cs, base, tagp):
            for s in range(0, len(cs), shard):
                errs, sg, err = run_batch(sc, binaries, cs[s:s + shard], "%s%d" % (tagp, s))
                if err:
                    state["tie"] = err
                    return
                for i, e in errs.items():
                    all_err[base + s + i] = e
                for k in sigs:
                    sigs[k].extend(sg[k])

        run_all(cases, 0, "b")

        def classes():
            spec = sorted(i for i, e in all_err.items() if spec_codes(e))
            model = sorted(i for i, e in all_err.items() if any(c in MODEL_CODES for (_, c, _) in e))
            thm = sorted(i for i, e in all_err.items() if any(c in THM_CODES for (_, c, _) in e))
            return spec, model, thm

        spec_fail, model_fail, thm_fail = classes()
        # model<>spec is expected exactly where the _refuted theorems say (there the implementation differs from the
        # spec too); a model<>spec or impl<>model case that is not also an impl<>spec case is a broken tie
        unexplained = [i for i in thm_fail + model_fail if i not in spec_fail]
        widened = False
        if ((not proof_ok) or unexplained) and not spec_fail and not state["tie"]:
            widened = True
            extra = [gen_set_case(rng, big=True) for _ in range(2500)] + [gen_builder_case(rng, big=True) for _ in range(1000)] \
                + [gen_response_case(rng, big=True) for _ in range(500)]
            base = len(cases)
            cases += extra
            run_all(extra, base, "w")
            spec_fail, model_fail, thm_fail = classes()
            unexplained = [i for i in thm_fail + model_fail if i not in spec_fail]
        n_eval = len(cases)

        if spec_fail and not state["tie"]:
            i = spec_fail[0]
            small, e = shrink(sc, binaries, cases[i], all_err[i])
            out.violation("impl_vs_spec", {"case": small, "disagreements": e, "original_case_index": i,
                                           "how": "./check C12 --replay <this file>: feeds the case to the harness and prints where implementation, model and spec disagree"},
                          "address set does not match by CIDR containment: %s (%d failing cases of %d)" % (describe(e), len(spec_fail), n_eval),
                          matchers=matchers_for(small))
        # impl<>model / model<>spec cases that are not themselves impl<>spec cases: a broken tie, unless a failing
        # input was just reported (then they are taken to stem from the same change)
        if spec_fail:
            unexplained = []
        if state["tie"] or not proof_ok or unexplained:
            what = {}
            if not proof_ok:
                what["proof"] = pinfo["failed"]
            if state["tie"]:
                what["correspondence"] = state["tie"]
            if unexplained:
                i = unexplained[0]
                what["correspondence_case"] = {"case": cases[i], "disagreements": all_err[i]}
            what["searched"] = "%d cases (widened=%s)" % (n_eval, widened)
            out.violation("tie", what, "proof obligation or model correspondence no longer checks; no failing input found for it",
                          no_failing_input=True)

        ssigs, bsigs, rsigs = sigs["set"], sigs["builder"], sigs["response"]
        nontrivial = (len(set(s for s in ssigs if int(s[0]) > 0 and int(s[1]) > 0))
                      + len(set(s for s in bsigs if int(s[0]) > 1 and int(s[3]) > 1))
                      + len(set(s for s in rsigs if int(s[1]) > 1)))
        flags = {}
        names = ["v4", "v6", "4in6-literal", "len128=0", "v4/0", "host-route", "duplicate", "nested", "unmasked"]
        for s in ssigs:
            for b, nm in enumerate(names):
                if int(s[2]) >> b & 1:
                    flags[nm] = flags.get(nm, 0) + 1
        first = {k: next((c for c in cases[len(corpus):] if c["kind"] == k), None) for k in ("set", "builder", "response")}
        cov.update(evaluations=n_eval, distinct_nontrivial=nontrivial,
                   distinct_signatures=len(set(ssigs)) + len(set(bsigs)) + len(set(rsigs)),
                   rule=("sweep: every prefix length 0..32 and 0..128 alone in its set with its boundary probes (%d cases); set cases: 1-8 (thorough: up to 20) prefixes, boundary-biased lengths (0,1,7,8,9,...,31,32 / ...,127,128), v4, v6 and ::ffff: literals, "
                        "unmasked, nested, sibling, duplicate members; probes = first/last address inside, the neighbours just outside, sibling block, upper half for every "
                        "member plus the edges of the mapped range; signature = (#probes matched, #probes not matched, feature bits of the set); non-trivial = at least one "
                        "matched and one unmatched probe. builder cases: 1-7 (12) ip/sip/mac rules over a small pool of sets (permuted, duplicated, extended, shortened), "
                        "35%% with a constant hash forcing the collision branch; signature = (#rules, #rules sharing an index, #stored sets, #distinct outcomes); "
                        "non-trivial = more than one rule and more than one outcome. response cases: 1-5 ip rules of DNS response routing, answers of 0-3 addresses; "
                        "signature = (#rules, #distinct outcomes, #multi-address answers); non-trivial = more than one outcome") % len(sweep),
                   set_feature_counts=flags, set_cases=len(ssigs), builder_cases=len(bsigs), response_cases=len(rsigs),
                   builder_cases_with_sharing=sum(1 for s in bsigs if int(s[1]) > 0),
                   builder_orders={"/".join(o): sum(1 for c in cases if c["kind"] == "builder" and tuple(c.get("order") or ORDERS[0]) == o) for o in ORDERS},
                   traces_validated_against_impl=n_eval - len(model_fail),
                   comparisons="per prefix: Prefix2bin128 / cidrToBpfLpmKey vs model (and vs spec bits); per probe: HasPrefix vs model trie vs containment, LPM lookup over the "
                               "implementation's keys vs containment, userspace vs kernel; canonicalizePrefixes, hashLpmSet vs model; builder: lpm indices, stored sets, "
                               "RoutingMatcher.Match outcome vs model vs first-hit spec, kernel decision over the stored sets, sharing only between identical sets; "
                               "per order of KernspaceSnapshot / BuildUserspace / snapshot.BuildKernspace (first start, staged reload, rollback): the key lists the replayed "
                               "BuildKernspace takes from the snapshot vs model (canonical list of every set), and per rule and probe kernel keys vs userspace trie vs the rule's set; "
                               "ResponseMatcher.Match outcome vs model vs spec",
                   samples=[c for c in first.values() if c is not None],
                   widened_search=widened,
                   failing_cases={"impl_vs_spec": len(spec_fail), "impl_vs_model": len(model_fail), "model_vs_spec": len(thm_fail)})
    return out.finish()


if __name__ == "__main__":
    sys.exit(main(sys.argv[1:]))
