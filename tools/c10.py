"""C10 — the kernel's address-to-domain table mirrors the live DNS cache (DESIGN.md 6/C10)."""
import ipaddress
import json
import os
import re
import sys

sys.path.insert(0, os.path.dirname(os.path.abspath(__file__)))
import vlib
from vlib import cN, clist, cpair, log

PID = "C10"
PROPS = "C10_Props.v"
TARGETS = ["C10_Props.vo", "C10_Check.vo", "C10_CacheProps.vo", "C10_Ctl_Props.vo", "gen/C10_SyncProg.vo", "gen/C10_ReplayFilter.vo"]
HARNESS = ["control/common_test.go", "control/c10_test.go", "control/c10ctl_test.go", "control/c10conc_test.go"]

BITMAPS = [0, 1, 2, 3, 5, 6, 1 << 31, 1 << 32, (1 << 31) | 1, 1 << 1023, (1 << 1023) | (1 << 32), 0xffffffff, 1 << 33]
ADDRS = ["1.2.3.4", "1.2.3.5", "10.0.0.1", "255.255.255.255", "::1", "2001:db8::1", "2001:db8::2", "::ffff:1.2.3.4",
         "0.0.0.0", "::", "fe80::1", "0.0.0.1", "::ffff:0.0.0.0"]


def ip_int(s):
    a = ipaddress.ip_address(s)
    if a.version == 4:
        return 0xffff00000000 | int(a)
    return int(a)


def gen_case(rng, big=False):
    n_owners = rng.randint(1, 6)
    owners = ["o%d" % i for i in range(n_owners)]
    if rng.random() < 0.3:
        owners.append("example.com.1|scope%d" % rng.randint(0, 3))
    addrs = rng.sample(ADDRS, rng.randint(1, 6))
    n_ops = rng.randint(1, 60 if big else 24)
    ops = []
    for _ in range(n_ops):
        o = rng.choice(owners)
        r = rng.random()
        if r < 0.2:
            ops.append({"owner": o, "remove": True, "bitmap": "0", "ips": []})
            continue
        bm = rng.choice(BITMAPS)
        if rng.random() < 0.2:
            bm |= rng.choice(BITMAPS)
        k = rng.choice([0, 1, 1, 2, 2, 3, 4])
        ips = [rng.choice(addrs) for _ in range(k)]  # duplicates possible
        ops.append({"owner": o, "remove": False, "bitmap": "%x" % bm, "ips": ips, "other": rng.randint(0, 2)})
    return {"ops": ops}


def key_to_int_table(res, case):
    """production key (hex words) -> 128-bit address value, via the keys the harness computed for every
    input address with the production function."""
    tab = {}
    for s, k in res["keys"].items():
        tab[k] = ip_int(s)
    return tab


def case_to_coq(case, res, owner_ids, pool):
    cN = pool.n
    tab = key_to_int_table(res, case)

    def key(k):
        if k not in tab:
            raise KeyError("implementation produced a key for no input address: " + k)
        return tab[k]

    steps = []
    univ = set(ip_int(a) for a in ADDRS)
    for op, b in zip(case["ops"], res["batches"]):
        o = owner_ids[op["owner"]]
        if op["remove"]:
            cop = "(CRemove %s)" % cN(o)
        else:
            ans = [(ipaddress.ip_address(s).version == 4, ip_int(s)) for s in op["ips"]]
            univ.update(a for _, a in ans)
            cop = "(CInsert %s (Build_cache_entry %s %s))" % (cN(o), cN(int(op["bitmap"], 16)), clist([cpair(vlib.cbool(v4), cN(a)) for v4, a in ans]))
        ups = clist([cpair(cN(key(k)), cN(int(v, 16))) for k, v in b["updates"]])
        dels = clist([cN(key(k)) for k in b["deletes"]])
        steps.append("(Build_obs_step %s %s %s)" % (cop, ups, dels))
    fo = []
    for o, v in res["owners"].items():
        bm, ks = v.split("|")
        ks = [x for x in ks.strip("[]").split() if x]
        fo.append(cpair(cN(owner_ids[o]), cpair(cN(int(bm, 16)), clist([cN(key(k)) for k in ks]))))
    fi = []
    for k, v in res["index"].items():
        merged, os_ = v.split("|", 1)
        # owners may contain '|' in their names: format is [o=bm o=bm]
        items = [x for x in os_.strip("[]").split() if x]
        pairs = []
        for it in items:
            name, bm = it.rsplit("=", 1)
            pairs.append(cpair(cN(owner_ids[name]), cN(int(bm, 16))))
        fi.append(cpair(cN(key(k)), cpair(cN(int(merged, 16)), clist(pairs))))
    return ("{| oc_steps := %s;\n   oc_universe := %s; oc_owners := %s;\n   oc_final_owners := %s;\n   oc_final_index := %s |}"
            % (clist(steps), clist([cN(x) for x in sorted(univ)]), clist([cN(x) for x in sorted(set(owner_ids.values()))]),
               clist(fo), clist(fi)))


def run_batch(sc, binary, cases, tag):
    """run cases on the implementation, evaluate in Coq; returns list of per-case error code lists, sigs"""
    inp = sc.path("c10_%s.in" % tag)
    outp = sc.path("c10_%s.out" % tag)
    with open(inp, "w") as f:
        for c in cases:
            f.write(json.dumps(c) + "\n")
    rc, so, se, dt = vlib.run_go_harness(binary, "TestVerifC10", inp, outp)
    if rc != 0:
        return None, None, "harness failed rc=%d: %s %s" % (rc, so[-2000:], se[-2000:])
    results = [json.loads(l) for l in open(outp)]
    coq_cases = []
    pre_errors = {}
    pool = vlib.NumPool()
    for i, (c, r) in enumerate(zip(cases, results)):
        if r.get("panic"):
            pre_errors[i] = [(0, 9, "panic: " + r["panic"])]
            coq_cases.append(None)
            continue
        errs = [j for j, b in enumerate(r["batches"]) if b.get("err")]
        if errs:
            pre_errors[i] = [(errs[0], 9, "error: " + r["batches"][errs[0]]["err"])]
            coq_cases.append(None)
            continue
        owner_ids = {}
        for op in c["ops"]:
            owner_ids.setdefault(op["owner"], len(owner_ids) + 1)
        try:
            coq_cases.append(case_to_coq(c, r, owner_ids, pool))
        except KeyError as e:
            pre_errors[i] = [(0, 2, str(e))]
            coq_cases.append(None)
    idx = [i for i, x in enumerate(coq_cases) if x is not None]
    text = ("From Coq Require Import List NArith Bool.\nFrom Dae Require Import C10_Spec C10_Model C10_Cache C10_Check.\n"
            "Import ListNotations.\nOpen Scope N_scope.\n" + pool.header() +
            "Definition cases : list obs_case := [\n" + ";\n".join(coq_cases[i] for i in idx) + "\n].\n"
            "Definition R := Eval vm_compute in map check_case cases.\nPrint R.\n"
            "Definition S := Eval vm_compute in map case_signature cases.\nPrint S.\n")
    ok, outtxt = vlib.coq_eval("C10_cases_%s" % tag, text)
    if not ok:
        return None, None, "coq evaluation failed: " + outtxt[-3000:]
    m = re.search(r"R\s*=\s*(.*?)\n\s*:\s*list", outtxt, re.S)
    body = re.sub(r"\s+", "", m.group(1))
    # body like [[];[(0,1);(2,2)];[]]
    per = re.findall(r"\[((?:\(\d+,\d+\);?)*)\]", body[1:-1])
    if len(per) != len(idx):
        return None, None, "cannot parse coq output (%d vs %d): %s" % (len(per), len(idx), body[:500])
    errors = {}
    for i, p in zip(idx, per):
        errors[i] = [(int(a), int(b), "") for a, b in re.findall(r"\((\d+),(\d+)\)", p)]
    errors.update(pre_errors)
    m2 = re.search(r"S\s*=\s*(.*?)\n\s*:\s*list", outtxt, re.S)
    sigs = re.findall(r"\((\d+),(\d+),(\d+),(\d+)\)", re.sub(r"\s+", "", m2.group(1))) if m2 else []
    return errors, sigs, None


def shrink(sc, binary, case, want_code):
    """greedy: shortest prefix, then drop single ops, keeping an impl<>spec failure"""
    def fails(c):
        errs, _, err = run_batch(sc, binary, [c], "shrink")
        return err is None and any(code == want_code for (_, code, _) in errs.get(0, []))
    ops = list(case["ops"])
    for n in range(1, len(ops) + 1):
        if fails({"ops": ops[:n]}):
            ops = ops[:n]
            break
    changed = True
    rounds = 0
    while changed and rounds < 40:
        changed = False
        for i in range(len(ops) - 1):
            rounds += 1
            cand = ops[:i] + ops[i + 1:]
            if cand and fails({"ops": cand}):
                ops = cand
                changed = True
                break
    return {"ops": ops}


# ------------------------------------------------------------------------------------------------
# second stream: DNS controller with the production callbacks
# ------------------------------------------------------------------------------------------------
HOSTS = ["a.com", "B.com", "b.com", "c.net.", "x.y.z"]


def gen_ctl_case(rng):
    hosts = rng.sample(HOSTS, rng.randint(1, 4))
    bitmaps = {}
    for h in HOSTS:
        fq = (h if h.endswith(".") else h + ".").lower()
        bitmaps[fq] = "%x" % rng.choice(BITMAPS)
    addrs = rng.sample(ADDRS, rng.randint(1, 5))
    ops = []
    for _ in range(rng.randint(1, 16)):
        r = rng.random()
        h = rng.choice(hosts)
        qt = rng.choice([1, 28, 1])
        sc = rng.choice(["", "", "asis", "u1"])
        if r < 0.6:
            ips = [a for a in (rng.choice(addrs) for _ in range(rng.choice([0, 1, 2, 2, 3])))]
            ops.append({"kind": "insert", "host": h, "qtype": qt, "scope": sc, "ips": ips, "ttl": rng.choice([1, 2, 60, 300])})
        elif r < 0.75:
            ops.append({"kind": "remove", "host": h, "qtype": qt, "scope": sc})
        elif r < 0.82:
            ops.append({"kind": "family", "host": h, "qtype": qt})
        elif r < 0.92:
            ops.append({"kind": "janitor", "at_sec": rng.choice([0, 1, 3, 100, 1000])})
        else:
            ops.append({"kind": "reload"})
    bitmaps2 = {}
    for h in HOSTS:
        fq = (h if h.endswith(".") else h + ".").lower()
        bitmaps2[fq] = "%x" % rng.choice(BITMAPS)
    return {"bitmaps": bitmaps, "bitmaps2": bitmaps2, "max_cache_size": rng.choice([0, 0, 1, 2, 3]), "ops": ops}


CTL_SIGS = []
CTL_STATS = {"glue_cases": 0, "glue_steps": 0, "glue_calls": 0}


def run_ctl_batch(sc, binary, cases, tag, record=True):
    inp = sc.path("c10ctl_%s.in" % tag)
    outp = sc.path("c10ctl_%s.out" % tag)
    with open(inp, "w") as f:
        for c in cases:
            f.write(json.dumps(c) + "\n")
    rc, so, se, dt = vlib.run_go_harness(binary, "TestVerifC10Ctl", inp, outp)
    if rc != 0:
        return None, "controller harness failed rc=%d: %s %s" % (rc, so[-2000:], se[-2000:])
    results = [json.loads(l) for l in open(outp)]
    pool = vlib.NumPool()
    cN = pool.n
    coq_cases = []
    errors = {}
    idx = []
    glue_terms = []
    gidx = []
    big_cases = []
    bidx = []
    for i, (c, r) in enumerate(zip(cases, results)):
        if r.get("panic"):
            errors[i] = [(0, 9, "panic: " + r["panic"])]
            continue
        tab = {k: ip_int(s) for s, k in r["keys"].items()}
        univ = set(ip_int(a) for a in ADDRS)
        steps = []
        bad = None
        for si, st in enumerate(r["steps"]):
            if st.get("err"):
                bad = (si, 9, "error: " + st["err"])
                break
            live = []
            for oi, l in enumerate(st["live"]):
                ans = [(True, ip_int(a)) for a in l["a"]] + [(False, ip_int(a)) for a in l["aaaa"]]
                univ.update(a for _, a in ans)
                live.append(cpair(cN(oi + 1), "(Build_cache_entry %s %s)" % (cN(int(l["bitmap"], 16)), clist([cpair(vlib.cbool(v4), cN(a)) for v4, a in ans]))))
            sh = []
            for k, v in st["shadow"]:
                if k not in tab:
                    bad = (si, 2, "kernel map holds a key for no address ever inserted: " + k)
                    break
                sh.append(cpair(cN(tab[k]), cN(int(v, 16))))
            if bad:
                break
            steps.append(cpair(clist(live), clist(sh)))
        if bad:
            errors[i] = [bad]
            continue
        if c.get("quiet"):
            # large history dumped after its last operation only: linear-time table (check_ctl_case_big)
            bidx.append(i)
            big_cases.append(cpair(clist(steps), clist([cN(x) for x in sorted(univ)])))
            continue
        idx.append(i)
        coq_cases.append(cpair(clist(steps), clist([cN(x) for x in sorted(univ)])))
        g = glue_case_to_coq(c, r, pool)
        if g is not None:
            gidx.append(i)
            glue_terms.append(g)
    text = ("From Coq Require Import List NArith Bool.\nFrom Dae Require Import C10_Spec C10_Model C10_Cache C10_Check.\n"
            "Import ListNotations.\nOpen Scope N_scope.\n" + pool.header() +
            "Definition cases : list (list (list (N * cache_entry) * list (N * N)) * list N) := [\n" + ";\n".join(coq_cases) + "\n].\n"
            "Definition R := Eval vm_compute in map check_ctl_case cases.\nPrint R.\n"
            "From Dae Require Import C10_Ctl_Model.\n"
            "Definition gcases : list ctl_case := [\n" + ";\n".join(glue_terms) + "\n].\n"
            "Definition G := Eval vm_compute in map check_ctl_glue gcases.\nPrint G.\n"
            "Definition GS := Eval vm_compute in map ctl_signature gcases.\nPrint GS.\n"
            "Definition bigcases : list (list (list (N * cache_entry) * list (N * N)) * list N) := [\n" + ";\n".join(big_cases) + "\n].\n"
            "Definition B := Eval vm_compute in map check_ctl_case_big bigcases.\nPrint B.\n")
    ok, outtxt = vlib.coq_eval("C10_ctl_%s" % tag, text)
    if not ok:
        return None, "coq evaluation failed: " + outtxt[-3000:]
    m = re.search(r"R\s*=\s*(.*?)\n\s*:\s*list", outtxt, re.S)
    body = re.sub(r"\s+", "", m.group(1))
    per = re.findall(r"\[([\d;]*)\]", body[1:-1])
    if len(per) != len(idx):
        return None, "cannot parse coq output (%d vs %d): %s" % (len(per), len(idx), body[:300])
    for i, p in zip(idx, per):
        errors[i] = [(int(x), 2, "") for x in p.split(";") if x]
    mb = re.search(r"B\s*=\s*(.*?)\n\s*:\s*list", outtxt, re.S)
    perb = re.findall(r"\[([\d;]*)\]", re.sub(r"\s+", "", mb.group(1))[1:-1]) if mb else None
    if perb is None or len(perb) != len(bidx):
        return None, "cannot parse coq output of the large-history check: " + outtxt[-500:]
    for i, p in zip(bidx, perb):
        errors[i] = [(int(x), 2, "") for x in p.split(";") if x]
    # controller glue: tracker calls / cache contents / kernel map against the model, model against spec
    g = parse_pair_lists(outtxt, "G", len(gidx))
    if g is None:
        return None, "cannot parse coq output of the controller glue check: " + outtxt[-800:]
    for i, e in zip(gidx, g):
        have = set((st, code) for (st, code, _) in errors.get(i, []))
        errors[i] = errors.get(i, []) + [(st, code, "glue") for (st, code) in e if (st, code) not in have]
    m3 = re.search(r"GS\s*=\s*(.*?)\n\s*:\s*list", outtxt, re.S)
    if m3 and record:
        CTL_SIGS.extend(re.findall(r"\((\d+),(\d+),(\d+),(\d+)\)", re.sub(r"\s+", "", m3.group(1))))
    if record:
        CTL_STATS["glue_cases"] += len(gidx)
        CTL_STATS["glue_steps"] += sum(len(results[i]["steps"]) for i in gidx)
        CTL_STATS["glue_calls"] += sum(len(st["calls"]) for i in gidx for st in results[i]["steps"])
    return errors, None


# ---- controller glue (C10_Ctl_Model.v): tracker calls, cache contents, kernel map per operation ----
GLUE_CODES = "1 impl<>model tracker calls  2 impl<>spec  3 model<>spec  4 impl<>model cache contents  5 LRU victims not least recently used  6 impl<>model kernel map  9 panic/error"


BPF_UPDATE_QUEUE_SIZE = 1024  # const bpfUpdateQueueSize in startBpfUpdateWorker (control/dns_control.go)
OVERFLOW_MATCHER = "C10/reload-resync-queue-overflow"


def reload_overflow_case(n):
    """n cached names over 16 shared addresses, then a reload: RestoreReloadCache queues one re-sync task
    per entry on a queue of BPF_UPDATE_QUEUE_SIZE with a non-blocking send."""
    bm = {"h%d.test." % i: "%x" % (1 << (i % 1000)) for i in range(n)}
    ops = [{"kind": "insert", "host": "h%d.test" % i, "qtype": 1, "scope": "", "ips": ["10.9.8.%d" % (1 + i % 16)], "ttl": 300}
           for i in range(n)]
    ops.append({"kind": "reload"})
    # hold_worker: the re-sync worker is parked at its first kernel write (a slow write) until RestoreReloadCache
    # has offered every entry to the queue - whether the queue overflows does not depend on the worker's speed
    return {"bitmaps": bm, "bitmaps2": bm, "max_cache_size": 0, "quiet": True, "hold_worker": True, "ops": ops}


def bpf_update_queue_size():
    """const bpfUpdateQueueSize in startBpfUpdateWorker (control/dns_control.go)"""
    m = re.search(r"const\s+bpfUpdateQueueSize\s*=\s*(\d+)", open(os.path.join(vlib.REPO, "control", "dns_control.go")).read())
    return int(m.group(1)) if m else BPF_UPDATE_QUEUE_SIZE


def extract_replay_filter():
    """Does ControlPlane.replayDnsReloadCache test or filter the pending snapshot before RestoreReloadCache?
    By shape: between the nil guard and the RestoreReloadCache call nothing may read a Deadline, compare times,
    range over or delete from the snapshot, and the snapshot itself must be the argument.  Returns (flag, why)."""
    path = os.path.join(vlib.REPO, "control", "control_plane.go")
    m = re.search(r"func \(c \*ControlPlane\) replayDnsReloadCache\(\) \{.*?\n\}\n", open(path).read(), re.S)
    if not m:
        return True, "func (c *ControlPlane) replayDnsReloadCache not found"
    body = "\n".join(l.split("//")[0] for l in m.group(0).split("\n"))
    call = re.search(r"RestoreReloadCache\(\s*([^,]+),", body)
    if not call:
        return True, "no RestoreReloadCache call in replayDnsReloadCache"
    if call.group(1).strip() != "c.pendingDnsReloadCache":
        return True, "RestoreReloadCache is not given c.pendingDnsReloadCache itself: " + call.group(1).strip()
    before = body[:call.start()]
    for pat, why in ((r"Deadline", "reads a Deadline"), (r"\.(After|Before|Sub|Compare)\(", "compares times"),
                     (r"range\s+c\.pendingDnsReloadCache", "ranges over the snapshot"),
                     (r"delete\(\s*c\.pendingDnsReloadCache", "deletes from the snapshot"),
                     (r"c\.pendingDnsReloadCache\s*(\[[^\]]*\])?\s*=[^=]", "rewrites the snapshot")):
        if re.search(pat, before):
            return True, "replayDnsReloadCache %s before RestoreReloadCache" % why
    return False, "snapshot handed to RestoreReloadCache unfiltered"


def write_replay_filter(flag):
    text = ("(* GENERATED by tools/c10.py from control/control_plane.go (func replayDnsReloadCache) - do not edit.\n"
            "   true iff the pending reload snapshot is filtered / tested for expiry before RestoreReloadCache. *)\n"
            "Definition replay_filters_expired : bool := %s.\n" % vlib.cbool(flag))
    vlib.write_if_changed(os.path.join(vlib.COQ, "gen", "C10_ReplayFilter.v"), text)


def gen_ctl_case3(rng):
    """staged reload with controller reuse: entries past their TTL but not evicted (ttl 0; no lookup, no janitor
    before the reload) sharing addresses with fresh ones; same rule set before and after"""
    hosts = rng.sample(HOSTS, rng.randint(2, 4))
    bitmaps = {}
    for h in HOSTS:
        fq = (h if h.endswith(".") else h + ".").lower()
        bitmaps[fq] = "%x" % rng.choice(BITMAPS[1:])
    addrs = rng.sample([a for a in ADDRS if a not in ("0.0.0.0", "::")], rng.randint(1, 3))
    scopes = ["", "asis", "upstream@udp://1.1.1.1:53"]
    ops, tag = [], 0

    def ins(ttl):
        nonlocal tag
        tag += 1
        return {"kind": "insert", "host": rng.choice(hosts), "qtype": rng.choice([1, 1, 28]), "scope": rng.choice(scopes),
                "ips": [rng.choice(addrs) for _ in range(rng.choice([1, 2, 2, 3]))], "ttl": ttl, "tag": tag}
    for _ in range(rng.randint(2, 6)):
        ops.append(ins(rng.choice([0, 0, 300, 300, 60])))
    ops.append({"kind": "reload_reuse"})
    for _ in range(rng.randint(0, 5)):
        r = rng.random()
        if r < 0.4:
            ops.append(ins(rng.choice([0, 300])))
        elif r < 0.6:
            src = rng.choice([o for o in ops if o["kind"] == "insert"])
            ops.append({"kind": "remove", "host": src["host"], "qtype": src["qtype"], "scope": src["scope"]})
        elif r < 0.7:
            src = rng.choice([o for o in ops if o["kind"] == "insert"])
            ops.append({"kind": "family", "host": src["host"], "qtype": src["qtype"]})
        elif r < 0.85:
            ops.append({"kind": "reload_reuse"})
        else:
            ops.append({"kind": "janitor", "at_sec": rng.choice([0, 1, 100])})
    return {"bitmaps": bitmaps, "bitmaps2": bitmaps, "max_cache_size": 0, "ops": ops}


def gen_ctl_case2(rng):
    """histories biased towards the glue: several scopes of one name sharing addresses, ttl 0 entries,
    lookups (expiry path), evictDnsRespCacheIfSame with current and stale pointers, optimistic cache,
    janitor with both passes, reloads"""
    hosts = rng.sample(HOSTS, rng.randint(1, 3))
    bitmaps, bitmaps2 = {}, {}
    for h in HOSTS:
        fq = (h if h.endswith(".") else h + ".").lower()
        bitmaps[fq] = "%x" % rng.choice(BITMAPS)
        bitmaps2[fq] = "%x" % rng.choice(BITMAPS)
    addrs = rng.sample(ADDRS, rng.randint(1, 4))
    scopes = ["", "asis", "asis@8.8.8.8:53", "upstream@udp://1.1.1.1:53", "reject"]
    ops = []
    tag = 0
    inserted = []
    for _ in range(rng.randint(2, 18)):
        r = rng.random()
        h = rng.choice(hosts)
        qt = rng.choice([1, 1, 28])
        sc = rng.choice(scopes)
        if r < 0.5 or not inserted:
            tag += 1
            ips = [rng.choice(addrs) for _ in range(rng.choice([0, 1, 1, 2, 2, 3]))]
            op = {"kind": "insert", "host": h, "qtype": qt, "scope": sc, "ips": ips, "ttl": rng.choice([0, 0, 1, 2, 60, 300]), "tag": tag}
            inserted.append(op)
            ops.append(op)
        elif r < 0.6:
            ops.append({"kind": "remove", "host": h, "qtype": qt, "scope": sc})
        elif r < 0.66:
            ops.append({"kind": "family", "host": h, "qtype": qt})
        elif r < 0.76:
            src = rng.choice(inserted)
            ops.append({"kind": "evict", "host": src["host"], "qtype": src["qtype"], "scope": src["scope"],
                        "ref": src["tag"] if rng.random() < 0.8 else 9999})
        elif r < 0.84:
            src = rng.choice(inserted)
            ops.append({"kind": "lookup", "host": src["host"], "qtype": src["qtype"], "scope": src["scope"]})
        elif r < 0.94:
            ops.append({"kind": "janitor", "at_sec": rng.choice([0, 1, 2, 3, 61, 100, 1000])})
        else:
            ops.append({"kind": "reload"})
    case = {"bitmaps": bitmaps, "bitmaps2": bitmaps2, "max_cache_size": rng.choice([0, 0, 1, 2, 3, 5]), "ops": ops}
    if rng.random() < 0.4:
        case["optimistic_cache"] = rng.random() < 0.7
        case["optimistic_cache_ttl"] = rng.choice([0, 1, 2, 60])
    return case


def _ans_term(cN, ans):
    """["4:1.2.3.4", "6:::1"] -> Coq list of (is A record, 128-bit value)"""
    out = []
    for a in ans or []:
        fam, ip = a.split(":", 1)
        out.append(cpair(vlib.cbool(fam == "4"), cN(ip_int(ip))))
    return clist(out)


def glue_case_to_coq(case, res, pool):
    """Coq term of type ctl_case for one controller history and what the implementation did; None if
    the harness output predates the call recording.  Raises KeyError on a kernel key for no address."""
    cN = pool.n
    steps = res["steps"]
    if case.get("quiet") or any("calls" not in st for st in steps) or any(op.get("kind") == "reload_reuse" for op in case["ops"]):
        return None  # (controller reuse is outside ctl_op: C10_Reuse_Model.v; such histories get the impl-vs-spec check only)
    tab = {k: ip_int(s) for s, k in res["keys"].items()}
    base_ids, scope_ids, fqdn_ids = {}, {"": 0}, {"": 0}

    def ckey(keystr):
        base, _, scope = keystr.partition("|")
        b = base_ids.setdefault(base, len(base_ids) + 1)
        sc = scope_ids.setdefault(scope, len(scope_ids))
        return b, sc

    def ckey_term(keystr):
        b, sc = ckey(keystr)
        return "(Build_ckey %s %s)" % (cN(b), cN(sc))

    def owner_id(keystr):
        if keystr == "":
            return 0
        b, sc = ckey(keystr)
        return (2 * sc + 1) << b

    def fq(name):
        return fqdn_ids.setdefault(name, len(fqdn_ids))

    def rules_term(bm):
        return "(rules_of %s)" % clist([cpair(cN(fq(f)), cN(int(v, 16))) for f, v in sorted(bm.items())])

    times = []
    for st in steps:
        times += [l["deadline"] for l in st["live"]] + [l["last"] for l in st["live"]]
        times += [x for x in (st.get("now", 0), st.get("now2", 0)) if x]
    t0 = (min(times) - 1000) if times else 0

    def tm(x):
        return cN(max(x - t0, 0))

    univ = set(ip_int(a) for a in ADDRS)
    tag_index = {op["tag"]: i for i, op in enumerate(case["ops"]) if op.get("kind") == "insert" and op.get("tag")}
    prev_live = {}
    obs = []
    for i, (op, st) in enumerate(zip(case["ops"], steps)):
        live = {l["key"]: l for l in st["live"]}
        kind = op["kind"]
        if kind == "insert":
            ans = [("4:" if ipaddress.ip_address(s).version == 4 else "6:") + s for s in op["ips"]]
            univ.update(ip_int(s) for s in op["ips"])
            now = live[st["key"]]["last"] if st["key"] in live else t0
            opt = "(OInsert %s %s %s %s %s)" % (ckey_term(st["key"]), cN(fq(st["fqdn"])), _ans_term(cN, ans), tm(now), cN(op["ttl"]))
        elif kind == "remove":
            opt = "(ORemove %s)" % ckey_term(st["key"])
        elif kind == "family":
            opt = "(OFamily %s)" % cN(ckey(st["base"])[0])
        elif kind == "evict":
            opt = "(OEvictIfSame %s %s)" % (ckey_term(st["key"]), cN(tag_index.get(op.get("ref"), 1 << 40)))
        elif kind == "lookup":
            now = st.get("now", 0)
            before = prev_live.get(st["key"])
            if before is not None and st.get("now", 0) < before["deadline"] <= st.get("now2", 0):
                # the entry expired while the call was running: the clock oracle is whichever side the call saw
                now = st["now2"] if st["key"] not in live else st["now"]
            opt = "(OLookup %s %s false)" % (ckey_term(st["key"]), tm(now))
        elif kind == "janitor":
            victims = [k for k in prev_live if k not in live]
            opt = "(OJanitor %s %s)" % (tm(st.get("now", 0)), clist([ckey_term(k) for k in sorted(victims)]))
        elif kind == "reload":
            if len(prev_live) > BPF_UPDATE_QUEUE_SIZE:
                # more re-sync tasks than the bounded queue holds: which sends found room is an oracle
                sent = "(sent_of %s)" % clist([ckey_term(c["owner"]) for c in st["calls"] if c["kind"] == "update" and c["owner"]])
            else:
                sent = "(fun _ : ckey => true)"
            opt = "(OReload %s %s)" % (rules_term(case["bitmaps2"] if case.get("bitmaps2") is not None else case["bitmaps"]), sent)
        else:
            raise ValueError("unknown op kind " + kind)
        calls = []
        for c in st["calls"]:
            if c["kind"] == "update":
                calls.append("(CInsert %s (Build_cache_entry %s %s))" % (cN(owner_id(c["owner"])), cN(int(c.get("bitmap") or "0", 16)), _ans_term(cN, c.get("ans"))))
            elif c["kind"] == "remove":
                calls.append("(CRemove %s)" % cN(owner_id(c["owner"])))
            else:
                calls.append("(CRemove 0)")  # the observer was reached outside the production callbacks
        dump = []
        for k in sorted(live):
            l = live[k]
            for a in l.get("ans") or []:
                univ.add(ip_int(a.split(":", 1)[1]))
            dump.append(cpair(ckey_term(k), cpair("(Build_cache_entry %s %s)" % (cN(int(l["bitmap"], 16)), _ans_term(cN, l.get("ans"))),
                                                  cpair(cN(owner_id(l["owner"])), cpair(tm(l["deadline"]), tm(l["last"]))))))
        sh = []
        for k, v in st["shadow"]:
            if k not in tab:
                raise KeyError("kernel map holds a key for no address ever inserted: " + k)
            sh.append(cpair(cN(tab[k]), cN(int(v, 16))))
        obs.append("(Build_ctl_obs %s %s %s %s)" % (opt, clist(calls), clist(dump), clist(sh)))
        prev_live = live
    cfg = "(Build_config %s %s %s)" % (vlib.cbool(bool(case.get("optimistic_cache"))), cN(int(case.get("optimistic_cache_ttl") or 0)), cN(case["max_cache_size"]))
    return "(Build_ctl_case %s %s\n %s\n %s)" % (cfg, rules_term(case["bitmaps"]), clist(obs), clist([cN(x) for x in sorted(univ)]))


def parse_pair_lists(outtxt, name, n):
    m = re.search(name + r"\s*=\s*(.*?)\n\s*:\s*list", outtxt, re.S)
    if not m:
        return None
    body = re.sub(r"\s+", "", m.group(1))
    per = re.findall(r"\[((?:\(\d+,\d+\);?)*)\]", body[1:-1])
    if len(per) != n:
        return None
    return [[(int(a), int(b)) for a, b in re.findall(r"\((\d+),(\d+)\)", p)] for p in per]


def shrink_ctl(sc, binary, case, codes=None):
    """codes: keep a failure of one of these error codes (None: any error)"""
    def hits(c):
        errs, err = run_ctl_batch(sc, binary, [c], "shrink", record=False)
        if err is not None:
            return []
        return [e for e in errs.get(0, []) if codes is None or e[1] in codes]

    def fails(c):
        return bool(hits(c))
    ops = list(case["ops"])
    first = hits(dict(case, ops=ops))
    if first:
        n0 = min(e[0] for e in first) + 1   # errors carry the step index: the shortest failing prefix
        if 0 < n0 < len(ops) and fails(dict(case, ops=ops[:n0])):
            ops = ops[:n0]
    changed = True
    rounds = 0
    while changed and rounds < 40:
        changed = False
        for i in range(len(ops) - 1):
            rounds += 1
            cand = ops[:i] + ops[i + 1:]
            if cand and fails(dict(case, ops=cand)):
                ops = cand
                changed = True
                break
    return dict(case, ops=ops)


# ------------------------------------------------------------------------------------------------
# third stream: concurrent syncOwner calls (C10_Conc_Model.v)
# ------------------------------------------------------------------------------------------------
CODE_PROG = ["ILock", "IPlan", "IWrite", "IApply", "IUnlock"]
CONC_CODES = "1 impl<>model (mutex held at the write step / B completed while A parked / kernel map / merged)  2 impl<>spec (kernel shadow is the table of neither sequential order)  3 model<>spec  7 mutex not held at A's write step or B completed while A was parked there  9 panic/error/inconclusive"


def extract_sync_prog():
    """The order of mutex operations, planning reads, kernel write and bookkeeping in syncOwner, by shape.
    Returns (list of instruction names, None) or (None, why the shape is not recognised)."""
    path = os.path.join(vlib.REPO, "control", "domain_routing_tracker.go")
    src = open(path).read()
    m = re.search(r"func \(t \*domainRoutingTracker\) syncOwner\(.*?\n\}\n", src, re.S)
    if not m:
        return None, "func (t *domainRoutingTracker) syncOwner not found in " + path
    prog, deferred = [], 0
    for line in m.group(0).split("\n"):
        line = line.split("//")[0]
        ins = None
        if re.search(r"\bt\.mu\.(RLock|RUnlock|TryLock)\(", line):
            return None, "unexpected mutex operation in syncOwner: " + line.strip()
        if re.search(r"\bdefer\s+t\.mu\.Unlock\(\)", line):
            deferred += 1
            continue
        if re.search(r"\bt\.mu\.Lock\(\)", line):
            ins = "ILock"
        elif re.search(r"\bt\.mu\.Unlock\(\)", line):
            ins = "IUnlock"
        elif re.search(r"\bt\.(owners|ips)\[|desiredBitmapForKeyLocked\(", line):
            ins = "IPlan"
        elif re.search(r"verifObserveDomainRouting\(|BpfMapBatchUpdate\(|BpfMapBatchDelete\(", line):
            ins = "IWrite"
        elif re.search(r"applyOwnerSnapshotLocked\(", line):
            ins = "IApply"
        if ins and (not prog or prog[-1] != ins or ins in ("ILock", "IUnlock")):
            prog.append(ins)
    prog += ["IUnlock"] * deferred
    core = [x for x in prog if x in ("IPlan", "IWrite", "IApply")]
    if core != ["IPlan", "IWrite", "IApply"]:
        return None, "syncOwner is not plan / write / apply once each in this order: " + " ".join(prog)
    return prog, None


def write_sync_prog(prog):
    text = ("(* GENERATED by tools/c10.py from control/domain_routing_tracker.go (func syncOwner) - do not edit.\n"
            "   The order of mutex operations, planning reads, kernel write and bookkeeping in the source. *)\n"
            "From Coq Require Import List.\nFrom Dae Require Import C10_Conc_Model.\nImport ListNotations.\n"
            "Definition sync_prog : list instr := [%s].\n" % "; ".join(prog))
    vlib.write_if_changed(os.path.join(vlib.COQ, "gen", "C10_SyncProg.v"), text)


def gen_conc_case(rng):
    owners = ["o%d" % i for i in range(4)] + ["cdn.example.1|asis@8.8.8.8:53", "cdn.example.1|upstream@udp://1.1.1.1:53"]
    addrs = rng.sample(ADDRS, rng.randint(1, 4))

    def mk(o, allow_remove=True):
        if allow_remove and rng.random() < 0.15:
            return {"owner": o, "remove": True, "bitmap": "0", "ips": []}
        bm = rng.choice(BITMAPS[1:]) if rng.random() < 0.9 else 0
        return {"owner": o, "remove": False, "bitmap": "%x" % bm, "ips": [rng.choice(addrs) for _ in range(rng.choice([1, 1, 2, 3]))]}
    pre = [mk(rng.choice(owners)) for _ in range(rng.choice([0, 0, 1, 2, 3]))]
    oa, ob = rng.sample(owners, 2)
    a, b = mk(oa), mk(ob)
    if not a["remove"] and not b["remove"] and rng.random() < 0.7:
        b["ips"] = b["ips"] + [rng.choice(a["ips"])]  # a shared address
    post = []
    if rng.random() < 0.6:
        post += [dict(a), dict(b)]  # the re-sync of both entries
    post += [mk(rng.choice(owners)) for _ in range(rng.choice([0, 0, 1, 2]))]
    return {"pre": pre, "a": a, "b": b, "post": post}


def conc_case_to_coq(case, res, pool):
    cN = pool.n
    tab = {k: ip_int(s) for s, k in res["keys"].items()}
    owner_ids = {}
    univ = set(ip_int(a) for a in ADDRS)

    def cop(op):
        o = owner_ids.setdefault(op["owner"], len(owner_ids) + 1)
        if op["remove"]:
            return "(CRemove %s)" % cN(o)
        ans = [(ipaddress.ip_address(s).version == 4, ip_int(s)) for s in op["ips"]]
        univ.update(a for _, a in ans)
        return "(CInsert %s (Build_cache_entry %s %s))" % (cN(o), cN(int(op["bitmap"], 16)), clist([cpair(vlib.cbool(v4), cN(a)) for v4, a in ans]))

    def sh(pairs):
        out = []
        for k, v in pairs:
            if k not in tab:
                raise KeyError("kernel map / tracker holds a key for no input address: " + k)
            out.append(cpair(cN(tab[k]), cN(int(v, 16))))
        return clist(out)
    pre = clist([cop(o) for o in case["pre"]])
    a, b = cop(case["a"]), cop(case["b"])
    post = clist([cop(o) for o in case["post"]])
    return ("(Build_conc_obs %s %s %s %s %s %s %s %s %s %s)"
            % (pre, a, b, post, vlib.cbool(res["lock_held_at_write"]), vlib.cbool(res["b_state"] == "completed"),
               sh(res["shadow_conc"]), sh(res["shadow"]), sh(sorted(res["index"].items())), clist([cN(x) for x in sorted(univ)])))


CONC_SIGS = []


def run_conc_batch(sc, binary, cases, tag, record=True):
    """returns ({case index: [(0, code, msg)]}, observations, error)"""
    inp = sc.path("c10conc_%s.in" % tag)
    outp = sc.path("c10conc_%s.out" % tag)
    with open(inp, "w") as f:
        for c in cases:
            f.write(json.dumps(c) + "\n")
    rc, so, se, dt = vlib.run_go_harness(binary, "TestVerifC10Conc", inp, outp)
    if rc != 0:
        return None, None, "concurrency harness failed rc=%d: %s %s" % (rc, so[-2000:], se[-2000:])
    results = [json.loads(l) for l in open(outp)]
    pool = vlib.NumPool()
    errors, terms, idx = {}, [], []
    for i, (c, r) in enumerate(zip(cases, results)):
        if r.get("panic") or r.get("err"):
            errors[i] = [(0, 9, "panic/error: " + (r.get("panic") or r.get("err")))]
            continue
        if r["b_state"] == "unknown" or (r["b_state"] == "blocked" and r.get("b_observed_while_parked")):
            errors[i] = [(0, 9, "inconclusive: B neither returned nor was seen waiting for the tracker mutex while A was parked (b_state=%s, observed=%s)"
                          % (r["b_state"], r.get("b_observed_while_parked")))]
            continue
        try:
            terms.append(conc_case_to_coq(c, r, pool))
            idx.append(i)
        except KeyError as e:
            errors[i] = [(0, 2, str(e))]
    text = ("From Coq Require Import List NArith Bool.\nFrom Dae Require Import C10_Spec C10_Model C10_Cache C10_Check C10_Conc_Model.\n"
            "From Dae.gen Require Import C10_SyncProg.\nImport ListNotations.\nOpen Scope N_scope.\n" + pool.header() +
            "Definition cases : list conc_obs := [\n" + ";\n".join(terms) + "\n].\n"
            "Definition R := Eval vm_compute in map (check_conc sync_prog) cases.\nPrint R.\n"
            "Definition S := Eval vm_compute in map conc_signature cases.\nPrint S.\n")
    ok, outtxt = vlib.coq_eval("C10_conc_%s" % tag, text)
    if not ok:
        return None, None, "coq evaluation failed: " + outtxt[-3000:]
    m = re.search(r"R\s*=\s*(.*?)\n\s*:\s*list", outtxt, re.S)
    per = re.findall(r"\[([\d;]*)\]", re.sub(r"\s+", "", m.group(1))[1:-1]) if m else None
    if per is None or len(per) != len(idx):
        return None, None, "cannot parse coq output of the concurrency check: " + outtxt[-500:]
    for i, p_ in zip(idx, per):
        errors[i] = [(0, int(x), "") for x in p_.split(";") if x]
    if record:
        m2 = re.search(r"S\s*=\s*(.*?)\n\s*:\s*list", outtxt, re.S)
        if m2:
            CONC_SIGS.extend(re.findall(r"\((\d+),(\d+),(\d+),(\d+)\)", re.sub(r"\s+", "", m2.group(1))))
    return errors, results, None


def shrink_conc(sc, binary, case):
    def fails(c):
        errs, _, err = run_conc_batch(sc, binary, [c], "shrink", record=False)
        return err is None and any(code == 2 for (_, code, _) in errs.get(0, []))
    cur = case
    for cand in (dict(cur, pre=[], post=[]), dict(cur, pre=[]), dict(cur, post=[])):
        if fails(cand):
            cur = cand
            break
    for field in ("pre", "post"):
        i = 0
        while i < len(cur[field]) and len(cur[field]) <= 6:
            cand = dict(cur, **{field: cur[field][:i] + cur[field][i + 1:]})
            if fails(cand):
                cur = cand
            else:
                i += 1
    return cur


def replay(path):
    """re-run exactly one recorded case against the implementation, the model and the spec"""
    rp = json.load(open(path))["replay"]
    case = rp.get("case") or rp.get("correspondence_case", {}).get("case")
    if case is not None and "reload_overflow_case" in case:
        case = reload_overflow_case(int(case["reload_overflow_case"]))
        print("case: reload_overflow_case(%d) = %d inserts of distinct names, then a reload" % (len(case["ops"]) - 1, len(case["ops"]) - 1))
    if case is None:
        print("replay file names a broken proof obligation / correspondence, not an input:")
        print(json.dumps(rp, indent=1)[:3000])
        return 1
    with vlib.Scratch() as sc:
        binary, blog = vlib.build_go_test_binary(sc, "control", HARNESS)
        if binary is None:
            print("harness build failed")
            return 1
        if "a" in case and "b" in case:
            prog, perr = extract_sync_prog()
            print("syncOwner as extracted from the source:", prog or perr)
            if prog:
                write_sync_prog(prog)
                vlib.coq_make(["gen/C10_SyncProg.vo", "C10_Check.vo"])
            errs, obs, err = run_conc_batch(sc, binary, [case], "replay", record=False)
            print("schedule: the calls of `pre` one after the other; A runs up to its kernel-write step and is parked there; B is started; A is released; both return; the calls of `post`")
            if obs:
                print("observed:", json.dumps({k: obs[0].get(k) for k in ("lock_held_at_write", "b_state", "b_observed_while_parked", "order", "shadow_conc", "shadow", "index")}))
            print("concurrency stream codes:", CONC_CODES)
        elif "bitmaps" in case:
            errs, err = run_ctl_batch(sc, binary, [case], "replay")
        else:
            errs, _, err = run_batch(sc, binary, [case], "replay")
        print("case:", json.dumps(case)[:4000])
        print("result (step, code): codes 1 impl<>model  2 impl<>spec  3 model<>spec  4 impl<>model final state  9 panic/error")
        if "bitmaps" in case:
            print("controller stream codes:", GLUE_CODES)
        print(err or errs.get(0))
        return 1 if (err or errs.get(0)) else 0


def main(argv):
    args = vlib.main_args(argv)
    if args.replay:
        return replay(args.replay)
    out = vlib.Outcome(PID, args.tier, args.seed)
    rng = vlib.rng_for(args.seed, PID)
    n_cases = 400 if args.tier == "quick" else 6000

    # Three independent pieces of work overlap: the harness build (go), the proof stage (three coqc runs
    # capturing Print Assumptions) and, once the binary exists, the two correspondence streams.
    import threading
    sc_cm = vlib.Scratch()
    sc = sc_cm.__enter__()
    built = {}
    proofs = {}

    def _build():
        built["res"] = vlib.build_go_test_binary(sc, "control", HARNESS)

    def _proofs():
        empty = {"obligations": 0, "discharged": 0, "assumptions": [], "theorems": []}
        proof_ok, pinfo = vlib.proof_stage(out, PROPS, TARGETS)
        pinfo2, pinfo3 = dict(empty), dict(empty)
        if proof_ok:
            ok2, pinfo2 = vlib.proof_stage(out, "C10_CacheProps.v", ["C10_CacheProps.vo"])
            if not ok2:
                proof_ok, pinfo["failed"] = False, pinfo2["failed"]
        if proof_ok:
            ok3, pinfo3 = vlib.proof_stage(out, "C10_Ctl_Props.v", ["C10_Ctl_Props.vo"])
            if not ok3:
                proof_ok, pinfo["failed"] = False, pinfo3["failed"]
        # concurrency theorems: stated about the program extracted from the source (gen/C10_SyncProg.v); kept
        # apart so that a change of the locking shape does not trigger the widened searches of the other streams
        conc_ok, pinfo4 = vlib.proof_stage(out, "C10_Conc_Props.v", ["C10_Conc_Props.vo"])
        reuse_ok, pinfo5 = vlib.proof_stage(out, "C10_Reuse_Props.v", ["C10_Reuse_Props.vo"])
        pinfo4 = dict(pinfo4, reuse_ok=reuse_ok, reuse=pinfo5)
        proofs["res"] = (proof_ok, pinfo, pinfo2, pinfo3, conc_ok, pinfo4)
    bt = threading.Thread(target=_build)
    bt.start()
    sync_prog, sync_err = extract_sync_prog()
    write_sync_prog(sync_prog or [])
    replay_filter, replay_why = extract_replay_filter()
    write_replay_filter(replay_filter)
    vlib.coq_make(TARGETS)  # C10_Check.vo must exist before any case file is evaluated; failures are reported by the proof stage
    pt = threading.Thread(target=_proofs)
    pt.start()

    def wait_proofs():
        pt.join()
        if "res" not in proofs:
            bad = {"obligations": 0, "discharged": 0, "assumptions": [], "theorems": [], "failed": {"stage": "proof stage crashed"}}
            return False, bad, dict(bad), dict(bad), False, dict(bad)
        return proofs["res"]
    try:
        bt.join()
        return _main_rest(args, out, rng, n_cases, wait_proofs, sc, built.get("res", (None, "harness build thread died")), (sync_prog, sync_err, replay_filter, replay_why))
    finally:
        pt.join()
        sc_cm.__exit__(None, None, None)


def _main_rest(args, out, rng, n_cases, wait_proofs, sc, built, sync_info):
    import threading
    binary, blog = built
    sync_prog, sync_err, replay_filter, replay_why = sync_info
    corpus, ctl_corpus, conc_corpus = [], [], []
    cdir = os.path.join(vlib.VERIF, "corpus", PID)
    if os.path.isdir(cdir):
        for n in sorted(os.listdir(cdir)):
            (ctl_corpus if n.startswith("ctl_") else conc_corpus if n.startswith("conc_") else corpus).append(json.load(open(os.path.join(cdir, n))))
    cases = corpus + [gen_case(rng, big=(args.tier == "thorough" and i % 4 == 0)) for i in range(n_cases)]
    n_ctl = 150 if args.tier == "quick" else 3000
    n_ctl2 = 100 if args.tier == "quick" else 3000
    ctl_cases = [gen_ctl_case(rng) for _ in range(n_ctl)]
    ctl_cases += ctl_corpus + [gen_ctl_case2(rng) for _ in range(n_ctl2)]
    n_conc = 40 if args.tier == "quick" else 1000
    conc_cases = conc_corpus + [gen_conc_case(rng) for _ in range(n_conc)]
    n_reuse = 40 if args.tier == "quick" else 1000
    ctl_cases += [gen_ctl_case3(rng) for _ in range(n_reuse)]   # generated last: the earlier streams keep their cases
    conc_first = {}

    def _conc():
        try:
            conc_first["res"] = run_conc_batch(sc, binary, conc_cases, "k")
        except Exception as ex:
            conc_first["res"] = (None, None, "concurrency stream crashed: %r" % (ex,))

    def run_ctl_all(cs, tagp):
        fails, err_ = [], None
        for s in range(0, len(cs), 500):
            cerrs, cerr = run_ctl_batch(sc, binary, cs[s:s + 500], "%s%d" % (tagp, s))
            if cerr:
                err_ = cerr
                break
            fails += [(s + i, e) for i, e in sorted(cerrs.items()) if e]
        return fails, err_
    ctl_first = {}

    def _ctl():
        try:
            ctl_first["res"] = run_ctl_all(ctl_cases, "c")
        except Exception as ex:  # reported as a broken correspondence below
            ctl_first["res"] = ([], "controller stream crashed: %r" % (ex,))
    qsize = bpf_update_queue_size()
    probe_cases = [reload_overflow_case(max(qsize - 124, 1)), reload_overflow_case(qsize + 300)]
    probe = {}

    def _probe():
        try:
            probe["res"] = run_ctl_batch(sc, binary, probe_cases, "ovf", record=False)
        except Exception as ex:
            probe["res"] = (None, "reload probe crashed: %r" % (ex,))
    ct = None
    ot = None
    kt = None
    all_err = {}
    sigs = []
    shard = 400
    tie_broken = None
    if binary is not None:
        ct = threading.Thread(target=_ctl)
        ct.start()
        ot = threading.Thread(target=_probe)
        ot.start()
        kt = threading.Thread(target=_conc)
        kt.start()
        for s in range(0, len(cases), shard):
            errs, sg, err = run_batch(sc, binary, cases[s:s + shard], "b%d" % s)
            if err:
                tie_broken = err
                break
            for i, e in errs.items():
                if e:
                    all_err[s + i] = e
            sigs += sg
    proof_ok, pinfo, pinfo2, pinfo3, conc_ok, pinfo4 = wait_proofs()
    reuse_ok, pinfo5 = pinfo4.get("reuse_ok", False), pinfo4.get("reuse", {"obligations": 0, "discharged": 0, "assumptions": [], "theorems": []})
    cov = {"obligations": pinfo["obligations"] + pinfo2["obligations"] + pinfo3["obligations"] + pinfo4["obligations"] + pinfo5["obligations"],
           "discharged": pinfo["discharged"] + pinfo2["discharged"] + pinfo3["discharged"] + pinfo4["discharged"] + pinfo5["discharged"],
           "checker_cmd": "cd /verif/coq && coq_makefile -f _CoqProject -o Makefile && make -j16 " + " ".join(TARGETS) + " && coqc -Q . Dae C10_Props.v / C10_CacheProps.v / C10_Ctl_Props.v / C10_Conc_Props.v (Print Assumptions captured)",
           "theorems": pinfo.get("theorems", []) + pinfo2.get("theorems", []) + pinfo3.get("theorems", []) + pinfo4.get("theorems", []) + pinfo5.get("theorems", []),
           "print_assumptions": pinfo.get("assumptions", []) + pinfo2.get("assumptions", []) + pinfo3.get("assumptions", []) + pinfo4.get("assumptions", []) + pinfo5.get("assumptions", []),
           "trusted_base": vlib.TRUSTED_BASE_COMMON + [
               "verif-tagged observer in syncOwner (control/verif_hooks_on.go) reporting the computed batches; the stub build cannot write a real eBPF map",
               "Go maps modelled as total functions N -> option V; owner strings and 128-bit addresses numbered injectively by the orchestrator via the production key function",
               "controller glue: harness wrappers around the two production callbacks of dnsControllerOption (they record update/remove and delegate); cache key strings split at the first '|' into base and scope and numbered injectively (key_id, proved injective); *DnsCache identity modelled as the number of the creating operation; oracles per case: clock values read back from the implementation, bitmaps per fqdn and rule set, LRU victim set (validated), delivery of reload re-sync tasks"]}
    out.coverage = cov
    out.assumptions = ["kernel map semantics: batch update = upsert of each pair, batch delete = removal of each key",
                       "a failing batch call midway (kernel error) and the asynchronous re-sync worker racing a delete are outside the property's quantifier",
                       "C10_ctl_mirror / C10_ctl_calls_track_cache assume every re-sync task queued by RestoreReloadCache is delivered (bounded queue of 1024, non-blocking send); the unconditional statement is refuted in the model (C10_ctl_mirror_full_refuted) and probed on the implementation with 900 and 3000 cached names",
                       "controller operations are modelled at quiescence (the async re-sync worker has drained); the reuse-store reload path (ReuseForReload) is not driven"]

    if True:
        if binary is None:
            out.violation("build", {"broken": "harness build against /repo failed", "log": blog[-3000:]},
                          "correspondence harness no longer builds against /repo", no_failing_input=True)
            cov.update(evaluations=0, distinct_nontrivial=0)
            return out.finish()
        n_eval = len(cases)
        widened = False
        need_widen = (not proof_ok) or tie_broken or any(all(code != 2 and code != 9 for (_, code, _) in e) for e in all_err.values())
        has_spec_fail = any(any(code in (2, 9) for (_, code, _) in e) for e in all_err.values())
        if need_widen and not has_spec_fail and not tie_broken:
            widened = True
            extra = [gen_case(rng, big=True) for _ in range(2000)]
            for s in range(0, len(extra), shard):
                errs, sg, err = run_batch(sc, binary, extra[s:s + shard], "w%d" % s)
                if err:
                    break
                for i, e in errs.items():
                    if e:
                        all_err[len(cases) + s + i] = e
            cases += extra
            n_eval = len(cases)

        spec_fail = sorted(i for i, e in all_err.items() if any(code in (2, 9) for (_, code, _) in e))
        model_fail = sorted(i for i, e in all_err.items() if any(code in (1, 4) for (_, code, _) in e))
        thm_fail = sorted(i for i, e in all_err.items() if any(code == 3 for (_, code, _) in e))
        if spec_fail:
            i = spec_fail[0]
            code = 9 if any(c == 9 for (_, c, _) in all_err[i]) else 2
            small = shrink(sc, binary, cases[i], code) if code == 2 else cases[i]
            out.violation("impl_vs_spec", {"case": small, "errors": all_err[i], "original_case_index": i,
                                           "how": "feed case to TestVerifC10; kernel shadow map after some step differs from the OR of live owners' bitmaps"},
                          "kernel table differs from the union of live cache entries after a step of this history (%d failing histories)" % len(spec_fail))
        elif model_fail or thm_fail or tie_broken or not proof_ok:
            what = {}
            if not proof_ok:
                what["proof"] = pinfo["failed"]
            if tie_broken:
                what["correspondence"] = tie_broken
            if model_fail:
                what["correspondence_case"] = {"case": cases[model_fail[0]], "errors": all_err[model_fail[0]]}
            if thm_fail:
                what["model_vs_spec_case"] = {"case": cases[thm_fail[0]], "errors": all_err[thm_fail[0]]}
            what["searched"] = "%d histories (widened=%s) with no impl<>spec disagreement" % (n_eval, widened)
            out.violation("tie", what, "proof obligation or model correspondence no longer checks; no failing input found",
                          no_failing_input=True)
        # ---- second stream: controller with production callbacks (first pass ran concurrently) ----
        SPEC_CODES = (2, 9)
        ct.join()
        ctl_fail, ctl_err = ctl_first["res"]
        ctl_spec_fail = [(i, e) for (i, e) in ctl_fail if any(c in SPEC_CODES for (_, c, _) in e)]
        ctl_tie_fail = [(i, e) for (i, e) in ctl_fail if not any(c in SPEC_CODES for (_, c, _) in e)]
        ctl_widened = False
        if ctl_tie_fail and not ctl_spec_fail and not ctl_err:
            # the implementation left the model (calls / cache contents / kernel map) or the model left the
            # spec, with no impl<>spec input so far: widen the search 10x before reporting without an input
            ctl_widened = True
            extra = [gen_ctl_case2(rng) if j % 2 else gen_ctl_case(rng) for j in range(10 * (n_ctl + n_ctl2))]
            efail, eerr = run_ctl_all(extra, "w")
            base_n = len(ctl_cases)
            ctl_cases += extra
            if not eerr:
                ctl_spec_fail = [(base_n + i, e) for (i, e) in efail if any(c in SPEC_CODES for (_, c, _) in e)]
        if ctl_err:
            out.violation("ctl_tie", {"correspondence": ctl_err}, "controller-level correspondence could not be evaluated", no_failing_input=True)
        elif ctl_spec_fail:
            i, e = ctl_spec_fail[0]
            small = shrink_ctl(sc, binary, ctl_cases[i], codes=(2,)) if not any(c == 9 for (_, c, _) in e) else ctl_cases[i]
            out.violation("ctl_impl_vs_spec", {"case": small, "errors": e, "codes": GLUE_CODES,
                                               "replayDnsReloadCache_shape": replay_why, "C10_ctl_mirror_reuse_closes": bool(pinfo4.get("reuse_ok")),
                                               "how": "feed case to TestVerifC10Ctl: after the failing step the kernel shadow map differs from the OR of the bitmaps of the live cache entries"},
                          "controller-level: kernel table differs from the live DNS cache after a cache operation (%d failing histories)" % len(ctl_spec_fail))
        elif ctl_tie_fail:
            i, e = ctl_tie_fail[0]
            codes = sorted(set(c for (_, c, _) in e))
            what = {"correspondence_case": {"case": ctl_cases[i], "errors": e}, "codes": GLUE_CODES,
                    "broken": ("theorem C10_ctl_mirror (model kernel map <> table of the model cache)" if 3 in codes else
                               "correspondence of coq/C10_Ctl_Model.v with control/dns_control.go: " +
                               ", ".join({1: "tracker calls per operation", 4: "cache contents", 5: "LRU victim choice", 6: "kernel map"}.get(c, str(c)) for c in codes)),
                    "searched": "%d controller histories (widened=%s) with no impl<>spec disagreement" % (len(ctl_cases), ctl_widened)}
            out.violation("ctl_glue_tie", what, "controller glue: implementation and model (or model and spec) disagree; no history found on which the kernel table differs from the live cache",
                          no_failing_input=True)
        # ---- staged reload with controller reuse: the replay must hand the whole snapshot over ----
        reuse_cov = {"replay_filters_expired": replay_filter, "shape": replay_why, "histories": n_reuse,
                     "proof_closes": bool(reuse_ok)}
        if (replay_filter or not reuse_ok) and not ctl_spec_fail and not ctl_err:
            out.violation("reuse_tie", {"broken": "theorem C10_ctl_mirror_reuse does not close for replayDnsReloadCache as extracted: " + replay_why,
                                        "proof": pinfo5.get("failed"),
                                        "searched": "%d controller histories with no impl<>spec disagreement" % len(ctl_cases)},
                          "staged reload with controller reuse: proof obligation no longer checks; no failing history found", no_failing_input=True)
        # ---- reload with more cached entries than the re-sync task queue holds ----
        ot.join()
        perrs, perr = probe["res"]
        probe_cov = {"sizes": [len(c["ops"]) - 1 for c in probe_cases], "queue_size": BPF_UPDATE_QUEUE_SIZE}
        if perr:
            out.violation("ctl_reload_probe_tie", {"correspondence": perr}, "reload probe could not be evaluated", no_failing_input=True)
        else:
            probe_cov["failed"] = [len(probe_cases[i]["ops"]) - 1 for i in sorted(perrs) if perrs[i]]
            if perrs.get(0):
                out.violation("ctl_impl_vs_spec_reload", {"case": {"reload_overflow_case": len(probe_cases[0]["ops"]) - 1}, "errors": perrs[0],
                                                          "how": "feed case to TestVerifC10Ctl (quiet: only the last step is dumped): after the reload the kernel shadow map differs from the table of the live cache"},
                              "controller-level: after a reload of %d cached names the kernel table differs from the live DNS cache" % (len(probe_cases[0]["ops"]) - 1))
            elif perrs.get(1):
                n_live = len(probe_cases[1]["ops"]) - 1
                out.violation("ctl_reload_overflow", {"case": {"reload_overflow_case": n_live}, "case_is": "tools/c10.py reload_overflow_case(n): n names h<i>.test (A, bitmap bit i mod 1000, address 10.9.8.(1 + i mod 16)) inserted, then one reload; quiet dump", "errors": perrs[1],
                                                      "how": "feed case to TestVerifC10Ctl (quiet: only the last step is dumped): RestoreReloadCache queues one re-sync task per restored entry with a non-blocking send on a queue of %d; "
                                                             "the entries whose task is dropped are live in the new generation's cache but have no entry in the cleared kernel table (until a later lookup, at least MinBpfUpdateInterval later, re-syncs them); "
                                                             "the same history with 900 names passes. Model: C10_ctl_mirror_full_refuted." % BPF_UPDATE_QUEUE_SIZE},
                              "controller-level: after a reload of %d cached names (more than the re-sync task queue of %d) live cache entries are missing from the kernel table" % (n_live, BPF_UPDATE_QUEUE_SIZE),
                              matchers=[OVERFLOW_MATCHER])
        # ---- third stream: concurrent syncOwner calls ----
        kt.join()
        kerrs, kobs, kerr = conc_first["res"]
        conc_widened = False
        conc_cov = {"cases": len(conc_cases), "sync_prog": sync_prog or sync_err, "holds_mutex_across_write": sync_prog == CODE_PROG,
                    "schedule": "calls of `pre` sequentially; goroutine A parked at its kernel-write step (VerifDomainRoutingObserver); goroutine B started; observed: tracker.mu.TryLock() while A is parked, B returned / B waiting in sync.Mutex.Lock (runtime.Stack) and B's observer not called; A released; `post` sequentially",
                    "comparisons": "impl observations and kernel shadow (after the pair, after post) and tracker merged values = model run of the extracted program under the same schedule; model = table of a sequential order; impl = table of a sequential order",
                    "codes": CONC_CODES}

        def conc_split(errs):
            spec = sorted(i for i, e in errs.items() if any(c in (2,) for (_, c, _) in e))
            other = sorted(i for i, e in errs.items() if e and not any(c in (2,) for (_, c, _) in e))
            return spec, other
        if kerr:
            out.violation("conc_tie", {"correspondence": kerr, "sync_prog": sync_prog or sync_err},
                          "concurrency correspondence could not be evaluated", no_failing_input=True)
        else:
            kspec, kother = conc_split(kerrs)
            all_conc, all_kerrs, all_kobs = list(conc_cases), dict(kerrs), list(kobs)
            if (kother or not conc_ok or sync_prog is None) and not kspec:
                conc_widened = True
                extra = [gen_conc_case(rng) for _ in range(10 * n_conc)]
                xerrs, xobs, xerr = run_conc_batch(sc, binary, extra, "kw", record=False)
                if not xerr:
                    base_n = len(all_conc)
                    all_conc += extra
                    all_kobs += xobs
                    for i, e in xerrs.items():
                        all_kerrs[base_n + i] = e
                    kspec, kother = conc_split(all_kerrs)
            conc_cov.update(failing=len(kspec), tie_failures=len(kother), widened_search=conc_widened,
                            blocked_confirmed=sum(1 for r in kobs if r.get("b_state") == "blocked" and r.get("lock_held_at_write")),
                            distinct_signatures=len(set(CONC_SIGS)))
            if kspec:
                i = kspec[0]
                small = shrink_conc(sc, binary, all_conc[i])
                serrs, sobs, _ = run_conc_batch(sc, binary, [small], "final", record=False)
                o = (sobs or [all_kobs[i]])[0]
                payload = {"case": small, "errors": (serrs or {}).get(0) or all_kerrs[i], "codes": CONC_CODES,
                           "schedule": ["each call of pre, one after the other",
                                        "goroutine A: BatchUpdate/RemoveDomainRouting(a) runs up to the kernel-write step of syncOwner and is parked there",
                                        "goroutine B: BatchUpdate/RemoveDomainRouting(b) is started while A is parked",
                                        "A is released; both return", "each call of post, one after the other"],
                           "observed": {k: o.get(k) for k in ("lock_held_at_write", "b_state", "b_observed_while_parked", "order", "shadow_conc", "shadow", "index")},
                           "sync_prog_extracted": sync_prog or sync_err,
                           "how": "feed case to TestVerifC10Conc: the kernel shadow map after the concurrent pair (or after post) is the table of neither sequential order of the two calls"}
                if not conc_ok:
                    payload["proof"] = pinfo4.get("failed")
                out.violation("conc_impl_vs_spec", payload,
                              "concurrent syncOwner calls: the kernel table differs from the union of the live owners' bitmaps after two overlapping syncs (%d failing schedules)" % len(kspec))
            elif kother or not conc_ok or sync_prog is None:
                what = {"sync_prog_extracted": sync_prog or sync_err, "codes": CONC_CODES,
                        "searched": "%d concurrent pairs (widened=%s) with no impl<>spec disagreement" % (len(all_conc), conc_widened)}
                if not conc_ok:
                    what["proof"] = pinfo4.get("failed")
                    what["broken"] = "theorem C10_mirror_concurrent does not close for the locking shape extracted from syncOwner"
                if kother:
                    what["correspondence_case"] = {"case": all_conc[kother[0]], "errors": all_kerrs[kother[0]], "observed": all_kobs[kother[0]]}
                out.violation("conc_tie", what, "concurrent syncOwner calls: proof obligation or model correspondence no longer checks; no failing schedule found",
                              no_failing_input=True)
        gsigs = set(CTL_SIGS)
        cov_ctl = {"controller_histories": len(ctl_cases), "controller_failures": len(ctl_fail), "reload_overflow_probe": probe_cov, "concurrent_sync": conc_cov, "reload_with_controller_reuse": reuse_cov,
                   "controller_glue": dict(CTL_STATS, distinct_signatures=len(gsigs),
                                           distinct_nontrivial=len(set(g for g in gsigs if int(g[0]) > 0 and int(g[1]) > 0 and int(g[3]) > 0)),
                                           rule="signature = (#operations issuing an update call, #operations issuing a remove call, #reloads, #steps with two live scopes of one base key sharing an address); non-trivial = update and remove calls and a shared scoped address",
                                           comparisons="per operation: impl tracker calls (owner key, update/remove, snapshot) = model calls as sets; impl cache dump (key, bitmap, answers, RouteOwnerKey, deadline, lastAccess) = model cache; impl kernel shadow = model kernel map; model kernel map = table of model cache; impl shadow = table of impl cache",
                                           oracles="clock (read back from the stored entry / passed to the janitor), rule sets (bitmaps per fqdn), LRU victim set (checked to be least recently used), NeedsBpfUpdate=false on lookup",
                                           widened_search=ctl_widened)}
        distinct = len(set(sigs))
        nontrivial = len(set(s for s in sigs if int(s[0]) > 0 and int(s[1]) > 0))
        cov.update(evaluations=n_eval, distinct_nontrivial=nontrivial,
                   rule="random cache histories (1-7 owners incl. scoped keys, 1-6 addresses incl. unspecified/mapped, bitmaps incl. 0 and bits 31/32/1023, removals, duplicate answers); "
                        "signature = (#steps with updates, #steps with deletes, #silent steps, #addresses finally shared by >1 owner); non-trivial = distinct signatures with at least one update step and one delete step",
                   distinct_signatures=distinct,
                   traces_validated_against_impl=n_eval - len(model_fail),
                   comparisons="per step: impl batches = model batches; impl shadow map = spec table; model shadow = spec table; final tracker dump = model state",
                   samples=[cases[len(corpus)] if len(cases) > len(corpus) else cases[0]],
                   widened_search=widened, **cov_ctl)
    return out.finish()


if __name__ == "__main__":
    sys.exit(main(sys.argv[1:]))
