"""C13 — UDP flows: ordered exactly-once handling over one stable, leak-free endpoint (DESIGN.md 6/C13)."""
import json
import os
import re
import sys

sys.path.insert(0, os.path.dirname(os.path.abspath(__file__)))
import vlib
from vlib import clist, cpair, log

PID = "C13"
PROPS = "C13_Props.v"
TARGETS = ["C13_Props.vo", "C13_Check.vo", "C13_Inv.vo", "C13_EpProofs.vo", "C13_EpTuples.vo", "C13_EpFine.vo", "C13_EpFineWit.vo", "C13_TrFine.vo", "C13_TrFineProofs.vo", "C13_Ingress.vo", "C13_IngressProofs.vo", "C13_IngressCor.vo", "C13_TrGen.vo", "C13_TrGenProofs.vo", "C13_Overflow.vo"]
HARNESS = ["control/common_test.go", "control/c13_test.go"]
F7_MATCHER = "C13/idle-gc-claim-without-recheck"
F14_MATCHER = "C13/overflow-pop-overtakes-channel"


# ------------------------------------------------------------------------------------------------
# translator: constants of udp_task_pool.go
# ------------------------------------------------------------------------------------------------
def translate():
    src = open(os.path.join(vlib.REPO, "control", "udp_task_pool.go")).read()
    m = re.search(r"\bUdpTaskQueueLength\s*=\s*(\d+)", src)
    if not m:
        raise RuntimeError("anchor moved: UdpTaskQueueLength")
    qlen = int(m.group(1))
    conv = re.search(r"func \(q \*UdpTaskQueue\) convoy\(\) \{(.*?)\n\}\n", src, re.S)
    if not conv:
        raise RuntimeError("anchor moved: convoy()")
    body = conv.group(1)
    m2 = re.search(r"q\.refs\.CompareAndSwap\(0,\s*(-?\d+)\)", body)
    if not m2:
        raise RuntimeError("anchor moved: claiming CAS in convoy()")
    sentinel = int(m2.group(1))
    m3 = re.search(r"func \(q \*UdpTaskQueue\) close\(\) \{.*?q\.refs\.Store\((-?\d+)\)", src, re.S)
    if m3 and int(m3.group(1)) != sentinel:
        raise RuntimeError("close() sentinel differs from the claiming CAS sentinel")
    after = body[m2.end():]
    cut = after.find("tryDeleteQueue")
    recheck = cut >= 0 and bool(re.search(r"len\(q\.ch\)", after[:cut]))
    pov = re.search(r"func \(q \*UdpTaskQueue\) popOverflowTask\(\) \(UdpTask, bool\) \{(.*?)\n\}\n", src, re.S)
    if not pov:
        raise RuntimeError("anchor moved: popOverflowTask()")
    pbody = pov.group(1)
    first_over = pbody.find("q.overflow")
    poll = re.search(r"<-\s*q\.ch", pbody)
    pop_recheck = bool(poll) and (first_over < 0 or poll.start() < first_over)
    tsrc = open(os.path.join(vlib.REPO, "control", "udp_conn_state_tracker.go")).read()
    rt = re.search(r"func \(t \*udpConnStateTracker\) retain\(key bpfTuplesKey\) \{(.*?)\n\}\n", tsrc, re.S)
    if not rt:
        raise RuntimeError("anchor moved: udpConnStateTracker.retain()")
    rbody = rt.group(1)
    w = rbody.find("waiters.Wait()")
    if w < 0:
        raise RuntimeError("anchor moved: cond wait in retain()")
    # the wait must sit inside a `for` loop and be followed by `continue` (re-examine the key after every wake-up)
    retain_recheck = bool(re.search(r"\bfor\s*\{", rbody[:w])) and bool(re.match(r"\s*continue\b", rbody[w + len("waiters.Wait()"):]))
    esrc = open(os.path.join(vlib.REPO, "control", "udp_endpoint_pool.go")).read()
    rm = re.search(r"func \(p \*UdpEndpointPool\) Remove\(key UdpEndpointKey, udpEndpoint \*UdpEndpoint\) \(err error\) \{(.*?)\n\}\n", esrc, re.S)
    if not rm:
        raise RuntimeError("anchor moved: UdpEndpointPool.Remove()")
    mbody = rm.group(1)
    dpos = mbody.find("delete(shard.pool, key)")
    cmpm = re.search(r"(!=|==)\s*udpEndpoint\b", mbody)
    if dpos < 0:
        raise RuntimeError("anchor moved: delete in UdpEndpointPool.Remove()")
    remove_identity = bool(cmpm) and cmpm.start() < dpos
    shr = re.search(r"if len\(q\.overflow\) > 0 && len\(q\.overflow\) < cap\(q\.overflow\)/(\d+) && cap\(q\.overflow\) > UdpTaskQueueLength \{(.*?)\n\t\t\}", pbody, re.S)
    if not shr:
        raise RuntimeError("anchor moved: overflow capacity shrink in popOverflowTask()")
    shrink_div = int(shr.group(1))
    sbody = shr.group(2)
    mk = re.search(r"shrunk\s*:=\s*make\(\[\]UdpTask,", sbody)
    if not mk or "q.overflow = shrunk" not in sbody:
        raise RuntimeError("anchor moved: shape of the overflow shrink")
    depth, args, cur = 1, [], ""
    for ch in sbody[mk.end():]:
        if ch == "(":
            depth += 1
        elif ch == ")":
            depth -= 1
            if depth == 0:
                args.append(cur.strip())
                break
        if ch == "," and depth == 1:
            args.append(cur.strip())
            cur = ""
        else:
            cur += ch
    made_len = args[0] if args else ""
    # the new slice keeps the waiting tasks iff it is made with their length and then copied into, or filled by append
    shrink_keeps = (made_len == "len(q.overflow)" and bool(re.search(r"copy\(shrunk,\s*q\.overflow\)", sbody))) or \
                   bool(re.search(r"shrunk\s*=\s*append\(shrunk,\s*q\.overflow\.\.\.\)", sbody))
    isrc = open(os.path.join(vlib.REPO, "control", "udp_ingress_batch.go")).read()
    tk = re.search(r"func \(r \*udpIngressBatchReader\) Take\(i int\).*?\{(.*?)\n\}\n", isrc, re.S)
    rb = re.search(r"func \(r \*udpIngressBatchReader\) ReadBatch\(\) \(int, error\) \{(.*?)\n\}\n", isrc, re.S)
    if not tk or not rb:
        raise RuntimeError("anchor moved: udpIngressBatchReader.Take/ReadBatch")
    if not re.search(r"if slot\.buf == nil \{\s*slot\.buf = pool\.GetFullCap", rb.group(1)):
        raise RuntimeError("anchor moved: ReadBatch no longer allocates exactly when slot.buf == nil")
    tbody = tk.group(1)
    hand = tbody.find("pktBuf = slot.buf[")
    if hand < 0:
        raise RuntimeError("anchor moved: hand-out of the slot buffer in Take")
    take_clears = bool(re.search(r"defer func\(\) \{[^}]*slot\.buf = nil", tbody)) or ("slot.buf = nil" in tbody[hand:])
    ingress_guard = bool(re.search(r"if slot\.buf == nil \{", tbody))
    csrc = open(os.path.join(vlib.REPO, "control", "control_plane_core.go")).read()
    gt = re.search(r"func \(c \*controlPlaneCore\) getUdpConnStateTracker\(\) \*udpConnStateTracker \{(.*?)\n\}\n", csrc, re.S)
    if not gt:
        raise RuntimeError("anchor moved: controlPlaneCore.getUdpConnStateTracker()")
    gbody = gt.group(1)
    cached = gbody.find("c.udpConnStateTracker.Load(); tracker != nil")
    acq = gbody.find("acquireSharedUdpConnStateTracker(")
    if cached < 0:
        raise RuntimeError("anchor moved: cached tracker load in getUdpConnStateTracker()")
    after_cached = gbody.find("}", cached)
    core_reacquires = acq > after_cached and "return nil" not in gbody[after_cached:acq]
    text = ("(* GENERATED by tools/c13.py from control/udp_task_pool.go, udp_conn_state_tracker.go, udp_endpoint_pool.go, udp_ingress_batch.go, control_plane_core.go — do not edit. *)\n"
            "From Coq Require Import ZArith.\n"
            "Definition udp_task_queue_length : nat := %d.\n"
            "Definition refs_sentinel : Z := (%d)%%Z.\n"
            "Definition convoy_rechecks_after_claim : bool := %s.\n"
            "Definition pop_overflow_rechecks_channel : bool := %s.\n"
            "Definition retain_rechecks_after_wait : bool := %s.\n"
            "Definition remove_checks_identity : bool := %s.\n"
            "Definition take_clears_buf : bool := %s.\n"
            "Definition ingress_guard_on_buf : bool := %s.\n"
            "Definition closed_core_reacquires_tracker : bool := %s.\n"
            "Definition overflow_shrink_keeps : bool := %s.\n"
            "Definition overflow_shrink_divisor : nat := %d.\n" % (qlen, sentinel, "true" if recheck else "false",
                                                                 "true" if pop_recheck else "false",
                                                                 "true" if retain_recheck else "false",
                                                                 "true" if remove_identity else "false",
                                                                 "true" if take_clears else "false",
                                                                 "true" if ingress_guard else "false",
                                                                 "true" if core_reacquires else "false",
                                                                 "true" if shrink_keeps else "false", shrink_div))
    vlib.write_if_changed(os.path.join(vlib.COQ, "gen", "C13_Consts.v"), text)
    return {"queue_length": qlen, "sentinel": sentinel, "recheck": recheck, "pop_overflow_rechecks_channel": pop_recheck, "retain_rechecks_after_wait": retain_recheck, "remove_checks_identity": remove_identity, "take_clears_buf": take_clears, "ingress_guard_on_buf": ingress_guard, "closed_core_reacquires_tracker": core_reacquires, "overflow_shrink_keeps": shrink_keeps, "overflow_shrink_divisor": shrink_div}



# ------------------------------------------------------------------------------------------------
# scheduled harness runs: settle timeouts on a loaded machine are re-run with a longer deadline before a
# deadlock is believed
# ------------------------------------------------------------------------------------------------
STATS = {"retried_settle_timeouts": 0, "unresolved_settle_timeouts": 0, "deadlocks": 0}


def run_scheduled(sc, binary, test, cases, tag, timeout, depth=0):
    """returns (results, error).  A result that is still stuck after the x4 and x16 re-runs keeps its `stuck`
    field; result['deadlock'] is set when its goroutine dump shows no runnable instrumented goroutine."""
    def once(cs, sub, mult):
        inp, outp = sc.path("c13s_%s_%s.in" % (tag, sub)), sc.path("c13s_%s_%s.out" % (tag, sub))
        with open(inp, "w") as f:
            for c in cs:
                f.write(json.dumps(c) + "\n")
        rc, so, se, dt = vlib.run_go_harness(binary, test, inp, outp, timeout=timeout * (1 if mult == 1 else 4),
                                             extra_env={"VERIF_SETTLE_MULT": str(mult)})
        if rc != 0:
            return None, "%s failed rc=%d: %s %s" % (test, rc, so[-1500:], se[-1500:])
        res = [json.loads(l) for l in open(outp)]
        if len(res) != len(cs):
            return None, "%s returned %d results for %d cases" % (test, len(res), len(cs))
        return res, None
    results, err = once(cases, "a", 1)
    if err:
        # the whole batch may have died of a test timeout under load: one more attempt before giving up
        results, err = once(cases, "a2", 4)
        if err:
            return None, err
    for mult in (4, 16):
        stuck = sorted((i for i, r in enumerate(results) if r.get("stuck")), key=lambda i: len(results[i].get("cmds") or results[i].get("steps") or []))
        if not stuck:
            break
        # one process per stuck schedule (left-overs of a stuck case must not disturb the next one); when many
        # schedules are stuck only the three shortest are re-run: if those are real the others are judged by
        # their own goroutine dump
        for i in stuck[:3]:
            r2, err2 = once([cases[i]], "r%d_%d" % (mult, i), mult)
            if err2 is None and not r2[0].get("stuck"):
                results[i] = r2[0]
                STATS["retried_settle_timeouts"] += 1
            elif err2 is None:
                results[i] = r2[0]
        if len(stuck) > 3 and not any(results[i].get("stuck") for i in stuck[:3]):
            for i in stuck[3:]:
                r2, err2 = once([cases[i]], "r%d_%d" % (mult, i), mult)
                if err2 is None:
                    if not r2[0].get("stuck"):
                        STATS["retried_settle_timeouts"] += 1
                    results[i] = r2[0]
    still = [i for i, r in enumerate(results) if r.get("stuck")]
    skipped = [i for i, r in enumerate(results) if r.get("skipped")]
    if skipped and not still and depth < 4:
        r3, err3 = run_scheduled(sc, binary, test, [cases[i] for i in skipped], tag + "_sk", timeout, depth + 1)
        if err3:
            return None, err3
        for j, i in enumerate(skipped):
            results[i] = r3[j]
    for r in results:
        if r.get("stuck") and "deadlock" not in r:
            if r.get("stuck_runnable"):
                STATS["unresolved_settle_timeouts"] += 1
            else:
                r["deadlock"] = True
                STATS["deadlocks"] += 1
    return results, None

# ------------------------------------------------------------------------------------------------
# task pool cases
# ------------------------------------------------------------------------------------------------
def gen_pool_case(rng, big=False, boundary=False):
    if boundary:
        # real NewUdpTaskPool (capacity UdpTaskQueueLength): fill the channel exactly / one over while the
        # convoy sits inside the first task
        n = rng.choice([128, 129, 130, 131])
        keys = [1] * n + [rng.choice([1, 2])]
        cmds = [{"kind": 1, "id": 0}, {"kind": 1, "id": 0}]
        for i in range(1, n):
            cmds += [{"kind": 1, "id": i}] * 3
        return {"cap": 0, "keys": keys, "cmds": cmds, "popyield": False}
    nk = rng.choice([1, 1, 2, 2, 3])
    nprod = rng.randint(2, 12 if big else 7)
    keys = [rng.randint(1, nk) for _ in range(nprod)]
    cap = rng.choice([1, 1, 2, 2, 3])
    n = rng.randint(0, (8 if big else 6) * nprod)
    style = rng.random()
    cmds = []
    for _ in range(n):
        r = rng.random()
        if style < 0.25:
            # adversarial bias: keep convoys parked, let producers and tasks go first
            r = 0.4 + 0.5 * r
        if r < 0.4:
            cmds.append({"kind": -1, "id": rng.randint(0, 7)})
        elif r < 0.65:
            cmds.append({"kind": -3, "id": rng.randint(0, 5)})
        elif r < 0.8:
            cmds.append({"kind": -4, "id": rng.randint(0, 3)})
        elif r < 0.9:
            cmds.append({"kind": -2, "id": rng.randint(0, 3)})
        else:
            cmds.append({"kind": rng.choice([0, 1, 1, 2]), "id": rng.randint(0, nprod - 1)})
    return {"cap": cap, "keys": keys, "cmds": cmds, "popyield": rng.random() < 0.45}


def coq_cmd(c):
    if c["kind"] >= 0:
        return "(CmdName %d %d)" % (c["kind"], c["id"])
    if c["kind"] == -1:
        return "(CmdAny %d)" % c["id"]
    return "(CmdPref %d %d)" % (-2 - c["kind"], c["id"])


def coq_event(e):
    if e[0] == 0:
        return "(EAccept %d %d)" % (e[1], e[2])
    if e[0] == 1:
        nn = lambda x: x if x >= 0 else 9999
        return "(EStart %d %d %d %d)" % (nn(e[1]), nn(e[2]), nn(e[3]), nn(e[4]))
    return "(EEnd %d %d)" % (max(e[1], 0), e[2])


def pool_case_to_coq(case, res):
    cmds = []
    for r in res["cmds"]:
        g = r.get("get")
        get = "None" if g is None or g < 0 else "(Some %d)" % g
        th = "None" if not r["thread"] else "(th %d %d)" % (r["thread"][0], r["thread"][1])
        parked = clist(["pk %d %d %d" % (max(p[0], 0), p[1] if p[1] >= 0 else 9999, p[2]) for p in r["parked"]])
        evs = clist([coq_event(e) for e in r["events"]])
        cmds.append("mkOC %s %s %s %s %s" % (coq_cmd(r["cmd"]), get, th, parked, evs))
    return "(mkCase %s %d %s [\n  %s])" % (vlib.cbool(case.get("popyield", False)), res["cap_used"], clist([str(k) for k in case["keys"]]), ";\n  ".join(cmds))


def f7_suspects(case, res):
    """tasks accepted into a queue whose convoy was parked after its idle check and later claimed it"""
    qkey = []
    susp = {}
    prev = []
    claimed = set()
    for r in res["cmds"]:
        g = r.get("get")
        newq = g is not None
        if newq and r["thread"]:
            qkey.append(case["keys"][r["thread"][1]])
        for e in r["events"]:
            if e[0] == 0 and not newq:
                for p in prev:
                    if p[0] == 0 and p[2] == 3 and p[1] < len(qkey) and qkey[p[1]] == e[1]:
                        susp.setdefault(p[1], []).append(e[2])
        for p in r["parked"]:
            if p[0] == 0 and p[2] == 4:
                claimed.add(p[1])
        prev = r["parked"]
    out = []
    for q, ts in susp.items():
        if q in claimed:
            out += ts
    return out


def overtake_suspects(case, res):
    """tasks accepted for a flow while the convoy of its queue sat at convoy.pop_between, in a window with
    more accepts than the channel holds (so at least one went to the overflow list)"""
    cap = res["cap_used"]
    qkey = []
    window = {}
    out = []
    prev = []
    for r in res["cmds"]:
        if r.get("get") is not None and r["thread"]:
            qkey.append(case["keys"][r["thread"][1]])
        at7 = set(p[1] for p in prev if p[0] == 0 and p[2] == 7)
        for q in list(window):
            if q not in at7:
                if len(window[q]) > cap:
                    out += window[q]
                del window[q]
        for e in r["events"]:
            if e[0] == 0:
                for q in at7:
                    if q < len(qkey) and qkey[q] == e[1]:
                        window.setdefault(q, []).append(e[2])
        prev = r["parked"]
    for q, ts in window.items():
        if len(ts) > cap:
            out += ts
    return out


def py_spec_scan(res, skip=()):
    """python twin of C13_Spec.scan_log, used only to attribute a failing history to a recorded finding:
    returns (errors, pending tasks) of the history with the tasks in `skip` erased"""
    pend, run, errs = [], [], []
    for r in res["cmds"]:
        for e in r["events"]:
            if e[0] == 0:
                if e[2] not in skip:
                    pend.append((e[1], e[2]))
            elif e[0] == 1:
                qk, q, tk, t = e[1:]
                if t in skip:
                    continue
                if qk != tk:
                    errs.append(1)
                first = next((x[1] for x in pend if x[0] == tk), None)
                if first != t:
                    errs.append(2)
                if any(x[0] == tk for x in run):
                    errs.append(3)
                pend = [x for x in pend if x[1] != t]
                run.append((tk, t))
            else:
                run = [x for x in run if x[1] != e[2]]
    return errs, [x[1] for x in pend]


def classify_spec_failure(case, res):
    """'' = not attributable; else the matcher id of the recorded finding that alone explains the failure"""
    s7 = set(f7_suspects(case, res))
    s14 = set(overtake_suspects(case, res))
    for skip, m in ((s7, F7_MATCHER), (s14, F14_MATCHER), (s7 | s14, F14_MATCHER)):
        if skip:
            errs, pend = py_spec_scan(res, skip)
            if not errs and not pend:
                return m
    return ""


def parse_pairs_lists(outtxt, name, n):
    m = re.search(name + r"\s*=\s*(.*?)\n\s*:\s*list", outtxt, re.S)
    if not m:
        return None
    body = re.sub(r"\s+", "", m.group(1))
    per = re.findall(r"\[((?:\(\d+,\d+\);?)*)\]", body[1:-1])
    if len(per) != n:
        return None
    return [[(int(a), int(b)) for a, b in re.findall(r"\((\d+),(\d+)\)", p)] for p in per]


def run_pool_batch(sc, binary, cases, tag, retry=True):
    results, herr = run_scheduled(sc, binary, "TestVerifC13", cases, tag, 600)
    if herr:
        return None, None, None, herr
    errors = {}
    terms, idx = [], []
    for i, (c, r) in enumerate(zip(cases, results)):
        if r.get("panic"):
            errors[i] = [(0, 9)]
            continue
        if r.get("skipped"):
            continue
        if r.get("stuck"):
            if r.get("deadlock"):
                errors[i] = [(len(r.get("cmds") or []), 12)]
            continue        # starvation that survived the x16 re-run: counted, never a verdict
        terms.append(pool_case_to_coq(c, r))
        idx.append(i)
    text = ("From Coq Require Import List Arith Bool ZArith.\nFrom Dae Require Import C13_Spec C13_Model C13_Check.\n"
            "Import ListNotations.\n"
            "Definition cases : list obs_case := [\n" + ";\n".join(terms) + "\n].\n"
            "Definition R := Eval vm_compute in map check_case cases.\nPrint R.\n"
            "Definition S := Eval vm_compute in map case_signature cases.\nPrint S.\n")
    ok, outtxt = vlib.coq_eval("C13_cases_%s_%d" % (tag, os.getpid()), text)
    if not ok:
        return None, None, None, "coq evaluation failed: " + outtxt[-2500:]
    per = parse_pairs_lists(outtxt, "R", len(idx))
    if per is None:
        return None, None, None, "cannot parse coq output: " + outtxt[:600]
    for i, e in zip(idx, per):
        if e:
            errors[i] = e
    m2 = re.search(r"S\s*=\s*(.*?)\n\s*:\s*list", outtxt, re.S)
    sigs = re.findall(r"\((\d+),(\d+),(\d+),(\d+),(\d+)\)", re.sub(r"\s+", "", m2.group(1))) if m2 else []
    # a disagreement with the model alone may be a timing artefact of a loaded machine (a goroutine preempted
    # inside a macro step, the runtime's random select choice): re-run such schedules once before believing them
    again = [i for i, e in errors.items() if any(c in (1, 4) for _, c in e) and not any(c in (9, 12) for _, c in e)]
    if retry and again and len(again) <= 60:
        e2, _, r2, err2 = run_pool_batch(sc, binary, [cases[i] for i in again], tag + "_again", retry=False)
        if not err2:
            for j, i in enumerate(again):
                if not any(c in (1, 4) for _, c in e2.get(j, [])):
                    STATS["timing_retries"] = STATS.get("timing_retries", 0) + 1
                    results[i] = r2[j]
                    if e2.get(j):
                        errors[i] = e2[j]
                    else:
                        del errors[i]
    return errors, sigs, results, None


def spec_fail(e):
    return any(code in (2, 5, 9, 12) for (_, code) in e)


def shrink_pool(sc, binary, case, want):
    """greedy: shortest failing prefix of the commands (the harness drains canonically afterwards), then
    single deletions, then fewer producers"""
    def failing(cands):
        errs, _, results, err = run_pool_batch(sc, binary, cands, "shrink")
        if err:
            return []
        res = []
        for i, c in enumerate(cands):
            if i in errs and spec_fail(errs[i]) and classify_spec_failure(c, results[i]) == want:
                res.append(i)
        return res
    cur = case
    pref = [dict(cur, cmds=cur["cmds"][:n]) for n in range(len(cur["cmds"]) + 1)]
    f = failing(pref)
    if f:
        cur = pref[f[0]]
    for _ in range(3):
        cands = [dict(cur, cmds=cur["cmds"][:i] + cur["cmds"][i + 1:]) for i in range(len(cur["cmds"]))]
        if len(cur["keys"]) > 2:
            cands.append(dict(cur, keys=cur["keys"][:-1]))
        f = failing(cands)
        if not f:
            break
        cur = cands[f[-1]] if f[-1] == len(cands) - 1 and len(cur["keys"]) > 2 else cands[f[0]]
    return cur


# ------------------------------------------------------------------------------------------------
# tracker cases
# ------------------------------------------------------------------------------------------------
def gen_tracker_case(rng, big=False):
    gens = rng.choice([1, 2, 2, 3])
    univ = list(range(1, rng.randint(1, 4) + 1))
    ops = []
    for _ in range(rng.randint(1, 60 if big else 25)):
        r = rng.random()
        keys = [rng.choice(univ) for _ in range(rng.choice([1, 1, 1, 2, 2, 3]))]
        g = rng.randrange(gens)
        if r < 0.4:
            ops.append({"kind": 0, "g": g, "g2": 0, "keys": keys})
        elif r < 0.75:
            ops.append({"kind": 1, "g": g, "g2": 0, "keys": keys})
        elif r < 0.85:
            ops.append({"kind": 2, "g": g, "g2": 0, "keys": keys})
        else:
            ops.append({"kind": 3, "g": g, "g2": rng.randrange(gens), "keys": keys})
    return {"gens": gens, "univ": univ, "ops": ops}


def tracker_case_to_coq(case, res):
    steps = []
    for op, st in zip(case["ops"], res["steps"]):
        g, ks = op["g"], op["keys"]
        if op["kind"] == 0:
            ops = ["TRetain %d %d" % (g, k) for k in ks]
        elif op["kind"] == 1:
            ops = ["TRelease %d %d" % (g, k) for k in ks]
        elif op["kind"] == 2:
            ops = ["TForget %d %d" % (g, k) for k in ks]
        else:
            ops = [] if op["g2"] == g else (["TRetain %d %d" % (op["g2"], k) for k in ks] + ["TForget %d %d" % (g, k) for k in ks])
        dump = clist(["tp %d %d %d" % (d[0], d[1], d[2] if not d[3] else 7777) for d in st["dump"]])
        steps.append("mkTO %s %s %s" % (clist(ops), clist([str(k) for k in st["deletes"]]), dump))
    return "(mkTCase %s %s [\n  %s])" % (clist([str(g) for g in range(case["gens"])]), clist([str(k) for k in case["univ"]]),
                                         ";\n  ".join(steps))


def run_tracker_batch(sc, binary, cases, tag):
    inp, outp = sc.path("c13t_%s.in" % tag), sc.path("c13t_%s.out" % tag)
    with open(inp, "w") as f:
        for c in cases:
            f.write(json.dumps(c) + "\n")
    rc, so, se, dt = vlib.run_go_harness(binary, "TestVerifC13Tracker", inp, outp, timeout=300)
    if rc != 0:
        return None, None, "tracker harness failed rc=%d: %s %s" % (rc, so[-1500:], se[-1500:])
    results = [json.loads(l) for l in open(outp)]
    terms = [tracker_case_to_coq(c, r) for c, r in zip(cases, results)]
    text = ("From Coq Require Import List Arith Bool ZArith.\nFrom Dae Require Import C13_Spec C13_Model C13_Check.\n"
            "Import ListNotations.\n"
            "Definition cases : list tcase := [\n" + ";\n".join(terms) + "\n].\n"
            "Definition R := Eval vm_compute in map tcheck_case cases.\nPrint R.\n"
            "Definition S := Eval vm_compute in map tcase_signature cases.\nPrint S.\n")
    ok, outtxt = vlib.coq_eval("C13_tcases_%s_%d" % (tag, os.getpid()), text)
    if not ok:
        return None, None, "coq evaluation (tracker) failed: " + outtxt[-2500:]
    per = parse_pairs_lists(outtxt, "R", len(cases))
    if per is None:
        return None, None, "cannot parse coq output (tracker): " + outtxt[:600]
    errors = {i: e for i, e in enumerate(per) if e}
    m2 = re.search(r"S\s*=\s*(.*?)\n\s*:\s*list", outtxt, re.S)
    sigs = re.findall(r"\((\d+),(\d+),(\d+)\)", re.sub(r"\s+", "", m2.group(1))) if m2 else []
    return errors, sigs, None


def shrink_tracker(sc, binary, case):
    cur = case
    for _ in range(8):
        cands = [dict(cur, ops=cur["ops"][:i] + cur["ops"][i + 1:]) for i in range(len(cur["ops"]))]
        if not cands:
            break
        errs, _, err = run_tracker_batch(sc, binary, cands, "shrink")
        if err:
            break
        f = [i for i in range(len(cands)) if i in errs and any(c == 2 for _, c in errs[i])]
        if not f:
            break
        cur = cands[f[0]]
    return cur



# ------------------------------------------------------------------------------------------------
# endpoint pool cases (implementation against the reference machine of C13_Spec part 3)
# ------------------------------------------------------------------------------------------------
def gen_endpoint_case(rng, big=False):
    keys, dialers, gens = rng.randint(1, 3), rng.randint(1, 2), rng.randint(1, 2)
    ops = []
    for _ in range(rng.randint(1, 40 if big else 18)):
        r = rng.random()
        k, d, g = rng.randrange(keys), rng.randrange(dialers), rng.randrange(gens)
        if r < 0.42:
            ops.append({"kind": "goc", "k": k, "d": d, "g": g, "out": rng.choice([0, 0, 0, 0, 0, 0, 1, 1, 2])})
        elif r < 0.62:
            ops.append({"kind": "write", "e": rng.randint(0, 4), "out": rng.choice([0, 0, 1])})
        elif r < 0.74:
            ops.append({"kind": "track", "e": rng.randint(0, 4), "t": rng.randint(0, 3)})
        elif r < 0.84:
            ops.append({"kind": "inval", "d": d})
        elif r < 0.88:
            ops.append({"kind": "reset"})
        elif r < 0.94:
            ops.append({"kind": "remove", "e": rng.randint(0, 4)})
        else:
            ops.append({"kind": "burst", "k": k, "d": d, "g": g, "n": rng.randint(2, 6)})
    if rng.random() < 0.3:
        # two flows of one client source share the key (fresh pool, so E1 = handle 0 and E2 = handle 1):
        # A's write on E1 fails and retires it, B dials E2, A's late Remove(key, E1); or both flows drop the same
        # unhealthy endpoint, the slower one after the faster one's replacement exists
        k, d, g = rng.randrange(keys), rng.randrange(dialers), rng.randrange(gens)
        goc = {"kind": "goc", "k": k, "d": d, "g": g, "out": 0}
        fam = rng.choice(["write_then_late_remove", "double_remove", "remove_pooled"])
        if fam == "write_then_late_remove":
            head = [goc, dict(goc), {"kind": "write", "e": 0, "out": 1}, dict(goc), {"kind": "remove", "e": 0}, dict(goc)]
        elif fam == "double_remove":
            head = [goc, dict(goc), {"kind": "remove", "e": 0}, dict(goc), {"kind": "remove", "e": 0}, dict(goc),
                    {"kind": "write", "e": 1, "out": 0}]
        else:
            head = [goc, {"kind": "track", "e": 0, "t": rng.randint(0, 3)}, {"kind": "remove", "e": 0}, dict(goc), {"kind": "remove", "e": 1}]
        ops = head + ops[:rng.randint(0, 6)]
    return {"keys": keys, "dialers": dialers, "gens": gens, "ops": ops}


def endpoint_case_to_coq(case, res):
    steps = []
    for op, st in zip(case["ops"], res["steps"]):
        kd = op["kind"]
        if kd == "goc":
            o = "(EGoc %d %d %d %d)" % (op["k"], op["d"], op["g"], op["out"])
        elif kd == "burst":
            o = "(EBurst %d %d %d %d)" % (op["k"], op["d"], op["g"], op["n"])
        elif kd == "write":
            o = "(EWrite %d %d)" % (op["e"], op["out"])
        elif kd == "track":
            o = "(ETrack %d %d)" % (op["e"], op["t"])
        elif kd == "inval":
            o = "(EInval %d)" % op["d"]
        elif kd == "remove":
            o = "(ERemove %d)" % op["e"]
        else:
            o = "EReset"
        ret = "None" if st["ret"] < 0 else "(Some %d)" % st["ret"]
        eps = clist(["ep %d %d" % (e[0], e[1]) for e in (st.get("eps") or [])])
        pool = clist(["pn" if v == -1 else "pm" if v == -2 else "(pe %d)" % (v if v >= 0 else 9999) for v in st["pool"]])
        tuples = clist(["tp %d %d %d" % tuple(t) for t in st["tuples"]])
        steps.append("mkEO %s %s %s %d %d %d %s %s %s %s" % (o, ret, vlib.cbool(st["isnew"]), st["err"], st.get("distinct", 0), st["dials"],
                                                             eps, pool, tuples, clist([str(x) for x in st["drain"]])))
    return "(mkECase %d %d [\n  %s])" % (case["keys"], case["gens"], ";\n  ".join(steps))


def run_endpoint_batch(sc, binary, cases, tag):
    inp, outp = sc.path("c13e_%s.in" % tag), sc.path("c13e_%s.out" % tag)
    with open(inp, "w") as f:
        for c in cases:
            f.write(json.dumps(c) + "\n")
    rc, so, se, dt = vlib.run_go_harness(binary, "TestVerifC13Endpoint", inp, outp, timeout=300)
    if rc != 0:
        return None, None, "endpoint harness failed rc=%d: %s %s" % (rc, so[-1500:], se[-1500:])
    results = [json.loads(l) for l in open(outp)]
    terms = [endpoint_case_to_coq(c, r) for c, r in zip(cases, results)]
    text = ("From Coq Require Import List Arith Bool ZArith.\nFrom Dae Require Import C13_Spec C13_Model C13_Check.\n"
            "Import ListNotations.\n"
            "Definition cases : list ecase := [\n" + ";\n".join(terms) + "\n].\n"
            "Definition R := Eval vm_compute in map pcheck_case cases.\nPrint R.\n"
            "Definition S := Eval vm_compute in map ecase_signature cases.\nPrint S.\n")
    ok, outtxt = vlib.coq_eval("C13_ecases_%s_%d" % (tag, os.getpid()), text)
    if not ok:
        return None, None, "coq evaluation (endpoint) failed: " + outtxt[-2500:]
    per = parse_pairs_lists(outtxt, "R", len(cases))
    if per is None:
        return None, None, "cannot parse coq output (endpoint): " + outtxt[:600]
    errors = {i: e for i, e in enumerate(per) if e}
    m2 = re.search(r"S\s*=\s*(.*?)\n\s*:\s*list", outtxt, re.S)
    sigs = re.findall(r"\((\d+),(\d+),(\d+)\)", re.sub(r"\s+", "", m2.group(1))) if m2 else []
    return errors, sigs, None


def shrink_endpoint(sc, binary, case):
    cur = case
    for _ in range(10):
        cands = [dict(cur, ops=cur["ops"][:i] + cur["ops"][i + 1:]) for i in range(len(cur["ops"]))]
        if not cands:
            break
        errs, _, err = run_endpoint_batch(sc, binary, cands, "shrink")
        if err:
            break
        f = [i for i in range(len(cands)) if i in errs and any(c == 2 for _, c in errs[i])]
        if not f:
            break
        cur = cands[f[0]]
    return cur


# ------------------------------------------------------------------------------------------------
# fine endpoint schedules (GetOrCreate callers as threads parked at the endpoint yield points)
# ------------------------------------------------------------------------------------------------
EP_CREATION_MATCHER = "C13/endpoint-hit-during-creation-handed-out"


def gen_fine_case(rng, big=False):
    keys, dialers, gens = rng.choice([1, 1, 2]), rng.choice([1, 1, 2]), rng.choice([1, 2])
    nthr = rng.randint(2, 5 if big else 4)
    threads = [{"k": rng.randrange(keys), "d": rng.randrange(dialers), "g": rng.randrange(gens),
                "out": rng.choice([0, 0, 0, 0, 0, 1, 2])} for _ in range(nthr)]
    cmds = []
    for _ in range(rng.randint(0, 30 if big else 18)):
        r = rng.random()
        if r < 0.62:
            cmds.append({"kind": "step", "i": rng.randrange(nthr)})
        elif r < 0.76:
            cmds.append({"kind": "inval", "d": rng.randrange(dialers)})
        elif r < 0.88:
            cmds.append({"kind": "write", "e": rng.randint(0, 2), "out": rng.choice([0, 0, 1])})
        elif r < 0.93:
            cmds.append({"kind": "track", "e": rng.randint(0, 2), "t": rng.randint(0, 3)})
        elif r < 0.97:
            cmds.append({"kind": "remove", "e": rng.randint(0, 2)})
        else:
            cmds.append({"kind": "reset"})
    return {"keys": keys, "dialers": dialers, "gens": gens, "threads": threads, "cmds": cmds}


def fine_event(e):
    if e[0] in (0, 1):
        return "fv %d %d %d" % (e[0], max(e[1], 0) if e[1] >= 0 else 9999, e[2] if e[2] >= 0 else 9999)
    if e[0] in (2, 3, 4, 7):
        return "fv %d %d 0" % (e[0], e[1])
    return "fv 5 0 0"


def fine_case_to_coq(case, res):
    steps = []
    for st in res["steps"]:
        c = st["cmd"]
        if c["kind"] == "step":
            cmd = "(FStepT %d)" % c["i"]
        elif c["kind"] == "write":
            cmd = "(FAtom (PWrite %d %d))" % (c["e"], c["out"])
        elif c["kind"] == "track":
            cmd = "(FAtom (PTrack %d %d))" % (c["e"], c["t"])
        elif c["kind"] == "inval":
            cmd = "(FAtom (PInval %d))" % c["d"]
        elif c["kind"] == "remove":
            cmd = "(FAtom (PRemove %d))" % c["e"]
        else:
            cmd = "(FAtom PReset)"
        thr = clist(["ep %d %d" % (t[0], t[1]) for t in st["thr"]])
        evs = clist([fine_event(e) for e in st["events"] if e[0] != 6])
        eps = clist(["ep %d %d" % (e[0], e[1]) for e in st["eps"]])
        pool = clist(["pn" if v == -1 else "pm" if v == -2 else "(pe %d)" % (v if v >= 0 else 9999) for v in st["pool"]])
        tuples = clist(["tp %d %d %d" % tuple(t) for t in st["tuples"]])
        steps.append("mkFO %s %s %s %d %s %s %s %s" % (cmd, thr, evs, st["dials"], eps, pool, tuples, clist([str(x) for x in st["drain"]])))
    thr = clist(["th4 %d %d %d %d" % (t["k"], t["d"], t["g"], t["out"]) for t in case["threads"]])
    return "(mkFCase %d %d %s [\n  %s] %s)" % (case["keys"], case["gens"], thr, ";\n  ".join(steps),
                                             clist([str(x) for x in (res.get("final_closes") or [])]))


def fine_attributable(case, res):
    """True when every hand-out of a retired / invalidated / reset endpoint concerns an endpoint that was hit
    while its creating GetOrCreate had not returned yet (python twin of C13_Check.hist_scan, used only to
    attribute a failing history to the recorded finding)"""
    evs = [e for st in res["steps"] for e in st["events"] if e[0] != 6]
    eps = []          # dict(dialer, creator, sent, gone, hit_during_creation, returned)
    bad = []
    for e in evs:
        if e[0] == 0:
            t = case["threads"][e[2]] if 0 <= e[2] < len(case["threads"]) else {"d": 0}
            eps.append({"d": t["d"], "creator": e[2], "sent": False, "gone": False, "hdc": False, "ret": False})
        elif e[0] == 1:
            if not (0 <= e[2] < len(eps)):
                return False
            x = eps[e[2]]
            if x["gone"]:
                bad.append(x["hdc"])
            if e[1] == x["creator"]:
                x["ret"] = True
        elif e[0] == 2 and e[1] < len(eps):
            eps[e[1]]["sent"] = True
        elif e[0] == 3 and e[1] < len(eps):
            x = eps[e[1]]
            if not x["gone"] and not x["ret"]:
                x["hdc"] = True
            x["gone"] = True
        elif e[0] == 4:
            for x in eps:
                if x["d"] == e[1] and not x["sent"]:
                    if not x["gone"] and not x["ret"]:
                        x["hdc"] = True
                    x["gone"] = True
        elif e[0] == 5:
            for x in eps:
                if not x["gone"] and not x["ret"]:
                    x["hdc"] = True
                x["gone"] = True
        elif e[0] == 7 and e[1] < len(eps):
            # Remove(handle) by a caller that got the endpoint through the fast path while its creator had not returned
            x = eps[e[1]]
            if not x["gone"] and not x["ret"]:
                x["hdc"] = True
            x["gone"] = True
    return bool(bad) and all(bad)


def run_fine_batch(sc, binary, cases, tag, retry=True):
    results, herr = run_scheduled(sc, binary, "TestVerifC13EndpointFine", cases, tag, 300)
    if herr:
        return None, None, None, herr
    errors = {}
    idx, terms = [], []
    for i, (c, r) in enumerate(zip(cases, results)):
        if r.get("panic"):
            errors[i] = [(0, 1), (11, 2)]
            continue
        if r.get("skipped"):
            continue
        if r.get("stuck"):
            if r.get("deadlock"):
                errors[i] = [(12, 2)]
            continue
        idx.append(i)
        terms.append(fine_case_to_coq(c, r))
    text = ("From Coq Require Import List Arith Bool ZArith.\nFrom Dae Require Import C13_Spec C13_Model C13_EpModel C13_EpFine C13_Check.\n"
            "Import ListNotations.\n"
            "Definition cases : list fcase := [\n" + ";\n".join(terms) + "\n].\n"
            "Definition R := Eval vm_compute in map fcheck_case cases.\nPrint R.\n"
            "Definition S := Eval vm_compute in map fcase_signature cases.\nPrint S.\n")
    ok, outtxt = vlib.coq_eval("C13_fcases_%s_%d" % (tag, os.getpid()), text)
    if not ok:
        return None, None, None, "coq evaluation (fine endpoint) failed: " + outtxt[-2500:]
    per = parse_pairs_lists(outtxt, "R", len(idx))
    if per is None:
        return None, None, None, "cannot parse coq output (fine endpoint): " + outtxt[:600]
    for i, e in zip(idx, per):
        if e:
            errors[i] = e
    m2 = re.search(r"S\s*=\s*(.*?)\n\s*:\s*list", outtxt, re.S)
    sigs = re.findall(r"\((\d+),(\d+),(\d+)\)", re.sub(r"\s+", "", m2.group(1))) if m2 else []
    again = [i for i, e in errors.items() if any(c == 1 for _, c in e) and not any(a in (11, 12) for a, c in e if c == 2)]
    if retry and again and len(again) <= 60:
        e2, _, r2, err2 = run_fine_batch(sc, binary, [cases[i] for i in again], tag + "_again", retry=False)
        if not err2:
            for j, i in enumerate(again):
                if not any(c == 1 for _, c in e2.get(j, [])):
                    STATS["timing_retries"] = STATS.get("timing_retries", 0) + 1
                    results[i] = r2[j]
                    if e2.get(j):
                        errors[i] = e2[j]
                    else:
                        del errors[i]
    return errors, sigs, results, None


def fine_class(case, res, errs):
    """'known' = only hand-outs of endpoints hit during their creation; 'spec' = another impl<>spec failure; '' none"""
    codes = [a for a, c in errs if c == 2]
    if not codes:
        return ""
    if all(a == 1 for a in codes) and fine_attributable(case, res):
        return "known"
    return "spec"


def shrink_fine(sc, binary, case, want):
    cur = case
    for _ in range(6):
        cands = [dict(cur, cmds=cur["cmds"][:i] + cur["cmds"][i + 1:]) for i in range(len(cur["cmds"]))]
        if len(cur["threads"]) > 1:
            last = len(cur["threads"]) - 1
            cands.append(dict(cur, threads=cur["threads"][:-1], cmds=[c for c in cur["cmds"] if not (c["kind"] == "step" and c["i"] == last)]))
        if not cands:
            break
        errs, _, results, err = run_fine_batch(sc, binary, cands, "shrink")
        if err:
            break
        f = [i for i in range(len(cands)) if i in errs and fine_class(cands[i], results[i], errs[i]) == want]
        if not f:
            break
        cur = cands[f[-1]] if f[-1] == len(cands) - 1 and len(cur["threads"]) > 1 else cands[f[0]]
    return cur


# ------------------------------------------------------------------------------------------------
# tracker with concurrent owners (retainers blocking in the deleting window)
# ------------------------------------------------------------------------------------------------
def gen_tfine_case(rng, big=False):
    keys = rng.choice([1, 1, 2])
    n = rng.randint(2, 6 if big else 5)
    threads = [{"k": rng.randrange(keys), "mode": rng.choice([0, 1, 1, 1, 2])} for _ in range(n)]
    cmds = [rng.randrange(n) for _ in range(rng.randint(0, 5 * n))]
    return {"keys": keys, "threads": threads, "cmds": cmds}


def tfine_case_to_coq(case, res):
    steps = []
    for st in res.get("steps") or []:
        ents = clist(["None" if e[0] < 0 else "en %d %d" % (e[0], e[1]) for e in st["entries"]])
        steps.append("mkTFO %d %s %s %s" % (st["cmd"] if st["cmd"] >= 0 else 9999, clist([str(x) for x in st["thr"]]), ents,
                                            clist([str(x) for x in st["deletes"]])))
    thr = clist(["ep %d %d" % (t["k"], t["mode"]) for t in case["threads"]])
    return "(mkTFCase %d %s [\n  %s])" % (case["keys"], thr, ";\n  ".join(steps))


def run_tfine_batch(sc, binary, cases, tag, retry=True):
    results, herr = run_scheduled(sc, binary, "TestVerifC13TrackerFine", cases, tag, 150)
    if herr:
        return None, None, None, herr
    errors = {}
    idx, terms = [], []
    for i, (c, r) in enumerate(zip(cases, results)):
        if r.get("skipped"):
            continue
        if r.get("panic"):
            errors[i] = [(0, 1)]
            continue
        if r.get("stuck"):
            if r.get("deadlock"):
                errors[i] = [(len(r.get("steps") or []), 12)]
            continue
        idx.append(i)
        terms.append(tfine_case_to_coq(c, r))
    text = ("From Coq Require Import List Arith Bool ZArith.\nFrom Dae Require Import C13_Spec C13_Model C13_TrFine C13_Check.\n"
            "Import ListNotations.\n"
            "Definition cases : list tfcase := [\n" + ";\n".join(terms) + "\n].\n"
            "Definition R := Eval vm_compute in map tfcheck_case cases.\nPrint R.\n"
            "Definition S := Eval vm_compute in map tfcase_signature cases.\nPrint S.\n")
    ok, outtxt = vlib.coq_eval("C13_tfcases_%s_%d" % (tag, os.getpid()), text)
    if not ok:
        return None, None, None, "coq evaluation (tracker threads) failed: " + outtxt[-2500:]
    per = parse_pairs_lists(outtxt, "R", len(idx))
    if per is None:
        return None, None, None, "cannot parse coq output (tracker threads): " + outtxt[:600]
    for i, e in zip(idx, per):
        if e:
            errors[i] = e
    m2 = re.search(r"S\s*=\s*(.*?)\n\s*:\s*list", outtxt, re.S)
    sigs = re.findall(r"\((\d+),(\d+),(\d+)\)", re.sub(r"\s+", "", m2.group(1))) if m2 else []
    again = [i for i, e in errors.items() if any(c == 1 for _, c in e) and not any(c in (2, 12) for _, c in e)]
    if retry and again and len(again) <= 60:
        e2, _, r2, err2 = run_tfine_batch(sc, binary, [cases[i] for i in again], tag + "_again", retry=False)
        if not err2:
            for j, i in enumerate(again):
                if not any(c == 1 for _, c in e2.get(j, [])):
                    STATS["timing_retries"] = STATS.get("timing_retries", 0) + 1
                    results[i] = r2[j]
                    if e2.get(j):
                        errors[i] = e2[j]
                    else:
                        del errors[i]
    return errors, sigs, results, None


def shrink_tfine(sc, binary, case):
    cur = case
    for _ in range(8):
        cands = [dict(cur, cmds=cur["cmds"][:i] + cur["cmds"][i + 1:]) for i in range(len(cur["cmds"]))]
        if len(cur["threads"]) > 2:
            last = len(cur["threads"]) - 1
            cands.append(dict(cur, threads=cur["threads"][:-1], cmds=[c for c in cur["cmds"] if c != last]))
        if not cands:
            break
        errs, _, _, err = run_tfine_batch(sc, binary, cands, "shrink")
        if err:
            break
        f = [i for i in range(len(cands)) if i in errs and any(c == 2 for _, c in errs[i])]
        if not f:
            break
        cur = cands[f[-1]] if f[-1] == len(cands) - 1 and len(cur["threads"]) > 2 else cands[f[0]]
    return cur


# ------------------------------------------------------------------------------------------------
# ingress batch reader: buffer ownership at the ReadBatch -> Take -> task hand-off
# ------------------------------------------------------------------------------------------------
def gen_ingress_case(rng, big=False):
    slots = rng.randint(1, 3)
    ops, ntasks, payload = [], 0, 1
    for _ in range(rng.randint(1, 24 if big else 14)):
        r = rng.random()
        if r < 0.35:
            n = rng.randint(0, slots + 1)
            dgs = []
            for _ in range(n):
                dgs.append([payload, 0 if rng.random() < 0.15 else 1])
                payload += 1
            ops.append({"kind": "read", "dgs": dgs})
            # the ingress loop takes every delivered slot; keep the tasks pending most of the time
            for i in range(min(n, slots)):
                if rng.random() < 0.85:
                    ops.append({"kind": "take", "i": i})
                    ntasks += 1
        elif r < 0.55:
            ops.append({"kind": "take", "i": rng.randint(0, slots)})
            ntasks += 1
        elif r < 0.92:
            ops.append({"kind": "run", "t": rng.randint(0, max(ntasks, 1))})
        else:
            ops.append({"kind": "close"})
    return {"slots": slots, "ops": ops}


def ingress_case_to_coq(case, res):
    ops = list(case["ops"])
    steps = []
    n_given = len(ops)
    for j, st in enumerate(res["steps"]):
        if j < n_given:
            op = ops[j]
        else:
            op = None
        if op is None:
            # drain appended by the harness: runs of the still pending tasks (in task order), then a close
            pend = st.get("_drain")
            o = pend
        elif op["kind"] == "read":
            o = "(IRead %s)" % clist(["dg %d %d" % (d[0], d[1]) for d in op["dgs"]])
        elif op["kind"] == "take":
            o = "(ITake %d)" % op["i"]
        elif op["kind"] == "run":
            o = "(IRun %d)" % op["t"]
        else:
            o = "IClose"
        slots = clist(["sl2 %s %s" % ("None" if a < 0 else "(Some %d)" % a, "None" if b < 0 else "(Some %d)" % b) for a, b in st["slots"]])
        tasks = clist(["tk4 %d %d %d %d" % (t[0] if t[0] >= 0 else 9999, t[1] if t[1] >= 0 else 9999, t[2], t[3]) for t in st["tasks"]])
        steps.append("mkIO %s %s %s %s" % (o, slots, tasks, clist([str(x) for x in st["puts"]])))
    return "(mkICase %d [\n  %s])" % (case["slots"], ";\n  ".join(steps))


def run_ingress_batch(sc, binary, cases, tag):
    inp, outp = sc.path("c13i_%s.in" % tag), sc.path("c13i_%s.out" % tag)
    with open(inp, "w") as f:
        for c in cases:
            f.write(json.dumps(c) + "\n")
    rc, so, se, dt = vlib.run_go_harness(binary, "TestVerifC13Ingress", inp, outp, timeout=300)
    if rc != 0:
        return None, None, "ingress harness failed rc=%d: %s %s" % (rc, so[-1500:], se[-1500:])
    results = [json.loads(l) for l in open(outp)]
    terms, errors = [], {}
    for i, (c, r) in enumerate(zip(cases, results)):
        if r.get("panic"):
            errors[i] = [(0, 2)]
            terms.append("(mkICase 1 [])")
            continue
        # name the drain operations the harness appended: runs of pending tasks in task order, then close
        steps = r["steps"]
        extra = len(steps) - len(c["ops"])
        if extra > 0:
            prev_tasks = steps[len(c["ops"]) - 1]["tasks"] if len(c["ops"]) > 0 else []
            pend = [t for t, x in enumerate(prev_tasks) if x[2] == 0]
            names = ["(IRun %d)" % t for t in pend] + ["IClose"]
            for j in range(extra):
                steps[len(c["ops"]) + j]["_drain"] = names[j] if j < len(names) else "IClose"
        terms.append(ingress_case_to_coq(c, r))
    text = ("From Coq Require Import List Arith Bool ZArith.\nFrom Dae Require Import C13_Spec C13_Model C13_Ingress C13_Check.\n"
            "Import ListNotations.\n"
            "Definition cases : list icase := [\n" + ";\n".join(terms) + "\n].\n"
            "Definition R := Eval vm_compute in map icheck_case cases.\nPrint R.\n"
            "Definition S := Eval vm_compute in map icase_signature cases.\nPrint S.\n")
    ok, outtxt = vlib.coq_eval("C13_icases_%s_%d" % (tag, os.getpid()), text)
    if not ok:
        return None, None, "coq evaluation (ingress) failed: " + outtxt[-2500:]
    per = parse_pairs_lists(outtxt, "R", len(cases))
    if per is None:
        return None, None, "cannot parse coq output (ingress): " + outtxt[:600]
    for i, e in enumerate(per):
        if e and i not in errors:
            errors[i] = e
    m2 = re.search(r"S\s*=\s*(.*?)\n\s*:\s*list", outtxt, re.S)
    sigs = re.findall(r"\((\d+),(\d+),(\d+)\)", re.sub(r"\s+", "", m2.group(1))) if m2 else []
    return errors, sigs, None


def shrink_ingress(sc, binary, case):
    cur = case
    for _ in range(6):
        cands = [dict(cur, ops=cur["ops"][:i] + cur["ops"][i + 1:]) for i in range(len(cur["ops"]))]
        if not cands:
            break
        # one process per candidate: a double Put corrupts the process-wide buffer pool, so that later,
        # innocent histories of the same process would look guilty
        errs = {}
        for ci, cand in enumerate(cands):
            e1, _, err = run_ingress_batch(sc, binary, [cand], "shrink")
            if err:
                break
            if 0 in e1:
                errs[ci] = e1[0]
                if any(c == 2 for _, c in e1[0]):
                    break
        f = [i for i in range(len(cands)) if i in errs and any(c == 2 for _, c in errs[i])]
        if not f:
            break
        cur = cands[f[0]]
    return cur


# ------------------------------------------------------------------------------------------------
# generations sharing the conn-state tracker across a reload hand-over
# ------------------------------------------------------------------------------------------------
def gen_trgen_case(rng, big=False):
    """disciplined histories: a generation is closed only while another open one exists on its BPF object set
    (or nothing is owned there); transfers stay within one BPF object set; releases only by owners"""
    bpfs, keys = rng.choice([1, 1, 2]), rng.randint(1, 3)
    cores = []           # dict(b, closed)
    owners = []          # (core, tuple)
    ops = []
    def new(b):
        cores.append({"b": b, "closed": False})
        ops.append({"kind": "new", "b": b})
    new(0)
    for _ in range(rng.randint(3, 40 if big else 22)):
        r = rng.random()
        if r < 0.14 or not cores:
            new(rng.randrange(bpfs))
        elif r < 0.45:
            c = rng.randrange(len(cores))
            k = rng.randrange(keys)
            if cores[c]["closed"] and not any(not x["closed"] and x["b"] == cores[c]["b"] for x in cores) and \
               not any(cores[o[0]]["b"] == cores[c]["b"] for o in owners):
                pass    # retain on a closed generation of a fully shut down BPF object set: allowed by the model too
            ops.append({"kind": "retain", "c": c, "k": k})
            owners.append((c, k))
        elif r < 0.70 and owners:
            o = owners.pop(rng.randrange(len(owners)))
            ops.append({"kind": "release", "c": o[0], "k": o[1]})
        elif r < 0.82 and owners:
            i = rng.randrange(len(owners))
            cfrom, k = owners[i]
            cand = [j for j, x in enumerate(cores) if x["b"] == cores[cfrom]["b"] and j != cfrom]
            if cand:
                cto = rng.choice(cand)
                owners[i] = (cto, k)
                ops.append({"kind": "transfer", "c": cto, "c2": cfrom, "k": k})
        else:
            c = rng.randrange(len(cores))
            b = cores[c]["b"]
            others_open = sum(1 for j, x in enumerate(cores) if x["b"] == b and not x["closed"] and j != c)
            owned = any(cores[o[0]]["b"] == b for o in owners)
            if cores[c]["closed"] or others_open >= 1 or not owned:
                cores[c]["closed"] = True
                ops.append({"kind": "close", "c": c})
    # forced retirement tail: every remaining owner releases, closed generations included
    rng.shuffle(owners)
    for o in owners:
        ops.append({"kind": "release", "c": o[0], "k": o[1]})
    return {"bpfs": bpfs, "keys": keys, "ops": ops}


def trgen_case_to_coq(case, res):
    steps = []
    for op, st in zip(case["ops"], res["steps"]):
        kd = op["kind"]
        if kd == "new":
            o = "(GNew %d)" % op["b"]
        elif kd == "close":
            o = "(GClose %d)" % op["c"]
        elif kd == "retain":
            o = "(GRetain %d %d)" % (op["c"], op["k"])
        elif kd == "release":
            o = "(GRelease %d %d)" % (op["c"], op["k"])
        else:
            o = "(GTransfer %d %d %d)" % (op["c"], op["c2"], op["k"])
        reg = clist(["None" if r[0] < 0 else "(Some %d)" % r[0] for r in st["reg"]])
        ents = clist(["tp %d %d %d" % (e[0], e[1], e[2] if not e[3] else 7777) for e in st["entries"]])
        steps.append("mkGO %s %s %s" % (o, reg, ents))
    return "(mkGCase %d %d [\n  %s])" % (case["bpfs"], case["keys"], ";\n  ".join(steps))


def run_trgen_batch(sc, binary, cases, tag):
    inp, outp = sc.path("c13g_%s.in" % tag), sc.path("c13g_%s.out" % tag)
    with open(inp, "w") as f:
        for c in cases:
            f.write(json.dumps(c) + "\n")
    rc, so, se, dt = vlib.run_go_harness(binary, "TestVerifC13TrackerGen", inp, outp, timeout=300)
    if rc != 0:
        return None, None, "generation harness failed rc=%d: %s %s" % (rc, so[-1500:], se[-1500:])
    results = [json.loads(l) for l in open(outp)]
    terms = [trgen_case_to_coq(c, r) if not r.get("panic") else "(mkGCase 1 1 [])" for c, r in zip(cases, results)]
    text = ("From Coq Require Import List Arith Bool ZArith.\nFrom Dae Require Import C13_Spec C13_Model C13_TrGen C13_Check.\n"
            "Import ListNotations.\n"
            "Definition cases : list gcase := [\n" + ";\n".join(terms) + "\n].\n"
            "Definition R := Eval vm_compute in map gcheck_case cases.\nPrint R.\n"
            "Definition S := Eval vm_compute in map gcase_signature cases.\nPrint S.\n")
    ok, outtxt = vlib.coq_eval("C13_gcases_%s_%d" % (tag, os.getpid()), text)
    if not ok:
        return None, None, "coq evaluation (generations) failed: " + outtxt[-2500:]
    per = parse_pairs_lists(outtxt, "R", len(cases))
    if per is None:
        return None, None, "cannot parse coq output (generations): " + outtxt[:600]
    errors = {i: e for i, e in enumerate(per) if e}
    for i, r in enumerate(results):
        if r.get("panic"):
            errors[i] = [(0, 2)]
    m2 = re.search(r"S\s*=\s*(.*?)\n\s*:\s*list", outtxt, re.S)
    sigs = re.findall(r"\((\d+),(\d+),(\d+)\)", re.sub(r"\s+", "", m2.group(1))) if m2 else []
    return errors, sigs, None


def shrink_trgen(sc, binary, case):
    """drop operations while the history stays failing; candidates that are no longer well formed (a release or
    transfer without its retain, a close of the last open generation with owners) are skipped"""
    def well_formed(c):
        cores, owners = [], []
        for op in c["ops"]:
            k = op["kind"]
            if k == "new":
                cores.append({"b": op["b"], "closed": False})
            elif k in ("close", "retain", "release") and op["c"] >= len(cores):
                return False
            elif k == "retain":
                owners.append((op["c"], op["k"]))
            elif k == "release":
                if (op["c"], op["k"]) not in owners:
                    return False
                owners.remove((op["c"], op["k"]))
            elif k == "transfer":
                if op["c"] >= len(cores) or op["c2"] >= len(cores) or (op["c2"], op["k"]) not in owners or cores[op["c"]]["b"] != cores[op["c2"]]["b"]:
                    return False
                owners.remove((op["c2"], op["k"]))
                owners.append((op["c"], op["k"]))
            elif k == "close":
                c0 = op["c"]
                b = cores[c0]["b"]
                others = sum(1 for j, x in enumerate(cores) if x["b"] == b and not x["closed"] and j != c0)
                if not cores[c0]["closed"] and others == 0 and any(cores[o[0]]["b"] == b for o in owners):
                    return False
                cores[c0]["closed"] = True
        return True
    cur = case
    for _ in range(10):
        cands = [dict(cur, ops=cur["ops"][:i] + cur["ops"][i + 1:]) for i in range(len(cur["ops"]))]
        cands = [c for c in cands if well_formed(c)]
        if not cands:
            break
        errs, _, err = run_trgen_batch(sc, binary, cands, "shrink")
        if err:
            break
        f = [i for i in range(len(cands)) if i in errs and any(c == 2 for _, c in errs[i])]
        if not f:
            break
        cur = cands[f[0]]
    return cur


# ------------------------------------------------------------------------------------------------
# long single-flow backlog on the real queue (overflow list growth and capacity shrink)
# ------------------------------------------------------------------------------------------------
BACKLOG_KS = [130, 144, 150, 190, 288, 300, 510, 700, 1200]


def run_backlog_batch(sc, binary, ks, tag):
    cases = [{"k": k} for k in ks]
    inp, outp = sc.path("c13b_%s.in" % tag), sc.path("c13b_%s.out" % tag)
    with open(inp, "w") as f:
        for c in cases:
            f.write(json.dumps(c) + "\n")
    results = None
    for mult in (1, 4, 16):
        rc, so, se, dt = vlib.run_go_harness(binary, "TestVerifC13Backlog", inp, outp, timeout=120 * mult,
                                             extra_env={"VERIF_SETTLE_MULT": str(mult)})
        if rc != 0:
            continue
        results = [json.loads(l) for l in open(outp)]
        if all(r.get("idle") for r in results):
            break
        STATS["retried_settle_timeouts"] += 1
    if results is None:
        return None, None, "backlog harness failed: %s %s" % (so[-800:], se[-800:])
    terms = ["(mkBO %d %d %d %d %s %s)" % (r["k"], r["chan_len"], r["over_len"], r["over_cap"],
                                          clist(["run2 %d %d" % (a, b) for a, b in r["runs"]]), vlib.cbool(r.get("idle", False))) for r in results]
    text = ("From Coq Require Import List Arith Bool ZArith.\nFrom Dae Require Import C13_Spec C13_Model C13_Overflow C13_Check.\n"
            "Import ListNotations.\n"
            "Definition cases : list bobs := [\n" + ";\n".join(terms) + "\n].\n"
            "Definition R := Eval vm_compute in map bcheck_case cases.\nPrint R.\n")
    ok, outtxt = vlib.coq_eval("C13_bcases_%s_%d" % (tag, os.getpid()), text)
    if not ok:
        return None, None, "coq evaluation (backlog) failed: " + outtxt[-2500:]
    per = parse_pairs_lists(outtxt, "R", len(cases))
    if per is None:
        return None, None, "cannot parse coq output (backlog): " + outtxt[:600]
    return {i: e for i, e in enumerate(per) if e}, results, None

# ------------------------------------------------------------------------------------------------
def main(argv):
    args = vlib.main_args(argv)
    out = vlib.Outcome(PID, args.tier, args.seed)
    rng = vlib.rng_for(args.seed, PID)
    quick = args.tier == "quick"
    n_pool = 150 if quick else 4000
    n_tr = 100 if quick else 4000

    try:
        consts = translate()
        xerr = None
    except Exception as e:  # anchor moved
        consts, xerr = {}, str(e)

    proof_ok, pinfo = vlib.proof_stage(out, PROPS, TARGETS)
    for extra_props in ("C13_PropsOrder.v", "C13_PropsFine.v"):
        if not (proof_ok and os.path.exists(os.path.join(vlib.COQ, extra_props))):
            continue
        ok2, pinfo2 = vlib.proof_stage(out, extra_props, [extra_props + "o"])
        pinfo["obligations"] += pinfo2["obligations"]
        pinfo["discharged"] += pinfo2["discharged"]
        pinfo["theorems"] = pinfo.get("theorems", []) + pinfo2.get("theorems", [])
        pinfo["assumptions"] = pinfo.get("assumptions", []) + pinfo2.get("assumptions", [])
        if not ok2:
            proof_ok, pinfo["failed"] = False, pinfo2["failed"]
    cov = {"obligations": pinfo["obligations"], "discharged": pinfo["discharged"],
           "checker_cmd": "cd /verif/coq && coq_makefile -f _CoqProject -o Makefile && make -j16 " + " ".join(TARGETS) +
                          " && coqc -Q . Dae C13_Props.v (Print Assumptions captured)",
           "theorems": pinfo.get("theorems", []), "print_assumptions": pinfo.get("assumptions", []),
           "extracted_constants": consts,
           "refuted_full_statements": ["C13_exactly_once_in_order_full (witness schedules witness_loss / witness_cross / witness_overtake, replayed on the Go code from corpus/C13)"],
           "trusted_base": vlib.TRUSTED_BASE_COMMON + [
               "verif yield points in control/udp_task_pool.go (control/verif_hooks_on.go) and the harness scheduler built on them (goroutine states read from runtime.Stack)",
               "Go sync.Map / channel / atomic / sync.Pool semantics as modelled (Pool.Get returns any channel that was Put, or a new one; the harness reports which)",
               "idle timer modelled as a nondeterministic event; in replays it fires as soon as the idle check can pass (aging time 200us)"]}
    out.coverage = cov
    out.assumptions = ["the idle check's three loads (refs, len(ch), overflowLen) are modelled as one atomic step",
                       "UdpTaskPool.Reset/Close and a panicking task are outside the property's quantifier and not modelled",
                       "tracker: calls are sequential (every method holds the tracker mutex); a retain/forget blocking on an entry in its deleting window is modelled but not driven",
                       "C13_in_order_partial (ordered exactly-once for every schedule outside the recorded idle-GC window) is included when coq/C13_Order.v is present and closed",
                       "endpoint pool: C13_EpModel.v models whole calls as atomic steps (sequential semantics; concurrent first-use bursts are driven on the real code and compared with one call); the janitor sweep and time (PSweep/PTick: marker and NAT expiry) are in the model and the theorems but are not driven on the implementation (real-time 2 s / ticker closure); interleavings inside GetOrCreate/retire/invalidate/adopt are not modelled (no yield points there)"]

    if args.replay:
        d = json.load(open(args.replay))
        rp = d.get("replay", d)
        case = rp.get("case")
        if case is None:
            # tie replays name the correspondence case of one of the families
            for k, v in rp.items():
                if isinstance(v, dict) and "case" in v:
                    case = v["case"]
                    print("replaying", k)
                    break
        if case is None:
            case = rp
        with vlib.Scratch() as sc:
            binary, blog = vlib.build_go_test_binary(sc, "control", HARNESS)
            if binary is None:
                print("harness build failed")
                return 2
            if "slots" in case:
                errs, _, err = run_ingress_batch(sc, binary, [case], "replay")
            elif "threads" in case and case["threads"] and "mode" in case["threads"][0]:
                errs, _, results, err = run_tfine_batch(sc, binary, [case], "replay")
                print("impl trace:", json.dumps(results[0]) if results else None)
            elif "threads" in case:
                errs, _, results, err = run_fine_batch(sc, binary, [case], "replay")
                print("impl trace:", json.dumps(results[0]) if results else None)
            elif "cmds" in case:
                errs, _, results, err = run_pool_batch(sc, binary, [case], "replay")
                print("impl trace:", json.dumps(results[0]) if results else None)
            elif "univ" in case:
                errs, _, err = run_tracker_batch(sc, binary, [case], "replay")
            else:
                errs, _, err = run_endpoint_batch(sc, binary, [case], "replay")
            print("error codes (index, code) [1 impl<>model, 2/5 impl<>spec, 3 model<>spec, 4 rest/entries]:", err or errs.get(0, []))
            return 1 if (err or errs.get(0)) else 0

    with vlib.Scratch() as sc:
        binary, blog = vlib.build_go_test_binary(sc, "control", HARNESS)
        if binary is None:
            out.violation("build", {"broken": "harness build against the repository failed", "log": blog[-3000:]},
                          "correspondence harness no longer builds", no_failing_input=True)
            cov.update(evaluations=0, distinct_nontrivial=0, rule="", samples=[], traces_validated_against_impl=0)
            return out.finish()

        # tracker and endpoint batches are evaluated concurrently with the task pool batch
        import concurrent.futures
        n_ep = 100 if quick else 3000
        tcases = [gen_tracker_case(rng, big=(not quick and i % 3 == 0)) for i in range(n_tr)]
        edir = os.path.join(vlib.VERIF, "corpus", PID, "endpoint")
        ecorpus = [json.load(open(os.path.join(edir, n))) for n in sorted(os.listdir(edir)) if n.endswith(".json")] if os.path.isdir(edir) else []
        ecases = ecorpus + [gen_endpoint_case(rng, big=(not quick and i % 3 == 0)) for i in range(n_ep)]
        n_fine = 90 if quick else 2500
        fdir = os.path.join(vlib.VERIF, "corpus", PID, "fine")
        fcorpus = [json.load(open(os.path.join(fdir, n))) for n in sorted(os.listdir(fdir)) if n.endswith(".json")] if os.path.isdir(fdir) else []
        fcases = fcorpus + [gen_fine_case(rng, big=(not quick and i % 3 == 0)) for i in range(n_fine)]
        n_tf = 80 if quick else 2500
        tfdir = os.path.join(vlib.VERIF, "corpus", PID, "tracker")
        tfcorpus = [json.load(open(os.path.join(tfdir, n))) for n in sorted(os.listdir(tfdir)) if n.endswith(".json")] if os.path.isdir(tfdir) else []
        tfcases = tfcorpus + [gen_tfine_case(rng, big=(not quick and i % 3 == 0)) for i in range(n_tf)]
        n_in = 100 if quick else 2500
        idir = os.path.join(vlib.VERIF, "corpus", PID, "ingress")
        icorpus = [json.load(open(os.path.join(idir, n))) for n in sorted(os.listdir(idir)) if n.endswith(".json")] if os.path.isdir(idir) else []
        icases = icorpus + [gen_ingress_case(rng, big=(not quick and i % 3 == 0)) for i in range(n_in)]
        n_gen = 100 if quick else 2500
        gdir = os.path.join(vlib.VERIF, "corpus", PID, "generations")
        gcorpus = [json.load(open(os.path.join(gdir, n))) for n in sorted(os.listdir(gdir)) if n.endswith(".json")] if os.path.isdir(gdir) else []
        gcases = gcorpus + [gen_trgen_case(rng, big=(not quick and i % 3 == 0)) for i in range(n_gen)]
        pool_exec = concurrent.futures.ThreadPoolExecutor(max_workers=7)
        fut_b = pool_exec.submit(run_backlog_batch, sc, binary, BACKLOG_KS, "b0")
        fut_g = pool_exec.submit(run_trgen_batch, sc, binary, gcases, "g0")
        fut_i = pool_exec.submit(run_ingress_batch, sc, binary, icases, "i0")
        fut_tf = pool_exec.submit(run_tfine_batch, sc, binary, tfcases, "tf0")
        fut_f = pool_exec.submit(run_fine_batch, sc, binary, fcases, "f0")
        fut_t = pool_exec.submit(run_tracker_batch, sc, binary, tcases, "t0")
        fut_e = pool_exec.submit(run_endpoint_batch, sc, binary, ecases, "e0")

        # ---------------- task pool ----------------
        corpus = []
        cdir = os.path.join(vlib.VERIF, "corpus", PID)
        if os.path.isdir(cdir):
            for n in sorted(os.listdir(cdir)):
                if n.endswith(".json"):
                    corpus.append(json.load(open(os.path.join(cdir, n))))
        cases = list(corpus)
        for i in range(n_pool):
            cases.append(gen_pool_case(rng, big=(not quick and i % 3 == 0), boundary=(i % 200 == 7)))
        all_err, sigs, results_all = {}, [], {}
        tie_broken = None
        shard = 300
        for s in range(0, len(cases), shard):
            errs, sg, results, err = run_pool_batch(sc, binary, cases[s:s + shard], "b%d" % s)
            if err:
                tie_broken = err
                break
            for i, e in errs.items():
                all_err[s + i] = e
            for i, r in enumerate(results):
                results_all[s + i] = r
            sigs += sg
        n_eval = len(cases)
        for i, c in enumerate(cases):
            if c["cap"] == 0 and i in results_all and results_all[i].get("cap_used") != consts.get("queue_length"):
                tie_broken = "UdpTaskQueueLength extracted from source (%s) differs from the capacity NewUdpTaskPool used (%s)" % (
                    consts.get("queue_length"), results_all[i].get("cap_used"))

        def is_open(m):
            return any(e["property"] == PID and e["match"] == m for e in out.kf["open"])

        timing_retries = STATS.get("timing_retries", 0)

        f7_cases, f14_cases, other_spec, model_fail, mspec_fail = [], [], [], [], []

        def classify(i, e, case, r):
            if spec_fail(e):
                m = classify_spec_failure(case, r) if (r is not None and not any(c in (9, 12) for _, c in e)) else ""
                (f7_cases if m == F7_MATCHER else f14_cases if m == F14_MATCHER else other_spec).append(i)
            if any(c in (1, 4) for _, c in e):
                model_fail.append(i)
            if any(c == 3 for _, c in e) and not spec_fail(e):
                mspec_fail.append(i)

        for i, e in sorted(all_err.items()):
            classify(i, e, cases[i], results_all.get(i))

        widened = False
        if (not proof_ok or model_fail or mspec_fail) and not other_spec and not tie_broken:
            widened = True
            extra = [gen_pool_case(rng, big=True) for _ in range(10 * n_pool if quick else 2 * n_pool)]
            base = len(cases)
            for s in range(0, len(extra), shard):
                errs, sg, results, err = run_pool_batch(sc, binary, extra[s:s + shard], "w%d" % s)
                if err:
                    break
                for i, r in enumerate(results):
                    results_all[base + s + i] = r
                for i, e in errs.items():
                    all_err[base + s + i] = e
                    classify(base + s + i, e, extra[s + i], results[i])
            cases += extra
            n_eval = len(cases)

        def report_class(idx, matcher, tag, how, desc):
            i = min(idx, key=lambda j: len(results_all[j].get("cmds") or []))
            small = cases[i] if is_open(matcher) else shrink_pool(sc, binary, cases[i], matcher)
            out.violation(tag, {"case": small, "errors": all_err[i], "original_case_index": i, "failing_cases": len(idx), "how": how},
                          desc % len(idx), matchers=[matcher])

        if f7_cases:
            report_class(f7_cases, F7_MATCHER, "impl_vs_spec_idle_gc",
                         "feed the case (one JSON line) to TestVerifC13 (harness/control/c13_test.go): a complete EmitTask between "
                         "convoy.after_idle_check and the claiming CAS is accepted; the convoy then claims, deletes and recycles the "
                         "queue; the task is never run for its flow (and runs on another flow's worker if the pooled channel is reused)",
                         "task accepted between the convoy's idle check and its claiming CAS is lost / run under another flow (%d failing schedules)")
        if f14_cases:
            report_class(f14_cases, F14_MATCHER, "impl_vs_spec_overflow_overtake",
                         "feed the case to TestVerifC13 (popyield=true parks the convoy at convoy.pop_between): the convoy polled its channel empty, "
                         "capacity+1 EmitTasks of the flow complete, the convoy then pops the overflow list first: the newest task runs before the older "
                         "ones waiting in the channel",
                         "task taken from the overflow list overtakes older tasks of its flow waiting in the channel (%d failing schedules)")
        if other_spec:
            i = min(other_spec, key=lambda j: len(results_all[j].get("cmds") or []) if j in results_all else 0)
            small = shrink_pool(sc, binary, cases[i], "") if i in results_all and not results_all[i].get("stuck") and not any(c == 12 for _, c in all_err[i]) else cases[i]
            if any(c == 12 for _, c in all_err[i]):
                other_desc = "task pool deadlock: every instrumented goroutine is parked or blocked and nothing can proceed (%d failing schedules)" % len(other_spec)
            else:
                other_desc = "task pool history violates ordered exactly-once handling (%d failing schedules)" % len(other_spec)
            out.violation("impl_vs_spec_pool", {"case": small, "errors": all_err[i], "original_case_index": i, "failing_cases": len(other_spec),
                                                "impl_result": results_all.get(i, {}) if len(json.dumps(results_all.get(i, {}))) < 20000 else "large",
                                                "goroutine_dump": (results_all.get(i) or {}).get("stuck_dump", ""),
                                                "how": "feed the case to TestVerifC13; error codes: (spec code,2) safety, (n,5) n tasks accepted and never run at rest, 9 harness panic, "
                                                       "(n,12) deadlock after command n: stuck in three runs with settle deadlines 4 s, 16 s, 64 s and no runnable instrumented goroutine (see goroutine_dump)"},
                          other_desc)

        # ---------------- tracker ----------------
        terrs, tsigs, terr = fut_t.result()
        t_model_fail, t_spec_fail = [], []
        if terr:
            tie_broken = (tie_broken or "") + " | " + terr
        else:
            for i, e in sorted(terrs.items()):
                if any(c == 2 for _, c in e):
                    t_spec_fail.append(i)
                elif e:
                    t_model_fail.append(i)
            if t_model_fail and not t_spec_fail:
                extra = [gen_tracker_case(rng, big=True) for _ in range(10 * n_tr)]
                e2, _, err2 = run_tracker_batch(sc, binary, extra, "tw")
                if not err2:
                    for i, e in e2.items():
                        if any(c == 2 for _, c in e):
                            t_spec_fail.append(len(tcases) + i)
                            terrs[len(tcases) + i] = e
                    tcases += extra
            if t_spec_fail:
                i = t_spec_fail[0]
                small = shrink_tracker(sc, binary, tcases[i])
                out.violation("impl_vs_spec_tracker", {"case": small, "errors": terrs[i], "failing_cases": len(t_spec_fail),
                                                       "how": "feed the case to TestVerifC13Tracker: the kernel deletes of some call differ from `the tuple, iff the call takes its owner count from one to zero`"},
                              "kernel tuple deleted while an owner remains, or not deleted when the last owner goes (%d failing histories)" % len(t_spec_fail))

        # ---------------- endpoint pool ----------------
        eerrs, esigs, eerr = fut_e.result()
        ferrs, fsigs, fresults, ferr = fut_f.result()
        tferrs, tfsigs, tfresults, tferr = fut_tf.result()
        ierrs, isigs, ierr = fut_i.result()
        gerrs, gsigs, gerr = fut_g.result()
        berrs, bresults, berr = fut_b.result()
        pool_exec.shutdown()
        b_spec, b_model = [], []
        if berr:
            tie_broken = (tie_broken or "") + " | " + berr
        else:
            b_spec = sorted(i for i, e in berrs.items() if any(c == 2 for _, c in e))
            b_model = sorted(i for i, e in berrs.items() if any(c in (1, 3) for _, c in e) and i not in b_spec)
            STATS["unresolved_settle_timeouts"] += sum(1 for e in berrs.values() if any(c == 4 for _, c in e))
            if b_spec:
                i = b_spec[0]
                r = bresults[i]
                out.violation("impl_vs_spec_backlog", {"case": {"k": r["k"]}, "errors": berrs[i], "failing_cases": len(b_spec),
                                                      "observed": {kk: r[kk] for kk in ("chan_len", "over_len", "over_cap", "executed", "runs")},
                                                      "how": "feed {\"k\": k} to TestVerifC13Backlog: one flow, the worker is held inside task 0 while tasks 1..k are emitted "
                                                             "(channel of UdpTaskQueueLength, then the overflow list), then released; runs = executed ids as (first id, count) of "
                                                             "consecutive ids; (n,2): with the worker idle again only n ids were executed / not 0..k in order"},
                              "long backlog of one flow: tasks waiting in the overflow list are dropped or reordered when the list is drained (%d of %d backlog sizes)"
                              % (len(b_spec), len(BACKLOG_KS)))
        g_spec, g_model = [], []
        if gerr:
            tie_broken = (tie_broken or "") + " | " + gerr
            gsigs = []
        else:
            g_spec = sorted(i for i, e in gerrs.items() if any(c == 2 for _, c in e))
            g_model = sorted(i for i, e in gerrs.items() if any(c in (1, 3) for _, c in e) and i not in g_spec)
            if g_model and not g_spec:
                extra = [gen_trgen_case(rng, big=True) for _ in range(10 * n_gen)]
                e2, _, err2 = run_trgen_batch(sc, binary, extra, "gw")
                if not err2:
                    for i, e in e2.items():
                        gerrs[len(gcases) + i] = e
                        if any(c == 2 for _, c in e):
                            g_spec.append(len(gcases) + i)
                    gcases += extra
            if g_spec:
                i = min(g_spec, key=lambda j: len(gcases[j]["ops"]))
                small = shrink_trgen(sc, binary, gcases[i])
                out.violation("impl_vs_spec_tracker_generations", {"case": small, "errors": gerrs[i], "failing_cases": len(g_spec),
                                                                  "how": "feed the case to TestVerifC13TrackerGen: new b = a generation (controlPlaneCore) on BPF object set b, close c = core.Close() "
                                                                         "(forced retirement), retain/release c k = an endpoint owned by generation c registers / drops tuple k through the core's "
                                                                         "entry points, transfer c c2 k = adoption; (n,2): after operation n the shared tracker's entry of a tuple does not count "
                                                                         "the live owners among all generations of its BPF object set"},
                              "kernel tuple ownership is not kept across generations: after a generation was closed an entry no longer counts its live owners "
                              "(%d failing histories)" % len(g_spec))
        i_spec, i_model = [], []
        if ierr:
            tie_broken = (tie_broken or "") + " | " + ierr
            isigs = []
        else:
            i_spec = sorted(i for i, e in ierrs.items() if any(c == 2 for _, c in e))
            i_model = sorted(i for i, e in ierrs.items() if any(c in (1, 3) for _, c in e) and i not in i_spec)
            if i_model and not i_spec:
                extra = [gen_ingress_case(rng, big=True) for _ in range(10 * n_in)]
                e2, _, err2 = run_ingress_batch(sc, binary, extra, "iw")
                if not err2:
                    for i, e in e2.items():
                        ierrs[len(icases) + i] = e
                        if any(c == 2 for _, c in e):
                            i_spec.append(len(icases) + i)
                    icases += extra
            if i_spec:
                i = min(i_spec)     # the first failing history of the process is the genuine one (see shrink_ingress)
                small = shrink_ingress(sc, binary, icases[i])
                out.violation("impl_vs_spec_ingress", {"case": small, "errors": ierrs[i], "failing_cases": len(i_spec),
                                                      "how": "feed the case to TestVerifC13Ingress: read = one ReadBatch delivering the listed (payload, address valid) datagrams into "
                                                             "slots 0.., take i = Take(i) creating a pending task that owns the returned buffer, run t = the task reads its payload and "
                                                             "returns the buffer, close = reader Close; (n,2): after operation n a finished task handled a payload that is not the one "
                                                             "read for it, or one buffer has two owners, or at the end a buffer did not come back exactly once"},
                              "ingress batch reader: a packet's buffer is re-attached while its task still owns it (payload replaced / handled twice / buffer returned twice) "
                              "(%d failing histories)" % len(i_spec))
        tf_spec, tf_model = [], []
        if tferr:
            tie_broken = (tie_broken or "") + " | " + tferr
            tfsigs = []
        else:
            tf_spec = sorted(i for i, e in tferrs.items() if any(c in (2, 12) for _, c in e))
            tf_model = sorted(i for i, e in tferrs.items() if any(c in (1, 3) for _, c in e) and i not in tf_spec)
            if tf_model and not tf_spec:
                extra = [gen_tfine_case(rng, big=True) for _ in range(10 * n_tf)]
                e2, _, r2, err2 = run_tfine_batch(sc, binary, extra, "tfw")
                if not err2:
                    base = len(tfcases)
                    for i, e in e2.items():
                        tferrs[base + i] = e
                        if any(c in (2, 12) for _, c in e):
                            tf_spec.append(base + i)
                    tfresults += r2
                    tfcases += extra
            if tf_spec:
                i = min(tf_spec, key=lambda j: len(tfresults[j].get("steps") or []))
                dead = any(c == 12 for _, c in tferrs[i])
                small = tfcases[i] if dead else shrink_tfine(sc, binary, tfcases[i])
                out.violation("impl_vs_spec_tracker_threads", {"case": small, "errors": tferrs[i], "failing_cases": len(tf_spec),
                                                              "goroutine_dump": tfresults[i].get("stuck_dump", ""),
                                                              "how": "feed the case to TestVerifC13TrackerFine: owners are goroutines (mode 0 keep, 1 release = BeginRelease / kernel delete / FinalizeRelease "
                                                                     "as separate steps, 2 forget), cmds = thread to step; thread states 0 unstarted 1 blocked in retain 2 owner 3 begun 4 deleted 5 done "
                                                                     "6 blocked in forget; (n,2): after command n the entry of a tuple does not count its live owners, or a kernel delete was issued while "
                                                                     "the tuple had an owner; (n,12) deadlock"},
                              ("tuple tracker deadlock (%d failing schedules)" if dead else
                               "kernel tuple entry does not count its live owners / deleted while an owner remains, with owners racing the deleting window (%d failing schedules)") % len(tf_spec))
        f_known, f_spec, f_model = [], [], []
        if ferr:
            tie_broken = (tie_broken or "") + " | " + ferr
            fsigs = []
        else:
            for i, e in sorted(ferrs.items()):
                cl = fine_class(fcases[i], fresults[i], e)
                if cl == "known":
                    f_known.append(i)
                elif cl == "spec":
                    f_spec.append(i)
                if any(c == 1 for _, c in e) or (any(c == 3 for _, c in e) and not cl):
                    f_model.append(i)
            if f_model and not f_spec:
                extra = [gen_fine_case(rng, big=True) for _ in range(10 * n_fine)]
                e2, _, r2, err2 = run_fine_batch(sc, binary, extra, "fw")
                if not err2:
                    base = len(fcases)
                    for i, e in e2.items():
                        ferrs[base + i] = e
                        if fine_class(extra[i], r2[i], e) == "spec":
                            f_spec.append(base + i)
                    fresults += r2
                    fcases += extra
            fine_how = ("feed the case to TestVerifC13EndpointFine (harness/control/c13_test.go): GetOrCreate callers are stepped from yield point to yield point "
                        "(2 after_stale_unlock, 3 after_generation, 4 before_publish, 5 before_register, 6 returned; 1 = blocked on the creation mutex); "
                        "spec codes: 1 hand-out of an endpoint that was retired / invalidated before traffic / reset / removed, 4 hand-out of another key's endpoint, 5 dial while an endpoint of the key is alive, "
                        "12 deadlock (stuck in three runs, no runnable instrumented goroutine), 6 transport closed twice, 7 at rest an endpoint is neither the pool's entry of its key nor closed (leaked), 8 live endpoint closed, "
                        "9 not closed exactly once after the final pool reset")
            if f_known:
                def is_open_m(m):
                    return any(e["property"] == PID and e["match"] == m for e in out.kf["open"])
                i = min(f_known, key=lambda j: len(fresults[j].get("steps") or []))
                small = fcases[i] if is_open_m(EP_CREATION_MATCHER) else shrink_fine(sc, binary, fcases[i], "known")
                out.violation("impl_vs_spec_endpoint_creation_window", {"case": small, "errors": ferrs[i], "failing_cases": len(f_known), "how": fine_how},
                              "GetOrCreate hands out an endpoint that was invalidated by a health change before carrying traffic (or retired / reset) "
                              "while its creating call had not returned yet (%d failing schedules)" % len(f_known), matchers=[EP_CREATION_MATCHER])
            if f_spec:
                i = min(f_spec, key=lambda j: len(fresults[j].get("steps") or []))
                small = fcases[i] if any(a == 12 for a, c in ferrs[i]) else shrink_fine(sc, binary, fcases[i], "spec")
                out.violation("impl_vs_spec_endpoint_fine", {"case": small, "errors": ferrs[i], "failing_cases": len(f_spec), "how": fine_how,
                                                             "goroutine_dump": (fresults[i] or {}).get("stuck_dump", "") if i < len(fresults) else ""},
                              "endpoint pool under interleaved GetOrCreate / invalidation / write: an endpoint is leaked, closed twice, closed while live, "
                              "or handed out wrongly (%d failing schedules)" % len(f_spec))
        e_spec_fail, e_model_fail = [], []
        if eerr:
            tie_broken = (tie_broken or "") + " | " + eerr
            esigs = []
        else:
            e_spec_fail = sorted(i for i, e in eerrs.items() if any(c == 2 for _, c in e))
            e_model_fail = sorted(i for i, e in eerrs.items() if any(c in (1, 3) for _, c in e) and not any(c == 2 for _, c in e))
            if e_model_fail and not e_spec_fail:
                extra = [gen_endpoint_case(rng, big=True) for _ in range(10 * n_ep)]
                e2, _, err2 = run_endpoint_batch(sc, binary, extra, "ew")
                if not err2:
                    for i, e in e2.items():
                        eerrs[len(ecases) + i] = e
                        if any(c == 2 for _, c in e):
                            e_spec_fail.append(len(ecases) + i)
                    ecases += extra
            if e_spec_fail:
                i = min(e_spec_fail, key=lambda j: len(ecases[j]["ops"]))
                small = shrink_endpoint(sc, binary, ecases[i])
                out.violation("impl_vs_spec_endpoint", {"case": small, "errors": eerrs[i], "failing_cases": len(e_spec_fail),
                                                        "how": "feed the case to TestVerifC13Endpoint: after call n the returned endpoint / dial count / transport close calls / "
                                                               "pool entry / kernel tuple owners / drain tickets differ from the reference machine of C13_Spec.v part 3"},
                              "endpoint pool hands out, dials, closes or releases differently from the property's reference machine (%d failing histories)" % len(e_spec_fail))
        if (not proof_ok or tie_broken or xerr or model_fail or mspec_fail or t_model_fail or e_model_fail or f_model or tf_model or i_model or g_model or b_model) and not (other_spec or t_spec_fail or e_spec_fail or f_spec or tf_spec or i_spec or g_spec or b_spec):
            what = {}
            if xerr:
                what["translator"] = xerr
            if not proof_ok:
                what["proof"] = pinfo["failed"]
            if tie_broken:
                what["correspondence"] = tie_broken
            if model_fail:
                j = model_fail[0]
                what["correspondence_case"] = {"case": cases[j], "errors": all_err[j]}
            if mspec_fail:
                what["model_vs_spec_case"] = {"case": cases[mspec_fail[0]], "errors": all_err[mspec_fail[0]]}
            if b_model:
                what["backlog_correspondence_case"] = {"case": {"k": bresults[b_model[0]]["k"]}, "errors": berrs[b_model[0]], "observed": bresults[b_model[0]]}
            if g_model:
                what["generations_correspondence_case"] = {"case": gcases[g_model[0]], "errors": gerrs[g_model[0]]}
            if i_model:
                what["ingress_correspondence_case"] = {"case": icases[i_model[0]], "errors": ierrs[i_model[0]]}
            if tf_model:
                what["tracker_threads_correspondence_case"] = {"case": tfcases[tf_model[0]], "errors": tferrs[tf_model[0]]}
            if f_model:
                what["endpoint_fine_correspondence_case"] = {"case": fcases[f_model[0]], "errors": ferrs[f_model[0]]}
            if e_model_fail:
                what["endpoint_correspondence_case"] = {"case": ecases[e_model_fail[0]], "errors": eerrs[e_model_fail[0]],
                                                        "codes": "1 impl<>model (C13_EpModel), 3 model<>reference machine"}
            if t_model_fail:
                what["tracker_correspondence_case"] = {"case": tcases[t_model_fail[0]], "errors": terrs[t_model_fail[0]]}
            what["searched"] = "%d schedules, %d tracker histories (widened=%s) with no further impl<>spec disagreement" % (n_eval, len(tcases), widened)
            out.violation("tie", what, "proof obligation or model correspondence no longer checks; no failing input found", no_failing_input=True)

        nontriv = set(s for s in sigs if int(s[0]) >= 2 or int(s[3]) > 0 or int(s[4]) > 0)
        tnontriv = set(s for s in tsigs if int(s[0]) > 0 and int(s[1]) > 0) if not terr else set()
        sample = cases[len(corpus)] if len(cases) > len(corpus) else cases[0]
        enontriv = set(x for x in esigs if int(x[0]) >= 2 and (int(x[1]) > 0 or int(x[2]) > 0))
        fnontriv = set(x for x in fsigs if int(x[0]) >= 2 and int(x[2]) >= 1)
        tfnontriv = set(x for x in tfsigs if int(x[0]) >= 1 and int(x[1]) >= 1)
        cov.update(evaluations=n_eval + len(tcases) + len(ecases) + len(fcases) + len(tfcases) + len(icases) + len(gcases) + len(BACKLOG_KS),
                   distinct_nontrivial=len(nontriv) + len(tnontriv) + len(enontriv) + len(fnontriv) + len(tfnontriv) + len(set(x for x in isigs if int(x[0]) >= 2 and int(x[1]) >= 1)),
                   distinct_signatures=len(set(sigs)) + (len(set(tsigs)) if not terr else 0) + len(set(esigs)) + len(set(fsigs)) + len(set(tfsigs)) + len(set(isigs)) + len(set(gsigs)),
                   rule="task pool: random command lists (named / any / prefer-producer / prefer-task / prefer-convoy releases; 2-12 producers over 1-3 flow keys; channel capacity 1-3, "
                        "and the real capacity with 128..131 producers) followed by a canonical drain; signature = (queues created, queues claimed, tasks accepted, tasks lost at rest, "
                        "cross-flow starts) from the model run; non-trivial = at least two queues or a loss or a cross-flow start. tracker: random retain/release/forget/transfer batches "
                        "over 1-3 generations and 1-4 tuples with duplicates; signature = (kernel deletes, calls deleting nothing, transfers); non-trivial = both kinds of call present. "
                        "endpoint pool: random histories of get-or-create (dial ok / fails / no dialer), concurrent first-use bursts of 2-6 callers behind a gated dial, writes (ok / transport error), "
                        "tuple registration, health invalidation, reset over 1-3 keys, 1-2 dialers, 1-2 generations; signature = (endpoints dialled, retired, calls answered from the failure marker); "
                        "non-trivial = at least two dials and a retirement or a marker hit. "
                        "fine endpoint schedules: 2-5 GetOrCreate callers over 1-2 keys stepped between the endpoint yield points, interleaved with invalidations, writes (ok/error) on handed-out "
                        "endpoints, tuple registration and resets, adversarial corpus first (invalidate between generation capture and registration; second caller between publish and register), "
                        "then a drain and a final pool reset; signature = (dials, hand-outs, hits); non-trivial = at least two dials and one hit. "
                        "tracker threads: 2-6 owner goroutines over 1-2 tuples (keep / release in three steps / forget), random step commands, so that retainers and forgetters block in the "
                        "deleting window and are woken by FinalizeRelease; signature = (kernel deletes, commands with a blocked thread, threads); non-trivial = a delete and a blocked thread. "
                        "ingress batch reader: 1-3 slots, batches of 0..slots+1 datagrams (15% without a valid source address), takes (mostly all delivered slots, also stray indices), task runs "
                        "delayed so that later batches arrive in the same slot while the earlier packet's task is pending, closes; signature = (tasks, reads with a pending task, invalid-address takes); "
                        "non-trivial = two tasks and a read with a pending task",
                   traces_validated_against_impl=(n_eval - len(model_fail)) + (len(tcases) - len(t_model_fail)) + (len(ecases) - len(e_spec_fail) - len(e_model_fail)) + (len(fcases) - len(f_model)) + (len(tfcases) - len(tf_model)) + (len(icases) - len(i_model)) + (len(gcases) - len(g_model)) + (len(BACKLOG_KS) - len(b_model)),
                   comparisons="per command: resolved thread, parked set, events impl = model; whole history: impl vs spec (safety + completeness at rest), model vs spec; "
                               "tracker per call: kernel deletes impl = model = spec, entry table impl = model; endpoint pool per call: impl = code-shaped model (C13_EpModel) = reference machine of the spec, all three ways",
                   pool_cases=n_eval, tracker_cases=len(tcases), endpoint_cases=len(ecases), endpoint_fine_schedules=len(fcases), tracker_thread_schedules=len(tfcases), ingress_histories=len(icases), generation_histories=len(gcases), backlog_sizes=BACKLOG_KS, endpoint_fine_creation_window_hits=len(f_known),
                   schedules_hitting_idle_gc_race=len(f7_cases), schedules_hitting_overflow_overtake=len(f14_cases), timing_retries=STATS.get("timing_retries", 0), retried_settle_timeouts=STATS["retried_settle_timeouts"], unresolved_settle_timeouts=STATS["unresolved_settle_timeouts"],
                   samples=[sample, tcases[0], ecases[0]],
                   widened_search=widened)
    for n in os.listdir(os.path.join(vlib.COQ, "cases")):
        if n.startswith("C13_") and n.endswith("_%d.v" % os.getpid()):
            try:
                os.remove(os.path.join(vlib.COQ, "cases", n))
            except OSError:
                pass
    return out.finish()


if __name__ == "__main__":
    sys.exit(main(sys.argv[1:]))
