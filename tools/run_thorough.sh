#!/bin/bash
# run the thorough tier of the given properties one after the other; one summary line each
cd "$(dirname "$0")/.."
./setup.sh > /tmp/thorough_setup_$$.log 2>&1
for p in "$@"; do
  s=$(date +%s)
  VERIF_NO_COQCHK=${VERIF_NO_COQCHK:-0} ./check $p --tier thorough > thorough_$p.out 2> thorough_$p.err
  rc=$?
  echo "THOROUGH $p rc=$rc secs=$(( $(date +%s) - s )) known=$(grep -c KNOWN-FINDING thorough_$p.out) violations=$(grep -c '^VIOLATION' thorough_$p.out)"
  grep '^VIOLATION' thorough_$p.out | head -5
done
