#!/bin/bash
# clean-build test: run from a fresh snapshot (no .vo files): setup, then every quick check concurrently
cd "$(dirname "$0")/.."
s=$(date +%s); ./setup.sh > /tmp/cleantest_setup.log 2>&1; echo "setup rc=$? secs=$(( $(date +%s) - s ))"
tools/stress_all.sh 1
