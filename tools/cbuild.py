"""Host build of control/kern/tproxy.c for the C correspondence harness (C02, C03, C19).

prepare(scratch) copies tproxy.c and ebpf_sync_defs.h from the *current* /repo tree into a scratch
directory next to the shim headers (harness/c/headers), applies one documented rewrite (drops the
`const` of the load-time PARAM so that a driver can set it), and generates maps_reg.h (a registration
call per `SEC(".maps")` declaration found in the source).  compile(...) builds a driver that
`#include "tproxy.c"` with clang for the host, -no-pie (skb->data is a __u32)."""
import os
import re
import shutil
import vlib

CDIR = os.path.join(vlib.VERIF, "harness", "c")
PARAM_DECL = "const volatile struct dae_param PARAM = {};"


class CBuildError(Exception):
    pass


def prepare(scratch, sub="cbuild"):
    d = scratch.path(sub)
    os.makedirs(os.path.join(d, "headers"), exist_ok=True)
    for n in os.listdir(os.path.join(CDIR, "headers")):
        shutil.copy(os.path.join(CDIR, "headers", n), os.path.join(d, "headers", n))
    shutil.copy(os.path.join(CDIR, "maprt.h"), d)
    kern = os.path.join(vlib.REPO, "control", "kern")
    src = open(os.path.join(kern, "tproxy.c")).read()
    if src.count(PARAM_DECL) != 1:
        raise CBuildError("anchor moved: PARAM declaration not found in tproxy.c")
    src = src.replace(PARAM_DECL, "volatile struct dae_param PARAM = {};")
    open(os.path.join(d, "tproxy.c"), "w").write(src)
    shutil.copy(os.path.join(kern, "ebpf_sync_defs.h"), d)
    # map registration
    regs = []
    for m in re.finditer(r"\n(struct(?: \w+)? \{\n(?:[^}]*?)\n\}) (\w+) SEC\(\"\.maps\"\);", src):
        body, name = m.group(1), m.group(2)
        body_nc = re.sub(r"//[^\n]*", "", body)
        if "__type(key" in body_nc and "__type(value" in body_nc:
            regs.append("\tVREG_T(%s);" % name)
        elif "BPF_MAP_TYPE_ARRAY_OF_MAPS" in body_nc:
            regs.append("\tVREG_S(%s, sizeof(__u32), sizeof(void *));" % name)
        elif "key_size" in body_nc and "value_size" in body_nc:
            regs.append("\tVREG_S(%s, sizeof(*(%s).key_size) / sizeof(int), sizeof(*(%s).value_size) / sizeof(int));" % (name, name, name))
        elif "BPF_MAP_TYPE_RINGBUF" in body_nc:
            regs.append("\tvmap_register(&(%s), \"%s\", BPF_MAP_TYPE_RINGBUF, 0, 0, 0);" % (name, name))
        else:
            raise CBuildError("cannot classify map declaration " + name)
    if len(regs) < 10:
        raise CBuildError("anchor moved: only %d map declarations recognised" % len(regs))
    open(os.path.join(d, "maps_reg.h"), "w").write(
        "/* generated from tproxy.c */\nstatic void vmaps_register_all(void)\n{\n" + "\n".join(regs) + "\n}\n")
    return d


def compile(d, driver_src, out_name, extra_flags=(), timeout=300):
    """driver_src: path to a .c file (copied into d). Returns (binary or None, log)."""
    shutil.copy(driver_src, os.path.join(d, os.path.basename(driver_src)))
    out = os.path.join(d, out_name)
    cmd = ["clang", "-O1", "-g", "-Wno-everything", "-fno-strict-aliasing", "-no-pie", "-fno-pie",
           "-I", d, os.path.basename(driver_src), "-o", out] + list(extra_flags)
    rc, so, se, dt = vlib.run(cmd, cwd=d, timeout=timeout)
    vlib.log("clang %s: rc=%d %.1fs" % (os.path.basename(driver_src), rc, dt))
    return (out if rc == 0 else None), so + se
