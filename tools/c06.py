"""C06 — sniffing finds the name that is there and never alters or withholds payload (DESIGN.md 6/C06)."""
import json
import os
import re
import sys
import time

sys.path.insert(0, os.path.dirname(os.path.abspath(__file__)))
import vlib
from vlib import log

PID = "C06"
PROPS = "C06_Props.v"
TARGETS = ["C06_Props.vo", "C06_Check.vo"]
PKG = "component/sniffing"
HARNESS = ["component/sniffing/common_test.go", "component/sniffing/c06_test.go"]


# ----------------------------------------------------------------------------------------------
# translator: constants that are data in the source -> coq/gen/C06_Extracted.v
# ----------------------------------------------------------------------------------------------

def _const(src, name, path):
    m = re.search(r"\b%s\s*(?:byte|uint16|int)?\s*=\s*(0x[0-9a-fA-F]+|\d+)\b" % re.escape(name), src)
    if not m:
        raise RuntimeError("anchor moved: constant %s not found in %s" % (name, path))
    return int(m.group(1), 0)


def translate():
    rd = lambda p: open(os.path.join(vlib.REPO, p)).read()
    utils = rd("common/utils.go")
    m = re.search(r"func IsValidHttpMethod\(method string\) bool \{\s*switch method \{\s*case ([^:]*):\s*return true", utils)
    if not m:
        raise RuntimeError("anchor moved: IsValidHttpMethod in common/utils.go")
    methods = re.findall(r'"([A-Za-z]+)"', m.group(1))
    if not methods:
        raise RuntimeError("anchor moved: IsValidHttpMethod has no methods")
    reloc = rd("component/sniffing/internal/quicutils/relocation.go")
    ciph = rd("component/sniffing/internal/quicutils/cipher.go")
    tls = rd("component/sniffing/tls.go")
    c = {
        "frame_padding": _const(reloc, "Quic_FrameType_Padding", "relocation.go"),
        "frame_ping": _const(reloc, "Quic_FrameType_Ping", "relocation.go"),
        "frame_crypto": _const(reloc, "Quic_FrameType_Crypto", "relocation.go"),
        "frame_close": _const(reloc, "Quic_FrameType_ConnectionClose", "relocation.go"),
        "frame_close2": _const(reloc, "Quic_FrameType_ConnectionClose2", "relocation.go"),
        "max_varint_len": _const(ciph, "MaxVarintLen64", "cipher.go"),
        "max_pn_len": _const(ciph, "MaxPacketNumberLength", "cipher.go"),
        "tls_content_handshake": _const(tls, "ContentType_HandShake", "tls.go"),
        "tls_hs_client_hello": _const(tls, "HandShakeType_Hello", "tls.go"),
        "tls_ext_server_name": _const(tls, "TlsExtension_ServerName", "tls.go"),
        "tls_name_type_host": _const(tls, "TlsExtension_ServerNameType_HostName", "tls.go"),
    }
    pool_src = rd("control/packet_sniffer_pool.go")

    def dur(name):
        m = re.search(r"\b%s\s*=\s*(\d+)\s*\*\s*time\.(Millisecond|Second|Minute)\b" % re.escape(name), pool_src)
        if not m:
            raise RuntimeError("anchor moved: duration %s not found in control/packet_sniffer_pool.go" % name)
        return int(m.group(1)) * {"Millisecond": 1, "Second": 1000, "Minute": 60000}[m.group(2)]
    c.update({
        "sess_ttl_ms": dur("PacketSnifferTtl"), "sess_janitor_ms": dur("packetSnifferJanitorInterval"),
        "sess_nosni_threshold": _const(pool_src, "udpSniffNoSniThreshold", "packet_sniffer_pool.go"),
        "sess_nosni_bypass_ms": dur("udpSniffNoSniBypassTtl"),
        "sess_decrypt_fail_threshold": _const(pool_src, "consecutiveDecryptFailuresThreshold", "packet_sniffer_pool.go"),
        "failed_soft_ms": dur("failedQuicDcidSoftBypassTtl"), "failed_decrypt_ms": dur("failedQuicDcidDecryptFailTtl"),
        "failed_panic_ms": dur("failedQuicDcidPanicTtl"), "failed_max_ms": dur("failedQuicDcidMaxTtl"),
        "failed_max_shift": _const(pool_src, "failedQuicDcidMaxBackoffShift", "packet_sniffer_pool.go"),
    })
    # guards of the session-key / fingerprint byte parsing (control/packet_sniffer_pool.go).  A shape the patterns
    # do not recognise is NOT fatal: the last known values are used for the model (so that the harness still finds a
    # failing input if there is one) and the broken tie is reported.
    kf = {"fp_minlen": 7, "fp_dcid_extra": 1, "fp_scid_extra": 0, "key_minlen": 7, "key_dcid_extra": 0, "cid_max": 20}
    kf_problems = []
    m_fp = re.search(r"func parseQuicInitialFingerprint\(.*?\n}\n", pool_src, re.S)
    m_key = re.search(r"func NewPacketSnifferKey\(.*?\n}\n", pool_src, re.S)

    def grab(body, pat, name, conv=lambda m: int(m.group(1))):
        m = re.search(pat, body) if body else None
        if not m:
            kf_problems.append(name)
            return
        kf[name] = conv(m)
    fpb = m_fp.group(0) if m_fp else None
    kb = m_key.group(0) if m_key else None
    grab(fpb, r"if len\(data\) < (\d+) \{", "fp_minlen")
    grab(fpb, r"if len\(data\) < pos\+dstLen(\+\d+)? \{", "fp_dcid_extra", lambda m: int(m.group(1) or 0))
    grab(fpb, r"if len\(data\) < pos\+srcLen(\+\d+)? \{", "fp_scid_extra", lambda m: int(m.group(1) or 0))
    grab(kb, r"IsLikelyQuicInitialPacket\(data\) && len\(data\) >= (\d+)", "key_minlen")
    grab(kb, r"if len\(data\) >= pos\+dstLen(\+\d+)? \{", "key_dcid_extra", lambda m: int(m.group(1) or 0))
    grab(pool_src, r"dstConn \[(\d+)\]byte", "cid_max")
    if fpb and not ("dstLen > len(sig.dstConn)" in fpb and "srcLen > len(sig.srcConn)" in fpb and "srcLen := int(data[pos])" in fpb):
        kf_problems.append("fingerprint-shape")
    if kb and not re.search(r"dstLen > 0 && dstLen <= %d" % kf["cid_max"], kb):
        kf_problems.append("key-shape")
    c.update(kf)
    translate.problems = kf_problems
    # DecryptQuic_: which quantity the header-protection-sample guard bounds (the packet's own end, or merely the buffer)
    m_dec = re.search(r"func DecryptQuic_\(.*?\n}\n", ciph, re.S)
    decb = m_dec.group(0) if m_dec else ""
    if re.search(r"if blockEnd-sampleOffset < SampleSize \{", decb):
        c["quic_sample_guard_on_block"] = "true"
    else:
        c["quic_sample_guard_on_block"] = "false"
        if not re.search(r"if len\(buf\) < \w+ \{", decb):
            kf_problems.append("decrypt-sample-guard")
    if not ("payload := buf[payloadOffset:blockEnd]" in decb and "sampleOffset := pnOffset + MaxPacketNumberLength" in decb):
        kf_problems.append("decrypt-shape")
    c["quic_sample_size"] = _const(ciph, "SampleSize", "cipher.go")
    # where the sniff deadline is computed: fixed once in the constructor, every read armed with that value
    sn = rd("component/sniffing/sniffer.go")
    m_ctor = re.search(r"func NewStreamSniffer\(.*?\n}\n", sn, re.S)
    m_read = re.search(r"func \(s \*Sniffer\) readStreamOnceWithReadDeadline\(\) error \{.*?\n}\n", sn, re.S)
    if not m_ctor or not m_read or "SetReadDeadline(s.deadline)" not in m_read.group(0):
        raise RuntimeError("anchor moved: NewStreamSniffer / readStreamOnceWithReadDeadline in component/sniffing/sniffer.go")
    ctor_fixed = re.search(r"deadline:\s*time\.Now\(\)\.Add\(timeout\)", m_ctor.group(0)) is not None
    outside_ctor = sn.replace(m_ctor.group(0), "")
    m_pkt = re.search(r"func NewPacketSniffer\(.*?\n}\n", outside_ctor, re.S)
    if m_pkt:
        outside_ctor = outside_ctor.replace(m_pkt.group(0), "")
    assigned_elsewhere = re.search(r"\.deadline\s*=[^=]|\bdeadline:\s", outside_ctor) is not None
    c["sniff_deadline_rearmed"] = "false" if (ctor_fixed and not assigned_elsewhere) else "true"
    txt = ("(* GENERATED by tools/c06.py from the working tree of the repository; do not edit. *)\n"
           "From Coq Require Import List NArith.\nImport ListNotations.\nOpen Scope N_scope.\n"
           "(* common/utils.go IsValidHttpMethod *)\n"
           "Definition http_methods : list (list N) := [\n  " +
           ";\n  ".join("[" + "; ".join(str(ord(ch)) for ch in mth) + "] (* %s *)" % mth for mth in methods) + "].\n" +
           "".join(("Definition %s : bool := %s.\n" if isinstance(kv[1], str) else "Definition %s : N := %d.\n") % kv for kv in c.items()))
    vlib.write_if_changed(os.path.join(vlib.COQ, "gen", "C06_Extracted.v"), txt)
    return {"methods": methods, **c}



def gen_statements():
    """coq/C06_Statements.v: the theorem statements of C06_Props.v as `Definition <name>_stmt : Prop`, so that the
    proof files prove exactly what Props states (derived on every run)."""
    src = vlib.strip_coq_comments(open(os.path.join(vlib.COQ, PROPS)).read())
    body = src[src.index("Open Scope N_scope.") + len("Open Scope N_scope."):]
    out = ["(* GENERATED from C06_Props.v by tools/c06.py: the theorem statements as Props, for the proof files. *)",
           "From Coq Require Import List NArith Bool Arith.", "From Dae.gen Require Import C06_Extracted.",
           "From Dae Require Import C06_Spec C06_Model C06_Async C06_Session C06_Clock C06_Key C06_HttpVar C06_Decrypt.", "Import ListNotations.", "Open Scope N_scope.", ""]
    for m in re.finditer(r"(Theorem|Example)\s+(\w+)\s*:(.*?)\nProof\. exact \w+\. Qed\.|(Definition\s+\w+.*?\.)\n", body, re.S):
        if m.group(4):
            mo = re.match(r"Definition\s+(\w+)_open\s*:\s*Prop\s*:=(.*)\.$", m.group(4), re.S)
            if mo:      # an open statement: the proof files may still prove <name>_stmt
                out.append("Definition %s_stmt : Prop :=%s.\n" % (mo.group(1), mo.group(2)))
            else:
                out.append(m.group(4) + "\n")
        else:
            out.append("Definition %s_stmt : Prop :=%s\n" % (m.group(2), m.group(3).rstrip()))
    vlib.write_if_changed(os.path.join(vlib.COQ, "C06_Statements.v"), "\n".join(out))



def lift_session_block(sc):
    """control/udp.go: the sniff-session block of handlePkt, lifted textually into a harness function"""
    src = open(os.path.join(vlib.REPO, "control/udp.go")).read()
    a = src.find("_sniffer, _ := DefaultPacketSnifferSessionMgr.GetOrCreate(key, nil)")
    b = src.find("\nafterSniffing:")
    if a < 0 or b < 0 or b < a:
        raise RuntimeError("anchor moved: sniff session block of handlePkt (control/udp.go)")
    block = src[a:b].rstrip()
    if not block.endswith("}"):
        raise RuntimeError("anchor moved: sniff session block does not end with the enclosing brace")
    block = block[:-1].rstrip()          # the brace closing `if domain == "" && !skipSniffing && !ueExists {`
    if block.count("{") != block.count("}"):
        raise RuntimeError("anchor moved: sniff session block is not brace-balanced")
    if block.count("goto afterSniffing") < 1 or block.count("return nil") != 1:
        raise RuntimeError("anchor moved: exits of the sniff session block changed")
    if "failedQuicDcidKnown = IsQuicDcidFailedAt(quicSnifferKey, now)" not in src:
        raise RuntimeError("anchor moved: failedQuicDcidKnown")
    block = block.replace("goto afterSniffing", 'return "bypass", domain, replayPackets, err, false')
    block = block.replace("return nil", 'return "held", domain, replayPackets, err, true')
    block = block.replace("realSrc.String()", "realSrc.String()")
    txt = ("//go:build verif\n\npackage control\n\n// GENERATED by tools/c06.py from control/udp.go of the working tree; do not edit.\n\n"
           "import (\n\tstderrors \"errors\"\n\t\"net/netip\"\n\t\"time\"\n\n"
           "\t\"github.com/daeuniverse/dae/component/sniffing\"\n\t\"github.com/daeuniverse/outbound/pool\"\n\t\"github.com/sirupsen/logrus\"\n)\n\n"
           "var _ = stderrors.Is\nvar _ = sniffing.ErrNeedMore\n\n"
           "func c06udpLiftedStep(key PacketSnifferKey, now time.Time, data []byte, realSrc, realDst netip.AddrPort) (verdict string, domain string, replayPackets []pool.PB, err error, needMore bool) {\n"
           "\tc := struct{ log *logrus.Logger }{c06udpLogger}\n\t_ = c\n"
           "\t// handlePkt: failedQuicDcidKnown = IsQuicDcidFailedAt(quicSnifferKey, now); if failedQuicDcidKnown { goto afterSniffing }\n"
           "\tif IsQuicDcidFailedAt(key, now) {\n\t\treturn \"failed\", domain, nil, nil, false\n\t}\n\t\t"
           + block + "\n\tif s := DefaultPacketSnifferSessionMgr.Get(key); s != nil {\n\t\tneedMore = s.NeedMore()\n\t}\n"
           "\treturn \"forward\", domain, replayPackets, err, needMore\n}\n")
    path = sc.path("c06udp_lifted_test.go")
    with open(path, "w") as f:
        f.write(txt)
    return {os.path.join(vlib.REPO, "control", "zz_verif_c06udp_lifted_test.go"): path}



# ----------------------------------------------------------------------------------------------
# encoders (mirror C06_Spec.v; the Coq check re-encodes the abstract term and compares the bytes,
# so a slip here shows as "no expectation", never as a false agreement)
# ----------------------------------------------------------------------------------------------

def be16(n):
    return bytes([(n >> 8) & 255, n & 255])


def enc_ext(x):
    if x[0] == "sni":
        l = b"".join(bytes([t]) + be16(len(n)) + n for t, n in x[1])
        body = be16(len(l)) + l
        return be16(0) + be16(len(body)) + body
    return be16(x[1]) + be16(len(x[2])) + x[2]


def enc_handshake(h):
    exts = b"".join(enc_ext(x) for x in h["exts"])
    body = (bytes([3, h["minor"]]) + h["random"] + bytes([len(h["sid"])]) + h["sid"] + be16(len(h["suites"])) + h["suites"]
            + bytes([len(h["comp"])]) + h["comp"] + be16(len(exts)) + exts)
    return bytes([1]) + len(body).to_bytes(3, "big") + body


def enc_record(m, h):
    hs = enc_handshake(h)
    return bytes([22, 3, m]) + be16(len(hs)) + hs


def enc_head(q):
    return (q["method"] + b" " + q["target"] + b" " + q["version"] + b"\r\n"
            + b"".join(k + b":" + v + b"\r\n" for k, v in q["headers"]) + b"\r\n")


def H(b):
    """Coq expression for a byte string; zero runs of 24+ bytes are run-length encoded (string literals cost
    about 0.2 ms per byte to elaborate)"""
    b = bytes(b)
    segs, i, n = [], 0, len(b)
    start = 0
    while i < n:
        if b[i] == 0:
            j = i
            while j < n and b[j] == 0:
                j += 1
            if j - i >= 24:
                if i > start:
                    segs.append('R "%s"' % b[start:i].hex())
                segs.append("Z %d" % (j - i))
                start = j
            i = j
        else:
            i += 1
    if start < n:
        segs.append('R "%s"' % b[start:].hex())
    if len(segs) == 1 and segs[0].startswith("R"):
        return "(H %s)" % segs[0][2:]
    return "(B [%s])" % "; ".join(segs)


def ref(full, b):
    """expression for b, as a piece of the case's stream `s` when it is one"""
    b = bytes(b)
    if len(b) >= 8:
        k = full.find(b)
        if k >= 0:
            return "(sub s %d %d)" % (k, k + len(b))
    return H(b)


def coq_hello(h):
    xs = []
    for x in h["exts"]:
        if x[0] == "sni":
            xs.append("(ExtServerName [%s])" % "; ".join("(%d, %s)" % (t, H(n)) for t, n in x[1]))
        else:
            xs.append("(ExtOther %d %s)" % (x[1], H(x[2])))
    return "(Build_hello %d %s %s %s %s [%s])" % (h["minor"], H(h["random"]), H(h["sid"]), H(h["suites"]), H(h["comp"]), "; ".join(xs))


def coq_head(q):
    return "(Build_http_head %s %s %s [%s])" % (H(q["method"]), H(q["target"]), H(q["version"]),
                                                "; ".join("(%s, %s)" % (H(k), H(v)) for k, v in q["headers"]))


# ----------------------------------------------------------------------------------------------
# generators
# ----------------------------------------------------------------------------------------------
HOSTCH = b"abcdefghijklmnopqrstuvwxyzABCDEFGHIJKLMNOPQRSTUVWXYZ0123456789-_"
GREASE = [0x0a0a, 0x1a1a, 0x2a2a, 0xfafa]


def rbytes(rng, n):
    return bytes(rng.randrange(256) for _ in range(n))


def gen_name(rng):
    labels = [bytes(rng.choice(HOSTCH) for _ in range(rng.choice([1, 2, 3, 5, 8, 12, 30]))) for _ in range(rng.randint(1, 4))]
    n = b".".join(labels)
    if rng.random() < 0.15:
        n += b"."
    return n


def gen_hello(rng, pad_total=None):
    """pad_total: make enc_record exactly that long with a padding extension"""
    exts = []
    mode = rng.choice(["sni", "sni", "sni", "sni", "nosni", "multi", "sni_nohost", "two_sni"])
    sni = None
    if mode in ("sni", "multi", "two_sni"):
        entries = [(0, gen_name(rng))]
        if mode == "multi":
            entries = [(rng.choice([1, 2, 7, 255]), rbytes(rng, rng.randint(0, 9))) for _ in range(rng.randint(1, 2))] + entries \
                      + [(0, gen_name(rng))]
            if rng.random() < 0.3:
                entries.append((3, b"zz"))
        sni = ("sni", entries)
    elif mode == "sni_nohost":
        sni = ("sni", [(rng.choice([1, 9]), rbytes(rng, rng.randint(0, 6))) for _ in range(rng.randint(1, 3))])
    others = []
    for _ in range(rng.randint(0, 9)):
        t = rng.choice(GREASE + [5, 10, 11, 13, 16, 18, 23, 27, 35, 43, 45, 51, 65281, 17513, 65037])
        ln = rng.choice([0, 0, 1, 2, 5, 8, 33, 60]) if t != 51 else rng.choice([36, 38, 38, 38, 200])
        others.append(("other", t, rbytes(rng, ln)))
    exts = list(others)
    if sni:
        pos = rng.choice([0, len(exts), rng.randint(0, len(exts))])
        exts.insert(pos, sni)
        if mode == "two_sni":
            exts.append(("sni", [(0, gen_name(rng))]))
    if rng.random() < 0.25:
        exts.append(("other", rng.choice(GREASE + [23, 65281]), b""))      # empty body last
    h = {"minor": rng.choice([1, 2, 3, 3, 3]), "random": rbytes(rng, 32),
         "sid": rng.choice([b"", rbytes(rng, 32), rbytes(rng, rng.randint(1, 31))]),
         "suites": b"".join(be16(rng.choice(GREASE + [0x1301, 0x1302, 0x1303, 0xc02b, 0xc02f, 0x009c, 0x00ff])) for _ in range(rng.randint(1, 18))),
         "comp": rng.choice([b"\0", b"\0", b"\1\0"]), "exts": exts}
    if pad_total is not None:
        cur = len(enc_record(1, h))
        need = pad_total - cur - 4
        if need >= 0:
            pos = rng.randint(0, len(h["exts"]))
            h["exts"].insert(pos, ("other", 21, bytes(need)))
    return h


def cut(rng, data, first_min=0):
    """split data into chunks"""
    n = len(data)
    style = rng.choice(["one", "two", "few", "many", "hdr", "tiny_first"])
    if n == 0 or style == "one":
        return [data]
    if style == "hdr":
        pts = [5] if n > 5 else []
    elif style == "tiny_first":
        pts = [rng.randint(1, 4)] + sorted(rng.sample(range(5, n), min(rng.randint(0, 2), max(0, n - 5)))) if n > 6 else [1]
    elif style == "two":
        pts = [rng.randint(max(1, first_min), n - 1)] if n > max(1, first_min) + 1 else []
    else:
        k = rng.randint(2, 4) if style == "few" else rng.randint(5, 12)
        lo = max(1, first_min)
        pts = sorted(set(rng.randint(lo, n - 1) for _ in range(k))) if n > lo + 1 else []
    out, prev = [], 0
    for p in pts:
        if prev < p < n:
            out.append(data[prev:p]); prev = p
    out.append(data[prev:])
    return out


def script_of(rng, chunks, ending):
    ev = []
    for c in chunks:
        if rng.random() < 0.05:
            ev.append({"d": "", "st": "ok"})
        ev.append({"d": c.hex(), "st": "ok"})
    ev += ending
    return ev


DRAINS = ["read", "prefix", "writeto"]


def gen_tcp_case(rng, i):
    r = rng.random()
    meta = {}
    tail = rbytes(rng, rng.choice([0, 0, 1, 17, 60]))
    if r < 0.50:          # well-formed TLS, any chunking
        pad = rng.choice([None, None, None, 4095 - 0, 4096, 4097, 512, 4608, 9000])
        h = gen_hello(rng, pad)
        m = rng.choice([1, 1, 3, 0, 4])
        rec = enc_record(m, h)
        stream = rec + tail
        chunks = cut(rng, stream, first_min=rng.choice([0, 5, 5]))
        drip = None
        if rng.random() < 0.12 and len(stream) > 80:
            # drip-feeding client: the record header, then one byte per read, each `gap` after the previous one
            # (gap in timeout/4, timeout/2, 0.9 timeout; N x gap >> timeout); virtual ticks, timeout = 1000
            n1 = rng.choice([8, 20, 40, 64])
            gap = rng.choice([250, 500, 900])
            chunks = [stream[:5]] + [stream[5 + k:6 + k] for k in range(n1)] + [stream[5 + n1:]]
            drip = [0] + [gap] * (n1 + 1)
        ending = rng.choice([[{"d": "", "st": "eof"}], [], [{"d": rbytes(rng, 9).hex(), "st": "ok"}, {"d": "", "st": "eof"}]])
        if drip is not None:
            ev = [{"d": c.hex(), "st": "ok"} for c in chunks] + ending
            meta = {"hello": h, "m": m, "claimed": rec, "drip": drip}
        elif rng.random() < 0.15 and len(chunks) > 1:   # the rest does NOT follow within the timeout
            k = rng.randint(1, len(chunks) - 1)
            stt = rng.choice(["timeout", "timeout", "eof", "err"])
            # after a timeout the client goes on sending; after EOF / reset nothing follows
            ev = script_of(rng, chunks[:k], []) + [{"d": "", "st": stt}] + (script_of(rng, chunks[k:], ending) if stt == "timeout" else [])
        else:
            ev = script_of(rng, chunks, ending)
        if drip is None:
            meta = {"hello": h, "m": m, "claimed": rec}
    elif r < 0.70:        # TLS-shaped but malformed
        h = gen_hello(rng, rng.choice([None, None, 4096]))
        rec = bytearray(enc_record(1, h))
        kind = rng.choice(["trunc", "flip", "flip", "lenfield", "tail_sni", "tail_sni", "tail_sni_cap", "tail_sni_cap", "random", "shortrec"])
        if kind == "trunc":
            rec = rec[:rng.randint(0, len(rec) - 1)]
        elif kind == "flip":
            for _ in range(rng.randint(1, 3)):
                p = rng.choice([rng.randrange(len(rec)), rng.randrange(min(len(rec), 60))])
                rec[p] ^= 1 << rng.randrange(8)
        elif kind == "lenfield":
            p = rng.choice([3, 4, 6, 7, 8, 43, 44])
            if p < len(rec):
                rec[p] = rng.randrange(256)
        elif kind in ("tail_sni", "tail_sni_cap"):
            # last extension: server_name header followed by 0/1 bytes; optionally size the record to the first read window
            total = 4096 if kind == "tail_sni_cap" else rng.choice([None, None, 4095, 4097, 700])
            h2 = dict(h); h2["exts"] = [x for x in h["exts"] if x[0] != "sni"]
            tailb = rng.choice([bytes([0, 0, 0, 1, rng.randrange(256)]), bytes([0, 0, 0, 0, rng.randrange(256)]), bytes([0, 0, 0, 1, 0])])
            if total is not None:
                cur = len(enc_record(1, h2)) + len(tailb) + 4
                h2["exts"] = [x for x in h2["exts"] if x[1] != 21]
                cur = len(enc_record(1, h2)) + len(tailb) + 4
                if total - cur >= 0:
                    h2["exts"].insert(0, ("other", 21, bytes(total - cur)))
            base = bytearray(enc_record(1, h2))
            # append the raw tail inside the extension block: fix up the three lengths
            base += tailb
            hs_len = len(base) - 5
            base[3:5] = be16(hs_len)
            base[6:9] = (hs_len - 4).to_bytes(3, "big")
            off = 5 + 4 + 2 + 32
            off += 1 + base[off]
            off += 2 + int.from_bytes(base[off:off + 2], "big")
            off += 1 + base[off]
            base[off:off + 2] = be16(len(base) - off - 2)
            rec = base
            tail = b"" if kind == "tail_sni_cap" else tail
        elif kind == "random":
            rec = bytearray(b"\x16\x03" + rbytes(rng, rng.randint(0, 80)))
        elif kind == "shortrec":
            rec = bytearray(b"\x16\x03\x01" + be16(rng.randint(0, 45)) + rbytes(rng, 60))
        stream = bytes(rec) + tail
        chunks = [stream] if kind == "tail_sni_cap" and rng.random() < 0.7 else cut(rng, stream, first_min=5)
        ev = script_of(rng, chunks, rng.choice([[{"d": "", "st": "eof"}], [], [{"d": "", "st": "timeout"}, {"d": rbytes(rng, 5).hex(), "st": "ok"}, {"d": "", "st": "eof"}]]))
    elif r < 0.88:        # HTTP
        q = gen_head(rng)
        head = enc_head(q)
        body = rbytes(rng, rng.choice([0, 0, 10, 200]))
        hostbody = rng.random() < 0.45
        if hostbody:
            # the body (or a pipelined second request) carries its own CRLF-delimited Host line: it is NOT the
            # name of this request - with no Host in the head nothing may be reported, with one, that one
            other = gen_name(rng)
            body = rng.choice([
                b"Host: " + other + b"\r\n\r\n",
                b"GET /second HTTP/1.1\r\nHost: " + other + b"\r\n\r\n",
                b"field=1&x=2\r\nhost:" + other + b"\r\nmore\r\n",
                b"\r\nHOST : " + other + b":8080\r\n",
                rbytes(rng, 7) + b"\r\nHost: " + other + b"\r\n" + rbytes(rng, 5)])
            if rng.random() < 0.6:
                q["headers"] = [kv for kv in q["headers"] if kv[0].lower() != b"host"]
                head = enc_head(q)
        stream = head + body
        whole = rng.random() < 0.7 or hostbody
        if hostbody:
            # one read, or cut at a boundary at/after the end of the head (the head is whole in the first read), or anywhere
            r2 = rng.random()
            k = rng.choice([len(head), len(head) + 1, len(head) + 2, rng.randint(len(head), len(stream))])
            chunks = [stream] if r2 < 0.4 else ([stream[:k], stream[k:]] if r2 < 0.8 and 0 < k < len(stream) else cut(rng, stream))
        else:
            chunks = [stream] if whole and rng.random() < 0.5 else ([head, body] if whole and body else cut(rng, stream))
        ev = script_of(rng, chunks, rng.choice([[{"d": "", "st": "eof"}], []]))
        meta = {"head": q, "claimed": head}
    else:                 # neither
        kind = rng.choice(["random", "ssh", "empty", "httpish", "eofonly", "erronly"])
        stream = {"random": rbytes(rng, rng.randint(1, 200)), "ssh": b"SSH-2.0-OpenSSH_9.6\r\n", "empty": b"",
                  "httpish": rng.choice([b"GET", b"GET ", b"get / HTTP/1.1\r\nHost: a\r\n\r\n", b"PROPFINDX / HTTP/1.1\r\nHost: a\r\n\r\n",
                                         b"POST /x HTTP/1.1\nHost: a.b\n\n", b"GET / HTTP/1.1\r\nHost:\r\n\r\n", b"GET / HTTP/1.1\r\n\r\nHost: late\r\n",
                                         b"GET / HTTP/1.1\r\nX: 1\r\nhOsT :  [2001:DB8::1]:8080 \r\n\r\n", b"OPTIONS * HTTP/1.1\r\nHost: A.Example.:443\r\n\r\n"]),
                  "eofonly": b"", "erronly": b""}[kind]
        ending = [{"d": "", "st": "err"}] if kind == "erronly" else [{"d": "", "st": "eof"}]
        ev = script_of(rng, cut(rng, stream), ending) if stream else ending
    case = {"kind": "tcp", "script": ev, "drain": DRAINS[i % 3], "p": rng.choice([32768, 32768, 16384, 65536])}
    if meta.get("drip"):
        case["delays"] = meta.pop("drip")
    else:
        case["delays"] = [rng.choice([0, 0, 1, 50, 300, 999, 1000, 2000]) for e in ev if e["st"] == "ok"]
    if rng.random() < 0.04 and not any(e["st"] == "err" for e in case["script"]):
        case["script"] = [e for e in case["script"] if e["st"] != "eof"] + [{"d": "", "st": "eofspin"}]
        case["timeout_ms"] = 15
    return case, meta


def gen_head(rng):
    methods = [b"GET", b"POST", b"PUT", b"PATCH", b"DELETE", b"COPY", b"HEAD", b"OPTIONS", b"LINK", b"UNLINK", b"PURGE", b"LOCK",
               b"UNLOCK", b"PROPFIND", b"CONNECT", b"TRACE"]
    vis = bytes(range(33, 127))
    target = rng.choice([b"/", b"*", b"/index.html?a=b&host:x", b"http://www.Example.com:8080/p", b"example.org:443",
                         bytes(rng.choice(vis) for _ in range(rng.randint(1, 40)))])
    hs = []
    hostv = rng.choice([None, b"name", b"name", b"name", b"port", b"v6", b"empty", b"dup"])
    def ws():
        return rng.choice([b"", b" ", b" ", b"\t", b"  "])
    for _ in range(rng.randint(0, 5)):
        k = bytes(rng.choice(HOSTCH) for _ in range(rng.randint(1, 12)))
        if k.lower() == b"host":
            continue
        hs.append((k, ws() + bytes(rng.choice(vis + b"  ") for _ in range(rng.randint(0, 30))) + ws()))
    if hostv is not None:
        key = bytes(rng.choice([c, c ^ 32]) for c in b"host")
        nm = gen_name(rng)
        val = {b"name": nm, b"port": nm + b":8080", b"v6": b"[2001:db8::1]" + rng.choice([b"", b":443"]), b"empty": b"", b"dup": nm}[hostv]
        hs.insert(rng.randint(0, len(hs)), (key, ws() + val + ws()))
        if hostv == b"dup":
            hs.append((b"Host", b" other.example"))
    return {"method": rng.choice(methods), "target": target, "version": rng.choice([b"HTTP/1.1", b"HTTP/1.0"]), "headers": hs}


def varint(v, width=None):
    if width is None:
        width = 1 if v < 64 else 2 if v < 16384 else 4 if v < (1 << 30) else 8
    b = bytearray(v.to_bytes(width, "big"))
    b[0] |= {1: 0, 2: 0x40, 4: 0x80, 8: 0xc0}[width]
    return bytes(b)


def gen_quic_short_cases(rng, thorough):
    """Initial-shaped long headers of a known version whose Length field is too small for packet number + tag
    (0..40), followed by 0..64 more bytes in the buffer: trailing bytes, a coalesced copy, or the same short
    Initial sent twice on one flow.  Nothing decrypts; the sniffer must say 'not applicable', never panic."""
    out = []
    Ls = range(41) if thorough else [0, 1, 3, 4, 5, 15, 16, 17, 19, 20, 21, 40]
    Ts = [0, 1, 15, 19, 20, 21, 29, 40, 64] if thorough else [0, 19, 20, 40, 64]
    h = gen_hello(rng, None)
    for L in Ls:
        for T in (Ts if thorough else rng.sample(Ts, 3)):
            ver = rng.choice([b"\x00\x00\x00\x01", b"\x00\x00\x00\x01", b"\x6b\x33\x43\xcf", b"\xff\x00\x00\x1d"])
            dcid = rbytes(rng, rng.choice([8, 8, 1, 20]))
            flags = 0xc0 | rng.randrange(16)
            hdr = bytes([flags]) + ver + bytes([len(dcid)]) + dcid + b"\x00" + b"\x00" + varint(L, rng.choice([None, 2]))
            pkt = hdr + rbytes(rng, min(L, 8))
            style = rng.choice(["trailing", "trailing", "coalesced", "twice"])
            if style == "trailing":
                dgrams = [{"raw": (pkt + rbytes(rng, T)).hex()}]
            elif style == "coalesced":
                dgrams = [{"raw": (pkt + pkt + rbytes(rng, T)).hex()}]
            else:
                dgrams = [{"raw": (pkt + rbytes(rng, max(0, 29 - len(pkt)))).hex()}] * 2
            out.append(({"kind": "quic", "init": "", "dgrams": dgrams},
                        {"hello": h, "claimed": enc_handshake(h), "frags": [[] for _ in dgrams], "honest": False, "ver": "short", "mal": "short_length"}))
    return out



def gen_quic_case(rng, i):
    h = gen_hello(rng, rng.choice([None, None, None, 1200, 2600]))
    stream = enc_handshake(h)
    honest = True
    r = rng.random()
    ver = rng.choice(["v1", "v1", "v1", "v2"])
    # cut the stream into frames
    n = len(stream)
    pts = sorted(set([0, n] + [rng.randrange(1, n) for _ in range(rng.choice([0, 1, 2, 4, 7]))]))
    frames = [(a, stream[a:b]) for a, b in zip(pts, pts[1:])]
    for _ in range(rng.choice([0, 0, 1, 2])):       # duplicates / overlaps
        a = rng.randrange(0, n); b = rng.randint(a, min(n, a + rng.choice([0, 1, 50, 400])))
        frames.append((a, stream[a:b]))
    rng.shuffle(frames) if rng.random() < 0.7 else None
    ndg = rng.choice([1, 1, 2, 3])
    per = [[] for _ in range(ndg)]
    for k, f in enumerate(frames):
        per[min(ndg - 1, k * ndg // max(1, len(frames)))].append(f)
    mal = None
    if r > 0.72:
        honest = False
        mal = rng.choice(["flip_hdr", "flip_body", "unknown_frame", "close", "bad_len", "huge_off", "drop", "raw", "type", "version", "gap"])
    dcid = rbytes(rng, rng.choice([8, 8, 0, 20, 5]))
    scid = rbytes(rng, rng.choice([0, 8, 20]))
    dgrams, frags = [], []
    pn = rng.randint(0, 3)
    for di, fl in enumerate(per):
        if mal == "drop" and di == 0 and ndg > 1:
            fl = fl[1:]
        if mal == "gap" and fl:
            fl = [(o + (1 if o > 0 else 0), d) for o, d in fl]
        pkts = []
        groups = [fl] if rng.random() < 0.7 or len(fl) < 2 else [fl[:len(fl) // 2], fl[len(fl) // 2:]]
        dfr = []
        for g in groups:
            payload = b""
            for o, d in g:
                if rng.random() < 0.4:
                    payload += bytes(rng.randint(1, 6))
                if rng.random() < 0.3:
                    payload += b"\x01"
                off = o
                if mal == "huge_off" and rng.random() < 0.5:
                    off = (1 << 62) - 1 - rng.randint(0, 3)
                ln = len(d) + (rng.randint(1, 50) if mal == "bad_len" and rng.random() < 0.5 else 0)
                payload += b"\x06" + varint(off, rng.choice([None, None, 8])) + varint(ln, rng.choice([None, None, 4])) + d
                dfr.append((o, d))
            if mal == "unknown_frame":
                payload += rng.choice([b"\x02\x00\x00\x00\x00", b"\x1e", b"\x40\x06\x00\x00"])
            if mal == "close":
                payload = rng.choice([b"\x1c\x00\x00\x00", b"\x1d\x00\x00"]) + payload if rng.random() < 0.5 else payload + b"\x1c\x00\x00\x00"
            payload += bytes(max(0, 24 - len(payload)) + rng.choice([0, 0, 20, 600]))
            p = {"ver": 1 if ver == "v1" else 0x6b3343cf, "type": 0 if ver == "v1" else 1, "dcid": dcid.hex(), "scid": scid.hex(),
                 "token": rbytes(rng, rng.choice([0, 0, 16, 70])).hex(), "pn": pn, "pnlen": rng.randint(1, 4),
                 "lenenc": rng.choice([2, 2, 4, 8]), "payload": payload.hex(), "salt": ver, "flip": []}
            if mal == "flip_hdr" and rng.random() < 0.6:
                p["flip"] = [[rng.randrange(0, 30), 1 << rng.randrange(8)]]
            if mal == "flip_body" and rng.random() < 0.6:
                p["flip"] = [[rng.randrange(40, 40 + len(payload)), 1 << rng.randrange(8)]]
            if mal == "type":
                p["type"] = rng.choice([1, 2, 3]) if ver == "v1" else rng.choice([0, 2, 3])
            if mal == "version":
                p["ver"] = rng.choice([0, 2, 0xff00001d, 0x1a2a3a4a, 0x51303530, 0xdeadbeef])
            pn += 1
            pkts.append(p)
        d = {"pkts": pkts, "tail": rng.choice([b"", b"", bytes(rng.choice([1, 30])), rbytes(rng, rng.randint(1, 40))]).hex()}
        if mal == "raw" and rng.random() < 0.5:
            d = {"raw": (bytes([rng.choice([0xc0, 0xc3, 0x40, 0xd0, 0xcf])]) + rbytes(rng, rng.randint(0, 80))).hex()}
            dfr = []
        dgrams.append(d)
        frags.append(dfr)
    case = {"kind": "quic", "init": "", "dgrams": dgrams}
    meta = {"hello": h, "claimed": stream, "frags": frags, "honest": honest, "ver": ver, "mal": mal}
    return case, meta


def gen_async_case(rng, i):
    """async fallback: a ClientHello (or HTTP head) whose tail arrives after the sniff deadline, or in time"""
    h = gen_hello(rng, None)
    m = 1
    rec = enc_record(m, h)
    tail = rbytes(rng, rng.choice([0, 3, 20]))
    stream = rec + tail
    meta = {"hello": h, "m": m, "claimed": rec}
    mode = rng.choice(["pause", "pause", "pause", "intime", "pause_first"])
    chunks = cut(rng, stream, first_min=5)
    ev = [{"d": c.hex(), "st": "ok"} for c in chunks]
    if mode == "pause" and len(ev) > 1:
        k = rng.randint(1, len(ev) - 1)
        ev = ev[:k] + [{"d": "", "st": "pause"}] + ev[k:]
    elif mode == "pause_first":
        ev = [{"d": "", "st": "pause"}] + ev
    ev.append({"d": "", "st": "eof"})
    case = {"kind": "async", "script": ev, "drain": DRAINS[i % 3], "sched": ["late", "drain"][(i // 3) % 2], "p": 32768}
    return case, meta


def async_to_coq(case, meta, res):
    full = b"".join(bytes.fromhex(e["d"]) for e in case["script"])
    claimed = meta.get("claimed", b"")
    sexpr = "(enc_record %d hh ++ %s)" % (meta["m"], H(full[len(claimed):])) if full.startswith(claimed) else H(full)
    evs, pos = [], 0
    for e in case["script"]:
        n = len(e["d"]) // 2
        evs.append("(Build_rd 4096 (sub s %d %d) %s)" % (pos, pos + n, {"ok": "RsOk", "eof": "RsEof", "pause": "RsTimeout"}[e["st"]]))
        pos += n
    rst = res.get("relay_st") or "eof"
    late = False      # the async cases are event-gated: there is no real deadline to overrun
    return ("(let hh := %s in let s := %s in AAsync (Build_async_case [%s] %d %s %d %s %s %s %s %s %s))"
            % (coq_hello(meta["hello"]), sexpr, "; ".join(evs), DRAINS.index(case["drain"]),
               "LateFirst" if case["sched"] == "late" else "DrainFirst", case.get("p", 32768),
               coq_outcome(res["class"], res.get("name")), vlib.cbool(res["class"] == "panic"),
               ref(full, bytes.fromhex(res.get("relay") or "")), ST.get(rst, "RsErr"),
               vlib.cbool(rst in ("panic", "blocked")), vlib.cbool(late)))


def make_session_cases(sc, binary, rng, n):
    """UDP sniff-session cases for the control harness.  The datagrams are built by the sniffing harness (it
    owns the QUIC packet builder): a preliminary batch of flights is run there just to obtain their bytes."""
    flights = []
    for i in range(n):
        c, m = gen_quic_case(rng, i)
        flights.append((c, m))
    inp, outp = sc.path("c06_flights.in"), sc.path("c06_flights.out")
    with open(inp, "w") as f:
        for c, _ in flights:
            f.write(json.dumps(c) + "\n")
    rc, so, se, dt = vlib.run_go_harness(binary, "TestVerifC06", inp, outp, timeout=300)
    if rc != 0:
        raise RuntimeError("flight builder failed: %s %s" % (so[-500:], se[-500:]))
    results = [json.loads(l) for l in open(outp)]
    out = []
    for (c, m), r in zip(flights, results):
        dgs = [st["dgram"] for st in r["steps"]]
        if not dgs:
            continue
        # all datagrams of one session must carry the same DCID: honest flights do; drop raw junk
        # ... and handlePkt only enters the session block for datagrams that look like a v1 Initial with a
        # cacheable (non-empty) DCID; v2 Initials never get there (known finding quic-v2-initial-not-recognised)
        if any("raw" in d and d["raw"] for d in c["dgrams"]) or m.get("mal") in ("flip_hdr", "version", "type"):
            continue
        if m.get("ver") == "v2" or any(p["dcid"] == "" for d in c["dgrams"] for p in d.get("pkts", [])):
            continue
        style = rng.choice(["plain", "plain", "retransmit", "gap", "repeat5"])
        seq = list(dgs)
        if style == "retransmit":
            seq = seq + seq
        elif style == "repeat5":
            seq = (seq * 6)[:6]
        steps, t = [], 0
        for k, d in enumerate(seq):
            big = style == "gap" and k > 0 and rng.random() < 0.6
            t += rng.choice([5400, 6000, 45000]) if big else rng.randint(0, 150)
            steps.append({"t": t, "d": d, "expire_before": big})
        covers = False
        if m.get("honest"):
            stream = m["claimed"]
            seen = bytearray(len(stream))
            for fl in m["frags"]:
                for o, d in fl:
                    seen[o:o + len(d)] = b"\x01" * len(d)
            covers = all(seen) and style != "gap"
        case = {"kind": "sess", "steps": steps, "final_expire": rng.random() < 0.12}
        out.append((case, {"complete": covers, "ver": m.get("ver"), "mal": m.get("mal"), "style": style,
                           "has_name": bool(m.get("honest")) and any(x[0] == "sni" and any(t_ == 0 for t_, _ in x[1]) for x in m["hello"]["exts"])}))
    return out


def sess_to_coq(case, meta, res):
    ids = {}

    def D(hexd):
        if hexd not in ids:
            ids[hexd] = len(ids) + 1
        k = ids[hexd]
        return "[%d; %d]" % (k // 256, k % 256)
    steps = []
    for si, so in zip(case["steps"], res["steps"]):
        if so["needmore"] or so["verdict"] == "held":
            r = "SrNeedMore"
        elif so["errclass"] == "notapplicable":
            r = "SrNotApp"
        elif so["errclass"] == "nil":
            r = "(SrFound %s)" % H(bytes.fromhex(so["domain"]))
        else:
            r = "SrOther"
        steps.append("(Build_sess_step (EvPacket %d %s %s false) %s [%s] %s [%s] %s %s)"
                     % (si["t"], D(si["d"]), r, vlib.cbool(so["verdict"] == "held"), "; ".join(D(p) for p in so["payloads"]),
                        H(bytes.fromhex(so["domain"])), "; ".join(D(p) for p in so["held"]), vlib.cbool(so["session"]),
                        vlib.cbool(bool(so.get("panic")) or not so.get("same_key", True))))
    return ("(ASess (Build_sess_case [%s] %s [%s] %s))"
            % ("; ".join(steps), vlib.cbool(meta.get("complete", False)), "; ".join(D(p) for p in res["final_held"]),
               vlib.cbool(res.get("final_gone", False))))



def initial_header(rng, dl, sl):
    """a well-formed QUIC Initial long header with the given connection-id lengths, plus a little payload"""
    flags = 0xc0 | rng.randrange(4) | (rng.randrange(4) << 2)
    ver = rng.choice([b"\x00\x00\x00\x01", b"\x6b\x33\x43\xcf", rbytes(rng, 4)])
    tok = rbytes(rng, rng.choice([0, 0, 3]))
    return bytes([flags]) + ver + bytes([dl]) + rbytes(rng, dl) + bytes([sl]) + rbytes(rng, sl) + varint(len(tok)) + tok + varint(20) + rbytes(rng, rng.choice([0, 2, 6]))


def gen_key_cases(rng, thorough):
    """(a) every truncation of valid Initial datagrams over DCID/SCID lengths, (b) random mutations"""
    out = []
    if thorough:
        combos = [(d, s) for d in range(21) for s in range(21)]
    else:
        combos = [(d, s) for d in (0, 1, 8, 19, 20) for s in (0, 1, 8, 20)] + [(rng.randint(0, 20), rng.randint(0, 20)) for _ in range(6)]
    for dl, sl in combos:
        out.append(({"kind": "key", "d": initial_header(rng, dl, sl).hex(), "prefixes": True}, {"dl": dl, "sl": sl, "family": "truncations"}))
    for _ in range(400 if thorough else 50):
        b = bytearray(initial_header(rng, rng.randint(0, 20), rng.randint(0, 20)))
        mode = rng.choice(["flip", "dl", "sl", "cut", "random", "type"])
        if mode == "flip":
            b[rng.randrange(len(b))] ^= 1 << rng.randrange(8)
        elif mode == "dl":
            b[5] = rng.choice([21, 22, 255, 20, 0, len(b) - 6, max(0, len(b) - 7)]) & 255
        elif mode == "sl":
            p = 6 + b[5]
            if p < len(b):
                b[p] = rng.choice([21, 255, 20, max(0, len(b) - p - 1), len(b) - p]) & 255
        elif mode == "cut":
            b = b[:rng.choice([6 + b[5], 7 + b[5], 6, 7, 5])]
        elif mode == "random":
            b = bytearray(bytes([rng.choice([0xc0, 0xc3, 0xcf, 0x80, 0xd0, 0x40])]) + rbytes(rng, rng.randint(0, 50)))
        else:
            b[0] = rng.randrange(256)
        out.append(({"kind": "key", "d": bytes(b).hex(), "prefixes": rng.random() < 0.3}, {"family": mode}))
    return out


def key_to_coq(case, meta, res):
    return "(AKey (Build_key_case %s [%s]))" % (H(bytes.fromhex(case["d"])), "; ".join("(%d, %d)" % (n, c) for n, c in zip(res["ns"], res["codes"])))



# ----------------------------------------------------------------------------------------------
# cases -> Coq
# ----------------------------------------------------------------------------------------------
ST = {"ok": "RsOk", "eof": "RsEof", "timeout": "RsTimeout", "err": "RsErr", "eofspin": "RsEof"}


def coq_outcome(cls, name_hex):
    return {"found": "(Found %s)" % H(bytes.fromhex(name_hex or "")), "notfound": "NotFound", "notapplicable": "NotApplicable",
            "needmore": "NeedMore", "timeout": "TimedOut", "ioerr": "IoError", "panic": "Oob"}.get(cls, "OutOfFuel")


def model_script(res):
    ev = [(e["w"], e["d"], e["st"]) for e in (res.get("log") or [])]
    ev += [(0, e["d"], e["st"]) for e in (res.get("unread") or [])]
    return ev


def tcp_to_coq(case, meta, res):
    ms = model_script(res)
    full = b"".join(bytes.fromhex(d) for _, d, _ in ms)
    claimed = meta.get("claimed", b"")
    if "hello" in meta and full.startswith(claimed):
        sexpr = "(enc_record %d hh ++ %s)" % (meta["m"], H(full[len(claimed):]))
    elif "head" in meta and full.startswith(claimed):
        sexpr = "(enc_head qq ++ %s)" % H(full[len(claimed):])
    else:
        sexpr = H(full)
    evs, pos = [], 0
    for w, d, st in ms:
        n = len(d) // 2
        evs.append("(Build_rd %d (sub s %d %d) %s)" % (w, pos, pos + n, ST[st]))
        pos += n
    script = "[%s]" % "; ".join(evs)
    hello = "(Some (%d, hh))" % meta["m"] if "hello" in meta else "None"
    head = "(Some qq)" if "head" in meta else "None"
    late = res["elapsed_ms"] > case.get("timeout_ms", 200) + 5000     # generous: the machine may be loaded
    rst = res.get("relay_st") or "eof"
    relay_bad = rst in ("panic", "blocked")
    pre = ""
    if "hello" in meta:
        pre += "let hh := %s in " % coq_hello(meta["hello"])
    if "head" in meta:
        pre += "let qq := %s in " % coq_head(meta["head"])
    nok = sum(1 for _, _, st in ms if st == "ok")
    delays = (list(case.get("delays") or []) + [0] * nok)[:nok]
    timing = "[%s] %d %d [%s]" % ("; ".join(str(max(0, d)) for d in res.get("deadlines") or []), max(0, res.get("ctor_ns", 0)),
                                  res.get("timeout_ns", 0), "; ".join(str(d) for d in delays))
    return ("(%slet s := %s in ATcp (Build_tcp_case %s %s %s %s %d %d %s %s %s %s %d %s %s %s %s %s))"
            % (pre, sexpr, script, hello, head, ref(full, claimed), DRAINS.index(case["drain"]), case.get("p", 32768),
               coq_outcome(res["class"], res.get("name")), vlib.cbool(res["class"] == "panic"), ref(full, bytes.fromhex(res.get("buf") or "")),
               vlib.cbool(res.get("dataerr", False)), res.get("sniff_reads", 0), ref(full, bytes.fromhex(res.get("relay") or "")),
               ST.get(rst, "RsErr"), vlib.cbool(relay_bad), vlib.cbool(late), timing))


def model_dgram(dg_case, hexd):
    """the datagram as the model needs it: headers as observed, ciphertext zeroed (only its length matters to
    the model; the plaintext comes from the decryption oracle)"""
    d = bytearray.fromhex(hexd)
    if "raw" in dg_case and dg_case["raw"]:
        return bytes(d)
    pos = 0
    for p in dg_case.get("pkts", []):
        tok = len(p["token"]) // 2
        pl = len(p["payload"]) // 2
        pnlen = p["pnlen"] if 1 <= p["pnlen"] <= 4 else 1
        hl = 1 + 4 + 1 + len(p["dcid"]) // 2 + 1 + len(p["scid"]) // 2 + len(varint(tok)) + tok + p["lenenc"] + pnlen
        total = hl + pl + 16
        a, b = pos + hl + 4, pos + total          # keep a few bytes after the header untouched
        if b <= len(d) and a < b:
            d[a:b] = bytes(b - a)
        pos += total
    return bytes(d)


def quic_to_coq(case, meta, res):
    steps = []
    for st in res["steps"]:
        steps.append("(Build_quic_step %s [%s] %s %s %s %s)"
                     % (H(model_dgram(case["dgrams"][len(steps)], st["dgram"])), "; ".join(H(bytes.fromhex(o)) for o in st["oracle"]),
                        coq_outcome(st["class"], st.get("name")), vlib.cbool(st["needmore"]), vlib.cbool(st["data_ok"]),
                        vlib.cbool(st["class"] == "panic")))
    frags = "[%s]" % "; ".join("[%s]" % "; ".join("(%s, %s)" % (vlib.cN(o), H(d)) for o, d in fl) for fl in meta["frags"])
    return ("(AQuic (Build_quic_case %s [%s] (Some %s) %s %s %s))"
            % (H(bytes.fromhex(case.get("init", ""))), "; ".join(steps), coq_hello(meta["hello"]), H(meta["claimed"]), frags,
               vlib.cbool(meta["honest"])))


def ensure_workspace():
    """A run against another tree (VERIF_REPO) works in a private copy of coq/ under /var/tmp; if a sweep of
    /var/tmp removed it in mid-run, put it back (copy, regenerate, rebuild the comparison functions)."""
    if not getattr(vlib, "ALT_RUN", False):
        return False
    if os.path.exists(os.path.join(vlib.COQ, "C06_Check.vo")) and os.path.isdir(os.path.join(vlib.COQ, "gen")):
        return False
    import subprocess
    os.makedirs(vlib.COQ, exist_ok=True)
    subprocess.run(["rsync", "-a", "--exclude", "cases/", "--exclude", ".lock*", os.path.join(vlib.VERIF, "coq") + "/", vlib.COQ + "/"], check=False)
    try:
        translate()
        gen_statements()
    except RuntimeError:
        pass
    vlib.coq_make(["C06_Check.vo"])
    log("private coq workspace had vanished; restored")
    return True


def run_batch(sc, binary, items, tag, scale=None):
    """items: list of (case, meta). `binary` = (sniffing test binary, control test binary).
    Returns (errors: {idx: [codes]}, sigs, results, err)"""
    bin_sniff, bin_ctl = binary
    results = [None] * len(items)
    for kinds, b, test in ((("tcp", "quic", "async"), bin_sniff, "TestVerifC06"), (("sess",), bin_ctl, "TestVerifC06Udp"),
                           (("key",), bin_ctl, "TestVerifC06Key")):
        kind_is_sess = kinds[0]
        idx = [i for i, (c, _) in enumerate(items) if c["kind"] in kinds]
        if not idx:
            continue
        inp, outp = sc.path("c06_%s_%s.in" % (tag, kind_is_sess)), sc.path("c06_%s_%s.out" % (tag, kind_is_sess))
        with open(inp, "w") as f:
            for i in idx:
                f.write(json.dumps(items[i][0]) + "\n")
        rc, so, se, dt = vlib.run_go_harness(b, test, inp, outp, timeout=900 if scale else 600,
                                             extra_env={"VERIF_TIME_SCALE": str(scale)} if scale else None)
        if rc != 0:
            return None, None, None, "harness failed rc=%d: %s %s" % (rc, so[-1500:], se[-1500:])
        rs = [json.loads(l) for l in open(outp)]
        if len(rs) != len(idx):
            return None, None, None, "harness returned %d results for %d cases" % (len(rs), len(idx))
        for i, r in zip(idx, rs):
            results[i] = r
    terms = []
    for (c, m), r in zip(items, results):
        terms.append({"tcp": tcp_to_coq, "quic": quic_to_coq, "async": async_to_coq, "sess": sess_to_coq, "key": key_to_coq}[c["kind"]](c, m, r))
    text = ("From Coq Require Import List NArith Bool.\nFrom Dae Require Import C06_Spec C06_Model C06_Async C06_Session C06_Clock C06_Key C06_Check.\n"
            "From Coq Require String.\nImport String.StringSyntax.\nImport ListNotations.\nOpen Scope string_scope.\nOpen Scope N_scope.\n"
            "Definition cases : list acase := [\n" + ";\n".join(terms) + "\n].\n"
            "Definition R := Eval vm_compute in map check_case cases.\nPrint R.\n"
            "Definition S := Eval vm_compute in map case_signature cases.\nPrint S.\n")
    # the file name carries the pid: two C06 checks may run at the same time (e.g. a seeded-change run beside the
    # clean one) and must not overwrite each other's case files
    cname = "C06_cases_%d_%s" % (os.getpid(), tag)
    ok, outtxt = vlib.coq_eval(cname, text, timeout=1800)
    if not ok and ensure_workspace():
        ok, outtxt = vlib.coq_eval(cname, text, timeout=1800)
    try:
        os.remove(os.path.join(vlib.COQ, "cases", cname + ".v"))
    except OSError:
        pass
    if not ok:
        return None, None, results, "coq evaluation failed: " + outtxt[-2500:]
    m = re.search(r"R\s*=\s*(.*?)\n\s*:\s*list", outtxt, re.S)
    body = re.sub(r"\s+", "", m.group(1))
    per = re.findall(r"\[([\d;]*)\]", body[1:-1])
    if len(per) != len(items):
        return None, None, results, "cannot parse coq output (%d vs %d): %s" % (len(per), len(items), body[:300])
    errors = {i: [int(x) for x in p.split(";") if x] for i, p in enumerate(per)}
    m2 = re.search(r"S\s*=\s*(.*?)\n\s*:\s*list", outtxt, re.S)
    sigs = re.findall(r"\((\d+),(\d+),(\d+),(\d+),(\d+),(\d+)\)", re.sub(r"\s+", "", m2.group(1))) if m2 else []
    return errors, sigs, results, None


SPEC_CODES = {2, 6, 7, 8, 11, 12, 13, 14}
OOB_CODE = 10
MODEL_CODES = {1, 4, 5}
THM_CODES = {3, 9, 15}


def matcher_of(case, meta, res, codes):
    """id of the input class of a failing case (known_findings.txt `match=`)"""
    if case["kind"] == "tcp":
        if 7 in codes and "slice bounds out of range" in (res.get("panic") or ""):
            return "tls-sni-header-at-tail-overread"
        if OOB_CODE in codes and not (SPEC_CODES & set(codes) - {7}):
            return "tls-sni-header-at-tail-overread"
        if 6 in codes and res.get("dataerr") and case["drain"] == "read" and res.get("relay_st") in ("timeout", "err"):
            return "stale-dataerror-after-sniff-timeout"
        if 14 in codes and not (set(codes) & {1, 2, 4, 5, 6, 7, 8}):
            return "sniff-deadline-not-fixed-at-construction"
    elif case["kind"] == "quic":
        if 2 in codes and meta.get("ver") == "v2" and meta.get("honest"):
            return "quic-v2-initial-not-recognised"
        if 7 in codes:
            return "quic-sniff-panics"
    elif case["kind"] == "async":
        sent = sum(len(e["d"]) // 2 for e in case["script"])
        if 6 in codes and 7 not in codes and res.get("dataerr") and res.get("armed_left"):
            if case["drain"] == "read" and res.get("relay_st") == "timeout":
                return "async-stale-dataerror-after-sniff-timeout"
            if case["drain"] != "read" and len(res.get("relay") or "") // 2 < sent:
                return "async-outstanding-read-swallows-relay-bytes"
    elif case["kind"] == "key":
        if 7 in codes:
            return "quic-key-fingerprint-parse-panics"
        return "quic-key-fingerprint-parse-differs"
    elif case["kind"] == "sess":
        if 13 in codes and not (set(codes) & {1, 4, 6, 7}):
            if meta.get("ver") == "v2":
                return "quic-v2-initial-not-recognised"
            return "udp-complete-hello-without-name-withheld" if not meta.get("has_name") else "udp-complete-flight-withheld"
    return "other-" + "-".join(str(c) for c in sorted(set(codes)))


def shrink(sc, binary, case, meta, want, res0, codes0):
    """greedy: drop script events / datagrams while the same input class keeps failing"""
    best = {"res": res0, "codes": codes0}

    def fails(c, m):
        errs, _, results, err = run_batch(sc, binary, [(c, m)], "shrink")
        if err or not errs.get(0):
            return False
        if matcher_of(c, m, results[0], errs[0]) == want and set(codes0) & SPEC_CODES <= set(errs[0]) and lost(c, results[0]) == lost0:
            best["res"], best["codes"] = results[0], errs[0]
            return True
        return False

    def lost(c, r):
        """bytes of the client never handed to the relay"""
        if c["kind"] not in ("tcp", "async"):
            return False
        sent = sum(len(e["d"]) // 2 for e in c["script"])
        return len(r.get("relay") or "") // 2 < sent
    lost0 = lost(case, res0)
    key = {"tcp": "script", "async": "script", "quic": "dgrams", "sess": "steps", "key": "d"}[case["kind"]]
    cur = json.loads(json.dumps(case))
    if case["kind"] == "key":
        # shortest failing truncation of the datagram, alone
        full = bytes.fromhex(case["d"])
        for n in range(len(full) + 1):
            cand = {"kind": "key", "d": full[:n].hex(), "prefixes": False}
            if fails(cand, meta):
                return cand, meta, best["res"], best["codes"]
        return cur, meta, best["res"], best["codes"]
    if case["kind"] == "sess":
        return cur, meta, best["res"], best["codes"]
    rounds = 0
    changed = True
    while changed and rounds < 6:
        changed = False
        for i in range(len(cur[key]) - 1, -1, -1):
            if len(cur[key]) <= 1 or rounds >= 6:
                break
            rounds += 1
            cand = dict(cur); cand[key] = cur[key][:i] + cur[key][i + 1:]
            m2 = dict(meta)
            if key == "dgrams":
                m2["frags"] = meta["frags"][:i] + meta["frags"][i + 1:]
            if fails(cand, m2):
                cur, meta, changed = cand, m2, True
                break
    return cur, meta, best["res"], best["codes"]


def jsonable_meta(meta):
    def conv(x):
        if isinstance(x, (bytes, bytearray)):
            return bytes(x).hex()
        if isinstance(x, dict):
            return {k: conv(v) for k, v in x.items()}
        if isinstance(x, (list, tuple)):
            return [conv(v) for v in x]
        return x
    return conv(meta)


def main(argv):
    args = vlib.main_args(argv)
    out = vlib.Outcome(PID, args.tier, args.seed)
    _violation = out.violation

    def violation(*a, **kw):
        os.makedirs(out.replay_dir, exist_ok=True)          # the private output directory may have been swept
        return _violation(*a, **kw)
    out.violation = violation
    _finish = out.finish

    def finish(*a, **kw):
        os.makedirs(os.path.dirname(out.replay_path("x")), exist_ok=True)
        os.makedirs(os.path.join(getattr(vlib, "OUTDIR", vlib.VERIF), "evidence"), exist_ok=True)
        return _finish(*a, **kw)
    out.finish = finish
    rng = vlib.rng_for(args.seed, PID)
    n_tcp, n_quic, n_async, n_sess = (220, 36, 24, 40) if args.tier == "quick" else (5000, 1200, 300, 600)

    try:
        consts = translate()
        gen_statements()
    except RuntimeError as e:
        out.violation("translate", {"broken": str(e)}, "constant extraction from the repository failed: %s" % e, no_failing_input=True)
        out.coverage = {"obligations": 0, "discharged": 0, "evaluations": 0, "distinct_nontrivial": 0}
        return out.finish()
    if getattr(translate, "problems", None):
        out.violation("translate_guards", {"broken": "guard expressions of NewPacketSnifferKey / parseQuicInitialFingerprint no longer have the shape the translator reads",
                                           "unrecognised": translate.problems,
                                           "consequence": "the model keeps the last known guards; the harness still compares the real functions with it on every truncation"},
                      "control/packet_sniffer_pool.go: the length guards of the session-key / fingerprint parsing moved or changed (%s); the generated model is no longer tied to them" % ", ".join(translate.problems),
                      no_failing_input=True)
    proof_ok, pinfo = vlib.proof_stage(out, PROPS, TARGETS)
    if not proof_ok:
        # a broken proof must not take the correspondence stage down with it (make stops at the first error):
        # build the executable model and the comparison functions on their own, so that a failing INPUT is found
        vlib.coq_make(["C06_Check.vo"])
    cov = {"obligations": pinfo["obligations"], "discharged": pinfo["discharged"],
           "checker_cmd": "cd /verif/coq && coq_makefile -f _CoqProject -o Makefile && make -j16 " + " ".join(TARGETS) + " && coqc -Q . Dae C06_Props.v (Print Assumptions captured)",
           "theorems": pinfo.get("theorems", []), "print_assumptions": pinfo.get("assumptions", []),
           "extracted_constants": consts,
           "trusted_base": vlib.TRUSTED_BASE_COMMON + [
               "QUIC packet protection (HKDF, AES-GCM, AES-ECB header protection) is an oracle: the harness builds Initial packets from RFC 9001/9369 with its own salts and labels and reads back the plaintexts the real sniffer decrypted",
               "the buffer library github.com/daeuniverse/outbound/pool/bytes is not modelled: the read window offered to each Read (capacity - length) is observed and fed to the model",
               "the client connection is a scripted net.Conn (deadline expiry is an event, not a wait); the async fallback is driven by a scripted connection whose SetReadDeadline fails, with the two schedules 'late read first' / 'relay first' enforced by the harness",
               "UDP sniff session: the block of handlePkt between GetOrCreate and afterSniffing is lifted textually from control/udp.go on every run into a harness function (goto/return rewritten to verdicts); session expiry is produced by the real janitor after the harness sets expiresAtNano to the past; datagrams are numbered injectively for the model",
               "strings.ToLower/TrimSpace/EqualFold are modelled for ASCII only; names with non-ASCII bytes are compared by class"]}
    out.coverage = cov
    out.assumptions = ["DecryptQuic_ returns exactly the plaintext a correct RFC 9001 receiver would (oracle answers are the real function's outputs on each case)",
                       "timeouts are events of the scripted connection; real-time waiting is only measured on the EOF-spin cases",
                       "the relay drains the sniffer by exactly one of Read / TakeRelayPrefix+CopyRelayRemainder / WriteTo"]

    with vlib.Scratch() as sc:
        import threading
        built = {}

        def build_ctl():
            try:
                ov = lift_session_block(sc)
                built["hpkt"] = True
                built["ctl"] = vlib.build_go_test_binary(sc, "control", ["control/common_test.go", "control/c06udp_test.go", "control/c06udp_hpkt_test.go"],
                                                         extra_overlay=ov)
                if built["ctl"][0] is None:
                    # the handlePkt-level history leans on the repository's own test scaffolding; without it the
                    # rest of the harness must still build
                    built["hpkt"] = False
                    built["hpkt_log"] = built["ctl"][1][-1500:]
                    built["ctl"] = vlib.build_go_test_binary(sc, "control", ["control/common_test.go", "control/c06udp_test.go"], extra_overlay=ov)
            except RuntimeError as e:
                built["ctl"] = (None, str(e))
        th = threading.Thread(target=build_ctl)
        th.start()
        bin_sniff, blog = vlib.build_go_test_binary(sc, PKG, HARNESS)
        th.join()
        bin_ctl, blog2 = built["ctl"]
        binary = (bin_sniff, bin_ctl) if bin_sniff and bin_ctl else None
        blog = blog + "\n" + blog2
        if binary is None:
            out.violation("build", {"broken": "harness build against the repository failed", "log": blog[-3000:]},
                          "correspondence harness no longer builds against the repository", no_failing_input=True)
            cov.update(evaluations=0, distinct_nontrivial=0)
            return out.finish()
        # the handlePkt-level history: an Initial-shaped datagram ending right after the DCID (and one byte later),
        # sent repeatedly on one 4-tuple, through the real ControlPlane.handlePkt: no panic, every copy relayed
        hpkt = {"available": bool(built.get("hpkt")), "cases": 0, "failed": 0}
        if built.get("hpkt"):
            hcases = [{"dcid_len": 8, "extra": e, "repeat": r} for e in (0, 1, 2) for r in (2, 4)]
            hin, hout = sc.path("c06_hpkt.in"), sc.path("c06_hpkt.out")
            with open(hin, "w") as f:
                for hc in hcases:
                    f.write(json.dumps(hc) + "\n")
            rc, so, se, dt = vlib.run_go_harness(bin_ctl, "TestVerifC06Hpkt", hin, hout, timeout=600)
            hres = [json.loads(l) for l in open(hout)] if os.path.exists(hout) else []
            hpkt["cases"] = len(hres)
            bad = [(hc, hr) for hc, hr in zip(hcases, hres) if hr.get("panics") or hr.get("errs") or hr.get("writes") != hr.get("sent")]
            if rc != 0 and not bad:
                bad = [(hcases[len(hres)] if len(hres) < len(hcases) else hcases[-1], {"process": "the harness process died (a panic outside recover)", "tail": (so + se)[-1500:]})]
            if bad:
                hpkt["failed"] = len(bad)
                hc, hr = min(bad, key=lambda x: (x[0]["repeat"], x[0]["extra"]))
                out.violation("handlepkt_truncated_initial", {"case": dict(hc, kind="hpkt"), "implementation": hr,
                              "how": "TestVerifC06Hpkt: makeLikelyQuicInitialPayload(0x18) cut to 6+DCIDLen+extra bytes, handed `repeat` times to ControlPlane.handlePkt on one 4-tuple"},
                              "handlePkt panics or withholds a datagram when an Initial-shaped datagram that ends right after its DCID is retransmitted on the same 4-tuple (%d of %d histories)" % (len(bad), len(hcases)),
                              matchers=["handlepkt-truncated-initial-retransmitted"])
        else:
            out.notes.append("handlePkt-level history not run: the repository's test scaffolding it uses no longer builds with the harness: " + str(built.get("hpkt_log", ""))[-400:])
        items = []
        cdir = os.path.join(vlib.VERIF, "corpus", PID)
        ncorpus = 0
        if os.path.isdir(cdir):
            for n in sorted(os.listdir(cdir)):
                j = json.load(open(os.path.join(cdir, n)))
                items.append((j["case"], restore_meta(j.get("meta", {}))))
                ncorpus += 1
        gen = []
        for i in range(n_tcp):
            gen.append(gen_tcp_case(rng, i))
        for i in range(n_quic):
            gen.append(gen_quic_case(rng, i))
        for i in range(n_async):
            gen.append(gen_async_case(rng, i))
        gen += gen_key_cases(rng, args.tier != "quick")
        gen += gen_quic_short_cases(rng, args.tier != "quick")
        try:
            gen += make_session_cases(sc, bin_sniff, rng, n_sess)
        except RuntimeError as e:
            log("session case construction failed: %s" % e)
        items += gen
        all_err, sigs, all_res = {}, [], {}
        tie_broken = None
        shard = 150
        retry_stats = {"shards_retried": 0, "cases_retried": 0, "cases_retried_and_passed": 0, "details": []}
        for s in range(0, len(items), shard):
            errs, sg, results, err = run_batch(sc, binary, items[s:s + shard], "b%d" % s)
            for scale in (4, 16):
                if not err or "harness" not in err:
                    break
                # the harness itself ran into a deadline (loaded machine): wait, then again with longer waits
                retry_stats["shards_retried"] += 1
                time.sleep(2 * scale)
                errs, sg, results, err = run_batch(sc, binary, items[s:s + shard], "b%d" % s, scale=scale)
            if err:
                tie_broken = err
                break
            for i, e in errs.items():
                all_res[s + i] = results[i]
                if e:
                    all_err[s + i] = e
            sigs += sg
        n_eval = len(items)

        # verdicts that depend on real time (janitor ticks, the wall-clock TTLs behind the UDP session, the EOF spin,
        # harness gates that ran into their generous deadline) are re-run before anything is reported:
        # three more attempts, the harness waits scaled x1, x4, x16
        open_ids = set(e["match"] for e in out.kf["open"] if e["property"] == PID)

        def time_sensitive(case, res, codes):
            return bool(res.get("slow")) or case["kind"] in ("async", "sess") or 11 in codes \
                or res.get("relay_st") == "blocked" or res.get("class") == "hang" \
                or (case["kind"] == "tcp" and any(e["st"] == "eofspin" for e in case["script"]))
        for i in sorted(set(all_err) | set(k for k, r in all_res.items() if r.get("slow"))):
            if tie_broken:
                break
            case, meta = items[i]
            codes = all_err.get(i, [])
            res = all_res[i]
            mt = matcher_of(case, meta, res, codes) if codes else "slow"
            if mt in open_ids and not res.get("slow"):
                continue        # a recorded finding, reproduced: nothing to retry
            if not time_sensitive(case, res, codes):
                continue
            retry_stats["cases_retried"] += 1
            for scale, wait in ((None, 0.5), (4, 2), (16, 8)):
                time.sleep(wait)
                errs1, _, res1, err1 = run_batch(sc, binary, [(case, meta)], "retry", scale=scale)
                if err1:
                    continue
                c1, r1 = errs1.get(0, []), res1[0]
                if r1.get("slow"):
                    continue
                all_res[i] = r1
                if c1:
                    all_err[i] = c1
                else:
                    all_err.pop(i, None)
                mt1 = matcher_of(case, meta, r1, c1) if c1 else None
                if not c1 or mt1 in open_ids:
                    retry_stats["cases_retried_and_passed"] += 1
                    retry_stats["details"].append({"index": i, "kind": case["kind"], "first_codes": codes, "first_slow": bool(res.get("slow")), "passed_with_scale": scale or 1})
                    break

        def has_input_failure():
            return any((set(e) & SPEC_CODES) or OOB_CODE in e for e in all_err.values())
        widened = False
        if (not proof_ok or any(set(e) & (MODEL_CODES | THM_CODES) for e in all_err.values())) and not has_input_failure() and not tie_broken:
            widened = True
            extra = [gen_tcp_case(rng, i) for i in range(1500)] + [gen_quic_case(rng, i) for i in range(400)] + [gen_async_case(rng, i) for i in range(120)]
            base = len(items)
            for s in range(0, len(extra), shard):
                errs, sg, results, err = run_batch(sc, binary, extra[s:s + shard], "w%d" % s)
                if err:
                    break
                for i, e in errs.items():
                    all_res[base + s + i] = results[i]
                    if e:
                        all_err[base + s + i] = e
            items += extra
            n_eval = len(items)

        # classify: one report per input class
        by_matcher = {}
        for i in sorted(all_err):
            e = all_err[i]
            if (set(e) & SPEC_CODES) or OOB_CODE in e:
                mt = matcher_of(items[i][0], items[i][1], all_res[i], e)
                by_matcher.setdefault(mt, []).append(i)
        DESCR = {
            "tls-sni-header-at-tail-overread": "findSniExtension reads Range(i+4,i+6) one byte past the record when a server_name extension header sits one byte before the end of the extension block: Go panics when the record ends at the buffer capacity (first read of exactly 4096 bytes), otherwise a foreign byte is read",
            "stale-dataerror-after-sniff-timeout": "after a sniff timeout / read error Sniffer.dataError stays set: the first relay Read returns the buffered bytes together with the stale error although the client keeps sending; the rest of the stream is never relayed",
            "quic-v2-initial-not-recognised": "a well-formed QUIC v2 (RFC 9369) Initial flight is not recognised: v2 Initial packets carry long-packet-type bits 0b01 and the client initial secret label is 'client in' for v2 as well",
        }
        DESCR.update({
            "quic-sniff-panics": "SniffUdp panics on this datagram sequence (e.g. the length arithmetic of DecryptQuic_: an Initial-shaped header whose Length does not cover packet number + 16-byte tag, followed by more bytes in the buffer)",
            "quic-key-fingerprint-parse-panics": "NewPacketSnifferKey / parseQuicInitialFingerprint / ObserveQuicInitial (control/packet_sniffer_pool.go) index past the end of a truncated or malformed Initial-shaped datagram (Go panics)",
            "quic-key-fingerprint-parse-differs": "the session key DCID or the connection fingerprint taken from a datagram differs from the structural reading of its QUIC long header",
            "sniff-deadline-not-fixed-at-construction": "a read of SniffTcp was armed with a deadline other than construction time + sniff timeout (e.g. re-armed as now + timeout before every read): the sniffing timeout no longer bounds the whole sniff, a drip-feeding client keeps SniffTcp and the TCP handler waiting N x gap (observable: the deadlines passed to SetReadDeadline, recorded by the scripted connection)",
            "async-stale-dataerror-after-sniff-timeout": "asynchronous fallback (reader without read deadlines): after the context deadline Sniffer.dataError keeps ctx.Err(); the first relay Read returns the buffered bytes with that stale error and the rest of the stream is never relayed",
            "async-outstanding-read-swallows-relay-bytes": "asynchronous fallback: the read left outstanding by the timed-out sniff completes after the relay has taken the buffer (TakeRelayPrefix / WriteTo); the client's next bytes land in the sniffer buffer and are never handed to the relay",
            "udp-complete-hello-without-name-withheld": "UDP sniff session: a complete QUIC ClientHello that carries no host_name makes SniffQuic set needMore; handlePkt withholds the datagrams (return nil) and nothing ever releases them: retransmissions are withheld too and the session is dropped by the janitor after its TTL",
            "udp-complete-flight-withheld": "UDP sniff session: datagrams of a complete flight are still withheld when the flight is over",
        })
        for mt, idxs in by_matcher.items():
            os.makedirs(out.replay_dir, exist_ok=True)      # a private output directory may have been swept meanwhile
            i = idxs[0]
            case, meta = items[i]
            # smallest failing case of the class first, then greedy shrinking
            def weight(k):
                r = all_res[k]
                sent = sum(len(e["d"]) // 2 for e in items[k][0].get("script", []))
                loses = len(r.get("relay") or "") // 2 < sent
                return (0 if 7 in all_err[k] else 1, 0 if loses else 1, len(json.dumps(items[k][0])))
            i = min(idxs, key=weight)
            case, meta = items[i]
            try:
                if mt in open_ids:      # a recorded finding (printed as KNOWN-FINDING): no need to minimise it again
                    raise LookupError
                small, smeta, res1, codes1 = shrink(sc, binary, case, meta, mt, all_res[i], all_err[i])
            except Exception:  # shrinking is best effort
                small, smeta, res1, codes1 = case, meta, all_res[i], all_err[i]
            payload = {"case": small, "meta": jsonable_meta(smeta), "error_codes": codes1,
                       "implementation": {k: v for k, v in res1.items() if k in ("class", "name", "err", "panic", "relay_st", "dataerr", "cap", "elapsed_ms", "steps")},
                       "how": "feed `case` as one JSON line to TestVerifC06 (VERIF_IN/VERIF_OUT) built with the overlay harness; codes: 2 required name not reported, 6 relay bytes/status differ from what the client sent, 7 panic, 8 invented name, 10 out-of-bounds read in the model, 11 late, 12 datagram altered",
                       "failing_cases_of_this_class": len(idxs)}
            if "steps" in payload["implementation"] and payload["implementation"]["steps"]:
                payload["implementation"]["steps"] = [{k: v for k, v in st.items() if k in ("class", "name", "needmore", "panic", "data_ok")} for st in payload["implementation"]["steps"]]
            out.violation(re.sub(r"[^a-z0-9]+", "_", mt), payload, DESCR.get(mt, "implementation disagrees with the property on this input (codes %s)" % sorted(set(all_err[i]))) + " (%d failing cases)" % len(idxs), matchers=[mt])
        model_fail = sorted(i for i, e in all_err.items() if set(e) & MODEL_CODES)
        thm_fail = sorted(i for i, e in all_err.items() if set(e) & THM_CODES)
        unexplained_model = [i for i in model_fail if not ((set(all_err[i]) & SPEC_CODES) or OOB_CODE in all_err[i])]
        unexplained_thm = [i for i in thm_fail if not ((set(all_err[i]) & SPEC_CODES) or OOB_CODE in all_err[i])]
        if tie_broken or not proof_ok or unexplained_model or unexplained_thm:
            what = {}
            if not proof_ok:
                what["proof"] = pinfo["failed"]
            if tie_broken:
                what["correspondence"] = tie_broken
            if unexplained_model:
                j = unexplained_model[0]
                what["correspondence_case"] = {"case": items[j][0], "errors": all_err[j], "implementation": {k: v for k, v in all_res[j].items() if k in ("class", "name", "err", "buf", "dataerr", "sniff_reads", "relay_st")}}
            if unexplained_thm:
                j = unexplained_thm[0]
                what["model_vs_spec_case"] = {"case": items[j][0], "errors": all_err[j]}
            what["searched"] = "%d cases (widened=%s)" % (n_eval, widened)
            out.violation("tie", what, "proof obligation or model correspondence no longer checks; no failing input of its own", no_failing_input=True)
        distinct = len(set(sigs))
        nontrivial = len(set(s for s in sigs if not (s[0] == "0" and s[1] == "3")))
        kinds = {}
        for c, m in items:
            k = c["kind"] + ("/hello" if "hello" in m and c["kind"] == "tcp" else "/http" if "head" in m else "/" + str(m.get("mal") or ("honest-" + m.get("ver", ""))) if c["kind"] == "quic"
                             else "/" + c["drain"] + "-" + c["sched"] if c["kind"] == "async" else "/" + str(m.get("style")) if c["kind"] == "sess" else "/" + str(m.get("family")) if c["kind"] == "key" else "/other")
            kinds[k] = kinds.get(k, 0) + 1
        sample_i = ncorpus
        cov.update(evaluations=n_eval, distinct_nontrivial=nontrivial, distinct_signatures=distinct,
                   rule="stream cases: ClientHellos from an abstract record (extension order, GREASE, padding to 4095/4096/4097/9000 bytes, session ids, several names, no name, duplicate SNI extension) cut into reads at random points incl. 1-4 byte first reads, empty reads, EOF/timeout/reset mid-way; malformed: truncations, bit flips, length-field mutations, server_name header at the tail of the extension block, random bytes; HTTP/1 heads (16 methods, Host case/whitespace/port/IPv6/empty/duplicate/missing); non-protocol streams. "
                        "datagram cases: QUIC v1/v2 Initial flights built from RFC 9001/9369 with CRYPTO frames split, reordered, duplicated, overlapping, PADDING/PING interleaved, 1-3 datagrams, 1-2 packets each, tokens, 1-4 byte packet numbers; malformed: header/body bit flips, unknown frames, CONNECTION_CLOSE, bad lengths, huge offsets, dropped frames, gaps, raw bytes, wrong type/version. "
                        "signature = (kind, model outcome, reads consumed or datagrams, drain method or plaintexts, expectation present, strict over-read or #found); non-trivial = every signature except plain not-applicable non-protocol streams",
                   case_kinds=kinds,
                   error_code_histogram={str(c): sum(1 for e in all_err.values() if c in e) for c in sorted(set(x for e in all_err.values() for x in e))},
                   traces_validated_against_impl=n_eval - len(model_fail),
                   comparisons="per case: impl outcome/buffer/dataError/reads consumed/relay = model; model outcome and relay = spec expectation; impl outcome and relay = spec expectation; reported name occurs in the client's bytes; no panic; no over-read under the strict locator; not late; datagrams unaltered",
                   samples=[{"case": items[sample_i][0], "implementation_class": all_res.get(sample_i, {}).get("class")}],
                   widened_search=widened, timing_retries=retry_stats, handlepkt_histories=hpkt,
                   open_statements=open_statements())
    return out.finish()


def open_statements():
    """statements kept in C06_Props.v as `Definition <name>_open : Prop` (stated, not yet proved)"""
    src = vlib.strip_coq_comments(open(os.path.join(vlib.COQ, PROPS)).read())
    return re.findall(r"^Definition\s+(\w+_open)\s*:\s*Prop", src, re.M)


def restore_meta(m):
    def unhex(x):
        return bytes.fromhex(x) if isinstance(x, str) else x
    r = dict(m)
    if "hello" in r:
        h = dict(r["hello"])
        for k in ("random", "sid", "suites", "comp"):
            h[k] = unhex(h[k])
        h["exts"] = [("sni", [(t, unhex(n)) for t, n in x[1]]) if x[0] == "sni" else ("other", x[1], unhex(x[2])) for x in h["exts"]]
        r["hello"] = h
    if "head" in r:
        q = dict(r["head"])
        for k in ("method", "target", "version"):
            q[k] = unhex(q[k])
        q["headers"] = [(unhex(k), unhex(v)) for k, v in q["headers"]]
        r["head"] = q
    if "claimed" in r:
        r["claimed"] = unhex(r["claimed"])
    if "frags" in r:
        r["frags"] = [[(o, unhex(d)) for o, d in fl] for fl in r["frags"]]
    return r


if __name__ == "__main__":
    sys.exit(main(sys.argv[1:]))
