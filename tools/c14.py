"""C14 — a group contains exactly the nodes its filters select, each with its annotation (DESIGN.md 6/C14)."""
import copy
import random
import json
import os
import re
import sys

sys.path.insert(0, os.path.dirname(os.path.abspath(__file__)))
import vlib
from vlib import clist, cpair, log

PID = "C14"
PROPS = "C14_Props.v"
TARGETS = ["C14_Props.vo", "C14_Check.vo"]
PKG = "component/outbound"
HARNESS = ["outbound/common_test.go", "outbound/c14_test.go"]

# ----------------------------------------------------------------------------------------------
# generators (all strings are python bytes; hex on the wire)
# ----------------------------------------------------------------------------------------------
NAMES = [b"hk1", b"HK-2", b"hk.1", b"", b"sg-disney", b"sg", b"a", b"ab", b"aba", "日本01".encode(), b"\xff\xfe",
         b"us \"q\" 'x'", b"tw\nline", b"(paren)", b"name", b"regex", b"hk1 ", b"disney+ hk", b"\x00", b"a&&b", b"x:y,z"]
TAGS = [b"", b"my_sub", b"sub1", b"sub2", b"my_", "订阅".encode(), b"\x00", b"a", b"hk1"]
REGEXES = [b"^.*hk.*$", b"hk|sg", b"^$", b"", b".", b"(?i)hk", b"^my_", b"my_", b"\\d+", b"(?<=sg-)disney", b"(?!hk)", b"^(?!.*hk).*$",
           b"a+b", b"^a", b"a$", b"[a-b]{2}", b"\\p{Han}", b"(?s).", b"\\bhk\\b", b"(a)\\1", b"\\x00", b"^.$", b"\xff", b"HK|TW|SG",
           b"(?<n>a)\\k<n>", b"[[:alpha:]]", b"(?#c)a", b"a{2}", b"\\Ahk", b"k1\\z", b"(?>a+)b"]
BAD_REGEXES = [b"[", b"(", b"a{2,1}", b"*a", b"(?<n", b"\\", b")", b"(?P<n>a)", b"[b-a]", b"\\p{Nope}", b"a**", b"(?'n", b"\\k<x>"]
BAD_NAME_KEYS = [b"Regex", b"kw", b"keyword ", b"link", b"exact", b"regexp", b" ", b"name", b"REGEX", b"key word", b"\xc3\xa9"]
BAD_INPUTS = [b"link", b"Name", b"", b"tag", b"subtag ", b"sub_tag", b"names", b"SUBTAG", b"address"]
DURS_OK = [b"5ms", b"0s", b"0", b"-1s", b"1h", b"1.5s", b"100us", "1µs".encode(), "1μs".encode(), b"2h45m", b"9223372036854775807ns",
           b"+3ms", b".5s", b"1ns", b"-0", b"+0", b"0.000000001s", b"1m0.5s", b"2562047h47m16.854775807s", b"0h0m0s", b"00.0ms", b"-5ms"]
DURS_BAD = [b"", b"abc", b"5", b"1e3s", b" 5ms", b"5ms ", b"2562048h", b"9223372036854775808ns", b"5 ms", b"ms", b"1d", b"1.s.", b"--1s",
            b".s", b"1h-1m", b"\xff"]
ANNO_BAD_KEYS = [b"latency", b"add_latency ", b"Add_latency", b"", b"add-latency", b"addlatency", b"name"]
POLICIES = [b"random", b"fixed", b"min_avg10", b"min_moving_avg", b"min"]
BAD_POLICIES = [b"", b"Random", b"min_avg", b"fixed ", b"min_last", b"minimum", b"direct", b"min_avg100", b"FIXED", b"name", b"rand"]
INTS = [b"0", b"1", b"2", b"-1", b"+2", b"007", b"9223372036854775807", b"9223372036854775808", b"-9223372036854775808",
        b"-9223372036854775809", b"1_0", b"0x1", b" 1", b"1 ", b"", b"-", b"+", "１".encode(), b"1.0", b"1e3", b"+-1", b"-+1", b"00",
        b"-0", b"99999999999999999999", b"123456789012345678", b"1234567890123456789", b"12345678901234567890", b"a", b"1a", b"\xb2",
        b"-000000000000000000000000001", b"+9223372036854775807", b"18446744073709551616"]


def pick(rng, xs):
    return xs[rng.randrange(len(xs))]


def gen_pool(rng, big):
    r = rng.random()
    if r < 0.07:
        return []
    n = rng.randint(1, 14 if big else 7)
    base = rng.sample(NAMES, min(len(NAMES), rng.randint(1, 5)))
    tags = rng.sample(TAGS, rng.randint(1, 3))
    pool = []
    for _ in range(n):
        pool.append({"name": pick(rng, base) if rng.random() < 0.85 else pick(rng, NAMES), "tag": pick(rng, tags)})
    return pool


def substr(rng, s):
    if not s:
        return s
    i = rng.randrange(len(s))
    j = rng.randint(i, len(s))
    return s[i:j]


def re_escape(b):
    out = b""
    for c in b:
        ch = bytes([c])
        out += (b"\\" + ch) if ch in b".^$*+?()[]{}|\\ #" else ch
    return out


def gen_param(rng, inp_name, pool, bad):
    """inp_name: b'name' / b'subtag' / other; bad: scale of the probability of invalid fragments"""
    subj = [(n["tag"] if inp_name == b"subtag" else n["name"]) for n in pool] or [pick(rng, NAMES)]
    r = rng.random()
    if r < 0.07 * bad:
        return {"k": pick(rng, BAD_NAME_KEYS), "v": pick(rng, subj)}
    r = rng.random()
    if r < 0.38:
        v = pick(rng, subj) if rng.random() < 0.7 else pick(rng, NAMES + TAGS)
        if rng.random() < 0.1:
            v = v + b" "
        return {"k": b"", "v": v}
    if r < 0.64 and (inp_name != b"subtag" or rng.random() < 0.25 * bad):
        v = substr(rng, pick(rng, subj)) if rng.random() < 0.7 else pick(rng, NAMES)
        return {"k": b"keyword", "v": v}     # invalid on subtag
    if r < 0.94:
        q = rng.random()
        if q < 0.12 * bad:
            v = pick(rng, BAD_REGEXES)
        elif q < 0.55:
            v = pick(rng, REGEXES)
        elif q < 0.7:
            v = b"^" + re_escape(pick(rng, subj)) + b"$"
        elif q < 0.85:
            v = re_escape(substr(rng, pick(rng, subj))) + b".*"
        else:
            v = re_escape(pick(rng, subj)) + b"|" + re_escape(pick(rng, subj))
        return {"k": b"regex", "v": v}
    return {"k": pick(rng, [b"", b"keyword", b"regex"] if bad else [b"", b"regex"]), "v": pick(rng, NAMES + TAGS + REGEXES)}


def gen_func(rng, pool, bad, friendly):
    for _ in range(50):
        r = rng.random()
        if r < 0.08 * bad:
            name = pick(rng, BAD_INPUTS)
        elif r < 0.6:
            name = b"name"
        else:
            name = b"subtag"
        k = pick(rng, [0, 1, 1, 1, 2, 2, 3, 4])
        f = {"name": name, "not": rng.random() < 0.3, "params": [gen_param(rng, name, pool, bad) for _ in range(k)]}
        if not friendly or text_func(f) is not None:
            return f
    return {"name": b"name", "not": False, "params": [{"k": b"", "v": b"a"}]}


def gen_anno(rng, bad, friendly):
    for _ in range(50):
        a = gen_anno1(rng, bad)
        if not friendly or all(text_param(p) is not None for p in a):
            return a
    return []


def gen_anno1(rng, bad):
    r = rng.random()
    if r < 0.16 * bad:
        if r < 0.08 * bad:
            return [{"k": b"add_latency", "v": pick(rng, DURS_BAD)}]
        a = [{"k": pick(rng, ANNO_BAD_KEYS), "v": pick(rng, DURS_OK)}]
        if rng.random() < 0.5:
            a.insert(rng.randint(0, 1), {"k": b"add_latency", "v": pick(rng, DURS_OK)})
        return a
    r = rng.random()
    if r < 0.45:
        return []
    if r < 0.85:
        return [{"k": b"add_latency", "v": pick(rng, DURS_OK)}]
    a = [{"k": b"add_latency", "v": pick(rng, DURS_OK)} for _ in range(rng.randint(2, 3))]
    if rng.random() < 0.6 * bad:      # a malformed value / unknown key at any position among well-formed repeats
        i = rng.randrange(len(a))
        a[i] = {"k": b"add_latency", "v": pick(rng, DURS_BAD)} if rng.random() < 0.7 else {"k": pick(rng, ANNO_BAD_KEYS), "v": pick(rng, DURS_OK)}
    return a


def gen_policy(rng, pool, friendly):
    for _ in range(50):
        p = gen_policy1(rng, pool)
        if not friendly:
            return p
        if p["type"] == "string" and p["s"] and text_value(p["s"]) is not None:
            return p
        if p["type"] == "funcs" and p["fs"] and all(text_func(f) is not None for f in p["fs"]):
            return p
    return {"type": "string", "s": b"min", "fs": []}


def gen_policy1(rng, pool):
    r = rng.random()
    if r < 0.3:
        return {"type": "string", "s": pick(rng, POLICIES) if rng.random() < 0.75 else pick(rng, BAD_POLICIES), "fs": []}
    if r < 0.95:
        def pf():
            name = pick(rng, POLICIES) if rng.random() < 0.45 else (b"fixed" if rng.random() < 0.8 else pick(rng, BAD_POLICIES))
            q = rng.random()
            ints = INTS + [str(len(pool)).encode(), str(len(pool) - 1).encode()]
            if q < 0.7:
                ps = [{"k": b"", "v": pick(rng, ints)}]
            elif q < 0.8:
                ps = []
            elif q < 0.9:
                ps = [{"k": pick(rng, [b"index", b"i", b" "]), "v": pick(rng, ints)}]
            else:
                ps = [{"k": b"", "v": pick(rng, ints)} for _ in range(rng.randint(2, 3))]
            return {"name": name, "not": rng.random() < 0.12, "params": ps}
        if r < 0.6:
            return {"type": "func", "s": b"", "fs": [pf()]}
        k = pick(rng, [0, 1, 1, 1, 1, 2, 3])
        return {"type": "funcs", "s": b"", "fs": [pf() for _ in range(k)]}
    return {"type": "other", "s": b"", "fs": []}


def gen_case(rng, big=False, pool=None):
    if pool is None:
        pool = gen_pool(rng, big)
    bad = pick(rng, [0, 0, 0.3, 0.3, 1])          # share of invalid fragments in this definition
    friendly = rng.random() < 0.5                 # every string expressible as configuration text
    r = rng.random()
    if r < 0.08:
        nl = 0
    else:
        nl = pick(rng, [1, 1, 1, 2, 2, 3, 4, 6 if big else 3])
    lines = []
    for _ in range(nl):
        k = pick(rng, [1, 1, 1, 2, 2, 3]) if (friendly or rng.random() > 0.03) else 0
        lines.append([gen_func(rng, pool, bad, friendly) for _ in range(k)])
    annos = [gen_anno(rng, bad, friendly) for _ in range(nl)]
    if rng.random() < 0.03 * bad:
        if annos and rng.random() < 0.5:
            annos.pop()
        else:
            annos.append(gen_anno(rng, bad, friendly))
    c = {"pool": pool, "lines": lines, "annos": annos, "policy": gen_policy(rng, pool, friendly)}
    t = render_text(c, rng)
    if t is not None:
        c["text"] = t
    return c


def enumerate_small():
    """every single-line, single-function definition over a small parameter alphabet (all inputs incl. an
    unknown one, both polarities, every parameter list of length 0..2) on four pools; annotation and policy
    cycle through a small set."""
    params = [{"k": b"", "v": b"hk"}, {"k": b"", "v": b"s1"}, {"k": b"keyword", "v": b"k"}, {"k": b"keyword", "v": b""},
              {"k": b"regex", "v": b"^h"}, {"k": b"regex", "v": b"1$"}, {"k": b"regex", "v": b"("}, {"k": b"bogus", "v": b"hk"}]
    plists = [[]] + [[p] for p in params] + [[p, q] for p in params for q in params]
    pools = [[], [{"name": b"hk", "tag": b"s1"}], [{"name": b"hk", "tag": b"s1"}, {"name": b"sg1", "tag": b"hk"}],
             [{"name": b"", "tag": b""}, {"name": b"hk", "tag": b"s1"}, {"name": b"hk", "tag": b"s1"}]]
    annos = [[], [{"k": b"add_latency", "v": b"5ms"}], [{"k": b"add_latency", "v": b"x"}], [{"k": b"nope", "v": b"5ms"}],
             [{"k": b"add_latency", "v": b"0s"}, {"k": b"add_latency", "v": b"7ms"}]]
    pols = [{"type": "string", "s": b"min", "fs": []},
            {"type": "funcs", "s": b"", "fs": [{"name": b"fixed", "not": False, "params": [{"k": b"", "v": b"1"}]}]},
            {"type": "func", "s": b"", "fs": [{"name": b"fixed", "not": False, "params": [{"k": b"", "v": b"-1"}]}]}]
    out = []
    n = 0
    rng0 = random.Random(0)
    for inp in (b"name", b"subtag", b"link"):
        for neg in (False, True):
            for pl in plists:
                for pool in pools:
                    c = {"pool": copy.deepcopy(pool), "lines": [[{"name": inp, "not": neg, "params": copy.deepcopy(pl)}]],
                         "annos": [copy.deepcopy(annos[n % len(annos)])], "policy": copy.deepcopy(pols[n % len(pols)])}
                    t = render_text(c, rng0)
                    if t is not None:
                        c["text"] = t
                    out.append(c)
                    n += 1
    return out


def annotation_family():
    """fixed boundary family: every order of {well-formed zero, well-formed non-zero, malformed duration,
    unknown key} of length 1..3 as the annotation of (a) a line some node hits first, (b) a line no node
    hits, (c) a line every node satisfies but only after an earlier line (never the first hit)."""
    import itertools
    reps = {"z": [(b"add_latency", b"0s"), (b"add_latency", b"0"), (b"add_latency", b"-0")],
            "n": [(b"add_latency", b"500ms"), (b"add_latency", b"-1s"), (b"add_latency", b"1h")],
            "m": [(b"add_latency", b"oops"), (b"add_latency", b""), (b"add_latency", b"5")],
            "u": [(b"latency", b"5ms"), (b"Add_latency", b"1s"), (b"add_latency ", b"0s")]}
    pool = [{"name": b"hk-1", "tag": b"sub"}, {"name": b"sg-1", "tag": b"sub"}]
    hk = {"name": b"name", "not": False, "params": [{"k": b"keyword", "v": b"hk"}]}
    zz = {"name": b"name", "not": False, "params": [{"k": b"keyword", "v": b"zz"}]}
    allf = {"name": b"subtag", "not": False, "params": [{"k": b"", "v": b"sub"}]}
    out = []
    n = 0
    rng0 = random.Random(0)
    for ln in (1, 2, 3):
        for combo in itertools.product("znmu", repeat=ln):
            a = []
            for pos, kind in enumerate(combo):
                k, v = reps[kind][(n + pos) % 3]
                a.append({"k": k, "v": v})
            n += 1
            for shape in ("hit", "nohit", "shadowed"):
                if shape == "hit":
                    lines, annos = [[copy.deepcopy(hk)]], [copy.deepcopy(a)]
                elif shape == "nohit":
                    lines, annos = [[copy.deepcopy(zz)], [copy.deepcopy(hk)]], [copy.deepcopy(a), []]
                else:
                    lines, annos = [[copy.deepcopy(allf)], [copy.deepcopy(hk)]], [[{"k": b"add_latency", "v": b"1ms"}], copy.deepcopy(a)]
                c = {"pool": copy.deepcopy(pool), "lines": lines, "annos": annos, "policy": {"type": "string", "s": b"min", "fs": []}}
                t = render_text(c, rng0)
                if t is not None:
                    c["text"] = t
                out.append(c)
    return out


LINKS = [b"socks5://127.0.0.1:1080#shared", b"socks5://127.0.0.1:1081#onlyA", b"socks5://127.0.0.1:1082#onlyB",
         b"socks5://127.0.0.1:1083#hk%201", b"socks5://127.0.0.1:1084", b"http://u:p@1.2.3.4:80#shared", b"socks5://127.0.0.1:1085#%ff%00",
         b"ss://YWVzLTEyOC1nY206cGFzcw@1.2.3.4:8388#ss%E6%97%A5"]
BAD_LINKS = [b"notalink", b"socks5://", b"", b"nosuch://1.2.3.4:1#x"]
LINK_TAGS = [b"alpha", b"beta", b"", b"my_sub", "订阅".encode()]


def guess_name(link):
    import urllib.parse
    return urllib.parse.unquote_to_bytes(link.split(b"#", 1)[1]) if b"#" in link else b""


def with_links(c, tagged, rng):
    c = dict(c)
    c["pool"] = []
    c["from_links"] = True
    c["tagged"] = tagged
    return c


def gen_links_case(rng, big=False):
    """random tagged link lists with frequent duplicates across and within tags; the definition is generated
    against the guessed pool (fragment = name) so that filters hit"""
    tags = rng.sample(LINK_TAGS, rng.randint(1, 3))
    base = rng.sample(LINKS, rng.randint(1, 4))
    tagged = []
    for t in tags:
        k = rng.randint(0, 5 if big else 3)
        ls = [pick(rng, base) if rng.random() < 0.9 else pick(rng, BAD_LINKS + LINKS) for _ in range(k)]
        tagged.append({"tag": t, "links": ls})
    guessed = [{"name": guess_name(l), "tag": e["tag"]} for e in tagged for l in e["links"] if l not in BAD_LINKS]
    c = gen_case(rng, big, pool=guessed)
    total = len(guessed)
    if rng.random() < 0.4:
        c["policy"] = {"type": "funcs", "s": b"", "fs": [{"name": b"fixed", "not": False,
                       "params": [{"k": b"", "v": str(pick(rng, [total - 1, total, max(0, total - 2), len(set(e2 for e in tagged for e2 in e["links"]))])).encode()}]}]}
        c.pop("text", None)
        t = render_text(c, rng)
        if t is not None:
            c["text"] = t
    return with_links(c, tagged, rng)


def links_family():
    """fixed family: the identical link under two tags / twice under one tag / three times mixed / with a
    rejected link in between; x no filter, subtag(X), !subtag(Y), subtag && name, name with annotation;
    policies incl. fixed(i) with i beyond the length a de-duplicated pool would have.  Each case three times:
    the Go map iteration order decides which tag is visited first."""
    sh, a, b = LINKS[0], LINKS[1], LINKS[2]
    pools = [
        [{"tag": b"alpha", "links": [a, sh]}, {"tag": b"beta", "links": [sh, b]}],
        [{"tag": b"alpha", "links": [sh, sh, a]}],
        [{"tag": b"alpha", "links": [sh, a, sh]}, {"tag": b"beta", "links": [sh]}, {"tag": b"", "links": [b]}],
        [{"tag": b"alpha", "links": [a, b"notalink", sh]}, {"tag": b"", "links": [sh, b"socks5://", sh]}],
    ]
    P = lambda k, v: {"k": k, "v": v}
    F = lambda n, neg, ps: {"name": n, "not": neg, "params": ps}
    defs = [
        ([], []),
        ([[F(b"subtag", False, [P(b"", b"alpha")])]], [[]]),
        ([[F(b"subtag", False, [P(b"", b"beta"), P(b"", b"")])]], [[P(b"add_latency", b"5ms")]]),
        ([[F(b"subtag", True, [P(b"", b"alpha")])]], [[]]),
        ([[F(b"subtag", False, [P(b"regex", b"^(beta)?$")]), F(b"name", False, [P(b"keyword", b"sha")])]], [[]]),
        ([[F(b"name", False, [P(b"", b"shared")])], [F(b"subtag", True, [P(b"", b"beta")])]], [[P(b"add_latency", b"1s")], []]),
    ]
    out = []
    n = 0
    rng0 = random.Random(0)
    for tagged in pools:
        total = sum(1 for e in tagged for l in e["links"] if l not in BAD_LINKS)
        distinct = len(set(l for e in tagged for l in e["links"] if l not in BAD_LINKS))
        fx = lambda i: {"type": "funcs", "s": b"", "fs": [F(b"fixed", False, [P(b"", str(i).encode())])]}
        pols = [{"type": "string", "s": b"min", "fs": []}, fx(total - 1), fx(distinct), fx(total)]
        for lines, annos in defs:
            c = {"pool": [], "lines": copy.deepcopy(lines), "annos": copy.deepcopy(annos), "policy": copy.deepcopy(pols[n % len(pols)])}
            n += 1
            t = render_text(c, rng0)
            if t is not None:
                c["text"] = t
            for _ in range(3):
                out.append(with_links(copy.deepcopy(c), copy.deepcopy(tagged), rng0))
    return out


def mk_multi(pool, groups, rng):
    c = {"multi": True, "pool": pool, "groups": groups, "lines": [], "annos": [], "policy": {"type": "string", "s": b"min", "fs": []}}
    return c if render_multi(c, rng) else None


def gen_multi_case(rng, big=False):
    """2-4 groups in one configuration text, filter-less and filtered groups in random order"""
    pool = gen_pool(rng, big)
    n = rng.randint(2, 4)
    for _ in range(20):
        groups = []
        for i in range(n):
            bad = pick(rng, [0, 0, 0, 0.3])
            nl = pick(rng, [0, 0, 1, 1, 2, 3])
            lines = [[gen_func(rng, pool, bad, True) for _ in range(pick(rng, [1, 1, 2]))] for _ in range(nl)]
            annos = [gen_anno(rng, bad, True) for _ in range(nl)]
            groups.append({"name": ("g%d" % i).encode(), "lines": lines, "annos": annos, "policy": gen_policy(rng, pool, True)})
        c = mk_multi(pool, groups, rng)
        if c is not None:
            return c
    return gen_case(rng, big)


def multi_family():
    """fixed family: every order of {filter-less, filtered, filtered with annotation} of length 2 and 3, and the
    length-4 orders with a filter-less group in every position, with rotating policy variants"""
    import itertools
    pool = [{"name": b"hk-1", "tag": b"free"}, {"name": b"jp-1", "tag": b"free"}, {"name": b"hk-2", "tag": b"paid"},
            {"name": b"us-slow", "tag": b"paid"}]
    P = lambda k, v: {"k": k, "v": v}
    F = lambda n, neg, ps: {"name": n, "not": neg, "params": ps}
    kinds = {
        "0": lambda: ([], []),
        "f": lambda: ([[F(b"subtag", False, [P(b"", b"paid")]), F(b"name", True, [P(b"keyword", b"slow")])]], [[]]),
        "a": lambda: ([[F(b"name", False, [P(b"keyword", b"hk")])], [F(b"subtag", False, [P(b"regex", b"^fr")])]],
                      [[P(b"add_latency", b"300ms")], []]),
    }
    fx = lambda i: {"type": "funcs", "s": b"", "fs": [F(b"fixed", False, [P(b"", str(i).encode())])]}
    pols = [{"type": "string", "s": b"min", "fs": []}, fx(3), {"type": "string", "s": b"random", "fs": []}, fx(0),
            {"type": "funcs", "s": b"", "fs": [F(b"min_moving_avg", False, [P(b"", b"x")])]}]
    orders = [o for n in (2, 3) for o in itertools.product("0fa", repeat=n)]
    orders += [o for o in itertools.product("0fa", repeat=4) if o.count("0") in (1, 2) and o[0] != "0"][:14]
    out = []
    k = 0
    rng0 = random.Random(0)
    for o in orders:
        groups = []
        for i, kd in enumerate(o):
            lines, annos = kinds[kd]()
            groups.append({"name": ("g%d" % i).encode(), "lines": lines, "annos": annos, "policy": copy.deepcopy(pols[k % len(pols)])})
            k += 1
        c = mk_multi(copy.deepcopy(pool), groups, rng0)
        assert c is not None
        out.append(c)
    return out


# ----------------------------------------------------------------------------------------------
# wire format
# ----------------------------------------------------------------------------------------------
def hx(b):
    return b.hex()


def wire_params(ps):
    return [{"k": hx(p["k"]), "v": hx(p["v"])} for p in ps]


def wire_funcs(fs):
    return [{"name": hx(f["name"]), "not": f["not"], "params": wire_params(f["params"])} for f in fs]


def wire_case(c):
    return {"pool": [{"name": hx(n["name"]), "tag": hx(n["tag"])} for n in c["pool"]],
            "lines": [wire_funcs(l) for l in c["lines"]],
            "annos": [wire_params(a) for a in c["annos"]],
            "policy": {"type": c["policy"]["type"], "s": hx(c["policy"]["s"]), "fs": wire_funcs(c["policy"]["fs"])},
            **({"text": c["text"]} if c.get("text") else {}),
            **({"from_links": True, "tagged": [{"tag": hx(e["tag"]), "links": [hx(l) for l in e["links"]]} for e in c["tagged"]]}
               if c.get("from_links") else {}),
            **({"groups": [{"name": hx(g["name"]), "lines": [wire_funcs(l) for l in g["lines"]], "annos": [wire_params(a) for a in g["annos"]],
                            "policy": {"type": g["policy"]["type"], "s": hx(g["policy"]["s"]), "fs": wire_funcs(g["policy"]["fs"])},
                            "order": g["order"]} for g in c["groups"]]} if c.get("multi") else {})}


def unwire_case(w):
    ub = bytes.fromhex
    up = lambda ps: [{"k": ub(p["k"]), "v": ub(p["v"])} for p in ps]
    uf = lambda fs: [{"name": ub(f["name"]), "not": f["not"], "params": up(f["params"])} for f in fs]
    return {"pool": [{"name": ub(n["name"]), "tag": ub(n["tag"])} for n in w["pool"]],
            "lines": [uf(l) for l in w["lines"]], "annos": [up(a) for a in w["annos"]],
            "policy": {"type": w["policy"]["type"], "s": ub(w["policy"]["s"]), "fs": uf(w["policy"]["fs"])},
            **({"text": w["text"]} if w.get("text") else {}),
            **({"from_links": True, "tagged": [{"tag": ub(e["tag"]), "links": [ub(l) for l in e["links"]]} for e in w["tagged"]]}
               if w.get("from_links") else {}),
            **({"multi": True, "groups": [{"name": ub(g["name"]), "lines": [uf(l) for l in g["lines"]], "annos": [up(a) for a in g["annos"]],
                                           "policy": {"type": g["policy"]["type"], "s": ub(g["policy"]["s"]), "fs": uf(g["policy"]["fs"])},
                                           "order": g["order"]} for g in w["groups"]]} if w.get("groups") else {})}


# ----------------------------------------------------------------------------------------------
# the same definition as dae configuration text (only when every string is expressible)
# ----------------------------------------------------------------------------------------------
ID_RE = re.compile(rb"^[A-Za-z_][A-Za-z0-9_]*$")


def text_value(b):
    try:
        t = b.decode("utf-8")
    except UnicodeDecodeError:
        return None
    if t.endswith("\\") or "\ufffd" in t:
        return None
    if "'" not in t:
        return "'" + t + "'"
    if '"' not in t:
        return '"' + t + '"'
    return None


def text_param(p):
    v = text_value(p["v"])
    if v is None:
        return None
    if p["k"] == b"":
        return v
    if not ID_RE.match(p["k"]):
        return None
    return p["k"].decode() + ": " + v


def text_func(f):
    if not ID_RE.match(f["name"]) or not f["params"]:
        return None      # the grammar has no empty parameter list
    ps = [text_param(p) for p in f["params"]]
    if any(x is None for x in ps):
        return None
    return ("!" if f["not"] else "") + f["name"].decode() + "(" + ", ".join(ps) + ")"


def render_group_body(c, rng):
    """(body lines, item order) of one group section, or None; order entries: int j = filter line j, "p" = policy"""
    if len(c["lines"]) != len(c["annos"]):
        return None
    out = []
    for l, a in zip(c["lines"], c["annos"]):
        if not l:
            return None
        fs = [text_func(f) for f in l]
        if any(x is None for x in fs):
            return None
        line = "filter: " + " && ".join(fs)
        if a:
            ps = [text_param(p) for p in a]
            if any(x is None for x in ps):
                return None
            line += " [" + ", ".join(ps) + "]"
        out.append(line)
    pol = c["policy"]
    if pol["type"] == "string":
        v = text_value(pol["s"])
        if v is None or pol["s"] == b"":
            return None
        pl = "policy: " + (pol["s"].decode() if ID_RE.match(pol["s"]) and rng.random() < 0.7 else v)
    elif pol["type"] == "funcs" and pol["fs"]:
        fs = [text_func(f) for f in pol["fs"]]
        if any(x is None for x in fs):
            return None
        pl = "policy: " + " && ".join(fs)
    else:
        return None
    body = out + [pl]
    order = list(range(len(out))) + ["p"]
    if rng.random() < 0.5:      # the policy may come before or between the filter lines
        k = rng.randint(0, len(out))
        body.insert(k, body.pop())
        order.insert(k, order.pop())
    return body, order


def render_text(c, rng):
    """returns configuration text declaring exactly this group, or None"""
    b = render_group_body(c, rng)
    if b is None:
        return None
    return ("global {}\nrouting {\n  fallback: direct\n}\ngroup {\n  g {\n    " + "\n    ".join(b[0]) + "\n  }\n}\n")


def render_multi(c, rng):
    """several groups in one configuration; sets c['text'] and each group's 'order'; False if not expressible"""
    secs = []
    for g in c["groups"]:
        b = render_group_body(g, rng)
        if b is None or not ID_RE.match(g["name"]):
            return False
        g["order"] = b[1]
        secs.append("  " + g["name"].decode() + " {\n    " + "\n    ".join(b[0]) + "\n  }")
    c["text"] = "global {}\nrouting {\n  fallback: direct\n}\ngroup {\n" + "\n".join(secs) + "\n}\n"
    return True


def show(b):
    return b.decode("utf-8", "backslashreplace")


def pretty_case(c):
    def pp(p):
        return (show(p["k"]) + ": " if p["k"] else "") + repr(show(p["v"]))

    def pf(f):
        return ("!" if f["not"] else "") + show(f["name"]) + "(" + ", ".join(pp(p) for p in f["params"]) + ")"
    pol = c["policy"]
    if pol["type"] == "string":
        ps = repr(show(pol["s"]))
    elif pol["type"] == "other":
        ps = "<non-function value>"
    else:
        ps = " && ".join(pf(f) for f in pol["fs"]) + (" (single function)" if pol["type"] == "func" else " (list)")
    if c.get("multi"):
        return {"pool": ["%d: name=%r subtag=%r" % (i, show(n["name"]), show(n["tag"])) for i, n in enumerate(c["pool"])],
                "groups_declared_in_one_configuration": [{"name": show(g["name"]), **{k: v for k, v in pretty_case({"pool": [], **g}).items() if k != "pool"}}
                                                         for g in c["groups"]],
                "config_text": c.get("text")}
    if c.get("from_links"):
        pl = {"subscription_tag -> links (pool built by NewDialerSetFromLinks)": {show(e["tag"]): [show(l) for l in e["links"]] for e in c["tagged"]}}
    else:
        pl = {"pool": ["%d: name=%r subtag=%r" % (i, show(n["name"]), show(n["tag"])) for i, n in enumerate(c["pool"])]}
    return {**pl,
            "filter_lines": [" && ".join(pf(f) for f in l) for l in c["lines"]],
            "annotations": ["[" + ", ".join(pp(p) for p in a) + "]" for a in c["annos"]],
            "policy": ps, **({"config_text": c["text"]} if c.get("text") else {})}


# ----------------------------------------------------------------------------------------------
# Coq printing
# ----------------------------------------------------------------------------------------------
class StrPool:
    def __init__(self):
        self.names = {}

    def s(self, b):
        if b not in self.names:
            self.names[b] = "s%d" % len(self.names)
        return self.names[b]

    def header(self):
        out = []
        for b, nm in self.names.items():
            if all(32 <= c < 127 for c in b):
                out.append('Definition %s : string := "%s".\n' % (nm, b.decode().replace('"', '""')))
            else:
                out.append("Definition %s : string := Eval vm_compute in bs [%s]%%N.\n" % (nm, ";".join(str(c) for c in b)))
        return "".join(out)


def cZ(n):
    return "(%d)%%Z" % n


ERR_CTOR = {"bad_regex": "EBadRegex", "unknown_key": "EUnknownKey", "unknown_input": "EUnknownInput", "anno_format": "EAnnoFormat",
            "anno_key": "EAnnoKey", "len_mismatch": "ELenMismatch", "pol_type": "EPolType", "pol_count": "EPolCount",
            "pol_not": "EPolNot", "pol_format": "EPolFormat", "pol_atoi": "EPolAtoi", "pol_unknown": "EPolUnknown",
            "sel_empty": "ESelEmpty", "sel_range": "ESelRange"}
KIND_CTOR = {"random": "PRandom", "fixed": "PFixed", "min_avg10": "PMinAvg10", "min_moving_avg": "PMinMovingAvg", "min": "PMinLast"}


def case_to_coq(c, r, sp):
    s = sp.s

    def cp(p):
        return "(mkParam %s %s)" % (s(p["k"]), s(p["v"]))

    def cf(f):
        return "(mkFunc %s %s %s)" % (s(f["name"]), vlib.cbool(f["not"]), clist([cp(p) for p in f["params"]]))
    if c.get("from_links"):
        # the map entries in the iteration order the implementation took (first appearance in its pool; tags
        # it shows no node for keep the case's order, after the others)
        seen = []
        for t, _ in r.get("impl_pool") or []:
            if bytes.fromhex(t) not in seen:
                seen.append(bytes.fromhex(t))
        by_tag = {e["tag"]: e for e in c["tagged"]}
        order = [by_tag[t] for t in seen if t in by_tag] + [e for e in c["tagged"] if e["tag"] not in seen]
        names = {bytes.fromhex(k): (None if v is None else bytes.fromhex(v)) for k, v in (r.get("links") or {}).items()}
        pool_nodes = [{"name": names[l], "tag": e["tag"]} for e in order for l in e["links"] if names.get(l) is not None]
        link_part = "true %s %s %s" % (
            clist([cpair(s(e["tag"]), clist([s(l) for l in e["links"]])) for e in order]),
            clist([cpair(s(k), "None" if v is None else "(Some %s)" % s(v)) for k, v in names.items()]),
            clist([cpair(s(bytes.fromhex(t)), s(bytes.fromhex(n))) for t, n in (r.get("impl_pool") or [])]))
    else:
        pool_nodes = c["pool"]
        link_part = "false [] [] []"
    pool = clist(["(mkNode %d%%N %s %s)" % (i, s(n["name"]), s(n["tag"])) for i, n in enumerate(pool_nodes)])
    lines = clist([clist([cf(f) for f in l]) for l in c["lines"]])
    annos = clist([clist([cp(p) for p in a]) for a in c["annos"]])
    pol = c["policy"]
    if pol["type"] == "string":
        cpol = "(PRString %s)" % s(pol["s"])
    elif pol["type"] == "func":
        cpol = "(PRFunc %s)" % cf(pol["fs"][0])
    elif pol["type"] == "funcs":
        cpol = "(PRFuncs %s)" % clist([cf(f) for f in pol["fs"]])
    else:
        cpol = "PROther"
    res = []
    for pat, e in r["re"].items():
        m = clist([cpair(s(bytes.fromhex(k)), vlib.cbool(v)) for k, v in (e.get("m") or {}).items()])
        res.append(cpair(s(bytes.fromhex(pat)), cpair(vlib.cbool(e["ok"]), m)))
    durs = [cpair(s(bytes.fromhex(k)), "None" if v is None else "(Some %s)" % cZ(v)) for k, v in r["dur"].items()]
    if r.get("err"):
        impl = "(Err %s)" % ERR_CTOR[r["err"]]
    else:
        impl = "(Ok %s)" % clist([cpair("%d%%N" % a, cZ(b)) for a, b in r["members"]])
    if r.get("perr"):
        ipol = "(Err %s)" % ERR_CTOR[r["perr"]]
    else:
        ipol = "(Ok (%s, %s))" % (KIND_CTOR[r["policy"]["kind"]], cZ(r["policy"]["index"]))
    fx = r.get("fixed")
    if not fx:
        ifx = "None"
    elif fx.get("err"):
        ifx = "(Some (Err %s))" % ERR_CTOR[fx["err"]]
    else:
        ifx = "(Some (Ok %d%%N))" % fx["idx"]
    return "(mkCase %s\n  %s\n  %s\n  %s\n  %s\n  %s\n  %s %s %s\n  %s)" % (pool, lines, annos, cpol, clist(res), clist(durs), impl, ipol, ifx, link_part)


# ----------------------------------------------------------------------------------------------
# translator: the string constants the code switches on, read from the sources on every run
# ----------------------------------------------------------------------------------------------
CONST_SOURCES = [
    ("component/outbound/filter.go", ["FilterInput_Name", "FilterInput_SubscriptionTag", "FilterKey_Name_Regex",
                                      "FilterKey_Name_Keyword", "FilterInput_SubscriptionTag_Regex"]),
    ("component/outbound/dialer/annotation.go", ["AnnotationKey_AddLatency"]),
    ("common/consts/dialer.go", ["DialerSelectionPolicy_Random", "DialerSelectionPolicy_Fixed", "DialerSelectionPolicy_MinAverage10Latencies",
                                 "DialerSelectionPolicy_MinMovingAverageLatencies", "DialerSelectionPolicy_MinLastLatency"]),
]


def translate_consts():
    lines = ["(* GENERATED by tools/c14.py from the Go sources on every run - do not edit. *)",
             "From Coq Require Import String.", "Open Scope string_scope.", ""]
    missing = []
    for rel, names in CONST_SOURCES:
        try:
            src = open(os.path.join(vlib.REPO, rel)).read()
        except OSError:
            src = ""
        for n in names:
            m = re.search(r"^\s*" + re.escape(n) + r"\b[^=\n]*=\s*\"([^\"\\\n]*)\"", src, re.M)
            if not m:
                missing.append(rel + ":" + n)
                val = "<missing>"
            else:
                val = m.group(1)
            lines.append('Definition go_%s : string := "%s".  (* %s *)' % (n, val, rel))
    # shape: in config.SectionParser the per-group element is allocated inside the loop over the group sections
    try:
        psrc = open(os.path.join(vlib.REPO, "config/parser.go")).read()
    except OSError:
        psrc = ""
    in_loop = bool(re.search(r"for\s+_,\s*item\s*:=\s*range\s+section\.Items\s*\{\s*\n\s*elem\s*:=\s*reflect\.New\(elemType\)\.Elem\(\)", psrc))
    lines.append("Definition go_group_elem_allocated_in_loop : bool := %s.  (* config/parser.go SectionParser *)" % ("true" if in_loop else "false"))
    vlib.write_if_changed(os.path.join(vlib.COQ, "gen", "C14_Consts.v"), "\n".join(lines) + "\n")
    return missing


def multi_to_coq(c, r, sp):
    s = sp.s

    def cp(p):
        return "(mkParam %s %s)" % (s(p["k"]), s(p["v"]))

    def cf(f):
        return "(mkFunc %s %s %s)" % (s(f["name"]), vlib.cbool(f["not"]), clist([cp(p) for p in f["params"]]))

    def cpol(pol):
        if pol["type"] == "string":
            return "(PRString %s)" % s(pol["s"])
        if pol["type"] == "func":
            return "(PRFunc %s)" % cf(pol["fs"][0])
        if pol["type"] == "funcs":
            return "(PRFuncs %s)" % clist([cf(f) for f in pol["fs"]])
        return "PROther"
    secs = []
    for g in c["groups"]:
        items = []
        for o in g["order"]:
            if o == "p":
                items.append("(IPolicy %s)" % cpol(g["policy"]))
            else:
                items.append("(IFilter %s %s)" % (clist([cf(f) for f in g["lines"][o]]), clist([cp(p) for p in g["annos"][o]])))
        secs.append(cpair(s(g["name"]), clist(items)))
    impl = []
    for sub in r["multi"]:
        d = unwire_case({"pool": [], "lines": sub["decoded"]["lines"], "annos": sub["decoded"]["annos"],
                         "policy": {"type": sub["decoded"]["policy"]["type"], "s": sub["decoded"]["policy"].get("s") or "",
                                    "fs": sub["decoded"]["policy"].get("fs") or []}})
        impl.append("(mkGroup %s %s %s (Some %s))" % (s(bytes.fromhex(sub["decoded"]["name"])),
                                                      clist([clist([cf(f) for f in l]) for l in d["lines"]]),
                                                      clist([clist([cp(p) for p in a]) for a in d["annos"]]), cpol(d["policy"])))
    return "(mkMulti %s\n  %s)" % (clist(secs), clist(impl))


SPEC_CODES = (2, 5, 9, 10, 12, 13, 18)
MODEL_CODES = (1, 4, 7, 8, 11, 14, 16, 17)
THM_CODES = (3, 6, 15, 19)


def run_batch(sc, binary, cases, tag):
    """run cases on the implementation, evaluate in Coq.
    returns (errors: {i: [codes]}, sigs: [tuple], results, err)"""
    inp = sc.path("c14_%s.in" % tag)
    outp = sc.path("c14_%s.out" % tag)
    with open(inp, "w") as f:
        for c in cases:
            f.write(json.dumps(wire_case(c)) + "\n")
    rc, so, se, dt = vlib.run_go_harness(binary, "TestVerifC14", inp, outp)
    if rc != 0:
        return None, None, None, "harness failed rc=%d: %s %s" % (rc, so[-2000:], se[-2000:])
    results = [json.loads(l) for l in open(outp)]
    if len(results) != len(cases):
        return None, None, None, "harness answered %d of %d cases" % (len(results), len(cases))
    sp = StrPool()
    terms = []
    pre = {}
    flat = []       # (parent case index, single-group case, its result)
    multis = []     # (parent case index, Coq multi_case term)
    for i, (c, r) in enumerate(zip(cases, results)):
        if not c.get("multi"):
            flat.append((i, c, r))
            continue
        if r.get("panic"):
            pre.setdefault(i, []).append(9)
            continue
        if r.get("text") != "parsed" or len(r.get("multi") or []) != len(c["groups"]):
            pre.setdefault(i, []).append(10)    # text rejected / number of decoded groups differs
            continue
        for g, sub in zip(c["groups"], r["multi"]):
            sr = dict(sub)
            sr["re"], sr["dur"] = r["re"], r["dur"]
            sr.pop("text", None)
            flat.append((i, {"pool": c["pool"], "lines": g["lines"], "annos": g["annos"], "policy": g["policy"]}, sr))
        multis.append((i, multi_to_coq(c, r, sp)))
    parents = []
    for i, c, r in flat:
        parents.append(i)
        if r.get("panic"):
            pre.setdefault(i, []).append(9)
            terms.append(None)
            continue
        bad = []
        if r.get("err") and r["err"] not in ERR_CTOR:
            bad.append(8)
        if r.get("perr") and r["perr"] not in ERR_CTOR:
            bad.append(8)
        if not r.get("perr") and (r.get("policy") or {}).get("kind") not in KIND_CTOR:
            bad.append(8)
        if any(a < 0 for a, b in (r.get("members") or [])):
            bad.append(9)      # a member that is not a pool node / has no annotation
        fx = r.get("fixed")
        if fx and (fx.get("err") == "other" or (fx.get("err") and fx["err"] not in ERR_CTOR)):
            bad.append(8)
        if fx and fx.get("group"):
            bad.append(9)      # the DialerGroup does not hold the members/annotations FilterAndAnnotate returned
        if r.get("text") and r["text"] != "same":
            bad.append(10)     # the production parser reads the configuration text as a different definition
        if bad:
            pre.setdefault(i, []).extend(bad)
            terms.append(None)
            continue
        terms.append(case_to_coq(c, r, sp))
    idx = [k for k, t in enumerate(terms) if t is not None]
    errors = {k: list(v) for k, v in pre.items()}
    sigs = []
    if idx or multis:
        text = ("From Coq Require Import List String Ascii ZArith NArith Bool.\n"
                "From Dae Require Import C14_Spec C14_Model C14_Check.\nImport ListNotations.\nOpen Scope string_scope.\nOpen Scope list_scope.\n"
                + sp.header() +
                "Definition cases : list obs_case := [\n" + ";\n".join(terms[i] for i in idx) + "\n].\n"
                "Definition R := Eval vm_compute in map check_case cases.\nPrint R.\n"
                "Definition S := Eval vm_compute in map case_signature cases.\nPrint S.\n"
                "Definition multis : list multi_case := [\n" + ";\n".join(t for _, t in multis) + "\n].\n"
                "Definition RM := Eval vm_compute in map check_multi multis.\nPrint RM.\n")
        cname = "C14_cases_%s_%d" % (tag, os.getpid())
        ok, outtxt = vlib.coq_eval(cname, text, timeout=400)
        if ok:
            try:
                os.remove(os.path.join(vlib.COQ, "cases", cname + ".v"))
            except OSError:
                pass
        if not ok:
            return None, None, None, "coq evaluation failed: " + outtxt[-3000:]
        m = re.search(r"R\s*=\s*(.*?)\n\s*:\s*list", outtxt, re.S)
        body = re.sub(r"\s+|%N", "", m.group(1))
        per = re.findall(r"\[([\d;]*)\]", body[1:-1])
        if len(per) != len(idx):
            return None, None, None, "cannot parse coq output (%d vs %d): %s" % (len(per), len(idx), body[:500])
        for k, p in zip(idx, per):
            codes = [int(x) for x in p.split(";") if x]
            if codes:
                errors.setdefault(parents[k], []).extend(x for x in codes if x not in errors.get(parents[k], []))
        mm = re.search(r"RM\s*=\s*(.*?)\n\s*:\s*list", outtxt, re.S)
        bodym = re.sub(r"\s+|%N", "", mm.group(1)) if mm else "[]"
        perm = re.findall(r"\[([\d;]*)\]", bodym[1:-1])
        if len(perm) != len(multis):
            return None, None, None, "cannot parse coq multi output (%d vs %d): %s" % (len(perm), len(multis), bodym[:500])
        for (pi, _), p in zip(multis, perm):
            codes = [int(x) for x in p.split(";") if x]
            if codes:
                errors.setdefault(pi, []).extend(x for x in codes if x not in errors.get(pi, []))
        m2 = re.search(r"S\s*=\s*(.*?)\n\s*:\s*list", outtxt, re.S)
        sigs = re.findall(r"\((\d+),(\d+),(\d+),(\d+),(\d+),(\d+)\)", re.sub(r"\s+|%N", "", m2.group(1))) if m2 else []
    return errors, sigs, results, None


# ----------------------------------------------------------------------------------------------
# shrinking: one batch per round with every single-step reduction of the current case
# ----------------------------------------------------------------------------------------------
def reductions(c):
    if c.get("multi"):
        return reductions_multi(c)
    out = []

    def with_(path_fn):
        d = copy.deepcopy(c)
        if path_fn(d) is not False:
            had = d.pop("text", None)
            if had:
                t = render_text(d, random.Random(0))
                if t:
                    d["text"] = t
            out.append(d)
    if c.get("from_links"):
        for i, e in enumerate(c["tagged"]):
            with_(lambda d, i=i: d["tagged"].pop(i))
            for j in range(len(e["links"])):
                with_(lambda d, i=i, j=j: d["tagged"][i]["links"].pop(j))
    for i in range(len(c["pool"])):
        with_(lambda d, i=i: d["pool"].pop(i))
    for i in range(len(c["lines"])):
        def rm(d, i=i):
            d["lines"].pop(i)
            if i < len(d["annos"]):
                d["annos"].pop(i)
        with_(rm)
        for j in range(len(c["lines"][i])):
            with_(lambda d, i=i, j=j: d["lines"][i].pop(j) if len(d["lines"][i]) > 1 else False)
            f = c["lines"][i][j]
            if f["not"]:
                with_(lambda d, i=i, j=j: d["lines"][i][j].__setitem__("not", False))
            for k in range(len(f["params"])):
                with_(lambda d, i=i, j=j, k=k: d["lines"][i][j]["params"].pop(k))
    for i in range(len(c["annos"])):
        for k in range(len(c["annos"][i])):
            with_(lambda d, i=i, k=k: d["annos"][i].pop(k))
    def shorter(b):
        return [x for x in {b[:len(b) // 2], b[1:], b[:-1]} if x != b] if b else []
    for i, n in enumerate(c["pool"]):
        for fld in ("name", "tag"):
            for v in shorter(n[fld]):
                with_(lambda d, i=i, fld=fld, v=v: d["pool"][i].__setitem__(fld, v))
    for i, l in enumerate(c["lines"]):
        for j, f in enumerate(l):
            for k, p in enumerate(f["params"]):
                for v in shorter(p["v"]):
                    with_(lambda d, i=i, j=j, k=k, v=v: d["lines"][i][j]["params"][k].__setitem__("v", v))
    if c["policy"] != {"type": "string", "s": b"random", "fs": []}:
        with_(lambda d: d.__setitem__("policy", {"type": "string", "s": b"random", "fs": []}))
    pol = c["policy"]
    for i in range(len(pol["fs"])):
        if pol["type"] == "funcs":
            with_(lambda d, i=i: d["policy"]["fs"].pop(i))
        for k in range(len(pol["fs"][i]["params"])):
            with_(lambda d, i=i, k=k: d["policy"]["fs"][i]["params"].pop(k))
        if pol["fs"][i]["not"]:
            with_(lambda d, i=i: d["policy"]["fs"][i].__setitem__("not", False))
    return out


def reductions_multi(c):
    out = []

    def add(d):
        d.pop("text", None)
        if render_multi(d, random.Random(0)):
            out.append(d)
    if len(c["groups"]) > 1:
        for i in range(len(c["groups"])):
            d = copy.deepcopy(c)
            d["groups"].pop(i)
            add(d)
    for i in range(len(c["pool"])):
        d = copy.deepcopy(c)
        d["pool"].pop(i)
        add(d)
    for i, g in enumerate(c["groups"]):
        view = {"pool": [], "lines": g["lines"], "annos": g["annos"], "policy": g["policy"]}
        for v in reductions(view):
            d = copy.deepcopy(c)
            d["groups"][i].update(lines=v["lines"], annos=v["annos"], policy=v["policy"])
            add(d)
    return out


def shrink(sc, binary, case, want_codes, max_rounds=int(os.environ.get("VERIF_C14_SHRINK_ROUNDS", "40"))):
    cur = case
    for rnd in range(max_rounds):
        cands = reductions(cur)
        if not cands:
            break
        errs, _, _, err = run_batch(sc, binary, cands, "shrink")
        if err:
            break
        nxt = None
        for i, cand in enumerate(cands):
            if any(code in want_codes for code in errs.get(i, [])):
                nxt = cand
                break
        if nxt is None:
            break
        cur = nxt
    return cur


def matcher_ids(case, result, codes):
    ids = []
    if 9 in codes:
        ids.append("panic")
    if 2 in codes:
        ids.append("group.impl_%s" % (("err_" + result.get("err")) if result.get("err") else "ok"))
    if 18 in codes:
        ids.append("groups.not_decoded_independently")
    if 13 in codes:
        ids.append("pool.not_one_per_occurrence")
    if 12 in codes:
        ids.append("fixed.impl_%s" % ((result.get("fixed") or {}).get("err") or "ok"))
    if 10 in codes:
        ids.append("text." + (result.get("text") or "").split(":")[0])
    if 5 in codes:
        ids.append("policy.impl_%s" % (("err_" + result.get("perr")) if result.get("perr") else "ok_" + str((result.get("policy") or {}).get("kind", "unknown"))))
    return ids


def main(argv):
    args = vlib.main_args(argv)
    out = vlib.Outcome(PID, args.tier, args.seed)
    rng = vlib.rng_for(args.seed, PID)
    n_cases = 600 if args.tier == "quick" else 12000

    missing_consts = translate_consts()
    proof_ok, pinfo = vlib.proof_stage(out, PROPS, TARGETS)
    cov = {"obligations": pinfo["obligations"], "discharged": pinfo["discharged"],
           "checker_cmd": "cd /verif/coq && coq_makefile -f _CoqProject -o Makefile && make -j16 " + " ".join(TARGETS) + " && coqc -Q . Dae C14_Props.v (Print Assumptions captured)",
           "theorems": pinfo.get("theorems", []),
           "print_assumptions": pinfo.get("assumptions", []),
           "trusted_base": vlib.TRUSTED_BASE_COMMON + [
               "oracles: regexp2.Compile/MatchString and time.ParseDuration answers are measured by the harness with the same libraries and supplied as data of each case (theorems quantify over all such functions)",
               "strings.Contains modelled by containsb (proved = substring), strconv.Atoi by parse_int; both compared with the real calls on every case",
               "the harness builds the DialerSet from (name, subscription tag) pairs with dialer.NewDialer over a no-op inner dialer; error classes are recognised by message prefix"]}
    out.coverage = cov
    out.assumptions = ["node pool order is the order of DialerSet.dialers (production fills it by iterating a Go map of subscriptions, outside this property)",
                       "regexp2 match errors (timeouts) do not occur: the code ignores them and no timeout is configured",
                       "fixed(i) range is checked at selection time, not at configuration time (property C15)"]

    with vlib.Scratch() as sc:
        binary, blog = vlib.build_go_test_binary(sc, PKG, HARNESS)
        if binary is None:
            out.violation("build", {"broken": "harness build against the repository failed", "log": blog[-3000:]},
                          "correspondence harness no longer builds against /repo", no_failing_input=True)
            cov.update(evaluations=0, distinct_nontrivial=0, rule="-", samples=[], traces_validated_against_impl=0)
            return out.finish()
        corpus = []
        cdir = os.path.join(vlib.VERIF, "corpus", PID)
        if os.path.isdir(cdir):
            for n in sorted(os.listdir(cdir)):
                if n.endswith(".json"):
                    corpus.append(unwire_case(json.load(open(os.path.join(cdir, n)))["case"]))
        if args.replay:
            rp = json.load(open(args.replay))
            cases = [unwire_case(rp["replay"]["case"])]
            corpus = []
            n_enum = 0
        else:
            small = enumerate_small()
            if args.tier == "quick":
                small = rng.sample(small, 80)
            small = annotation_family() + links_family() + multi_family() + small      # these families run in full in both tiers
            cases = corpus + small + [(gen_links_case(rng, big=(i % 5 == 0)) if i % 6 == 3 else
                                       gen_multi_case(rng, big=(i % 5 == 0)) if i % 12 == 7 else gen_case(rng, big=(i % 5 == 0)))
                                      for i in range(n_cases)]
            n_enum = len(small)
        all_err = {}
        all_res = {}
        all_results = []
        sigs = []
        shard = 1500
        tie_broken = None

        def run_all(cs, base, tagp):
            nonlocal tie_broken, sigs
            for s in range(0, len(cs), shard):
                errs, sg, results, err = run_batch(sc, binary, cs[s:s + shard], "%s%d" % (tagp, s))
                if err:
                    tie_broken = err
                    return
                for i, e in errs.items():
                    all_err[base + s + i] = e
                    all_res[base + s + i] = results[i]
                all_results.extend(results)
                sigs += sg
        run_all(cases, 0, "b")
        n_eval = len(cases)
        widened = False
        has_spec_fail = any(any(code in SPEC_CODES for code in e) for e in all_err.values())
        need_widen = (not proof_ok) or any(any(code in MODEL_CODES + THM_CODES for code in e) for e in all_err.values())
        if need_widen and not has_spec_fail and not tie_broken and not args.replay:
            widened = True
            extra = [gen_case(rng, big=True) for _ in range(10 * n_cases if args.tier == "quick" else n_cases)]
            base = len(cases)
            cases += extra
            run_all(extra, base, "w")
            n_eval = len(cases)

        spec_fail = sorted(i for i, e in all_err.items() if any(code in SPEC_CODES for code in e))
        model_fail = sorted(i for i, e in all_err.items() if any(code in MODEL_CODES for code in e))
        thm_fail = sorted(i for i, e in all_err.items() if any(code in THM_CODES for code in e))
        if spec_fail:
            # report one violation per distinct matcher class (known findings are suppressed per class)
            seen = set()
            for i in spec_fail:
                codes = [c for c in all_err[i] if c in SPEC_CODES]
                ids = tuple(matcher_ids(cases[i], all_res[i], codes))
                if ids in seen:
                    continue
                seen.add(ids)
                small = shrink(sc, binary, cases[i], codes) if 9 not in codes else cases[i]
                errs, _, results, err = run_batch(sc, binary, [small], "final")
                res = results[0] if results else all_res[i]
                if res.get("impl_pool") is not None:
                    res["impl_pool_readable"] = ["tag=%r name=%r" % (show(bytes.fromhex(t)), show(bytes.fromhex(n))) for t, n in res["impl_pool"]]
                mids = matcher_ids(small, res, codes)
                what = []
                if 2 in codes:
                    what.append("group membership/annotation/error differs from the spec")
                if 5 in codes:
                    what.append("policy validation differs from the spec")
                if 18 in codes:
                    what.append("a group declared in a multi-group configuration is not decoded from its own items alone (config.New)")
                if 13 in codes:
                    what.append("the pool built from the tagged links does not have exactly one node per (subscription tag, link) occurrence")
                if 12 in codes:
                    what.append("fixed(i) does not select the i-th member of the group / out-of-range not reported")
                if 10 in codes:
                    what.append("the production parser reads the group's configuration text as a different definition: " + str(res.get("text")))
                if 9 in codes:
                    what.append("implementation panicked or returned a non-pool member")
                out.violation("impl_vs_spec_" + "_".join(mids).replace(".", "-"),
                              {"case": wire_case(small), "readable": pretty_case(small),
                               "implementation_answer": {k: res.get(k) for k in ("members", "err", "errmsg", "policy", "perr", "perrmsg", "fixed", "panic", "text", "impl_pool_readable", "multi") if res.get(k) is not None},
                               "codes": all_err[i], "original_case_index": i, "matchers": mids,
                               "how": "./check C14 --replay <this file>  (feeds the case to TestVerifC14 in component/outbound and evaluates model and spec in Coq); "
                                      "codes: 2 group answer not allowed by spec, 5 policy answer not allowed by spec, 9 panic / foreign member, 10 configuration text parsed differently, 12 fixed(i) selection wrong, 13 pool is not one node per (tag, link) occurrence, 18 a group of a multi-group configuration is not decoded from its own items alone"},
                              "; ".join(what) + " (%d failing cases of this run)" % len(spec_fail), matchers=mids)
                if len(seen) >= 4:
                    break
        elif model_fail or thm_fail or tie_broken or not proof_ok:
            what = {}
            if not proof_ok:
                what["proof"] = pinfo["failed"]
            if tie_broken:
                what["correspondence"] = tie_broken
            if model_fail:
                i = model_fail[0]
                what["correspondence_case"] = {"case": wire_case(cases[i]), "readable": pretty_case(cases[i]), "codes": all_err[i],
                                               "implementation_answer": all_res.get(i)}
            if thm_fail:
                i = thm_fail[0]
                what["model_vs_spec_case"] = {"case": wire_case(cases[i]), "readable": pretty_case(cases[i]), "codes": all_err[i]}
            what["searched"] = "%d cases (widened=%s) with no impl<>spec disagreement" % (n_eval, widened)
            out.violation("tie", what, "proof obligation or model correspondence (filter_and_annotate / new_policy vs Go) no longer checks; no failing input found",
                          no_failing_input=True)
        distinct = len(set(sigs))
        # non-trivial: at least one filter line and (a member selected or an error raised)
        nontrivial = len(set(s for s in sigs if int(s[2]) > 0 and (int(s[3]) > 0 or int(s[1]) > 0)))
        n_err = sum(1 for s in sigs if int(s[1]) > 0)
        n_invalid_ok = sum(1 for s in sigs if int(s[0]) == 0 and int(s[1]) == 0)
        sample_i = len(corpus) + n_enum if len(cases) > len(corpus) + n_enum else 0
        cov.update(evaluations=n_eval, distinct_nontrivial=nontrivial,
                   rule="random pools (0-14 nodes; duplicate, empty, non-UTF-8, quoted, multi-line names; 1-3 subscription tags) x group definitions (0-6 filter lines of 0-3 "
                        "possibly negated name()/subtag()/unknown functions with 0-4 exact/keyword/regex/unknown-key parameters drawn from the pool's own names and substrings, "
                        "regexp2-specific and malformed patterns; annotations absent/valid/repeated/malformed/unknown; annotation count mismatch) x policies (bare word, function, list, "
                        "non-function; five policy names and near misses; fixed with boundary integers, keys, negation, 0-3 params), half of them also as configuration text through the production parser; plus multi-group configuration texts (2-4 groups, every order of filter-less / filtered / filtered+annotation groups of length 2-3 and a 4-group selection, policy variants; decoded by the real config.New, every group compared as decoded with model and spec and then evaluated from the decoded struct), pools built by the production NewDialerSetFromLinks from tagged link lists (same link under several tags / repeated under one tag / rejected links; a fixed family x3 for map order and 1/6 of the random cases; pool compared per tag in order and by count), the fixed annotation family (every order of {zero, non-zero, malformed, unknown key} of length 1..3 on a line hit first / never hit / shadowed, in both tiers) and the exhaustive single-line single-function enumeration over an 8-parameter alphabet (all of it in the thorough tier, a sample in quick); "
                        "signature = (definition valid, model outcome class, #lines, #members, #lines used as first hit, policy outcome class); "
                        "non-trivial = distinct signatures with >=1 filter line and (>=1 member or an error)",
                   distinct_signatures=distinct,
                   cases_with_config_error=n_err, invalid_definitions_accepted_unconsulted=n_invalid_ok,
                   traces_validated_against_impl=n_eval - len(model_fail),
                   comparisons="per case: impl group answer = model answer (members by pool index, offsets, error class); impl answer allowed by spec; model answer allowed by spec; same three for the policy",
                   samples=[{"case": wire_case(cases[sample_i]), "readable": pretty_case(cases[sample_i])}],
                   multi_group_configurations=sum(1 for c in cases if c.get("multi")),
                   cases_with_pool_built_from_links=sum(1 for c in cases if c.get("from_links")),
                   cases_through_config_text=sum(1 for c in cases if c.get("text")),
                   cases_with_fixed_selection=sum(1 for r in all_results if r and r.get("fixed")),
                   enumerated_small_scope_cases=n_enum,
                   widened_search=widened)
    return out.finish()


if __name__ == "__main__":
    sys.exit(main(sys.argv[1:]))
