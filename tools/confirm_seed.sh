#!/bin/bash
# usage: confirm_seed.sh <seed dir (/tmp/seed/Cnn_k)> <Cnn>  -- confirms a seeded change and runs the check against it
# Steps: (1) demo passes on clean worktree, (2) patch applies, builds, pinned suite passes, demo fails,
# (3) the property's quick check run against the patched worktree.
set -u
SD=$1; PID=$2
WT=/tmp/wt_confirm_$PID
export PATH=/root/go/pkg/mod/golang.org/toolchain@v0.0.1-go1.26.0.linux-amd64/bin:$PATH GOFLAGS=-mod=mod GOPROXY=off GOTOOLCHAIN=local
git -C /repo worktree remove --force $WT >/dev/null 2>&1
git -C /repo worktree add --detach $WT HEAD -q || exit 2
DEMO_CMD=$(python3 -c "import json;print(json.load(open('$SD/out/meta.json'))['demo_cmd'])")
echo "demo_cmd: $DEMO_CMD"
for f in $SD/out/*; do case "$f" in *patch.diff|*meta.json) ;; *) 
  # place demo files: default into the package dir named in demo_cmd, else worktree root
  dest=$(python3 - "$f" "$SD" <<'PY'
import json,sys,os,re
f,sd=sys.argv[1],sys.argv[2]
m=json.load(open(sd+'/out/meta.json'))
d=m.get('demo_dir') or ''
if not d:
    mm=re.search(r'\./([\w/]+)\s*$', m['demo_cmd'].strip()) or re.search(r'\./([\w/]+)', m['demo_cmd'])
    d=mm.group(1) if mm and f.endswith('_test.go') else ''
print(d)
PY
)
  cp -r "$f" "$WT/$dest/" ;; esac; done
cd $WT
echo "== clean: demo"; (eval "$DEMO_CMD") > /tmp/confirm_$PID.clean.log 2>&1; echo "clean demo rc=$?"
git apply $SD/out/patch.diff || { echo "PATCH DOES NOT APPLY"; exit 3; }
echo "== patched: build"; go build -tags dae_stub_ebpf ./... > /tmp/confirm_$PID.build.log 2>&1; echo "build rc=$?"
echo "== patched: pinned suite"; go test -vet=off -count=1 ./... 2>&1 | grep -v "^ok\|no test files" | grep -v "control \[build failed\]\|/control \[setup failed\]\|^FAIL$" | head -20
echo "== patched: demo"; (eval "$DEMO_CMD") > /tmp/confirm_$PID.patched.log 2>&1; echo "patched demo rc=$?"
for f in $SD/out/*; do case "$f" in *patch.diff|*meta.json) ;; *) find $WT -name "$(basename $f)" -newer $SD/out/meta.json -delete 2>/dev/null; find $WT -name "$(basename $f)" -delete 2>/dev/null;; esac; done
echo "== check against patched tree"
cd /verif && VERIF_REPO=$WT timeout 1800 ./check $PID --tier quick 2>/tmp/confirm_$PID.check.err | tail -5; echo "check rc=${PIPESTATUS[0]}"
git -C /repo worktree remove --force $WT
