"""C04 — rule normalisation never changes what the rules mean (DESIGN.md 6/C04).

impl   : the real config parser, the real optimizer pipelines (control_plane.go / dns.go / daedns/router.go
         optimizer values through routing.ApplyRulesOptimizers), the real matcher builders and matchers
model  : coq/C04_Model.v (the four optimizers, Param/Function printing, geodata loading) -> AST per stage
spec   : coq/C04_Spec.v decide_ast on the rule list as written, single values answered by the oracle table
"""
import ipaddress
import json
import os
import re
import sys

sys.path.insert(0, os.path.dirname(os.path.abspath(__file__)))
import vlib
from vlib import clist, cpair, cbool, log

PID = "C04"
PROPS = "C04_Props.v"
TARGETS = ["C04_Props.vo", "C04_Check.vo"]
HARNESS = ["control/common_test.go", "control/c04_test.go"]

M_NEG = "C04/merge-negated-neighbours"
M_EMPTY = "C04/empty-geodata-expansion"
M_OUT = "C04/outbound-print-truncated"
M_DEDUP = "C04/dedup-print-collision"
M_CRASH = "C04/ext-without-colon-crash"
M_OTHER = "C04/unclassified"

# ------------------------------------------------------------------------------------------------
# geodata used by every case (written as protobuf .dat files by the harness, read by pkg/geodata)
# ------------------------------------------------------------------------------------------------
T_PLAIN, T_REGEX, T_ROOT, T_FULL = 0, 1, 2, 3
GEOSITE = {
    "geosite.dat": [
        {"code": "CN", "domains": [{"t": T_FULL, "v": "a.com", "attrs": ["ads"]},
                                   {"t": T_ROOT, "v": "b.com", "attrs": []},
                                   {"t": T_PLAIN, "v": "ads", "attrs": ["ADS", "cn"]},
                                   {"t": T_REGEX, "v": "^x\\..*\\.org$", "attrs": []}]},
        {"code": "category-ads", "domains": [{"t": T_ROOT, "v": "ads.b.com", "attrs": ["ads"]},
                                             {"t": T_FULL, "v": "a.com", "attrs": []}]},
        {"code": "EMPTY", "domains": []},
    ],
    "other.dat": [
        {"code": "mine", "domains": [{"t": T_FULL, "v": "c.org", "attrs": []}, {"t": T_ROOT, "v": "b.com", "attrs": []}]},
    ],
}
GEOIP = {
    "geoip.dat": [
        {"code": "cn", "cidrs": [{"ip": "1.2.3.0", "bits": 24}, {"ip": "2001:db8::", "bits": 32}], "inverse": False},
        {"code": "PRIVATE", "cidrs": [{"ip": "10.0.0.0", "bits": 8}, {"ip": "192.168.0.0", "bits": 16}, {"ip": "1.2.3.0", "bits": 24}], "inverse": False},
        {"code": "lan", "cidrs": [{"ip": "192.168.1.0", "bits": 24}, {"ip": "192.168.1.1", "bits": 16}, {"ip": "10.0.0.1", "bits": 8}], "inverse": False},
        {"code": "empty", "cidrs": [], "inverse": False},
        {"code": "inv", "cidrs": [{"ip": "8.8.8.0", "bits": 24}], "inverse": True},
    ],
    "other.dat": [
        {"code": "mine", "cidrs": [{"ip": "5.5.5.5", "bits": 32}], "inverse": False},
    ],
}
# NB: other.dat cannot hold both lists; ext: on ip() reads otherip.dat
GEOIP["otherip.dat"] = GEOIP.pop("other.dat")


def cidr_text(c):
    return "%s/%d" % (ipaddress.ip_address(c["ip"]).compressed, c["bits"])


# --- the generator's own reading of a geodata reference (independent of the Go reader and of the Coq model) ---
def py_dat_name(fn):
    return fn if fn.endswith(".dat") else fn + ".dat"


def py_geosite(fn, code):
    """-> list of (key, val) or None (error)"""
    ent = GEOSITE.get(py_dat_name(fn))
    if ent is None:
        return None
    code, _, attr = code.partition("@")
    for e in ent:
        if e["code"].lower() == code.lower():
            out = []
            for d in e["domains"]:
                if attr and not any(a.lower() == attr.lower() for a in d["attrs"]):
                    continue
                out.append(({T_FULL: "full", T_ROOT: "suffix", T_PLAIN: "keyword", T_REGEX: "regex"}[d["t"]], d["v"]))
            return out
    return None


def py_geoip(fn, code):
    ent = GEOIP.get(py_dat_name(fn))
    if ent is None:
        return None
    for e in ent:
        if e["code"].lower() == code.lower():
            if e["inverse"]:
                return None
            return [("", cidr_text(c)) for c in e["cidrs"]]
    return None


def py_canon(f, k):
    cf = {"dport": "port", "dip": "ip"}.get(f, f)
    ck = k
    if cf == "domain":
        ck = {"": "suffix", "domain": "suffix", "contains": "keyword"}.get(k, k)
    return cf, ck


def py_expand(cf, ck, v):
    """canonical atom -> ('ok', [(key,val)...]) | ('err',) | ('crash',)"""
    if ck == "geosite":
        r = py_geosite("geosite", v)
    elif ck == "geoip":
        r = py_geoip("geoip", v)
    elif ck == "ext":
        if ":" not in v:
            return ("err",)  # since /repo 2540ec6 a configuration error (it was a panic inside the optimizer goroutine)
        if cf in ("domain", "qname", "ip"):
            fn, code = v.split(":", 1)
            r = py_geosite(fn, code) if cf != "ip" else py_geoip(fn, code)
        else:
            return ("err",)
    else:
        return ("ok", [(ck, v)])
    return ("err",) if r is None else ("ok", r)


# ------------------------------------------------------------------------------------------------
# probes (fixed pools, chosen around the value universe of the generator)
# ------------------------------------------------------------------------------------------------
def _rp(dst, dport, l4, domain, pname="curl", dscp=0, src="10.0.0.1", sport=1000, mac="02:00:00:00:00:01"):
    return {"src": src, "dst": dst, "sport": sport, "dport": dport, "l4": l4, "domain": domain, "pname": pname,
            "dscp": dscp, "mac": mac}


PROBES = {
    "routing": [
        _rp("1.2.3.4", 80, 1, "a.com"), _rp("1.2.3.5", 443, 1, "b.com", pname="a:b"), _rp("5.5.5.5", 443, 2, "x.b.com", dscp=8),
        _rp("2001:db8::1", 80, 1, "c.org", pname="b"), _rp("10.1.2.3", 1500, 2, "ads.b.com", src="192.168.1.7", sport=53),
        _rp("8.8.8.8", 53, 2, "", pname=""), _rp("1.2.3.4", 2000, 1, "x.y.org", mac="02:00:00:00:00:02", dscp=16),
        _rp("2001:db9::1", 443, 2, "xa.com", src="2001:db8::99"), _rp("192.168.0.1", 81, 1, "ads.example", pname="sshd"),
        _rp("::1", 80, 1, "zzz.test", src="::1"), _rp("9.9.9.9", 443, 1, "123.b.com"),
    ],
    "dns_req": [{"domain": d, "qtype": t} for d, t in
                [("a.com", 1), ("b.com", 28), ("x.b.com", 1), ("c.org", 5), ("ads.b.com", 28), ("x.y.org", 1), ("xa.com", 65), ("zzz.test", 16), ("123.b.com", 1)]],
    "dns_resp": [{"domain": d, "qtype": t, "ips": ips, "upstream": u} for d, t, ips, u in
                 [("a.com", 1, ["1.2.3.4"], "alidns"), ("b.com", 28, ["2001:db8::1"], "googledns"), ("x.b.com", 1, ["5.5.5.5", "10.0.0.1"], "alidns"),
                  ("c.org", 5, [], "asis"), ("ads.b.com", 1, ["8.8.8.8"], "googledns"), ("x.y.org", 1, ["192.168.0.1"], "asis"),
                  ("xa.com", 28, ["2001:db9::1"], "alidns"), ("zzz.test", 1, ["1.2.3.9", "8.8.4.4"], "googledns"), ("123.b.com", 1, ["9.9.9.9"], "alidns")]],
}


def boundary_addrs(v):
    """addresses that tell a CIDR value apart from its neighbours: the address as WRITTEN (host bits and all),
    first and last address of the prefix as MASKED, and the addresses just outside"""
    try:
        written = ipaddress.ip_address(v.split("/")[0])
        net = ipaddress.ip_network(v, strict=False)
    except ValueError:
        return []
    out = [written, net[0], net[-1]]
    if int(net[0]) > 0:
        out.append(net[0] - 1)
    if int(net[-1]) < (1 << net.max_prefixlen) - 1:
        out.append(net[-1] + 1)
    return [str(a) for a in out]


MAX_EXTRA_PROBES = 20


def probes_for(case):
    """the fixed pool of the kind + boundary probes derived from the address values of THIS case (written and
    masked forms, direct values and geoip expansions), so that a lossy treatment of an address SET shows"""
    kind = case["kind"]
    base = PROBES[kind]
    if kind == "dns_req":
        return base
    per_value = []
    seen_v = set()
    for r in case["rules"]:
        for f in r["funcs"]:
            cf = {"dip": "ip"}.get(f["name"], f["name"])
            if cf not in ("ip", "sip"):
                continue
            for (k, v) in f["params"]:
                e = py_expand(cf, py_canon(f["name"], k)[1], v)
                for (_, cidr) in (e[1] if e[0] == "ok" else []):
                    if (cf, cidr) not in seen_v:
                        seen_v.add((cf, cidr))
                        per_value.append((cf, boundary_addrs(cidr)))
    extra, seen = [], set()
    depth = 0
    while len(extra) < MAX_EXTRA_PROBES and any(depth < len(a) for _, a in per_value):   # round-robin over the values
        for cf, addrs in per_value:
            if depth < len(addrs) and (cf, addrs[depth]) not in seen and len(extra) < MAX_EXTRA_PROBES:
                seen.add((cf, addrs[depth]))
                a = addrs[depth]
                if kind == "routing":
                    extra.append(_rp(a, 443, 1, "zzz.test") if cf == "ip" else _rp("9.9.9.9", 443, 1, "zzz.test", src=a))
                else:
                    extra.append({"domain": "zzz.test", "qtype": 1, "ips": [a], "upstream": "alidns"})
        depth += 1
    return base + extra


OUTBOUNDS = {"routing": ["proxy", "g1"], "dns_req": ["alidns", "googledns"], "dns_resp": ["alidns", "googledns"]}
FALLBACKS = {"routing": ["direct", "proxy", "block"], "dns_req": ["asis", "alidns"], "dns_resp": ["accept", "reject"]}

# ------------------------------------------------------------------------------------------------
# generator: structured rule lists rendered as configuration text
# ------------------------------------------------------------------------------------------------
DOMS = ["a.com", "b.com", "x.b.com", "c.org", "ads.b.com", "y.org", "xa.com"]
DOMAIN_VALUES = {
    # values are case-sensitive text: upper-case letters in names, and in regular expressions where case is syntax
    # (\\D \\W \\S \\B, classes [A-Z]) - an optimizer that folds case changes what they match
    "": DOMS + ["B.com"], "domain": DOMS + ["X.b.com"], "suffix": DOMS + ["com", "org", "B.COM"], "full": DOMS + ["A.com", "C.ORG"],
    "keyword": ["ads", "a", "b.c", "x"], "contains": ["ads", "a", "x."],
    "regex": ["^a\\.com$", ".*\\.org$", "^x\\.", "^\\D+\\.b\\.com$", "^a\\Wcom$", "^\\S+\\.org$", "^[A-Z.]+$", "^x\\By", "^[^A-Z]+\\.com$"],
    "geosite": ["cn", "CN", "cn@ads", "CN@ADS", "category-ads", "category-ads@ads", "cn@cn"],
    "ext": ["other:mine", "other.dat:mine", "geosite:cn"],
}
GEOSITE_EMPTY = ["cn@nope", "empty", "category-ads@cn"]
GEOSITE_ERR = ["nosuch", "xx@ads"]
IPS = ["1.2.3.4", "1.2.3.0/24", "1.2.0.0/16", "10.0.0.0/8", "5.5.5.5", "8.8.8.8/32", "192.168.0.0/16", "2001:db8::1", "2001:db8::/32",
       "2001:db9::/48", "::1", "0.0.0.0/1"]
# families of related address values: CIDRs written with host bits set, nested and overlapping prefixes, duplicates
# up to masking, v4-in-v6 spellings; drawn several at a time (in any order) into one condition and into neighbours
IP_FAMILIES = [
    ["192.168.1.0/24", "192.168.1.1/16", "192.168.0.0/16", "192.168.1.7", "192.168.2.0/23", "192.168.255.255/17", "192.168.1.128/25"],
    ["10.0.0.1/8", "10.0.0.0/8", "10.1.2.3/16", "10.1.2.0/24", "10.1.2.3", "10.255.255.255/9"],
    ["1.2.3.4/24", "1.2.3.0/24", "1.2.0.0/16", "1.2.3.4", "1.2.3.200/25", "1.2.3.5/31"],
    ["2001:db8::1/32", "2001:db8::/32", "2001:db8::/48", "2001:db8::1", "2001:db8:0:1::5/64", "2001:db8:ffff::1/33"],
    ["::ffff:1.2.3.0/120", "::ffff:1.2.3.4", "1.2.3.0/24", "::ffff:1.2.3.77/121"],
]
IP_KEYED = {"geoip": ["cn", "CN", "private", "Private", "lan"], "ext": ["otherip:mine", "geoip:cn"]}
GEOIP_EMPTY = ["empty"]
GEOIP_ERR = ["nosuch", "inv"]
PORTS = ["80", "443", "1000-2000", "53", "80-81", "0-1023", "1500"]
QTYPES = ["a", "aaaa", "28", "1", "cname", "0x1c", "A", "txt", "65"]
PNAMES = ["curl", "sshd", "a:b", "b", "x y"]
MACS = ["02:00:00:00:00:01", "02:00:00:00:00:02", "02:00:00:00:00:03"]
SIMPLE = {"l4proto": ["tcp", "udp"], "ipversion": ["4", "6"], "dscp": ["0", "8", "0x10", "16"], "pname": PNAMES, "mac": MACS,
          "port": PORTS, "dport": PORTS, "sport": ["1000", "53", "1-1024"], "qtype": QTYPES, "upstream": ["alidns", "googledns"]}
FUNCS = {"routing": ["domain"] * 5 + ["dip", "ip", "sip", "dport", "port", "sport", "l4proto", "ipversion", "pname", "dscp", "mac"],
         "dns_req": ["qname"] * 3 + ["qtype"],
         "dns_resp": ["qname", "qname", "qtype", "ip", "ip", "upstream"]}


def gen_param(rng, kind, fname, flags, fam=None):
    """-> (key, val)"""
    if fam is not None and rng.random() < 0.85:
        return ("", rng.choice(fam))
    if fname in ("domain", "qname"):
        keys = ["", "domain", "suffix", "full", "keyword", "contains", "regex", "geosite", "geosite", "ext"] if fname == "domain" \
            else ["suffix", "full", "keyword", "regex", "geosite", "geosite", "ext"]
        k = rng.choice(keys)
        if k == "geosite" and rng.random() < flags["p_empty"]:
            return (k, rng.choice(GEOSITE_EMPTY))
        if k == "geosite" and rng.random() < flags["p_err"]:
            return (k, rng.choice(GEOSITE_ERR))
        if k == "ext" and rng.random() < flags["p_crash"]:
            return (k, "nocolon")
        return (k, rng.choice(DOMAIN_VALUES[k]))
    if fname in ("ip", "dip", "sip"):
        r = rng.random()
        if r < 0.2:
            k = "geoip" if (fname == "sip" or rng.random() < 0.7) else "ext"
            if k == "geoip" and rng.random() < flags["p_empty"]:
                return (k, rng.choice(GEOIP_EMPTY))
            if k == "geoip" and rng.random() < flags["p_err"]:
                return (k, rng.choice(GEOIP_ERR))
            if k == "ext" and rng.random() < flags["p_crash"]:
                return (k, "nocolon")
            return (k, rng.choice(IP_KEYED[k]))
        if r < 0.2 + flags["p_collide"]:
            return rng.choice([("fe80", "0::1"), ("", "fe80:0::1")])
        return ("", rng.choice(IPS))
    if fname == "pname" and rng.random() < flags["p_collide"] * 3:
        return rng.choice([("a", "b"), ("", "a:b")])
    return ("", rng.choice(SIMPLE[fname]))


def gen_outbound(rng, kind, flags):
    if kind == "routing":
        name = rng.choice(["proxy", "proxy", "direct", "block", "g1", "must_rules"])
        r = rng.random()
        if name == "must_rules" or r < 0.6:
            return (name, [])
        if r < 0.8:
            return (name, [("mark", rng.choice(["1", "2", "0x10"]))])
        if r < 0.9:
            return (name, [("", "must")])
        if r < 0.9 + flags["p_longout"]:
            return (name, [("mark", "1")] * 5 + [("mark", rng.choice(["2", "3"]))])
        return (name, [("mark", rng.choice(["1", "2"])), ("", "must")])
    if kind == "dns_req":
        return (rng.choice(["alidns", "alidns", "googledns", "asis", "reject"]), [])
    return (rng.choice(["accept", "accept", "reject", "alidns", "googledns"]), [])


def gen_func(rng, kind, flags, like=None):
    if like is not None and rng.random() < 0.85:
        fname, neg = like["name"], like["not"]
        if rng.random() < 0.1:
            neg = not neg
    else:
        fname = rng.choice(FUNCS[kind])
        neg = rng.random() < flags["p_neg"]
    n = rng.choice([1, 1, 1, 2, 2, 3, 4])
    fam = None
    if fname in ("ip", "dip", "sip") and rng.random() < 0.6:
        fam = rng.choice(IP_FAMILIES)
        if like is not None and like["params"] and rng.random() < 0.75:    # the neighbour's family: merged sets overlap
            fam = next((f for f in IP_FAMILIES if like["params"][0][1] in f), fam)
        n = rng.choice([1, 2, 2, 3, 4])
    params = []
    for _ in range(n):
        if params and rng.random() < 0.25:
            params.append(rng.choice(params))  # repeated value
        else:
            params.append(gen_param(rng, kind, fname, flags, fam))
    return {"name": fname, "not": neg, "params": params}


def gen_case(rng, kind=None, flags=None, big=False):
    kind = kind or rng.choice(["routing"] * 3 + ["dns_req", "dns_resp"])
    fl = {"p_neg": 0.12, "p_empty": 0.06, "p_err": 0.03, "p_crash": 0.0, "p_longout": 0.04, "p_collide": 0.02}
    if flags:
        fl.update(flags)
    n = rng.randint(1, 12 if big else 7)
    rules = []
    prev = None
    for _ in range(n):
        if prev is not None and len(prev["funcs"]) == 1 and rng.random() < 0.55:
            funcs = [gen_func(rng, kind, fl, like=prev["funcs"][0])]
            out = prev["out"] if rng.random() < 0.8 else gen_outbound(rng, kind, fl)
            if rng.random() < 0.08:
                funcs.append(gen_func(rng, kind, fl))
        else:
            funcs = [gen_func(rng, kind, fl) for _ in range(rng.choice([1, 1, 1, 1, 2, 2, 3]))]
            out = gen_outbound(rng, kind, fl)
        prev = {"funcs": funcs, "out": out}
        rules.append(prev)
    return {"kind": kind, "rules": rules, "fallback": rng.choice(FALLBACKS[kind])}


BARE = re.compile(r"^[A-Za-z0-9_./@-]+$")


def render_val(v):
    if BARE.match(v) and not v[0] in "-./@":
        return v
    assert "'" not in v
    return "'" + v + "'"


def render_param(p):
    k, v = p
    return (k + ": " if k else "") + render_val(v)


def render_func(f):
    return ("!" if f["not"] else "") + f["name"] + "(" + ", ".join(render_param(p) for p in f["params"]) + ")"


def render_rule(r):
    name, ps = r["out"]
    o = name + ("(" + ", ".join(render_param(p) for p in ps) + ")" if ps else "")
    return " && ".join(render_func(f) for f in r["funcs"]) + " -> " + o


def case_input(case):
    """what the harness gets"""
    kind = case["kind"]
    atoms, status = case_atoms(case)
    return {"kind": kind, "rules": "\n".join(render_rule(r) for r in case["rules"]), "fallback": case["fallback"],
            "outbounds": OUTBOUNDS[kind], "geosite": GEOSITE, "geoip": GEOIP, "probes": probes_for(case),
            "atoms": [list(a) for a in atoms]}


def case_atoms(case):
    """base atoms to ask the implementation about; status ok/err/crash as the generator's own reading predicts"""
    base = []
    seen = set()
    status = "ok"
    for r in case["rules"]:
        for f in r["funcs"]:
            for (k, v) in f["params"]:
                cf, ck = py_canon(f["name"], k)
                e = py_expand(cf, ck, v)
                if e[0] != "ok":
                    if e[0] == "crash" or status == "ok":
                        status = e[0]
                    continue
                for (bk, bv) in e[1]:
                    a = (cf, bk, bv)
                    if a not in seen:
                        seen.add(a)
                        base.append(a)
    return base, status


# ------------------------------------------------------------------------------------------------
# Coq rendering
# ------------------------------------------------------------------------------------------------
class StrPool:
    def __init__(self):
        self.names = {}

    def s(self, x):
        if x not in self.names:
            self.names[x] = "s%d" % len(self.names)
        return self.names[x]

    def header(self):
        return "".join("Definition %s : string := %s.\n" % (nm, vlib.cstr(x)) for x, nm in self.names.items())


def c_param(sp, p):
    return "(Build_param %s %s)" % (sp.s(p[0]), sp.s(p[1]))


def c_func(sp, name, neg, params):
    return "(Build_func %s %s %s)" % (sp.s(name), cbool(neg), clist([c_param(sp, p) for p in params]))


def c_rule_py(sp, r):
    return "(Build_rule %s %s)" % (clist([c_func(sp, f["name"], f["not"], f["params"]) for f in r["funcs"]]),
                                   c_func(sp, r["out"][0], False, r["out"][1]))


def c_rule_go(sp, r):
    return "(Build_rule %s %s)" % (
        clist([c_func(sp, f["name"], f["not"], [(p["k"], p["v"]) for p in f["params"] or []]) for f in r["funcs"]]),
        c_func(sp, r["out"]["name"], r["out"]["not"], [(p["k"], p["v"]) for p in r["out"]["params"] or []]))


def c_db(sp):
    sites = []
    for fn, ents in GEOSITE.items():
        es = ["(Build_gs_entry %s %s)" % (sp.s(e["code"]), clist(["(Build_gs_domain %d%%N %s %s)" % (d["t"], sp.s(d["v"]), clist([sp.s(a) for a in d["attrs"]]))
                                                                 for d in e["domains"]])) for e in ents]
        sites.append(cpair(sp.s(fn), clist(es)))
    ips = []
    for fn, ents in GEOIP.items():
        es = ["(Build_gi_entry %s %s %s)" % (sp.s(e["code"]), cbool(e["inverse"]), clist([sp.s(cidr_text(c)) for c in e["cidrs"]])) for e in ents]
        ips.append(cpair(sp.s(fn), clist(es)))
    return "(Build_geodb %s %s)" % (clist(sites), clist(ips))


def go_raw_equals(case, raw):
    if raw is None or len(raw) != len(case["rules"]):
        return False
    for r, g in zip(case["rules"], raw):
        if len(r["funcs"]) != len(g["funcs"]):
            return False
        for f, gf in zip(r["funcs"], g["funcs"]):
            if f["name"] != gf["name"] or f["not"] != gf["not"] or [tuple(p) for p in f["params"]] != [(p["k"], p["v"]) for p in gf["params"] or []]:
                return False
        if r["out"][0] != g["out"]["name"] or g["out"]["not"] or [tuple(p) for p in r["out"][1]] != [(p["k"], p["v"]) for p in g["out"]["params"] or []]:
            return False
    return True


class Prepared:
    """one case + implementation result, reduced to what the Coq check needs"""
    pass


def prepare(case, res):
    """returns Prepared or (None, reason)"""
    kind = case["kind"]
    P = Prepared()
    P.case, P.res, P.kind = case, res, kind
    P.crashed = res is None
    P.base, P.status = case_atoms(case)
    probes = probes_for(case)
    P.probes = probes
    n = len(probes)
    P.n = n
    if P.crashed:
        P.skip = None
        P.stages = [None] * (4 if kind == "routing" else 3)
        P.table, P.outs, P.dec, P.dec_raw, P.dec_opt, P.fallback = {}, [], False, [], [], (0, False)
        P.cmp_build = P.raw_err = P.opt_err = P.dec_raw_ok = P.build_flip = False
        return P
    if res.get("panic"):
        P.skip = "harness panic: " + res["panic"]
        return P
    if res.get("parse_err") or not go_raw_equals(case, res.get("raw")):
        P.skip = "render/parse mismatch: " + str(res.get("parse_err"))
        return P
    P.skip = None
    # meaning of outbounds (routing.ParseOutbound answers), ids per (name, mark); DNS ignores mark/must
    ids = {}

    def mid(name, mark):
        key = (name, mark if kind == "routing" else 0)
        if key not in ids:
            ids[key] = len(ids) + 1
        return ids[key]
    P.outs = []
    out_err = False
    for r, o in zip(case["rules"], res["outs"]):
        if o.get("err"):
            out_err = True
            P.outs.append((r["out"], "err"))
        elif kind == "routing" and o["name"] == "must_rules":
            P.outs.append((r["out"], None))
        else:
            P.outs.append((r["out"], (mid(o["name"], o["mark"]), bool(o["must"]) and kind == "routing")))
    P.fallback = (mid(case["fallback"], 0), False)
    P.ids = ids
    # atom oracle table
    bits = {}
    atom_err = False
    for a, b in zip(P.base, res.get("atoms") or []):
        if b.startswith("E:") or "?" in b or len(b) != n:
            atom_err = True
            bits[a] = [False] * n
        else:
            bits[a] = [c == "1" for c in b]
    table = dict(bits)
    for r in case["rules"]:
        for f in r["funcs"]:
            for (k, v) in f["params"]:
                cf, ck = py_canon(f["name"], k)
                e = py_expand(cf, ck, v)
                if e[0] == "ok":
                    val = [any(bits[(cf, bk, bv)][i] for (bk, bv) in e[1]) for i in range(n)]
                else:
                    val = [False] * n
                table[(f["name"], k, v)] = val
                table[(cf, ck, v)] = val
    P.table = table
    P.stages = res["stages"]
    P.stage_errs = res["stage_errs"]

    def dec(lst):
        out = []
        for d in lst:
            parts = d.rsplit("|", 2)
            if d == "ERR:no match set hit":
                out.append((7777, False))
            elif len(parts) != 3 or d.startswith(("ERR:", "PANIC:")):
                out.append((mid("<" + d + ">", 0) + 5000, False))
            else:
                out.append((mid(parts[0], int(parts[1])), parts[2] == "true"))
        return out
    valid = not out_err and not atom_err and P.status == "ok"
    P.cmp_build = valid         # every value and outbound is valid: a build error can only be a condition without values
    P.raw_err, P.opt_err = bool(res.get("raw_build_err")), bool(res.get("opt_build_err"))
    # P.dec: decisions of the compiled (optimised) program are comparable with the spec
    P.dec = valid and not P.opt_err and res.get("dec_opt") is not None
    P.dec_raw_ok = valid and not P.raw_err and res.get("dec_raw") is not None
    P.build_note = (res.get("raw_build_err") or "", res.get("opt_build_err") or "")
    # the list as written builds but the optimised one does not: the optimizers broke a valid configuration
    # (the other direction is fine: merging can give an empty condition values, /repo dd2eef7 rejects it un-merged)
    P.build_flip = valid and not P.raw_err and P.opt_err
    P.dec_raw = dec(res.get("dec_raw") or []) if P.dec_raw_ok else []
    P.dec_opt = dec(res.get("dec_opt") or []) if P.dec else []
    return P



def py_spec_decisions(P):
    """the spec decision recomputed in python: used ONLY to guide shrinking (every reported case is
    re-evaluated by C04_Check.check_case afterwards)"""
    res = []
    for i in range(P.n):
        must = False
        got = None
        for r, (o, m) in zip(P.case["rules"], P.outs):
            if all((any(P.table[(f["name"], k, v)][i] for (k, v) in f["params"]) != f["not"]) for f in r["funcs"]):
                if m is None:
                    must = True
                    continue
                got = (m[0], m[1] or must)
                break
        res.append(got if got is not None else (P.fallback[0], P.fallback[1] or must))
    return res


def py_fails(P):
    if P.skip is not None:
        return False
    if P.crashed or P.build_flip:
        return True
    return P.dec and P.dec_opt != py_spec_decisions(P)


def py_classes(P):
    if P.crashed:
        return [M_CRASH]
    ms = []
    k = 1 if P.kind == "routing" else 0
    st = P.stages[k] if len(P.stages) > k else None
    if impl_merged_negated(P):
        ms.append(M_NEG)
    if st and len(st) == len(P.outs):
        for a, b, oa, ob, ra, rb in zip(st, st[1:], P.outs, P.outs[1:], P.res["outs"], P.res["outs"][1:]):
            if len(a["funcs"]) == 1 and len(b["funcs"]) == 1 and a["funcs"][0]["name"] == b["funcs"][0]["name"] \
                    and not a["funcs"][0]["not"] and not b["funcs"][0]["not"] and ra["print"] == rb["print"]:
                if oa[1] != ob[1] and M_OUT not in ms:
                    ms.append(M_OUT)
    if impl_built_empty(P):
        ms.append(M_EMPTY)
    st2 = P.stages[k + 1] if len(P.stages) > k + 1 else None
    for r in st2 or []:
        for f in r["funcs"]:
            pr = {}
            for p_ in f["params"]:
                key = p_["v"] if p_["k"] == "" else p_["k"] + ":" + p_["v"]
                if pr.setdefault(key, (p_["k"], p_["v"])) != (p_["k"], p_["v"]) and M_DEDUP not in ms:
                    ms.append(M_DEDUP)
    return ms or [M_OTHER]


def c_case(sp, P):
    case = P.case
    stages = []
    for st in P.stages:
        stages.append("None" if st is None else "(Some %s)" % clist([c_rule_go(sp, r) for r in st]))
    atoms = [cpair(cpair(sp.s(a[0]), sp.s(a[1]), sp.s(a[2])), "%d%%N" % sum(1 << i for i, b in enumerate(bits) if b)) for a, bits in P.table.items()]
    outs = []
    seen = set()
    for o, m in P.outs:
        key = json.dumps(o)
        if key in seen or m == "err":
            continue
        seen.add(key)
        outs.append(cpair(c_func(sp, o[0], False, o[1]), "None" if m is None else "(Some (%d%%N, %s))" % (m[0], cbool(m[1]))))
    decs = lambda l: clist(["(%d%%N, %s)" % (a, cbool(b)) for a, b in l])
    return ("(Build_obs_case %s db %s %s %s %s (%d%%N, %s) %d %s %s %s %s %s %s %s)"
            % (cbool(P.kind == "routing"), clist([c_rule_py(sp, r) for r in case["rules"]]), clist(stages), clist(atoms), clist(outs),
               P.fallback[0], cbool(P.fallback[1]), P.n, cbool(P.cmp_build), cbool(P.raw_err), cbool(P.opt_err), cbool(P.dec_raw_ok), cbool(P.dec),
               decs(P.dec_raw), decs(P.dec_opt)))



# ------------------------------------------------------------------------------------------------
# translator: what is DATA in the source (alias table, print limit, pipeline composition) -> coq/gen
# ------------------------------------------------------------------------------------------------
def _go_func_body(src, header_re):
    m = re.search(header_re, src)
    if not m:
        raise RuntimeError("anchor moved: " + header_re)
    i = src.index("{", m.end() - 1)
    depth = 0
    for j in range(i, len(src)):
        if src[j] == "{":
            depth += 1
        elif src[j] == "}":
            depth -= 1
            if depth == 0:
                return src[i:j + 1]
    raise RuntimeError("unbalanced body: " + header_re)


def translate():
    R = vlib.REPO
    opt = open(os.path.join(R, "component/routing/optimizer.go")).read()
    consts_src = open(os.path.join(R, "common/consts/routing.go")).read()
    consts = dict(re.findall(r"(\w+)\s+(?:\w+\s+)?=\s+\"([^\"]*)\"", consts_src))
    alias = _go_func_body(opt, r"func \(o \*AliasOptimizer\) Optimize\([^)]*\)[^{]*\{")
    fn = [(a, consts[c]) for a, c in re.findall(r'case "(\w+)":\s*function\.Name = consts\.(\w+)', alias)]
    m = re.search(r"if function\.Name == consts\.(\w+) \{", alias)
    key_fn = consts[m.group(1)] if m else "?"
    keys = []
    for lits, c in re.findall(r'case ((?:"[^"]*"(?:,\s*)?)+):\s*param\.Key = string\(consts\.(\w+)\)', alias):
        for lit in re.findall(r'"([^"]*)"', lits):
            keys.append((lit, consts[c]))
    sec = open(os.path.join(R, "pkg/config_parser/section.go")).read()
    fstr = _go_func_body(sec, r"func \(f \*Function\) String\([^)]*\)[^{]*\{")
    m = re.search(r"if i >= (\d+) \{\s*strParamList = append\(strParamList, \"([^\"]*)\"\)", fstr)
    if not m:
        raise RuntimeError("anchor moved: Function.String parameter limit")
    limit, ell = int(m.group(1)), m.group(2)
    pstr = _go_func_body(sec, r"func \(p \*Param\) String\([^)]*\)[^{]*\{")
    m = re.search(r'if compact \{\s*return p\.Key \+ "([^"]*)" \+ quote\(p\.Val\)', pstr)
    if not m or 'if p.Key == "" {\n\t\treturn quote(p.Val)' not in pstr:
        raise RuntimeError("anchor moved: Param.String compact form")
    sep = m.group(1)
    merge = _go_func_body(opt, r"func \(o \*MergeAndSortRulesOptimizer\) Optimize\([^)]*\)[^{]*\{")
    ipf = [consts[c] for c in re.findall(r"function\.Name == consts\.(\w+)", merge)]
    margs = re.search(r"Outbound\.String\((\w+), (\w+), (\w+)\) == mergingRule\.Outbound\.String\((\w+), (\w+), (\w+)\)", merge)
    dedup = _go_func_body(opt, r"func deduplicateParams\([^)]*\)[^{]*\{")
    dargs = re.search(r"v\.String\((\w+), (\w+)\)", dedup)
    if not margs or not dargs:
        raise RuntimeError("anchor moved: String() calls of merge/dedup")

    def pipeline(path, call_re):
        src = open(os.path.join(R, path)).read()
        m = re.search(call_re, src)
        if not m:
            raise RuntimeError("anchor moved: %s %s" % (path, call_re))
        j0 = src.index("(", m.start())
        depth, j = 0, j0
        for j in range(j0, len(src)):
            if src[j] == "(":
                depth += 1
            elif src[j] == ")":
                depth -= 1
                if depth == 0:
                    break
        return re.findall(r"&routing\.(\w+)\{", src[j0:j])

    pipes = {
        "traffic_pipeline_src": pipeline("control/control_plane.go", r"routing\.NewNormalizedProgram\(routingA\.Rules"),
        "dns_request_pipeline_src": pipeline("component/dns/dns.go", r"NewNormalizedRequestRoutingProgram\(dns\.Routing\.Request\.Rules"),
        "dns_response_pipeline_src": pipeline("component/dns/dns.go", r"routing\.NewNormalizedProgram\(dns\.Routing\.Response\.Rules"),
        "daedns_request_pipeline_src": pipeline("component/daedns/router.go", r"NewNormalizedRequestRoutingProgram\(dnsCfg\.Routing\.Request\.Rules"),
    }
    cs = vlib.cstr
    pl = lambda l: clist([cpair(cs(a), cs(b)) for a, b in l])
    txt = ("(* GENERATED by tools/c04.py from component/routing/optimizer.go, pkg/config_parser/section.go,\n"
           "   control/control_plane.go, component/dns/dns.go, component/daedns/router.go - do not edit *)\n"
           "From Coq Require Import List String.\nImport ListNotations.\n"
           "Definition alias_fnames_src : list (string * string) := %s.\n"
           "Definition alias_key_function_src : string := %s.\n"
           "Definition alias_domain_keys_src : list (string * string) := %s.\n"
           "Definition function_print_limit_src : nat := %d.\n"
           "Definition function_print_ellipsis_src : string := %s.\n"
           "Definition param_print_separator_src : string := %s.\n"
           "Definition ip_sorted_functions_src : list string := %s.\n"
           "Definition merge_outbound_string_args_src : list string := %s.\n"
           "Definition dedup_param_string_args_src : list string := %s.\n"
           % (pl(fn), cs(key_fn), pl(keys), limit, cs(ell), cs(sep), clist([cs(x) for x in ipf]),
              clist([cs(x) for x in margs.groups()]), clist([cs(x) for x in dargs.groups()])))
    for k, v in pipes.items():
        txt += "Definition %s : list string := %s.\n" % (k, clist([cs(x) for x in v]))
    vlib.write_if_changed(os.path.join(vlib.COQ, "gen", "C04_Extracted.v"), txt)

# ------------------------------------------------------------------------------------------------
# running
# ------------------------------------------------------------------------------------------------
def run_impl(sc, binary, cases, tag, isolate=False):
    """-> list of results (None = the process died on that case), note"""
    inp, outp = sc.path("c04_%s.in" % tag), sc.path("c04_%s.out" % tag)
    env = {"VERIF_TMP": sc.dir}
    if not isolate:
        with open(inp, "w") as f:
            for c in cases:
                f.write(json.dumps(case_input(c)) + "\n")
        if os.path.exists(outp):
            os.remove(outp)
        rc, so, se, dt = vlib.run_go_harness(binary, "TestVerifC04", inp, outp, extra_env=env)
        if rc == 0:
            res = [json.loads(l) for l in open(outp)]
            if len(res) == len(cases):
                return res, None
        log("harness died on batch %s (rc=%d): isolating case by case" % (tag, rc))
    res = []
    note = None
    for i, c in enumerate(cases):
        with open(inp, "w") as f:
            f.write(json.dumps(case_input(c)) + "\n")
        if os.path.exists(outp):
            os.remove(outp)
        rc, so, se, dt = vlib.run_go_harness(binary, "TestVerifC04", inp, outp, extra_env=env, timeout=120)
        lines = open(outp).read().strip().split("\n") if os.path.exists(outp) else []
        if rc == 0 and len(lines) == 1 and lines[0]:
            res.append(json.loads(lines[0]))
        else:
            m = re.search(r"(panic: [^\n]*)(?:.|\n)*?(goroutine \d+[^\n]*\n(?:[^\n]*\n){0,6})", so + se)
            note = (m.group(1) + " / " + " ".join(m.group(2).split())[:400]) if m else (so + se)[-600:]
            res.append(None)
            c["_crash_note"] = note
    return res, note


def run_coq(prepared, tag):
    """-> (errors per prepared idx, signatures per prepared idx, err)"""
    sp = StrPool()
    dbtxt = c_db(sp)
    bodies = [c_case(sp, P) for P in prepared]
    text = ("From Coq Require Import List String NArith Bool.\nFrom Dae Require Import C04_Spec C04_Model C04_Check.\n"
            "Import ListNotations.\nOpen Scope string_scope.\n" + sp.header() +
            "Definition db : geodb := " + dbtxt + ".\n" +
            "Definition cases : list obs_case := [\n" + ";\n".join(bodies) + "\n].\n"
            "Definition R := Eval vm_compute in map check_case cases.\nPrint R.\n"
            "Definition S := Eval vm_compute in map case_signature cases.\nPrint S.\n")
    ok, outtxt = vlib.coq_eval("C04_cases_%s" % tag, text)
    if not ok:
        return None, None, "coq evaluation failed: " + outtxt[-3000:]
    m = re.search(r"R\s*=\s*(.*?)\n\s*:\s*list", outtxt, re.S)
    body = re.sub(r"\s+", "", m.group(1)).replace("%N", "")
    per = re.findall(r"\[((?:\(\d+,\d+\);?)*)\]", body[1:-1])
    if len(per) != len(prepared):
        return None, None, "cannot parse coq output (%d vs %d): %s" % (len(per), len(prepared), body[:500])
    errors = [[(int(a), int(b)) for a, b in re.findall(r"\((\d+),(\d+)\)", p)] for p in per]
    m2 = re.search(r"S\s*=\s*(.*?)\n\s*:\s*list", outtxt, re.S)
    sigs = [tuple(int(x) for x in t) for t in re.findall(r"\((\d+),(\d+),(\d+),(\d+),(\d+),(\d+),(\d+),(\d+)\)", re.sub(r"\s+", "", m2.group(1)).replace("%N", ""))]
    if len(sigs) != len(prepared):
        return None, None, "cannot parse coq signatures (%d vs %d)" % (len(sigs), len(prepared))
    return errors, sigs, None


def evaluate(sc, binary, cases, tag, isolate=False, isolate_from=None):
    """-> list of dicts per case: {errors:[(i,code)], sig, skip, crashed, P}, fatal error text.
    cases[isolate_from:] are run one process per case (they may kill the process)."""
    if isolate_from is not None and not isolate:
        r1, _ = run_impl(sc, binary, cases[:isolate_from], tag) if isolate_from > 0 else ([], None)
        r2, _ = run_impl(sc, binary, cases[isolate_from:], tag + "i", isolate=True) if isolate_from < len(cases) else ([], None)
        results = r1 + r2
    else:
        results, note = run_impl(sc, binary, cases, tag, isolate=isolate)
    prepared = [prepare(c, r) for c, r in zip(cases, results)]
    live = [P for P in prepared if P.skip is None]
    errors, sigs, err = run_coq(live, tag) if live else ([], [], None)
    if err:
        return None, err
    out = []
    it = iter(zip(errors, sigs))
    for P in prepared:
        if P.skip is not None:
            out.append({"errors": [], "sig": None, "skip": P.skip, "crashed": False, "P": P})
            continue
        e, s = next(it)
        if P.crashed:
            e = [(0, 9)]  # the process died while normalising this list
        elif P.build_flip:
            e = e + [(0, 8)]
        # an error predicted by the generator's own reading must be an error of the implementation too
        if not P.crashed and P.status == "err" and all(x == "" for x in P.stage_errs):
            e = e + [(0, 6)]
        out.append({"errors": e, "sig": s, "skip": None, "crashed": P.crashed, "P": P})
    return out, None


SPEC_CODES = (2, 8, 9)       # impl <> spec
TIE_CODES = (1, 4, 5, 6)     # impl <> model / grounding / oracle
THM_CODES = (3,)             # model <> spec although the proved hypotheses hold


def unaligned_overlap(P):
    """the optimised list holds an address condition with a CIDR written with host bits set that overlaps another
    value of the same condition (what a lossy canonicalisation of address sets would get wrong)"""
    st = P.stages[-1] if not P.crashed and P.stages and P.stages[-1] else []
    for r in st:
        for f in r["funcs"]:
            if f["name"] not in ("ip", "sip") or len(f["params"]) < 2:
                continue
            nets = []
            for p_ in f["params"]:
                try:
                    nets.append((ipaddress.ip_network(p_["v"], strict=False), ipaddress.ip_address(p_["v"].split("/")[0])))
                except ValueError:
                    pass
            for i, (n1, w1) in enumerate(nets):
                if w1 != n1[0]:
                    for j, (n2, _) in enumerate(nets):
                        if i != j and n1.version == n2.version and n1 != n2 and n1.overlaps(n2):
                            return True
    return False


def impl_merged_negated(P):
    """the implementation's merge stage fused negated single-condition rules (repaired by /repo ec2de34)"""
    if P.crashed:
        return False
    k = 1 if P.kind == "routing" else 0
    if len(P.stages) <= k + 1 or not P.stages[k] or not P.stages[k + 1]:
        return False
    cnt = lambda st: len([r for r in st if len(r["funcs"]) == 1 and r["funcs"][0]["not"]])
    return cnt(P.stages[k + 1]) < cnt(P.stages[k])


def impl_built_empty(P):
    """the implementation built a program from a list with a condition without values (repaired by /repo dd2eef7)"""
    if P.crashed or not P.stages or not P.stages[-1]:
        return False
    return any(not f["params"] for r in P.stages[-1] for f in r["funcs"]) and not P.opt_err


def has_empty_expansion(P):
    k = 1 if P.kind == "routing" else 0
    st = P.stages[k] if not P.crashed and len(P.stages) > k else None
    return bool(st) and any(not f["params"] for r in st for f in r["funcs"])


def classify(ev):
    """matcher ids of an impl<>spec case, from its (minimised) input"""
    P, s = ev["P"], ev["sig"]
    ms = []
    if ev["crashed"] or (s and s[6] == 2):
        ms.append(M_CRASH)     # repaired by /repo 2540ec6: a crash is a regression
    if impl_merged_negated(P):
        ms.append(M_NEG)
    if impl_built_empty(P):
        ms.append(M_EMPTY)
    # the two open findings are properties of the MODELLED code: they can explain a failure only when the
    # implementation still agrees with the model (AST after every stage, build result, decisions)
    deviates = any(c in (1, 11, 13) for (_, c) in ev["errors"])
    if not deviates and s and s[4] > 0:
        ms.append(M_OUT)
    if not deviates and s and s[5] > 0:
        ms.append(M_DEDUP)
    return ms or [M_OTHER]


def spec_fails(ev):
    return any(c in SPEC_CODES for (_, c) in ev["errors"])


def candidates(case):
    """single-step reductions of a case"""
    rules = case["rules"]
    for i in range(len(rules)):
        if len(rules) > 1:
            yield dict(case, rules=rules[:i] + rules[i + 1:])
    for i, r in enumerate(rules):
        for j in range(len(r["funcs"])):
            if len(r["funcs"]) > 1:
                nr = dict(r, funcs=r["funcs"][:j] + r["funcs"][j + 1:])
                yield dict(case, rules=rules[:i] + [nr] + rules[i + 1:])
        for j, f in enumerate(r["funcs"]):
            for k in range(len(f["params"])):
                if len(f["params"]) > 1:
                    nf = dict(f, params=f["params"][:k] + f["params"][k + 1:])
                    nr = dict(r, funcs=r["funcs"][:j] + [nf] + r["funcs"][j + 1:])
                    yield dict(case, rules=rules[:i] + [nr] + rules[i + 1:])
        if r["out"][1]:
            if len(r["out"][1]) <= 5:
                yield dict(case, rules=rules[:i] + [dict(r, out=(r["out"][0], []))] + rules[i + 1:])


def shrink(sc, binary, case, want, rounds=40):
    """greedy: try single-step reductions, keep the first that still fails (python-side re-computation of
    the spec decision on the implementation's answers) with the same leading class; the result is
    re-evaluated by the Coq check before it is reported"""
    cur = {k: v for k, v in case.items() if not k.startswith("_")}
    for rd in range(rounds):
        cands = list(candidates(cur))[:80]
        if not cands:
            break
        results, _ = run_impl(sc, binary, cands, "shrink", isolate=(want == M_CRASH))
        nxt = None
        for c, r in zip(cands, results):
            P = prepare(c, r)
            if py_fails(P) and want in py_classes(P):
                nxt = c
                break
        if nxt is None:
            break
        cur = nxt
    return cur


def describe(case, ev):
    P = ev["P"]
    probes = probes_for(case)
    bad = [i for (i, c) in ev["errors"] if c == 2]
    d = {"kind": case["kind"], "config_text": "\n".join(render_rule(r) for r in case["rules"]), "fallback": case["fallback"],
         "case": {k: v for k, v in case.items() if not k.startswith("_")}, "errors": ev["errors"], "signature": ev["sig"]}
    if ev["crashed"]:
        d["observed"] = "the process running the optimizers died: " + str(case.get("_crash_note"))
        return d
    if bad and P.res:
        i = bad[0]
        d["probe"] = probes[i]
        d["decision_optimised_list"] = P.res["dec_opt"][i]
        d["decision_list_as_written_(matcher_of_unmerged_list)"] = (P.res.get("dec_raw") or {}).get(i) if isinstance(P.res.get("dec_raw"), dict) else ((P.res.get("dec_raw") or [None] * (i + 1))[i] if P.res.get("dec_raw") else "build error: " + P.build_note[0])
        d["optimised_rules"] = P.res["stages"][-1]
        try:
            names = {v: "%s|%d" % k for k, v in P.ids.items()}
            sd = py_spec_decisions(P)[i]
            d["decision_spec_(list_as_written_read_on_the_AST)"] = "%s|%s" % (names.get(sd[0], "?"), str(sd[1]).lower())
        except Exception:
            pass
    if any(c == 8 for (_, c) in ev["errors"]):
        d["observed"] = "build error before/after optimisation differs: raw=%r optimised=%r" % P.build_note
    d["how"] = "feed `case_input(case)` to TestVerifC04 (harness/control/c04_test.go); spec decision = C04_Spec.decide on the list as written"
    return d


WHAT = {
    M_NEG: "REGRESSION of the repaired defect (/repo ec2de34): two neighbouring negated single-condition rules with equal outbound are merged: !f(a)->x; !f(b)->x becomes !f(a,b)->x, so packets matching exactly one of a, b are no longer routed to x",
    M_EMPTY: "REGRESSION of the repaired defect (/repo dd2eef7): a geodata reference that expands to no value leaves a condition with an empty value list; the builder emits no match set for it, so the condition counts as true (or the rule is spliced into the next one) instead of never matching",
    M_OUT: "MergeAndSortRulesOptimizer compares outbounds by Function.String, which prints only the first five parameters; neighbouring rules whose outbounds differ later are merged under the first outbound",
    M_DEDUP: "DeduplicateParamsOptimizer identifies values by Param.String: Key \"\"/Val \"k:v\" and Key \"k\"/Val \"v\" collide and one of two different values is dropped",
    M_CRASH: "REGRESSION of the repaired defect (/repo 2540ec6): DatReaderOptimizer indexes fields[1] of an `ext:` value without a colon inside a worker goroutine: the process dies instead of returning a configuration error",
    M_OTHER: "decision of the compiled program differs from the rule list as written",
}


def load_case(c):
    c = dict(c)
    c["rules"] = [dict(r, out=(r["out"][0], [tuple(p) for p in r["out"][1]]),
                       funcs=[dict(f, params=[tuple(p) for p in f["params"]]) for f in r["funcs"]]) for r in c["rules"]]
    return c


def replay(path):
    """re-run one recorded case against implementation, model and spec and print the three results"""
    d = json.load(open(path))
    payload = d.get("replay", d)
    if "case" not in payload:
        print(json.dumps({"error": "replay file names no input (no-failing-input-found record)", "file": path}))
        return 2
    case = load_case(payload["case"])
    with vlib.Scratch() as sc:
        binary, blog = vlib.build_go_test_binary(sc, "control", HARNESS)
        if binary is None:
            print(blog[-2000:])
            return 2
        evs, err = evaluate(sc, binary, [case], "replay", isolate=True)
        if err:
            print(err)
            return 2
        ev = evs[0]
        P = ev["P"]
        res = {"config_text": "\n".join(render_rule(r) for r in case["rules"]), "kind": case["kind"], "fallback": case["fallback"],
               "check_errors(probe,code)": ev["errors"], "signature": ev["sig"], "classes": classify(ev) if spec_fails(ev) else [],
               "crashed": ev["crashed"], "crash_note": case.get("_crash_note")}
        if not ev["crashed"] and P.res:
            res["impl_optimised_rules"] = P.res["stages"][-1] if P.res.get("stages") else None
            res["impl_decisions_optimised_list"] = P.res.get("dec_opt")
            res["impl_decisions_unmerged_list"] = P.res.get("dec_raw")
            if P.dec:
                names = {v: "%s|%d" % k for k, v in P.ids.items()}
                res["spec_decisions"] = ["%s|%s" % (names.get(a, "?"), str(b).lower()) for a, b in py_spec_decisions(P)]
            res["model"] = "model AST per stage and model decisions are compared inside C04_Check.check_case: codes 1/11/12 = impl<>model, 3/7 = model<>spec, 2/8/9 = impl<>spec"
        print(json.dumps(res, indent=1))
        return 1 if spec_fails(ev) else 0


def main(argv):
    args = vlib.main_args(argv)
    if args.replay:
        return replay(args.replay)
    out = vlib.Outcome(PID, args.tier, args.seed)
    rng = vlib.rng_for(args.seed, PID)
    quick = args.tier == "quick"
    n_cases = int(os.environ.get("VERIF_C04_CASES", "0")) or (260 if quick else 6000)
    n_risky = 2 if quick else 12

    try:
        translate()
        xlate_err = None
    except Exception as e:  # anchor moved: the generated constants cannot be trusted any more
        xlate_err = str(e)
    proof_ok, pinfo = vlib.proof_stage(out, PROPS, TARGETS)
    if xlate_err:
        proof_ok = False
        pinfo["failed"] = {"stage": "translate", "error": xlate_err}
    cov = {"obligations": pinfo["obligations"], "discharged": pinfo["discharged"],
           "checker_cmd": "cd /verif/coq && coq_makefile -f _CoqProject -o Makefile && make -j16 " + " ".join(TARGETS) + " && coqc -Q . Dae C04_Props.v (Print Assumptions captured)",
           "theorems": pinfo.get("theorems", []), "print_assumptions": pinfo.get("assumptions", []),
           "refuted_full_statements": ["C04_merge_sound_full (C04_merge_outbound_refuted; open finding C04/outbound-print-truncated)",
                                       "C04_dedup_sound_full (C04_dedup_sound_refuted; open finding C04/dedup-print-collision)",
                                       "C04_pipeline_sound_full (C04_pipeline_sound_refuted)"],
           "trusted_base": vlib.TRUSTED_BASE_COMMON + [
               "meaning of a single value (atom_sem) and of an outbound (out_sem) are parameters of the theorems; in the correspondence run they are tables filled by the real builders/matchers (one single-value rule per value) and routing.ParseOutbound",
               "pkg/geodata protobuf reader and netip prefix printing (the generator's own reading of its .dat data is compared with the model's expansion and with the implementation's)",
               "lowering of the AST to match sets is modelled at the level of (condition, key) groups (RulesBuilder.Apply, groupParamValuesByKey, scan loop); what each function parser does inside a group is C01/C07 and enters only through the real matchers' decisions on probe packets"]}
    out.coverage = cov
    out.assumptions = ["a value holds or not for a packet independently of the other values of its condition (function = negation xor OR of its values); the implicit zero-MAC exclusion of negated mac() conditions is outside this reading, all probes carry a non-zero MAC",
                       "aliases and geodata references mean what the documentation says (alias_respecting, geo_respecting)",
                       "rule lists whose unoptimised form does not build (unknown function, malformed value) are outside the quantifier; only the error/no-error agreement of the pipeline with the model is compared for them"]

    with vlib.Scratch() as sc:
        binary, blog = vlib.build_go_test_binary(sc, "control", HARNESS)
        if binary is None:
            out.violation("build", {"broken": "harness build against the repository failed", "log": blog[-3000:]},
                          "correspondence harness no longer builds", no_failing_input=True)
            cov.update(evaluations=0, distinct_nontrivial=0, rule="", samples=[], traces_validated_against_impl=0)
            return out.finish()
        corpus = []
        cdir = os.path.join(vlib.VERIF, "corpus", PID)
        if os.path.isdir(cdir):
            for nm in sorted(os.listdir(cdir)):
                if nm.endswith(".json"):
                    c = load_case(json.load(open(os.path.join(cdir, nm))))
                    c["_corpus"] = nm
                    corpus.append(c)
        corpus_risky = [c for c in corpus if c.get("risky")]
        corpus = [c for c in corpus if not c.get("risky")]
        cases = corpus + [gen_case(rng, big=(not quick and i % 5 == 0)) for i in range(n_cases)]
        risky = [gen_case(rng, flags={"p_crash": 0.5, "p_neg": 0.0, "p_empty": 0.0, "p_err": 0.0, "p_longout": 0.0, "p_collide": 0.0}) for _ in range(n_risky * 40)]
        risky = corpus_risky + [c for c in risky if any(k == "ext" and ":" not in v for r in c["rules"] for f in r["funcs"] for (k, v) in f["params"])][:n_risky]

        all_ev = []
        fatal = None
        shard = 400
        n_main = len(cases)
        cases = cases + risky
        for s in range(0, len(cases), shard):
            hi = min(s + shard, len(cases))
            evs, err = evaluate(sc, binary, cases[s:hi], "b%d" % s, isolate_from=max(0, min(hi, n_main) - s) if hi > n_main else None)
            if err:
                fatal = err
                break
            all_ev += evs

        def tie_idx():
            # impl <> model on the AST after a stage (1), on decisions of the compiled program (11, 12), oracle (5, 6)
            res = []
            for i, ev in enumerate(all_ev):
                if ev["crashed"] or ev["skip"] is not None:
                    continue
                codes = set(c for (_, c) in ev["errors"])
                if codes & {1, 5, 6, 11, 12, 13, 14}:
                    res.append(i)
            return res

        def thm_idx():
            return [i for i, ev in enumerate(all_ev) if any(c in THM_CODES for (_, c) in ev["errors"])]

        reported = {}
        status_by_class = {}

        def report_spec_failures():
            first = {}
            for i, ev in enumerate(all_ev):
                if ev["skip"] is not None or not spec_fails(ev) or i in done:
                    continue
                done.add(i)
                lead = classify(ev)[0]
                if lead in reported:
                    reported[lead]["count"] += 1
                elif lead in first:
                    first[lead][2] += 1
                else:
                    first[lead] = [i, shrink(sc, binary, cases[i], lead), 1]
            if not first:
                return
            leads = list(first)
            evs, err = evaluate(sc, binary, [first[l][1] for l in leads], "final", isolate=any(l == M_CRASH for l in leads))
            for j, lead in enumerate(leads):
                i, small, cnt = first[lead]
                ev = all_ev[i]
                sev = evs[j] if not err and evs and evs[j]["skip"] is None and spec_fails(evs[j]) else ev
                scase = small if sev is not ev else cases[i]
                ms = classify(sev)
                d = describe(scase, sev)
                st = out.violation(lead.split("/")[1], d, WHAT[lead], matchers=ms)
                reported[lead] = {"count": cnt, "status": st, "matchers": ms, "minimal": d["config_text"]}

        done = set()
        if not fatal:
            report_spec_failures()
        # a reported (not known-listed) failing input explains a broken tie; a failing input of an open finding does not
        def explained():
            return any(v["status"] == "violation" for v in reported.values())
        unsuppressed = explained()
        widened = False
        if not fatal and (not proof_ok or tie_idx() or thm_idx()) and not unsuppressed:
            widened = True
            extra = [gen_case(rng, big=True) for _ in range(10 * n_cases if quick else n_cases)]
            for s in range(0, len(extra), shard):
                evs, err = evaluate(sc, binary, extra[s:s + shard], "w%d" % s)
                if err:
                    break
                cases += extra[s:s + shard]
                all_ev += evs
            report_spec_failures()
            unsuppressed = explained()
        if fatal or ((not proof_ok or tie_idx() or thm_idx()) and not unsuppressed):
            what = {}
            if not proof_ok:
                what["proof"] = pinfo["failed"]
            if fatal:
                what["correspondence"] = fatal
            ti, th = (tie_idx(), thm_idx()) if not fatal else ([], [])
            ti.sort(key=lambda i: (spec_fails(all_ev[i]), i))
            if ti:
                ev = all_ev[ti[0]]
                what["correspondence_case"] = {"config_text": "\n".join(render_rule(r) for r in cases[ti[0]]["rules"]), "kind": cases[ti[0]]["kind"],
                                               "errors": ev["errors"], "codes": "1 stage AST differs from model; 13/14 build error-ness of the optimised / un-merged list differs from the model (empty condition); 11/12 decision of the real matcher differs from the model's lower+scan (optimised / un-merged list); 5 oracle table; 6 error expected",
                                               "impl_stages": ev["P"].res.get("stages") if ev["P"].res else None, "stage_errs": ev["P"].res.get("stage_errs") if ev["P"].res else None,
                                               "count": len(ti)}
            if th:
                what["model_vs_spec_case"] = {"config_text": "\n".join(render_rule(r) for r in cases[th[0]]["rules"]), "errors": all_ev[th[0]]["errors"]}
            what["searched"] = "%d rule lists (widened=%s) with no new impl<>spec disagreement" % (len(all_ev), widened)
            out.violation("tie", what, "proof obligation or model correspondence no longer checks; no failing input found", no_failing_input=True)

        live = [ev for ev in all_ev if ev["skip"] is None]
        sigs = [ev["sig"] for ev in live if ev["sig"]]
        nontrivial = set(s for s in sigs if s[0] > 0 or s[1] > 0 or s[2] > 0)
        kinds = {}
        for c, ev in zip(cases, all_ev):
            kinds[c["kind"]] = kinds.get(c["kind"], 0) + 1
        cov.update(
            evaluations=len(all_ev), distinct_nontrivial=len(nontrivial), distinct_signatures=len(set(sigs)),
            rule="rule lists rendered as configuration text and parsed by the real parser; biased to neighbours sharing function/negation/outbound, repeated and overlapping values, "
                 "mixed keys, aliases dip/dport/domain keys, address families (CIDRs with host bits set, nested/overlapping prefixes in any order, duplicates up to masking, v4-in-v6 spellings) drawn into one condition and into mergeable neighbours,  geosite/geoip/ext references incl. attribute filters, empty and failing expansions, outbounds with marks/must/must_rules; "
                 "signature = (rules merged away, values removed by dedup, values added by geodata, negated neighbours that must stay unmerged, outbound-print hazards, dedup print collisions, model class, conditions left without values); "
                 "non-trivial = distinct signatures in which at least one optimizer changed the list",
            traces_validated_against_impl=len([ev for ev in live if not ev["crashed"] and not any(c in (1, 5, 6, 11, 12, 13, 14) for (_, c) in ev["errors"])]),
            comparisons="probes = fixed pool per kind + per-case boundary probes (address as written, first/last of the masked prefix, the two addresses outside) of every address value incl. geoip expansions; per stage (alias, dat, merge+sort, dedup): impl AST = model AST; per probe: impl decision (optimised list) = spec decision on the list as written; "
                        "impl decision (optimised / un-merged list) = model's compiled program (lower + scan of the model's lists); model decision = spec (code 3 if the partial theorems' hypotheses hold, 7 otherwise)",
            cases_by_kind=kinds, skipped=len(all_ev) - len(live),
            cases_merging=len([s for s in sigs if s[0] > 0]), cases_dedup=len([s for s in sigs if s[1] > 0]), cases_geodata=len([s for s in sigs if s[2] > 0]),
            cases_negated_neighbours=len([s for s in sigs if s[3] > 0]), cases_ext_without_colon=len(risky), cases_model_error=len([s for s in sigs if s[6] == 1]),
            cases_unaligned_cidr_overlapping_in_one_set=len([ev for ev in live if unaligned_overlap(ev["P"])]),
            probes_total=sum(ev["P"].n for ev in live), probes_boundary=sum(ev["P"].n - len(PROBES[ev["P"].kind]) for ev in live), cases_build_error_empty_condition=len([s for s in sigs if s[7] > 0]), cases_model_crash=len([s for s in sigs if s[6] == 2]),
            cases_outside_partial_hypotheses=len([ev for ev in live if any(c == 7 for (_, c) in ev["errors"])]),
            impl_vs_spec_failures={k: {"count": v["count"], "status": v["status"], "minimal": v["minimal"]} for k, v in reported.items()},
            samples=[{"kind": cases[len(corpus)]["kind"], "config_text": "\n".join(render_rule(r) for r in cases[len(corpus)]["rules"]),
                      "signature": all_ev[len(corpus)]["sig"]}] if len(all_ev) > len(corpus) else [],
            widened_search=widened)
    return out.finish()


if __name__ == "__main__":
    sys.exit(main(sys.argv[1:]))
