//go:build verif

package outbound

// C14 harness: drives the real DialerSet.FilterAndAnnotate, dialer.NewAnnotation (through it) and
// NewDialerSelectionPolicyFromGroupParam on generated pools and group definitions, and reports the
// answers of the libraries the code delegates to (regexp2, time.ParseDuration) as oracle data.
// All strings travel hex-encoded so that arbitrary bytes survive JSON.

import (
	"context"
	"encoding/hex"
	"encoding/json"
	"errors"
	"fmt"
	"io"
	"strings"
	"testing"
	"time"

	"github.com/daeuniverse/dae/common/consts"
	"github.com/daeuniverse/dae/config"
	"github.com/daeuniverse/dae/component/outbound/dialer"
	"github.com/daeuniverse/dae/pkg/config_parser"
	D "github.com/daeuniverse/outbound/dialer"
	"github.com/daeuniverse/outbound/netproxy"
	"github.com/dlclark/regexp2"
	"github.com/sirupsen/logrus"
)

type c14Param struct {
	K string `json:"k"`
	V string `json:"v"`
}

type c14Func struct {
	Name   string     `json:"name"`
	Not    bool       `json:"not"`
	Params []c14Param `json:"params"`
}

type c14Node struct {
	Name string `json:"name"`
	Tag  string `json:"tag"`
}

type c14Policy struct {
	Type string    `json:"type"` // string | func | funcs | other
	S    string    `json:"s"`
	Fs   []c14Func `json:"fs"`
}

type c14Case struct {
	Pool   []c14Node    `json:"pool"`
	Lines  [][]c14Func  `json:"lines"`
	Annos  [][]c14Param `json:"annos"`
	Policy c14Policy    `json:"policy"`
	Text   string       `json:"text,omitempty"` // optional: the same group as dae configuration text
	// optional: build the pool with the production NewDialerSetFromLinks from subscription tag -> links
	// (Pool is ignored then)
	// optional: several groups declared in ONE configuration text (Text); Lines/Annos/Policy are ignored,
	// every group is decoded by config.New and evaluated from what was decoded
	Groups    []c14GroupDef `json:"groups,omitempty"`
	FromLinks bool        `json:"from_links,omitempty"`
	Tagged    []c14Tagged `json:"tagged,omitempty"`
}

type c14GroupDef struct {
	Name   string       `json:"name"`
	Lines  [][]c14Func  `json:"lines"`
	Annos  [][]c14Param `json:"annos"`
	Policy c14Policy    `json:"policy"`
}

type c14Tagged struct {
	Tag   string   `json:"tag"`
	Links []string `json:"links"`
}

type c14Re struct {
	Ok bool            `json:"ok"`
	M  map[string]bool `json:"m"`
}

type c14PolicyOut struct {
	Kind  string `json:"kind"`
	Index int64  `json:"index"`
}

type c14Result struct {
	Members [][2]int64        `json:"members"`
	Err     string            `json:"err,omitempty"`
	ErrMsg  string            `json:"errmsg,omitempty"`
	Policy  *c14PolicyOut     `json:"policy,omitempty"`
	PErr    string            `json:"perr,omitempty"`
	PErrMsg string            `json:"perrmsg,omitempty"`
	Re      map[string]c14Re  `json:"re"`
	Dur     map[string]*int64 `json:"dur"`
	Fixed   *c14Fixed         `json:"fixed,omitempty"` // fixed policy on a built group: DialerGroup.Select
	Text    string            `json:"text,omitempty"` // "", "same", "differs: ...", "error: ..."
	// from_links: the pool NewDialerSetFromLinks built, (tag, name) in s.dialers order, and the link oracle
	// (link -> name the link parses to, null when dialer.NewFromLink rejects it)
	Multi    []c14Result        `json:"multi,omitempty"`   // per decoded group, in conf.Group order
	Decoded  *c14GroupDef       `json:"decoded,omitempty"` // (inside Multi) the group as config.New decoded it
	ImplPool [][2]string        `json:"impl_pool,omitempty"`
	Links    map[string]*string `json:"links,omitempty"`
	Panic   string            `json:"panic,omitempty"`
}

type c14Fixed struct {
	Idx    int64  `json:"idx"`
	Err    string `json:"err,omitempty"`
	ErrMsg string `json:"errmsg,omitempty"`
	Group  string `json:"group,omitempty"` // "" or how DialerGroup's own member list differs from FilterAndAnnotate's
}

type c14NoopDialer struct{}

func (c14NoopDialer) DialContext(context.Context, string, string) (netproxy.Conn, error) {
	return nil, errors.New("not implemented")
}

func c14Unhex(s string) string {
	b, err := hex.DecodeString(s)
	if err != nil {
		panic("bad hex " + s)
	}
	return string(b)
}

func c14Params(ps []c14Param) []*config_parser.Param {
	var out []*config_parser.Param
	for _, p := range ps {
		out = append(out, &config_parser.Param{Key: c14Unhex(p.K), Val: c14Unhex(p.V)})
	}
	return out
}

func c14Funcs(fs []c14Func) []*config_parser.Function {
	var out []*config_parser.Function
	for _, f := range fs {
		out = append(out, &config_parser.Function{Name: c14Unhex(f.Name), Not: f.Not, Params: c14Params(f.Params)})
	}
	return out
}

func c14GroupErrClass(err error) string {
	m := err.Error()
	switch {
	case strings.HasPrefix(m, "bad regexp in filter "):
		return "bad_regex"
	case strings.HasPrefix(m, `unsupported filter key "`):
		return "unknown_key"
	case strings.HasPrefix(m, `unsupported filter input type: "`):
		return "unknown_input"
	case strings.HasPrefix(m, "apply filter annotation: incorrect latency format: "):
		return "anno_format"
	case strings.HasPrefix(m, "apply filter annotation: unknown filter annotation: "):
		return "anno_key"
	case strings.HasPrefix(m, "[CODE BUG]: unmatched annotations length"):
		return "len_mismatch"
	}
	return "other"
}

func c14PolicyErrClass(err error) string {
	m := err.Error()
	switch {
	case strings.HasPrefix(m, "unsupported function-list-or-string value type"):
		return "pol_type"
	case strings.HasPrefix(m, "policy should be exact 1 function"):
		return "pol_count"
	case strings.HasPrefix(m, "policy param does not support not operator"):
		return "pol_not"
	case strings.HasPrefix(m, `invalid "fixed" param format: `):
		return "pol_atoi"
	case strings.HasPrefix(m, `invalid "fixed" param format`):
		return "pol_format"
	case strings.HasPrefix(m, "unexpected policy"):
		return "pol_unknown"
	}
	return "other"
}

var c14Log = func() *logrus.Logger {
	l := logrus.New()
	l.SetOutput(io.Discard)
	l.SetLevel(logrus.PanicLevel)
	return l
}()

func c14Run(c *c14Case) (res c14Result) {
	res.Re = map[string]c14Re{}
	res.Dur = map[string]*int64{}
	defer func() {
		if r := recover(); r != nil {
			res.Panic = fmt.Sprint(r)
		}
	}()
	option := &dialer.GlobalOption{Log: c14Log, CheckInterval: 30 * time.Second,
		TcpCheckOptionRaw: dialer.TcpCheckOptionRaw{Raw: []string{"http://cp.cloudflare.com"}},
		CheckDnsOptionRaw: dialer.CheckDnsOptionRaw{Raw: []string{"dns.google:53"}}}
	var set *DialerSet
	index := map[*dialer.Dialer]int{}
	var subjects []string
	if c.FromLinks {
		// the production constructor, on a fresh Go map (iteration order is the runtime's choice)
		m := make(map[string][]string, len(c.Tagged))
		res.Links = map[string]*string{}
		for _, e := range c.Tagged {
			tag := c14Unhex(e.Tag)
			var links []string
			for _, l := range e.Links {
				link := c14Unhex(l)
				links = append(links, link)
				if _, ok := res.Links[l]; !ok {
					d, err := dialer.NewFromLink(option, dialer.InstanceOption{DisableCheck: true}, link, "")
					if err != nil {
						res.Links[l] = nil
					} else {
						nm := hex.EncodeToString([]byte(d.Property().Name))
						res.Links[l] = &nm
						subjects = append(subjects, d.Property().Name)
						_ = d.Close()
					}
				}
			}
			m[tag] = links
			subjects = append(subjects, tag)
		}
		set = NewDialerSetFromLinks(option, m)
		res.ImplPool = make([][2]string, 0, len(set.dialers))
		for i, d := range set.dialers {
			index[d] = i
			res.ImplPool = append(res.ImplPool, [2]string{hex.EncodeToString([]byte(set.nodeToTagMap[d])), hex.EncodeToString([]byte(d.Property().Name))})
		}
	} else {
		set = &DialerSet{log: c14Log, dialers: make([]*dialer.Dialer, 0), nodeToTagMap: make(map[*dialer.Dialer]string)}
		for i, n := range c.Pool {
			name, tag := c14Unhex(n.Name), c14Unhex(n.Tag)
			d := dialer.NewDialer(c14NoopDialer{}, option, dialer.InstanceOption{DisableCheck: true},
				&dialer.Property{Property: D.Property{Name: name}, SubscriptionTag: tag})
			set.dialers = append(set.dialers, d)
			set.nodeToTagMap[d] = tag
			index[d] = i
			subjects = append(subjects, name, tag)
		}
	}
	defer func() { _ = set.Close() }()

	if len(c.Groups) > 0 {
		c14Multi(option, set, index, subjects, c, &res)
		return res
	}

	var filters [][]*config_parser.Function
	for _, l := range c.Lines {
		filters = append(filters, c14Funcs(l))
	}
	var annos [][]*config_parser.Param
	for _, a := range c.Annos {
		annos = append(annos, c14Params(a))
	}

	c14Oracles(&res, filters, annos, subjects)

	var pol config.FunctionListOrString
	switch c.Policy.Type {
	case "string":
		pol = c14Unhex(c.Policy.S)
	case "func":
		pol = c14Funcs(c.Policy.Fs)[0]
	case "funcs":
		fs := c14Funcs(c.Policy.Fs)
		if fs == nil {
			fs = []*config_parser.Function{}
		}
		pol = fs
	default:
		pol = 42
	}
	c14Eval(option, set, index, &config.Group{Name: "g", Filter: filters, FilterAnnotation: annos, Policy: pol}, &res)

	if c.Text != "" {
		res.Text = c14TextPath(option, set, index, c.Text, filters, annos, pol, &res)
	}
	return res
}

// oracle data: regexp2 and time.ParseDuration, asked directly
func c14Oracles(res *c14Result, filters [][]*config_parser.Function, annos [][]*config_parser.Param, subjects []string) {
	for _, l := range filters {
		for _, f := range l {
			for _, p := range f.Params {
				if p.Key != "regex" {
					continue
				}
				hk := hex.EncodeToString([]byte(p.Val))
				if _, ok := res.Re[hk]; ok {
					continue
				}
				re, err := regexp2.Compile(p.Val, 0)
				e := c14Re{Ok: err == nil, M: map[string]bool{}}
				if err == nil {
					for _, s := range subjects {
						m, _ := re.MatchString(s)
						e.M[hex.EncodeToString([]byte(s))] = m
					}
				}
				res.Re[hk] = e
			}
		}
	}
	for _, a := range annos {
		for _, p := range a {
			hk := hex.EncodeToString([]byte(p.Val))
			d, err := time.ParseDuration(p.Val)
			if err != nil {
				res.Dur[hk] = nil
			} else {
				v := int64(d)
				res.Dur[hk] = &v
			}
		}
	}
}

// c14Eval runs the two production entry points exactly as control_plane.go does for one group.
func c14Eval(option *dialer.GlobalOption, set *DialerSet, index map[*dialer.Dialer]int, g *config.Group, res *c14Result) {
	ds, as, err := set.FilterAndAnnotate(g.Filter, g.FilterAnnotation)
	if err != nil {
		res.Err = c14GroupErrClass(err)
		res.ErrMsg = err.Error()
	} else {
		if len(ds) != len(as) {
			res.Err = "other"
			res.ErrMsg = fmt.Sprintf("harness: %d dialers but %d annotations", len(ds), len(as))
		}
		res.Members = make([][2]int64, 0, len(ds))
		for i, d := range ds {
			ix, ok := index[d]
			if !ok {
				ix = -1
			}
			var lat int64 = -1
			if i < len(as) && as[i] != nil {
				lat = int64(as[i].AddLatency)
			} else {
				ix = -2
			}
			res.Members = append(res.Members, [2]int64{int64(ix), lat})
		}
	}
	p, err := NewDialerSelectionPolicyFromGroupParam(g)
	if err != nil {
		res.PErr = c14PolicyErrClass(err)
		res.PErrMsg = err.Error()
	} else {
		res.Policy = &c14PolicyOut{Kind: string(p.Policy), Index: int64(p.FixedIndex)}
	}
	// As control_plane.go does next: the group is built from exactly these dialers, annotations and
	// policy.  For fixed(i) (no health state involved) also ask the group to select.
	if err == nil && res.Err == "" && p.Policy == consts.DialerSelectionPolicy_Fixed {
		grp := NewDialerGroup(option, g.Name, ds, as, *p, func(bool, *dialer.NetworkType, bool) {})
		fx := &c14Fixed{Idx: -1}
		if len(grp.Dialers) != len(ds) || len(grp.dialersAnnotations) != len(as) {
			fx.Group = "length"
		} else {
			for i := range ds {
				if grp.Dialers[i] != ds[i] || grp.dialersAnnotations[i] != as[i] {
					fx.Group = fmt.Sprintf("member %d", i)
					break
				}
			}
		}
		d, _, serr := grp.Select(&dialer.NetworkType{L4Proto: consts.L4ProtoStr_TCP, IpVersion: consts.IpVersionStr_4}, true)
		if serr != nil {
			fx.ErrMsg = serr.Error()
			switch {
			case strings.HasPrefix(fx.ErrMsg, "selected dialer index is out of range"):
				fx.Err = "sel_range"
			case strings.HasPrefix(fx.ErrMsg, "no dialer in this group"):
				fx.Err = "sel_empty"
			default:
				fx.Err = "other"
			}
		} else if ix, ok := index[d]; ok {
			fx.Idx = int64(ix)
		} else {
			fx.Err = "other"
			fx.ErrMsg = "selected dialer is not a pool node"
		}
		_ = grp.Close()
		res.Fixed = fx
	}
}

func c14SameFuncs(a, b []*config_parser.Function) bool {
	if len(a) != len(b) {
		return false
	}
	for i := range a {
		if a[i].Name != b[i].Name || a[i].Not != b[i].Not || !c14SameParams(a[i].Params, b[i].Params) {
			return false
		}
	}
	return true
}

func c14SameParams(a, b []*config_parser.Param) bool {
	if len(a) != len(b) {
		return false
	}
	for i := range a {
		if a[i].Key != b[i].Key || a[i].Val != b[i].Val || a[i].AndFunctions != nil || b[i].AndFunctions != nil {
			return false
		}
	}
	return true
}

// c14TextPath parses the configuration text with the production parser (config_parser.Parse + config.New),
// checks that the one group it declares is the definition the case describes (filter lines, the
// annotation attached to each line, policy value) and that evaluating it gives the same answers.
func c14TextPath(option *dialer.GlobalOption, set *DialerSet, index map[*dialer.Dialer]int, text string, filters [][]*config_parser.Function,
	annos [][]*config_parser.Param, pol config.FunctionListOrString, want *c14Result) string {
	sections, err := config_parser.Parse(text)
	if err != nil {
		return "error: parse: " + err.Error()
	}
	conf, err := config.New(sections)
	if err != nil {
		return "error: config.New: " + err.Error()
	}
	if len(conf.Group) != 1 {
		return fmt.Sprintf("differs: %d groups", len(conf.Group))
	}
	g := conf.Group[0]
	if len(g.Filter) != len(filters) || len(g.FilterAnnotation) != len(annos) {
		return fmt.Sprintf("differs: %d filter lines and %d annotations, expected %d and %d", len(g.Filter), len(g.FilterAnnotation), len(filters), len(annos))
	}
	for i := range filters {
		if !c14SameFuncs(g.Filter[i], filters[i]) {
			return fmt.Sprintf("differs: filter line %d", i)
		}
		if !c14SameParams(g.FilterAnnotation[i], annos[i]) {
			return fmt.Sprintf("differs: annotation of line %d", i)
		}
	}
	switch w := pol.(type) {
	case string:
		if got, ok := g.Policy.(string); !ok || got != w {
			return fmt.Sprintf("differs: policy %#v", g.Policy)
		}
	case []*config_parser.Function:
		if got, ok := g.Policy.([]*config_parser.Function); !ok || !c14SameFuncs(got, w) {
			return fmt.Sprintf("differs: policy %#v", g.Policy)
		}
	default:
		return "error: harness: policy type not expressible as text"
	}
	var res2 c14Result
	c14Eval(option, set, index, &g, &res2)
	j1, _ := json.Marshal([]any{want.Members, want.Err, want.Policy, want.PErr, want.Fixed})
	j2, _ := json.Marshal([]any{res2.Members, res2.Err, res2.Policy, res2.PErr, res2.Fixed})
	if string(j1) != string(j2) {
		return "differs: answers " + string(j2)
	}
	return "same"
}

func TestVerifC14(t *testing.T) {
	verifEachLine(t, func(line []byte) any {
		var c c14Case
		if err := json.Unmarshal(line, &c); err != nil {
			return c14Result{Panic: "bad case json: " + err.Error()}
		}
		return c14Run(&c)
	})
}

func c14WireParams(ps []*config_parser.Param) []c14Param {
	out := []c14Param{}
	for _, p := range ps {
		out = append(out, c14Param{K: hex.EncodeToString([]byte(p.Key)), V: hex.EncodeToString([]byte(p.Val))})
	}
	return out
}

func c14WireFuncs(fs []*config_parser.Function) []c14Func {
	out := []c14Func{}
	for _, f := range fs {
		out = append(out, c14Func{Name: hex.EncodeToString([]byte(f.Name)), Not: f.Not, Params: c14WireParams(f.Params)})
	}
	return out
}

// c14Multi: one configuration text declaring several groups -> config_parser.Parse -> config.New; every
// decoded group is reported as decoded and evaluated (FilterAndAnnotate, policy, fixed selection) from
// the decoded struct, exactly what control_plane.go does per group.
func c14Multi(option *dialer.GlobalOption, set *DialerSet, index map[*dialer.Dialer]int, subjects []string, c *c14Case, res *c14Result) {
	for _, g := range c.Groups {
		var filters [][]*config_parser.Function
		for _, l := range g.Lines {
			filters = append(filters, c14Funcs(l))
		}
		var annos [][]*config_parser.Param
		for _, a := range g.Annos {
			annos = append(annos, c14Params(a))
		}
		c14Oracles(res, filters, annos, subjects)
	}
	sections, err := config_parser.Parse(c.Text)
	if err != nil {
		res.Text = "error: parse: " + err.Error()
		return
	}
	conf, err := config.New(sections)
	if err != nil {
		res.Text = "error: config.New: " + err.Error()
		return
	}
	res.Text = "parsed"
	res.Multi = []c14Result{}
	for i := range conf.Group {
		g := conf.Group[i]
		var sub c14Result
		dec := &c14GroupDef{Name: hex.EncodeToString([]byte(g.Name)), Lines: [][]c14Func{}, Annos: [][]c14Param{}}
		for _, l := range g.Filter {
			dec.Lines = append(dec.Lines, c14WireFuncs(l))
		}
		for _, a := range g.FilterAnnotation {
			dec.Annos = append(dec.Annos, c14WireParams(a))
		}
		switch p := g.Policy.(type) {
		case string:
			dec.Policy = c14Policy{Type: "string", S: hex.EncodeToString([]byte(p))}
		case *config_parser.Function:
			dec.Policy = c14Policy{Type: "func", Fs: c14WireFuncs([]*config_parser.Function{p})}
		case []*config_parser.Function:
			dec.Policy = c14Policy{Type: "funcs", Fs: c14WireFuncs(p)}
		default:
			dec.Policy = c14Policy{Type: "other"}
		}
		sub.Decoded = dec
		// regex / duration oracle for whatever was decoded (equal to the declared ones unless decoding is wrong)
		c14Oracles(res, g.Filter, g.FilterAnnotation, subjects)
		c14Eval(option, set, index, &g, &sub)
		res.Multi = append(res.Multi, sub)
	}
}
