//go:build verif

package outbound

// C14 harness: drives the real DialerSet.FilterAndAnnotate, dialer.NewAnnotation (through it) and
// NewDialerSelectionPolicyFromGroupParam on generated pools and group definitions, and reports the
// answers of the libraries the code delegates to (regexp2, time.ParseDuration) as oracle data.
// All strings travel hex-encoded so that arbitrary bytes survive JSON.

import (
	"context"
	"encoding/hex"
	"encoding/json"
	"errors"
	"fmt"
	"io"
	"strings"
	"testing"
	"time"

	"github.com/daeuniverse/dae/config"
	"github.com/daeuniverse/dae/component/outbound/dialer"
	"github.com/daeuniverse/dae/pkg/config_parser"
	D "github.com/daeuniverse/outbound/dialer"
	"github.com/daeuniverse/outbound/netproxy"
	"github.com/dlclark/regexp2"
	"github.com/sirupsen/logrus"
)

type c14Param struct {
	K string `json:"k"`
	V string `json:"v"`
}

type c14Func struct {
	Name   string     `json:"name"`
	Not    bool       `json:"not"`
	Params []c14Param `json:"params"`
}

type c14Node struct {
	Name string `json:"name"`
	Tag  string `json:"tag"`
}

type c14Policy struct {
	Type string    `json:"type"` // string | func | funcs | other
	S    string    `json:"s"`
	Fs   []c14Func `json:"fs"`
}

type c14Case struct {
	Pool   []c14Node    `json:"pool"`
	Lines  [][]c14Func  `json:"lines"`
	Annos  [][]c14Param `json:"annos"`
	Policy c14Policy    `json:"policy"`
	Text   string       `json:"text,omitempty"` // optional: the same group as dae configuration text
}

type c14Re struct {
	Ok bool            `json:"ok"`
	M  map[string]bool `json:"m"`
}

type c14PolicyOut struct {
	Kind  string `json:"kind"`
	Index int64  `json:"index"`
}

type c14Result struct {
	Members [][2]int64        `json:"members"`
	Err     string            `json:"err,omitempty"`
	ErrMsg  string            `json:"errmsg,omitempty"`
	Policy  *c14PolicyOut     `json:"policy,omitempty"`
	PErr    string            `json:"perr,omitempty"`
	PErrMsg string            `json:"perrmsg,omitempty"`
	Re      map[string]c14Re  `json:"re"`
	Dur     map[string]*int64 `json:"dur"`
	Text    string            `json:"text,omitempty"` // "", "same", "differs: ...", "error: ..."
	Panic   string            `json:"panic,omitempty"`
}

type c14NoopDialer struct{}

func (c14NoopDialer) DialContext(context.Context, string, string) (netproxy.Conn, error) {
	return nil, errors.New("not implemented")
}

func c14Unhex(s string) string {
	b, err := hex.DecodeString(s)
	if err != nil {
		panic("bad hex " + s)
	}
	return string(b)
}

func c14Params(ps []c14Param) []*config_parser.Param {
	var out []*config_parser.Param
	for _, p := range ps {
		out = append(out, &config_parser.Param{Key: c14Unhex(p.K), Val: c14Unhex(p.V)})
	}
	return out
}

func c14Funcs(fs []c14Func) []*config_parser.Function {
	var out []*config_parser.Function
	for _, f := range fs {
		out = append(out, &config_parser.Function{Name: c14Unhex(f.Name), Not: f.Not, Params: c14Params(f.Params)})
	}
	return out
}

func c14GroupErrClass(err error) string {
	m := err.Error()
	switch {
	case strings.HasPrefix(m, "bad regexp in filter "):
		return "bad_regex"
	case strings.HasPrefix(m, `unsupported filter key "`):
		return "unknown_key"
	case strings.HasPrefix(m, `unsupported filter input type: "`):
		return "unknown_input"
	case strings.HasPrefix(m, "apply filter annotation: incorrect latency format: "):
		return "anno_format"
	case strings.HasPrefix(m, "apply filter annotation: unknown filter annotation: "):
		return "anno_key"
	case strings.HasPrefix(m, "[CODE BUG]: unmatched annotations length"):
		return "len_mismatch"
	}
	return "other"
}

func c14PolicyErrClass(err error) string {
	m := err.Error()
	switch {
	case strings.HasPrefix(m, "unsupported function-list-or-string value type"):
		return "pol_type"
	case strings.HasPrefix(m, "policy should be exact 1 function"):
		return "pol_count"
	case strings.HasPrefix(m, "policy param does not support not operator"):
		return "pol_not"
	case strings.HasPrefix(m, `invalid "fixed" param format: `):
		return "pol_atoi"
	case strings.HasPrefix(m, `invalid "fixed" param format`):
		return "pol_format"
	case strings.HasPrefix(m, "unexpected policy"):
		return "pol_unknown"
	}
	return "other"
}

var c14Log = func() *logrus.Logger {
	l := logrus.New()
	l.SetOutput(io.Discard)
	l.SetLevel(logrus.PanicLevel)
	return l
}()

func c14Run(c *c14Case) (res c14Result) {
	res.Re = map[string]c14Re{}
	res.Dur = map[string]*int64{}
	defer func() {
		if r := recover(); r != nil {
			res.Panic = fmt.Sprint(r)
		}
	}()
	option := &dialer.GlobalOption{Log: c14Log, CheckInterval: 30 * time.Second}
	set := &DialerSet{log: c14Log, dialers: make([]*dialer.Dialer, 0), nodeToTagMap: make(map[*dialer.Dialer]string)}
	index := map[*dialer.Dialer]int{}
	var subjects []string
	for i, n := range c.Pool {
		name, tag := c14Unhex(n.Name), c14Unhex(n.Tag)
		d := dialer.NewDialer(c14NoopDialer{}, option, dialer.InstanceOption{DisableCheck: true},
			&dialer.Property{Property: D.Property{Name: name}, SubscriptionTag: tag})
		set.dialers = append(set.dialers, d)
		set.nodeToTagMap[d] = tag
		index[d] = i
		subjects = append(subjects, name, tag)
	}
	defer func() { _ = set.Close() }()

	var filters [][]*config_parser.Function
	for _, l := range c.Lines {
		filters = append(filters, c14Funcs(l))
	}
	var annos [][]*config_parser.Param
	for _, a := range c.Annos {
		annos = append(annos, c14Params(a))
	}

	// oracle data: regexp2 and time.ParseDuration, asked directly
	for _, l := range filters {
		for _, f := range l {
			for _, p := range f.Params {
				if p.Key != "regex" {
					continue
				}
				hk := hex.EncodeToString([]byte(p.Val))
				if _, ok := res.Re[hk]; ok {
					continue
				}
				re, err := regexp2.Compile(p.Val, 0)
				e := c14Re{Ok: err == nil, M: map[string]bool{}}
				if err == nil {
					for _, s := range subjects {
						m, _ := re.MatchString(s)
						e.M[hex.EncodeToString([]byte(s))] = m
					}
				}
				res.Re[hk] = e
			}
		}
	}
	for _, a := range annos {
		for _, p := range a {
			hk := hex.EncodeToString([]byte(p.Val))
			d, err := time.ParseDuration(p.Val)
			if err != nil {
				res.Dur[hk] = nil
			} else {
				v := int64(d)
				res.Dur[hk] = &v
			}
		}
	}

	ds, as, err := set.FilterAndAnnotate(filters, annos)
	if err != nil {
		res.Err = c14GroupErrClass(err)
		res.ErrMsg = err.Error()
	} else {
		if len(ds) != len(as) {
			res.Err = "other"
			res.ErrMsg = fmt.Sprintf("harness: %d dialers but %d annotations", len(ds), len(as))
		}
		res.Members = make([][2]int64, 0, len(ds))
		for i, d := range ds {
			ix, ok := index[d]
			if !ok {
				ix = -1
			}
			var lat int64 = -1
			if i < len(as) && as[i] != nil {
				lat = int64(as[i].AddLatency)
			}
			res.Members = append(res.Members, [2]int64{int64(ix), lat})
		}
	}

	var pol config.FunctionListOrString
	switch c.Policy.Type {
	case "string":
		pol = c14Unhex(c.Policy.S)
	case "func":
		pol = c14Funcs(c.Policy.Fs)[0]
	case "funcs":
		fs := c14Funcs(c.Policy.Fs)
		if fs == nil {
			fs = []*config_parser.Function{}
		}
		pol = fs
	default:
		pol = 42
	}
	p, err := NewDialerSelectionPolicyFromGroupParam(&config.Group{Name: "g", Filter: filters, FilterAnnotation: annos, Policy: pol})
	if err != nil {
		res.PErr = c14PolicyErrClass(err)
		res.PErrMsg = err.Error()
	} else {
		res.Policy = &c14PolicyOut{Kind: string(p.Policy), Index: int64(p.FixedIndex)}
	}
	return res
}

func TestVerifC14(t *testing.T) {
	verifEachLine(t, func(line []byte) any {
		var c c14Case
		if err := json.Unmarshal(line, &c); err != nil {
			return c14Result{Panic: "bad case json: " + err.Error()}
		}
		return c14Run(&c)
	})
}
