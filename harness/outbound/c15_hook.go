//go:build verif

package outbound

// Verification-only yield point for property C15 (injected with `go test -overlay` together with a patched copy of
// dialer_group.go that calls verifC15Yield inside DialerGroup.SetSelectionPolicy; /repo is not modified).
// point 1..6: that many shared alive sets have executed SetSelectionPolicy(new); point 7: the loop is over (or was
// skipped because the policy is unchanged) and the new group state has not been stored yet.

var VerifC15SwitchHook func(point int)

func verifC15Yield(point int) {
	if h := VerifC15SwitchHook; h != nil {
		h(point)
	}
}
