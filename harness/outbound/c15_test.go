//go:build verif

package outbound

// C15 harness: builds real Dialers (no-op inner dialer, checks disabled: no network), registers them in a
// real DialerGroup and drives a history of latency samples, health reports, direct set notifications,
// policy switches and selections.  After every operation it reports what changed in the dialers' own
// latency summaries / health flags (as the sets read them), dumps of the touched AliveDialerSets, the
// aliveChangeCallback calls, and the selection results.

import (
	"context"
	"errors"
	"fmt"
	"io"
	"testing"
	"time"

	"encoding/json"

	"github.com/daeuniverse/dae/common/consts"
	"github.com/daeuniverse/dae/component/outbound/dialer"
	"github.com/daeuniverse/outbound/netproxy"
	"github.com/sirupsen/logrus"
)

type c15Policy struct {
	P string `json:"p"` // fixed random min min_avg10 min_moving_avg
	I int    `json:"i"`
}

type c15Op struct {
	K      string    `json:"k"` // sample die fail notify silent policy select
	D      int       `json:"d"`
	T      int       `json:"t"` // 0 dns4 1 dns6 2 tcp4 3 tcp6 4 udp4 5 udp6
	Lat    int64     `json:"lat"`
	Alive  bool      `json:"alive"`
	Pol    c15Policy `json:"pol"`
	L4     string    `json:"l4"`
	V      int       `json:"v"`
	IsDns  bool      `json:"isdns"`
	UDom   int       `json:"udom"` // 0 unset 1 dns 2 data
	Strict bool      `json:"strict"`
	Excl   int       `json:"excl"` // -1 none
	Draws  int       `json:"draws"`
	Hook   *c15Hook  `json:"hook,omitempty"` // policy op only: run Ops at yield point At inside SetSelectionPolicy
}

type c15Hook struct {
	At  int     `json:"at"` // 1..6: after that many per-set switches; 7: after the loop, before the state store
	Ops []c15Op `json:"ops"`
}

type c15Case struct {
	N    int       `json:"n"`
	Offs []int64   `json:"offs"`
	Tol  int64     `json:"tol"`
	P0   c15Policy `json:"p0"`
	Ops  []c15Op   `json:"ops"`
	// Foreign: an extra dialer, numbered n, exists but is NOT a member of the group; operations may name it
	Foreign bool `json:"foreign,omitempty"`
	// Ring: drive a bare LatenciesN instead of a group
	Ring *c15Ring `json:"ring,omitempty"`
}

type c15Ring struct {
	N       int     `json:"n"`
	Samples []int64 `json:"samples"`
}

type c15Row struct { // one (dialer, type) cell of the dialer-side store
	D     int      `json:"d"`
	T     int      `json:"t"`
	Has   [3]bool  `json:"has"` // last, avg10, moving
	Lat   [3]int64 `json:"lat"`
	Alive bool     `json:"alive"`
	Pen   int64    `json:"pen"`
}

type c15Dump struct {
	T       int        `json:"t"`
	Entries [][2]int64 `json:"entries"`
	Idx     []int      `json:"idx"`
	Lat     [][2]int64 `json:"lat"` // has, value
	Policy  string     `json:"policy"`
	Best    int        `json:"best"` // -1 nil
	BestLat int64      `json:"bestlat"`
}

type c15Sel struct {
	D   int    `json:"d"`
	Lat int64  `json:"lat"`
	Sel int    `json:"sel"` // type index of the admitted network type, -1 nil
	Err string `json:"err"`
}

type c15Step struct {
	Store []c15Row   `json:"store"`
	Dumps []c15Dump  `json:"dumps"`
	Cbs   [][2]int   `json:"cbs"`
	Sels  []c15Sel   `json:"sels"`
	Samp  []int64    `json:"samp,omitempty"`
	// policy op with hook: the yield points passed in order, the dump of the set switched at each point < 7,
	// and the steps of the operations run at point Hook.At
	Points     []int     `json:"points,omitempty"`
	PointDumps []c15Dump `json:"pointdumps,omitempty"`
	Inner      []c15Step `json:"inner,omitempty"`
	Panic      string    `json:"panic,omitempty"`
}

type c15Result struct {
	Init  c15Step   `json:"init"`
	Steps []c15Step `json:"steps"`
	Panic string    `json:"panic,omitempty"`
	Ring  [][4]int64 `json:"ring,omitempty"` // after 0,1,2,.. appends: hasLast, LastLatency, hasAvg, AvgLatency
}

type c15Noop struct{}

func (c15Noop) DialContext(context.Context, string, string) (netproxy.Conn, error) {
	return nil, errors.New("not implemented")
}

var c15Types = [6]dialer.NetworkType{
	{L4Proto: consts.L4ProtoStr_UDP, IpVersion: consts.IpVersionStr_4, IsDns: true, UdpHealthDomain: dialer.UdpHealthDomainDns},
	{L4Proto: consts.L4ProtoStr_UDP, IpVersion: consts.IpVersionStr_6, IsDns: true, UdpHealthDomain: dialer.UdpHealthDomainDns},
	{L4Proto: consts.L4ProtoStr_TCP, IpVersion: consts.IpVersionStr_4},
	{L4Proto: consts.L4ProtoStr_TCP, IpVersion: consts.IpVersionStr_6},
	{L4Proto: consts.L4ProtoStr_UDP, IpVersion: consts.IpVersionStr_4, UdpHealthDomain: dialer.UdpHealthDomainData},
	{L4Proto: consts.L4ProtoStr_UDP, IpVersion: consts.IpVersionStr_6, UdpHealthDomain: dialer.UdpHealthDomainData},
}

var c15CollIdx = [6]int{dialer.IdxDnsUdp4, dialer.IdxDnsUdp6, dialer.IdxTcp4, dialer.IdxTcp6, dialer.IdxUdp4, dialer.IdxUdp6}

func c15TypeOfCollIdx(ci int) int {
	for i, c := range c15CollIdx {
		if c == ci {
			return i
		}
	}
	return -1
}

func c15Pol(p c15Policy) DialerSelectionPolicy {
	return DialerSelectionPolicy{Policy: consts.DialerSelectionPolicy(p.P), FixedIndex: p.I}
}

var c15MinPolicies = [3]consts.DialerSelectionPolicy{
	consts.DialerSelectionPolicy_MinLastLatency,
	consts.DialerSelectionPolicy_MinAverage10Latencies,
	consts.DialerSelectionPolicy_MinMovingAverageLatencies,
}

type c15World struct {
	n       int
	dialers []*dialer.Dialer
	id      map[*dialer.Dialer]int
	group   *DialerGroup
	cbs     [][2]int
	prev    map[[2]int]c15Row
}

func (w *c15World) row(d, t int) c15Row {
	r := c15Row{D: d, T: t}
	nt := c15Types[t]
	for i, p := range c15MinPolicies {
		l, has := dialer.VerifC15PolicyLatency(w.dialers[d], &nt, p)
		r.Has[i] = has
		if has {
			r.Lat[i] = int64(l)
		}
	}
	r.Alive = w.dialers[d].MustGetAlive(&nt)
	r.Pen = int64(dialer.VerifC15Penalty(w.dialers[d], &nt))
	return r
}

func (w *c15World) storeDiff() []c15Row {
	out := []c15Row{}
	for d := 0; d < len(w.dialers); d++ {
		for t := 0; t < 6; t++ {
			r := w.row(d, t)
			k := [2]int{d, t}
			if p, ok := w.prev[k]; !ok || p != r {
				// the initial state (alive, nothing measured) is the model's start state: not reported
				if ok || !r.Alive || r.Has != [3]bool{} {
					out = append(out, r)
				}
				w.prev[k] = r
			}
		}
	}
	return out
}

func (w *c15World) dump(t int) (c15Dump, bool) {
	nt := c15Types[t]
	set := w.group.MustGetAliveDialerSet(&nt)
	if set == nil {
		return c15Dump{}, false
	}
	sd := dialer.VerifC15DumpSet(set)
	d := c15Dump{T: t, Entries: [][2]int64{}, Idx: make([]int, w.n), Lat: make([][2]int64, w.n), Policy: string(sd.Policy), Best: -1, BestLat: int64(sd.BestLat)}
	for i, e := range sd.Entries {
		d.Entries = append(d.Entries, [2]int64{int64(w.id[e]), int64(sd.Lats[i])})
	}
	for i, dl := range w.dialers[:w.n] {
		idx, ok := sd.Index[dl]
		if !ok {
			idx = -99
		}
		d.Idx[i] = idx
		if l, ok := sd.Latency[dl]; ok {
			d.Lat[i] = [2]int64{1, int64(l)}
		}
	}
	if len(sd.Index) != w.n && len(w.dialers) == w.n {
		d.Idx = append(d.Idx, -98) // foreign keys in dialerToIndex
	}
	if sd.Best != nil {
		d.Best = w.id[sd.Best]
	}
	return d, true
}

func (w *c15World) dumps(ts []int) []c15Dump {
	out := []c15Dump{}
	for _, t := range ts {
		if d, ok := w.dump(t); ok {
			out = append(out, d)
		}
	}
	return out
}

func c15ErrClass(err error) string {
	switch {
	case err == nil:
		return ""
	case errors.Is(err, ErrNoAliveDialer):
		return "noalive"
	case err.Error() == "no dialer in this group":
		return "nodialer"
	case err.Error() == "selected dialer index is out of range":
		return "range"
	default:
		return "other:" + err.Error()
	}
}

var c15All = []int{0, 1, 2, 3, 4, 5}

// uniqueAliveDialerSets order (aliveDialerSets[0..7]): tcp4 tcp6 dns4 dns6 udp4 udp6, as harness type numbers
var c15SwitchOrder = [6]int{2, 3, 0, 1, 4, 5}

func c15Run(cs c15Case) (res c15Result) {
	defer func() {
		if r := recover(); r != nil {
			res.Panic = fmt.Sprint(r)
		}
	}()
	if cs.Ring != nil {
		ln := dialer.NewLatenciesN(cs.Ring.N)
		obs := func() [4]int64 {
			var o [4]int64
			if l, ok := ln.LastLatency(); ok {
				o[0], o[1] = 1, int64(l)
			}
			if a, ok := ln.AvgLatency(); ok {
				o[2], o[3] = 1, int64(a)
			}
			return o
		}
		res.Ring = append(res.Ring, obs())
		for _, x := range cs.Ring.Samples {
			ln.AppendLatency(time.Duration(x))
			res.Ring = append(res.Ring, obs())
		}
		return res
	}
	lg := logrus.New()
	lg.SetOutput(io.Discard)
	lg.SetLevel(logrus.ErrorLevel)
	opt := &dialer.GlobalOption{Log: lg, CheckInterval: 30 * time.Second, CheckTolerance: time.Duration(cs.Tol)}
	w := &c15World{n: cs.N, id: map[*dialer.Dialer]int{}, prev: map[[2]int]c15Row{}}
	annos := make([]*dialer.Annotation, cs.N)
	for i := 0; i < cs.N; i++ {
		d := dialer.NewDialer(c15Noop{}, opt, dialer.InstanceOption{DisableCheck: true}, &dialer.Property{})
		w.dialers = append(w.dialers, d)
		w.id[d] = i
		annos[i] = &dialer.Annotation{AddLatency: time.Duration(cs.Offs[i])}
	}
	members := w.dialers
	if cs.Foreign {
		d := dialer.NewDialer(c15Noop{}, opt, dialer.InstanceOption{DisableCheck: true}, &dialer.Property{})
		w.dialers = append(append([]*dialer.Dialer{}, members...), d)
		w.id[d] = cs.N
	}
	defer func() {
		for _, d := range w.dialers {
			_ = d.Close()
		}
	}()
	w.group = NewDialerGroup(opt, "g", members, annos, c15Pol(cs.P0), func(alive bool, nt *dialer.NetworkType, isInit bool) {
		if isInit {
			return
		}
		a := 0
		if alive {
			a = 1
		}
		w.cbs = append(w.cbs, [2]int{c15TypeOfCollIdx(nt.Index()), a})
	})
	defer w.group.Close()
	take := func() [][2]int {
		c := w.cbs
		w.cbs = nil
		if c == nil {
			c = [][2]int{}
		}
		return c
	}
	res.Init = c15Step{Store: w.storeDiff(), Dumps: w.dumps(c15All), Cbs: take(), Sels: []c15Sel{}}
	var exec func(op c15Op) c15Step
	exec = func(op c15Op) c15Step {
		st := c15Step{Sels: []c15Sel{}}
		var touched []int
		switch op.K {
		case "sample":
			nt := c15Types[op.T]
			dialer.VerifC15Sample(w.dialers[op.D], &nt, time.Duration(op.Lat))
			touched = []int{op.T}
		case "die":
			nt := c15Types[op.T]
			w.dialers[op.D].ReportUnavailableForced(&nt, nil)
			touched = []int{op.T}
		case "fail":
			nt := c15Types[op.T]
			dialer.VerifC15ProbeFail(w.dialers[op.D], &nt)
			touched = []int{op.T}
		case "notify":
			nt := c15Types[op.T]
			if set := w.group.MustGetAliveDialerSet(&nt); set != nil {
				set.NotifyLatencyChange(w.dialers[op.D], op.Alive)
			}
			touched = []int{op.T}
		case "silent":
			nt := c15Types[op.T]
			w.dialers[op.D].MustGetLatencies10(&nt).AppendLatency(time.Duration(op.Lat))
		case "policy":
			if op.Hook != nil {
				order := c15SwitchOrder
				VerifC15SwitchHook = func(point int) {
					st.Points = append(st.Points, point)
					if point >= 1 && point <= 6 {
						if d, ok := w.dump(order[point-1]); ok {
							st.PointDumps = append(st.PointDumps, d)
						}
					}
					if point == op.Hook.At {
						for _, in := range op.Hook.Ops {
							if in.K == "policy" {
								panic("nested policy switch would deadlock")
							}
							st.Inner = append(st.Inner, exec(in))
						}
					}
				}
			}
			func() {
				defer func() { VerifC15SwitchHook = nil }()
				w.group.SetSelectionPolicy(c15Pol(op.Pol))
			}()
			touched = c15All
		case "switchset": // one shared set executes SetSelectionPolicy: the first half of the group's switch, by hand
			nt := c15Types[op.T]
			if set := w.group.MustGetAliveDialerSet(&nt); set != nil {
				set.SetSelectionPolicy(consts.DialerSelectionPolicy(op.Pol.P))
			}
			touched = []int{op.T}
		case "getmin", "getrand": // direct reads of one set
			nt := c15Types[op.T]
			var excl *dialer.Dialer
			if op.Excl >= 0 {
				excl = w.dialers[op.Excl]
			}
			if set := w.group.MustGetAliveDialerSet(&nt); set != nil {
				for i := 0; i < op.Draws; i++ {
					var d *dialer.Dialer
					var lat time.Duration
					if op.K == "getmin" {
						d, lat = set.GetMinLatency(excl)
					} else {
						d = set.GetRandExcluded(excl)
					}
					s := c15Sel{D: -1, Lat: int64(lat), Sel: -1}
					if d != nil {
						s.D = w.id[d]
					}
					st.Sels = append(st.Sels, s)
				}
			}
		case "select":
			nt := &dialer.NetworkType{L4Proto: consts.L4ProtoStr(op.L4), IpVersion: consts.IpVersionStr(fmt.Sprint(op.V)), IsDns: op.IsDns, UdpHealthDomain: dialer.UdpHealthDomain(op.UDom)}
			var excl *dialer.Dialer
			if op.Excl >= 0 {
				excl = w.dialers[op.Excl]
			}
			for i := 0; i < op.Draws; i++ {
				d, lat, sel, err := w.group.SelectWithExclusionResult(nt, op.Strict, excl)
				s := c15Sel{D: -1, Lat: int64(lat), Sel: -1, Err: c15ErrClass(err)}
				if d != nil {
					s.D = w.id[d]
				}
				if sel != nil {
					s.Sel = c15TypeOfCollIdx(sel.Index())
				}
				st.Sels = append(st.Sels, s)
			}
		default:
			panic("bad op " + op.K)
		}
		st.Store = w.storeDiff()
		st.Dumps = w.dumps(touched)
		st.Cbs = take()
		return st
	}
	for _, op := range cs.Ops {
		st, pmsg := func() (st c15Step, pmsg string) {
			defer func() {
				if r := recover(); r != nil {
					pmsg = fmt.Sprint(r)
				}
			}()
			return exec(op), ""
		}()
		if pmsg != "" {
			// the operation panicked: report it as the last step (the sets may be half-updated)
			st = c15Step{Sels: []c15Sel{}, Store: []c15Row{}, Dumps: []c15Dump{}, Cbs: [][2]int{}, Panic: pmsg}
			w.cbs = nil
			res.Steps = append(res.Steps, st)
			break
		}
		res.Steps = append(res.Steps, st)
	}
	return res
}

func TestVerifC15(t *testing.T) {
	verifEachLine(t, func(line []byte) any {
		var cs c15Case
		if err := json.Unmarshal(line, &cs); err != nil {
			t.Fatalf("bad case: %v", err)
		}
		return c15Run(cs)
	})
}
