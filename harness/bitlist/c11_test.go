//go:build verif

package bitlist

// C11 harness for CompactBitList: arbitrary Set/Append sequences at every unit width, dump of the raw
// 16-bit buffer and of Get at chosen indices.

import (
	"bufio"
	"encoding/json"
	"fmt"
	"os"
	"strconv"
	"testing"
)

type c11BlOp struct {
	I int    `json:"i"` // -1 = Append
	V string `json:"v"` // hex uint64
}

type c11BlCase struct {
	Unit int       `json:"unit"`
	Ops  []c11BlOp `json:"ops"`
	Gets []int     `json:"gets"`
}

type c11BlResult struct {
	Panics  []int    `json:"panics"` // indices of ops that panicked (value exceeds unit size)
	Buf     []uint16 `json:"buf"`
	UnitNum int      `json:"unitnum"`
	Gets    []string `json:"gets"` // hex, "panic" when Get panicked
	Panic   string   `json:"panic,omitempty"`
}

func c11BlSet(m *CompactBitList, i int, v uint64) (panicked bool) {
	defer func() {
		if e := recover(); e != nil {
			panicked = true
		}
	}()
	if i < 0 {
		m.Append(v)
	} else {
		m.Set(i, v)
	}
	return false
}

func c11BlGet(m *CompactBitList, i int) (s string) {
	defer func() {
		if e := recover(); e != nil {
			s = "panic"
		}
	}()
	return fmt.Sprintf("%x", m.Get(i))
}

func c11BlRun(c *c11BlCase) (res c11BlResult) {
	defer func() {
		if r := recover(); r != nil {
			res.Panic = fmt.Sprint(r)
		}
	}()
	m := NewCompactBitList(c.Unit)
	res.Panics = []int{}
	for k, op := range c.Ops {
		v, err := strconv.ParseUint(op.V, 16, 64)
		if err != nil {
			panic(err)
		}
		if c11BlSet(m, op.I, v) {
			res.Panics = append(res.Panics, k)
		}
	}
	m.Tighten()
	res.Buf = append([]uint16{}, m.b.Slice()...)
	res.UnitNum = m.unitNum
	for _, i := range c.Gets {
		res.Gets = append(res.Gets, c11BlGet(m, i))
	}
	return res
}

func TestVerifC11Bitlist(t *testing.T) {
	in, err := os.Open(os.Getenv("VERIF_IN"))
	if err != nil {
		t.Fatalf("VERIF_IN: %v", err)
	}
	defer in.Close()
	out, err := os.Create(os.Getenv("VERIF_OUT"))
	if err != nil {
		t.Fatalf("VERIF_OUT: %v", err)
	}
	defer out.Close()
	w := bufio.NewWriterSize(out, 1<<20)
	defer w.Flush()
	sc := bufio.NewScanner(in)
	sc.Buffer(make([]byte, 1<<20), 1<<28)
	enc := json.NewEncoder(w)
	for sc.Scan() {
		line := sc.Bytes()
		if len(line) == 0 {
			continue
		}
		var c c11BlCase
		var res c11BlResult
		if err := json.Unmarshal(line, &c); err != nil {
			res.Panic = "bad case json: " + err.Error()
		} else {
			res = c11BlRun(&c)
		}
		if err := enc.Encode(res); err != nil {
			t.Fatalf("encode: %v", err)
		}
		w.Flush()
	}
}
