// C19 translator helper (run by tools/c19.py on every check run; not part of /repo).
//
// Parses and type-checks (go/types, errors ignored, non-std imports faked) the Go files that mirror the
// kernel's declarations and prints one JSON document:
//   - every struct type declared in control/bpf_stub.go (stub build) and control/bpf_utils.go (real build),
//     as a type tree plus the layout go/types.Sizes computes for gc/amd64 and gc/arm64;
//   - the anonymous struct type of the load-time "PARAM" composite literal in bpf_utils.go;
//   - the values of the constants of common/consts/ebpf_generated.go, common/consts/ebpf.go,
//     common/consts/dialer.go, control/connectivity.go, control/bpf_stub.go, control/bpf_utils.go;
//   - integer literals at named call sites (stats keys).
package main

import (
	"encoding/json"
	"fmt"
	"go/ast"
	"go/build"
	"go/constant"
	"go/importer"
	"go/parser"
	"go/token"
	"go/types"
	"os"
	"path/filepath"
	"sort"
	"strings"
)

type fakeImporter struct {
	std  types.Importer
	fake map[string]*types.Package
}

func (f *fakeImporter) Import(path string) (*types.Package, error) {
	first := path
	if i := strings.Index(path, "/"); i >= 0 {
		first = path[:i]
	}
	if !strings.Contains(first, ".") {
		return f.std.Import(path)
	}
	if p, ok := f.fake[path]; ok {
		return p, nil
	}
	name := path[strings.LastIndex(path, "/")+1:]
	p := types.NewPackage(path, name)
	p.MarkComplete()
	f.fake[path] = p
	return p, nil
}

type node map[string]any

func tree(t types.Type) node {
	if n, ok := t.(*types.Named); ok {
		if n.Obj().Pkg() != nil && n.Obj().Pkg().Path() == "structs" && n.Obj().Name() == "HostLayout" {
			return node{"k": "marker"}
		}
	}
	switch u := t.Underlying().(type) {
	case *types.Basic:
		switch u.Kind() {
		case types.Bool:
			return node{"k": "bool", "w": 1}
		case types.Uint8:
			return node{"k": "u", "w": 1}
		case types.Uint16:
			return node{"k": "u", "w": 2}
		case types.Uint32:
			return node{"k": "u", "w": 4}
		case types.Uint64:
			return node{"k": "u", "w": 8}
		case types.Int8:
			return node{"k": "s", "w": 1}
		case types.Int16:
			return node{"k": "s", "w": 2}
		case types.Int32:
			return node{"k": "s", "w": 4}
		case types.Int64:
			return node{"k": "s", "w": 8}
		}
		return node{"k": "other", "s": u.String()}
	case *types.Array:
		return node{"k": "arr", "n": u.Len(), "e": tree(u.Elem())}
	case *types.Struct:
		fs := []node{}
		for i := 0; i < u.NumFields(); i++ {
			f := u.Field(i)
			fs = append(fs, node{"n": f.Name(), "t": tree(f.Type())})
		}
		return node{"k": "struct", "f": fs}
	}
	return node{"k": "other", "s": t.String()}
}

func translatable(n node) bool {
	switch n["k"] {
	case "other":
		return false
	case "arr":
		return translatable(n["e"].(node))
	case "struct":
		for _, f := range n["f"].([]node) {
			if !translatable(f["t"].(node)) {
				return false
			}
		}
	}
	return true
}

type leaf struct {
	Path string `json:"path"`
	Off  int64  `json:"off"`
	Size int64  `json:"size"`
	N    int64  `json:"n"`
}

func leaves(sz types.Sizes, t types.Type, base int64, path string, out *[]leaf) {
	switch u := t.Underlying().(type) {
	case *types.Struct:
		fields := make([]*types.Var, u.NumFields())
		for i := range fields {
			fields[i] = u.Field(i)
		}
		offs := sz.Offsetsof(fields)
		for i, f := range fields {
			p := f.Name()
			if path != "" {
				p = path + "." + p
			}
			leaves(sz, f.Type(), base+offs[i], p, out)
		}
	case *types.Array:
		if _, ok := u.Elem().Underlying().(*types.Basic); ok {
			*out = append(*out, leaf{path, base, sz.Sizeof(u.Elem()), u.Len()})
			return
		}
		es := sz.Sizeof(u.Elem())
		for i := int64(0); i < u.Len(); i++ {
			leaves(sz, u.Elem(), base+i*es, fmt.Sprintf("%s[%d]", path, i), out)
		}
	default:
		*out = append(*out, leaf{path, base, sz.Sizeof(t), 1})
	}
}

func layoutOf(t types.Type) node {
	res := node{}
	for _, arch := range []string{"amd64", "arm64"} {
		sz := types.SizesFor("gc", arch)
		ls := []leaf{}
		leaves(sz, t, 0, "", &ls)
		res[arch] = node{"size": sz.Sizeof(t), "align": sz.Alignof(t), "leaves": ls}
	}
	return res
}

func check(fset *token.FileSet, imp types.Importer, pkgname string, files []*ast.File) (*types.Package, *types.Info) {
	info := &types.Info{Types: map[ast.Expr]types.TypeAndValue{}, Defs: map[*ast.Ident]types.Object{}}
	conf := types.Config{Importer: imp, Error: func(error) {}, Sizes: types.SizesFor("gc", "amd64")}
	pkg, _ := conf.Check(pkgname, fset, files, info)
	return pkg, info
}

func constsOf(pkg *types.Package, prefix string, out map[string]string) {
	sc := pkg.Scope()
	for _, n := range sc.Names() {
		if c, ok := sc.Lookup(n).(*types.Const); ok {
			if c.Val().Kind() == constant.Int {
				out[prefix+n] = c.Val().ExactString()
			}
		}
	}
}

func main() {
	repo := os.Args[1]
	fset := token.NewFileSet()
	imp := &fakeImporter{std: importer.ForCompiler(fset, "source", nil), fake: map[string]*types.Package{}}
	out := node{}
	structs := []node{}
	consts := map[string]string{}
	parse := func(rel string) *ast.File {
		f, err := parser.ParseFile(fset, filepath.Join(repo, rel), nil, parser.ParseComments)
		if err != nil {
			fmt.Fprintln(os.Stderr, "parse", rel, err)
			os.Exit(2)
		}
		return f
	}
	for _, src := range []struct{ rel, build string }{{"control/bpf_stub.go", "stub"}, {"control/bpf_utils.go", "real"}} {
		f := parse(src.rel)
		pkg, info := check(fset, imp, "control", []*ast.File{f})
		names := pkg.Scope().Names()
		sort.Strings(names)
		for _, n := range names {
			tn, ok := pkg.Scope().Lookup(n).(*types.TypeName)
			if !ok {
				continue
			}
			if _, ok := tn.Type().Underlying().(*types.Struct); !ok {
				continue
			}
			tr := tree(tn.Type())
			e := node{"name": n, "file": src.rel, "build": src.build, "tree": tr, "translatable": translatable(tr),
				"line": fset.Position(tn.Pos()).Line}
			if translatable(tr) {
				e["sizes"] = layoutOf(tn.Type())
			}
			structs = append(structs, e)
		}
		constsOf(pkg, "control("+src.build+").", consts)
		if src.build == "real" {
			// the PARAM composite literal: value of key "PARAM" in a map[string]interface{} literal
			found := 0
			ast.Inspect(f, func(x ast.Node) bool {
				kv, ok := x.(*ast.KeyValueExpr)
				if !ok {
					return true
				}
				bl, ok := kv.Key.(*ast.BasicLit)
				if !ok || bl.Value != `"PARAM"` {
					return true
				}
				cl, ok := kv.Value.(*ast.CompositeLit)
				if !ok {
					return true
				}
				tv, ok := info.Types[cl]
				if !ok {
					return true
				}
				found++
				tr := tree(tv.Type)
				// keys actually initialised in the literal
				keys := []string{}
				for _, el := range cl.Elts {
					if kv2, ok := el.(*ast.KeyValueExpr); ok {
						if id, ok := kv2.Key.(*ast.Ident); ok {
							keys = append(keys, id.Name)
						}
					}
				}
				out["param_literal"] = node{"name": "PARAM", "file": src.rel, "build": "real", "tree": tr,
					"translatable": translatable(tr), "sizes": layoutOf(tv.Type), "keys": keys,
					"line": fset.Position(cl.Pos()).Line}
				return true
			})
			out["param_literal_found"] = found
		}
	}
	// constants
	{
		fs := []*ast.File{parse("common/consts/ebpf_generated.go"), parse("common/consts/ebpf.go"), parse("common/consts/dialer.go")}
		pkg, info := check(fset, imp, "consts", fs)
		constsOf(pkg, "consts.", consts)
		// package-level vars with constant initialisers (MaxMatchSetLen)
		for _, f := range fs {
			for _, d := range f.Decls {
				gd, ok := d.(*ast.GenDecl)
				if !ok || gd.Tok != token.VAR {
					continue
				}
				for _, s := range gd.Specs {
					vs := s.(*ast.ValueSpec)
					for i, nm := range vs.Names {
						if i < len(vs.Values) {
							if tv, ok := info.Types[vs.Values[i]]; ok && tv.Value != nil && tv.Value.Kind() == constant.Int {
								consts["consts.var."+nm.Name] = tv.Value.ExactString()
							}
						}
					}
				}
			}
		}
	}
	{
		f := parse("control/connectivity.go")
		pkg, _ := check(fset, imp, "control", []*ast.File{f})
		constsOf(pkg, "control.", consts)
	}
	// literals at call sites: readBpfStatsCounter(m, K) inside readMapOverflowCounters
	{
		f := parse("control/control_plane.go")
		lits := []string{}
		for _, d := range f.Decls {
			fd, ok := d.(*ast.FuncDecl)
			if !ok || fd.Name.Name != "readMapOverflowCounters" {
				continue
			}
			ast.Inspect(fd, func(x ast.Node) bool {
				as, ok := x.(*ast.IfStmt)
				if !ok || as.Init == nil {
					return true
				}
				a, ok := as.Init.(*ast.AssignStmt)
				if !ok || len(a.Rhs) != 1 {
					return true
				}
				ce, ok := a.Rhs[0].(*ast.CallExpr)
				if !ok {
					return true
				}
				if id, ok := ce.Fun.(*ast.Ident); !ok || id.Name != "readBpfStatsCounter" || len(ce.Args) != 2 {
					return true
				}
				bl, ok := ce.Args[1].(*ast.BasicLit)
				if !ok {
					return true
				}
				// which result variable is assigned in the body
				target := ""
				ast.Inspect(as.Body, func(y ast.Node) bool {
					if b, ok := y.(*ast.AssignStmt); ok && len(b.Lhs) == 1 {
						if id, ok := b.Lhs[0].(*ast.Ident); ok {
							target = id.Name
						}
					}
					return true
				})
				lits = append(lits, target+"="+bl.Value)
				return true
			})
		}
		out["stats_key_literals"] = lits
	}
	magicScan(fset, imp, repo, out, consts)
	out["structs"] = structs
	out["consts"] = consts
	enc := json.NewEncoder(os.Stdout)
	enc.SetIndent("", " ")
	_ = enc.Encode(out)
}


// magicScan type-checks the whole stub-build package control (errors ignored, non-std imports faked) and reports every
// use of a field of a kernel-mirror struct (a field declared in control/bpf_stub.go) against a constant: comparisons,
// switch cases, assignments and composite-literal elements.  A constant written as an integer literal is a "magic
// number" mirror of a kernel enumeration.
func magicScan(fset *token.FileSet, imp types.Importer, repo string, out node, consts map[string]string) {
	dir := filepath.Join(repo, "control")
	ctx := build.Default
	ctx.GOOS, ctx.GOARCH = "linux", "amd64"
	ctx.BuildTags = []string{"dae_stub_ebpf"}
	ents, err := os.ReadDir(dir)
	if err != nil {
		fmt.Fprintln(os.Stderr, "readdir", err)
		os.Exit(2)
	}
	files := []*ast.File{}
	for _, e := range ents {
		n := e.Name()
		if !strings.HasSuffix(n, ".go") || strings.HasSuffix(n, "_test.go") {
			continue
		}
		if ok, _ := ctx.MatchFile(dir, n); !ok {
			continue
		}
		f, err := parser.ParseFile(fset, filepath.Join(dir, n), nil, parser.ParseComments)
		if err != nil {
			fmt.Fprintln(os.Stderr, "parse", n, err)
			os.Exit(2)
		}
		files = append(files, f)
	}
	info := &types.Info{Types: map[ast.Expr]types.TypeAndValue{}, Defs: map[*ast.Ident]types.Object{}, Uses: map[*ast.Ident]types.Object{},
		Selections: map[*ast.SelectorExpr]*types.Selection{}}
	conf := types.Config{Importer: imp, Error: func(error) {}, Sizes: types.SizesFor("gc", "amd64")}
	pkg, _ := conf.Check("control", fset, files, info)
	// field objects of the mirror structs -> "Type.Path"
	fieldName := map[*types.Var]string{}
	var walk func(prefix string, t types.Type)
	walk = func(prefix string, t types.Type) {
		st, ok := t.Underlying().(*types.Struct)
		if !ok {
			return
		}
		for i := 0; i < st.NumFields(); i++ {
			f := st.Field(i)
			if f.Name() == "_" {
				continue
			}
			fieldName[f] = prefix + "." + f.Name()
			if _, ok := f.Type().(*types.Named); !ok {
				walk(prefix+"."+f.Name(), f.Type())
			}
		}
	}
	for _, n := range pkg.Scope().Names() {
		tn, ok := pkg.Scope().Lookup(n).(*types.TypeName)
		if !ok || !strings.HasSuffix(fset.Position(tn.Pos()).Filename, "bpf_stub.go") {
			continue
		}
		if translatable(tree(tn.Type())) {
			walk(n, tn.Type())
		}
	}
	for _, n := range pkg.Scope().Names() {
		if c, ok := pkg.Scope().Lookup(n).(*types.Const); ok && c.Val().Kind() == constant.Int {
			if strings.Contains(n, "ConnStateTimeout") {
				consts["control.pkg."+n] = c.Val().ExactString()
			}
		}
	}
	strip := func(e ast.Expr) ast.Expr {
		for {
			switch x := e.(type) {
			case *ast.ParenExpr:
				e = x.X
			case *ast.CallExpr: // conversion T(x)
				if len(x.Args) == 1 {
					if tv, ok := info.Types[x.Fun]; ok && tv.IsType() {
						e = x.Args[0]
						continue
					}
				}
				return e
			default:
				return e
			}
		}
	}
	fieldOf := func(e ast.Expr) string {
		se, ok := strip(e).(*ast.SelectorExpr)
		if !ok {
			return ""
		}
		if sel, ok := info.Selections[se]; ok {
			if v, ok := sel.Obj().(*types.Var); ok {
				return fieldName[v]
			}
		}
		return ""
	}
	exprText := func(e ast.Expr) string {
		b := fset.Position(e.Pos()).Offset
		en := fset.Position(e.End()).Offset
		data, _ := os.ReadFile(fset.Position(e.Pos()).Filename)
		if b >= 0 && en <= len(data) && b < en {
			return string(data[b:en])
		}
		return ""
	}
	idents := func(n ast.Node) []string {
		seen := map[string]bool{}
		res := []string{}
		if n == nil {
			return res
		}
		ast.Inspect(n, func(x ast.Node) bool {
			if id, ok := x.(*ast.Ident); ok && !seen[id.Name] {
				seen[id.Name] = true
				res = append(res, id.Name)
			}
			return true
		})
		return res
	}
	uses := []node{}
	record := func(kind, field, op string, c ast.Expr, fn string, thenN, elseN ast.Node) {
		u := node{"kind": kind, "field": field, "op": op, "text": exprText(c), "func": fn,
			"file": "control/" + filepath.Base(fset.Position(c.Pos()).Filename), "line": fset.Position(c.Pos()).Line,
			"then": idents(thenN), "else": idents(elseN)}
		_, isLit := strip(c).(*ast.BasicLit)
		u["literal"] = isLit
		if tv, ok := info.Types[c]; ok && tv.Value != nil && (tv.Value.Kind() == constant.Int || tv.Value.Kind() == constant.Bool) {
			u["value"] = tv.Value.ExactString()
		} else {
			u["value"] = ""
		}
		uses = append(uses, u)
	}
	isConstish := func(e ast.Expr) bool {
		e = strip(e)
		if _, ok := e.(*ast.BasicLit); ok {
			return true
		}
		if tv, ok := info.Types[e]; ok && tv.Value != nil {
			return true
		}
		// qualified identifier of a faked package (unix.IPPROTO_TCP): upper-case selector on a package name
		if se, ok := e.(*ast.SelectorExpr); ok {
			if id, ok := se.X.(*ast.Ident); ok {
				if _, ok := info.Uses[id].(*types.PkgName); ok {
					return true
				}
			}
		}
		if id, ok := e.(*ast.Ident); ok && (id.Name == "true" || id.Name == "false") {
			return true
		}
		return false
	}
	for _, f := range files {
		var stack []ast.Node
		fn := ""
		ast.Inspect(f, func(x ast.Node) bool {
			if x == nil {
				stack = stack[:len(stack)-1]
				return true
			}
			stack = append(stack, x)
			switch n := x.(type) {
			case *ast.FuncDecl:
				fn = n.Name.Name
			case *ast.BinaryExpr:
				switch n.Op {
				case token.EQL, token.NEQ, token.LSS, token.LEQ, token.GTR, token.GEQ, token.AND:
					for _, pr := range [][2]ast.Expr{{n.X, n.Y}, {n.Y, n.X}} {
						if fld := fieldOf(pr[0]); fld != "" && isConstish(pr[1]) {
							var thenN, elseN ast.Node
							for i := len(stack) - 1; i >= 0; i-- {
								if is, ok := stack[i].(*ast.IfStmt); ok && is.Cond.Pos() <= n.Pos() && n.End() <= is.Cond.End() {
									thenN = is.Body
									if is.Else != nil {
										elseN = is.Else
									}
									break
								}
							}
							record("cmp", fld, n.Op.String(), pr[1], fn, thenN, elseN)
						}
					}
				}
			case *ast.SwitchStmt:
				if n.Tag != nil {
					if fld := fieldOf(n.Tag); fld != "" {
						for _, cc := range n.Body.List {
							cl := cc.(*ast.CaseClause)
							for _, e := range cl.List {
								if isConstish(e) {
									record("case", fld, "==", e, fn, cl, nil)
								}
							}
						}
					}
				}
			case *ast.AssignStmt:
				if len(n.Lhs) == len(n.Rhs) {
					for i := range n.Lhs {
						if fld := fieldOf(n.Lhs[i]); fld != "" && isConstish(n.Rhs[i]) {
							record("assign", fld, "=", n.Rhs[i], fn, nil, nil)
						}
					}
				}
			case *ast.CompositeLit:
				if tv, ok := info.Types[n]; ok {
					if st, ok := tv.Type.Underlying().(*types.Struct); ok {
						for _, el := range n.Elts {
							kv, ok := el.(*ast.KeyValueExpr)
							if !ok {
								continue
							}
							id, ok := kv.Key.(*ast.Ident)
							if !ok {
								continue
							}
							for i := 0; i < st.NumFields(); i++ {
								if st.Field(i).Name() == id.Name {
									if fld := fieldName[st.Field(i)]; fld != "" && isConstish(kv.Value) {
										record("composite", fld, "=", kv.Value, fn, nil, nil)
									}
								}
							}
						}
					}
				}
			}
			return true
		})
	}
	out["magic_uses"] = uses
	out["mirror_fields"] = len(fieldName)
}
