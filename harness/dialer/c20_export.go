//go:build verif

package dialer

// Verification-only read-out of the reload suppression counter for property C20 (injected into package
// dialer with `go test -overlay`; /repo is not modified).  No behaviour of its own.

import "time"

// VerifC20Suppression returns the raw counter and the quiesce deadline (unix ns, 0 = never set).
func VerifC20Suppression() (int32, int64) {
	return reloadProxyFailureSuppression.Load(), reloadProxyFailureSuppressUntil.Load()
}

// VerifC20Suppressed is the predicate the dialers consult.
func VerifC20Suppressed() bool { return proxyFailureSuppressedForReload() }

// VerifC20ResetSuppression puts the process-global counter back to its initial value between cases.
func VerifC20ResetSuppression() {
	reloadProxyFailureSuppression.Store(0)
	reloadProxyFailureSuppressUntil.Store(0)
}

// VerifC20Quiesce is the declared quiesce window.
func VerifC20Quiesce() time.Duration { return reloadFailureQuiesce }

// VerifC20Yield is called by the instrumented copy of sticky_cache.go (built by tools/c20.py with
// -overlay; the file in /repo has no such calls) before every statement of Begin/End
// ReloadProxyFailureSuppression.  The cmd harness installs its scheduler here.
var VerifC20Yield = func(fn, label string) {}
