//go:build verif

package dialer

// Verification-only exports for property C15 (injected into package dialer with `go test -overlay`;
// /repo is not modified).  Thin wrappers and read-only dumps: they add no behaviour of their own.

import (
	"time"

	"github.com/daeuniverse/dae/common/consts"
)

type VerifC15SetDump struct {
	Entries []*Dialer
	Lats    []time.Duration
	Index   map[*Dialer]int
	Latency map[*Dialer]time.Duration
	Policy  consts.DialerSelectionPolicy
	Best    *Dialer
	BestLat time.Duration
}

func VerifC15DumpSet(a *AliveDialerSet) VerifC15SetDump {
	a.mu.RLock()
	defer a.mu.RUnlock()
	r := VerifC15SetDump{Index: map[*Dialer]int{}, Latency: map[*Dialer]time.Duration{}}
	for _, e := range a.aliveEntries {
		r.Entries = append(r.Entries, e.dialer)
		r.Lats = append(r.Lats, e.sortingLatency)
	}
	for d, i := range a.dialerToIndex {
		r.Index[d] = i
	}
	for d, l := range a.dialerToLatency {
		r.Latency[d] = l
	}
	r.Policy = a.selectionPolicy
	r.Best = a.minLatency.dialer
	r.BestLat = a.minLatency.sortingLatency
	return r
}

// the latency a set reads from the dialer for a policy (with the recovery penalty)
func VerifC15PolicyLatency(d *Dialer, typ *NetworkType, policy consts.DialerSelectionPolicy) (time.Duration, bool) {
	return d.snapshotLatencyForPolicy(typ, policy)
}

func VerifC15Penalty(d *Dialer, typ *NetworkType) time.Duration {
	return d.getBackoffPenaltyForType(typ)
}

// a successful probe with the given latency: exactly what (*Dialer).check does on success
func VerifC15Sample(d *Dialer, typ *NetworkType, latency time.Duration) {
	update, _ := d.markAvailable(typ, latency)
	d.informDialerGroupUpdate(update)
}

// a failed probe: exactly what (*Dialer).check does on failure
func VerifC15ProbeFail(d *Dialer, typ *NetworkType) {
	d.informDialerGroupUpdate(d.markUnavailable(typ))
}
