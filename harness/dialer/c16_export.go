//go:build verif

package dialer

// Verification-only exports for property C16 (injected into package dialer with `go test -overlay`;
// /repo is not modified).  Thin wrappers: they add no behaviour of their own.

import (
	"context"
	"time"

	"github.com/daeuniverse/dae/common/consts"
)

// VerifC16Check runs the real probe driver (*Dialer).check with the given probe function.
func VerifC16Check(d *Dialer, typ *NetworkType, fn func(ctx context.Context, typ *NetworkType) (bool, error)) (bool, error) {
	return d.Check(&CheckOption{networkType: typ, CheckFunc: fn})
}

type VerifC16SetDump struct {
	Members []*Dialer
	Lats    []time.Duration
	Best    *Dialer
	BestLat time.Duration
}

func VerifC16DumpSet(a *AliveDialerSet) VerifC16SetDump {
	a.mu.RLock()
	defer a.mu.RUnlock()
	var r VerifC16SetDump
	for _, e := range a.aliveEntries {
		r.Members = append(r.Members, e.dialer)
		r.Lats = append(r.Lats, e.sortingLatency)
	}
	r.Best = a.minLatency.dialer
	r.BestLat = a.minLatency.sortingLatency
	return r
}

func VerifC16PolicyLatency(d *Dialer, typ *NetworkType, policy consts.DialerSelectionPolicy) (time.Duration, bool) {
	return d.snapshotLatencyForPolicy(typ, policy)
}

func VerifC16ProxyFailures(addr string) int32 {
	globalProxyIpHealthTracker.Lock()
	defer globalProxyIpHealthTracker.Unlock()
	return globalProxyIpHealthTracker.failures[addr].count
}

// VerifC16Suppression reports (open suppression scopes, quiesce window still running).
func VerifC16Suppression() (int32, bool) {
	return reloadProxyFailureSuppression.Load(), time.Now().UnixNano() < reloadProxyFailureSuppressUntil.Load()
}

// VerifC16QuiesceElapsed stands for "the quiesce window after the last EndReload...Suppression is over":
// the harness cannot wait reloadFailureQuiesce (20 s) per case.
func VerifC16QuiesceElapsed() {
	reloadProxyFailureSuppressUntil.Store(0)
}

// VerifC16ResetAll puts the process-global health state back to its start-up value between cases.
func VerifC16ResetAll() {
	resetGlobalProxyState()
	reloadProxyFailureSuppression.Store(0)
	reloadProxyFailureSuppressUntil.Store(0)
}

func VerifC16Suppressed() bool { return proxyFailureSuppressedForReload() }
