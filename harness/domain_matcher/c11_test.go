//go:build verif

package domain_matcher

// C11 harness: drives the real AhocorasickSlimtrie (AddSet / Build / MatchDomainBitmap) on generated
// pattern sets and names, and supplies the answers of the two oracles (Go regexp, the Aho-Corasick
// library) that the Coq model takes as section variables.
//
// Strings travel hex-encoded so that arbitrary bytes survive JSON.

import (
	"encoding/hex"
	"encoding/json"
	"fmt"
	"io"
	"regexp"
	"testing"

	"github.com/daeuniverse/dae/common/consts"
	"github.com/sirupsen/logrus"
	ahocorasick "github.com/v2rayA/ahocorasick-domain"
)

type c11Set struct {
	Idx  int      `json:"idx"`
	Kind string   `json:"kind"` // full | suffix | keyword | regex
	Pats []string `json:"pats"` // hex
}

type c11Case struct {
	BitLen int      `json:"bitlen"`
	Sets   []c11Set `json:"sets"`
	Names  []string `json:"names"`  // hex, as given to MatchDomainBitmap
	ONames []string `json:"onames"` // hex, the names the oracles are asked about (normalised by the orchestrator)
	AcSets []c11Set `json:"acsets"` // per bit index the keyword list the model hands to the automaton (oracle queries)
}

type c11AcOracle struct {
	Idx  int    `json:"idx"`
	Ok   bool   `json:"ok"`
	Hits []bool `json:"hits"` // per oname: Contains("^"+oname+"$")
}

type c11RxOracle struct {
	Pat  string `json:"pat"` // hex
	Ok   bool   `json:"ok"`
	Hits []bool `json:"hits"` // per oname: MatchString(oname)
}

type c11Result struct {
	Err   string        `json:"err"`   // Build error ("" = built)
	Bits  [][]int       `json:"bits"`  // per name: indices of the set bits of the whole bitmap
	Words int           `json:"words"` // len(bitmap)
	Ac    []c11AcOracle `json:"ac"`
	Rx    []c11RxOracle `json:"rx"`
	// where AddSet routed the patterns: per bit index that received anything, the number of trie keys,
	// of automaton keywords and of regexps held after the last AddSet (before Build)
	Stages [][4]int `json:"stages"` // idx, #trie keys, #keywords, #regexps (sorted by idx)
	Panic  string   `json:"panic,omitempty"`
}

func c11Unhex(s string) string {
	b, err := hex.DecodeString(s)
	if err != nil {
		panic(err)
	}
	return string(b)
}

func c11Kind(k string) consts.RoutingDomainKey {
	switch k {
	case "full":
		return consts.RoutingDomainKey_Full
	case "suffix":
		return consts.RoutingDomainKey_Suffix
	case "keyword":
		return consts.RoutingDomainKey_Keyword
	case "regex":
		return consts.RoutingDomainKey_Regex
	}
	panic("bad kind " + k)
}

func c11Run(c *c11Case) (res c11Result) {
	defer func() {
		if r := recover(); r != nil {
			res.Panic = fmt.Sprint(r)
		}
	}()
	log := logrus.New()
	log.SetOutput(io.Discard)

	// oracles first (independent objects)
	acPats := map[int][][]byte{}
	acOrder := []int{}
	for _, s := range c.AcSets {
		acOrder = append(acOrder, s.Idx)
		for _, p := range s.Pats {
			acPats[s.Idx] = append(acPats[s.Idx], []byte(c11Unhex(p)))
		}
	}
	for _, s := range c.Sets {
		if s.Kind == "regex" {
			for _, p := range s.Pats {
				o := c11RxOracle{Pat: p}
				r, err := regexp.Compile(c11Unhex(p))
				o.Ok = err == nil
				if err == nil {
					for _, n := range c.ONames {
						o.Hits = append(o.Hits, r.MatchString(c11Unhex(n)))
					}
				}
				res.Rx = append(res.Rx, o)
			}
		}
	}
	for _, idx := range acOrder {
		o := c11AcOracle{Idx: idx}
		if len(acPats[idx]) > 0 {
			m, err := ahocorasick.NewMatcher(acPats[idx])
			o.Ok = err == nil
			if err == nil {
				for _, n := range c.ONames {
					o.Hits = append(o.Hits, m.Contains([]byte("^"+c11Unhex(n)+"$")))
				}
			}
		} else {
			o.Ok = true
		}
		res.Ac = append(res.Ac, o)
	}

	// the implementation
	m := NewAhocorasickSlimtrie(log, c.BitLen)
	for _, s := range c.Sets {
		pats := make([]string, len(s.Pats))
		for i, p := range s.Pats {
			pats[i] = c11Unhex(p)
		}
		m.AddSet(s.Idx, pats, c11Kind(s.Kind))
	}
	if m.err == nil {
		for i := 0; i < c.BitLen; i++ {
			nt, na, nr := len(m.toBuildTrie[i]), len(m.toBuildAc[i]), len(m.regexp[i])
			if nt+na+nr > 0 {
				res.Stages = append(res.Stages, [4]int{i, nt, na, nr})
			}
		}
	}
	if err := m.Build(); err != nil {
		res.Err = err.Error()
		return res
	}
	for _, n := range c.Names {
		bm := m.MatchDomainBitmap(c11Unhex(n))
		res.Words = len(bm)
		set := []int{}
		for w, v := range bm {
			for b := 0; b < 32; b++ {
				if v&(1<<uint(b)) != 0 {
					set = append(set, w*32+b)
				}
			}
		}
		res.Bits = append(res.Bits, set)
	}
	return res
}

func TestVerifC11(t *testing.T) {
	verifEachLine(t, func(line []byte) any {
		var c c11Case
		if err := json.Unmarshal(line, &c); err != nil {
			return c11Result{Panic: "bad case json: " + err.Error()}
		}
		return c11Run(&c)
	})
}
