//go:build verif

package domain_matcher

// C11 harness, concurrency part:
//   TestVerifC11Shape  - extracts from the SOURCE of AhocorasickSlimtrie.Build which fields of the receiver the
//                        concurrently running function literals write (append to a slice, store into an indexed
//                        element, plain store) and whether a mutex is held at that statement;
//   TestVerifC11Stress - exploration: many one-pattern sets over all bit indices, several builds on many
//                        CPUs, every index probed after every build.

import (
	"encoding/json"
	"fmt"
	"go/ast"
	"go/parser"
	"go/token"
	"io"
	"os"
	"runtime"
	"testing"

	"github.com/daeuniverse/dae/common/consts"
	"github.com/sirupsen/logrus"
)

type c11Write struct {
	Field  string `json:"field"`  // receiver field written
	Op     string `json:"op"`     // append | index | store
	Locked bool   `json:"locked"` // some mutex Lock() without Unlock() precedes it in the function literal
	Lock   string `json:"lock"`   // name of that mutex
	Line   int    `json:"line"`
	Depth  int    `json:"depth"` // nesting depth of concurrently started function literals
}

type c11Shape struct {
	Found  bool       `json:"found"`
	Recv   string     `json:"recv"`
	Writes []c11Write `json:"writes"`
	Err    string     `json:"err,omitempty"`
}

// selector on the receiver: n.field  (through index expressions: n.field[i])
func c11RecvField(e ast.Expr, recv string) (field string, indexed bool) {
	switch x := e.(type) {
	case *ast.IndexExpr:
		f, _ := c11RecvField(x.X, recv)
		return f, true
	case *ast.SelectorExpr:
		if id, ok := x.X.(*ast.Ident); ok && id.Name == recv {
			return x.Sel.Name, false
		}
	}
	return "", false
}

type c11Walker struct {
	fset   *token.FileSet
	recv   string
	writes []c11Write
}

// walk the statements of one concurrently started function literal in source order, tracking the mutex state
func (w *c11Walker) lit(fl *ast.FuncLit, depth int) {
	held := ""
	var stmts func(list []ast.Stmt)
	var stmt func(s ast.Stmt)
	lockCall := func(e ast.Expr) (name, method string) {
		if c, ok := e.(*ast.CallExpr); ok {
			if sel, ok := c.Fun.(*ast.SelectorExpr); ok {
				if id, ok := sel.X.(*ast.Ident); ok {
					return id.Name, sel.Sel.Name
				}
			}
		}
		return "", ""
	}
	// function literals started from this one (go f(), x.Go(f)) are walked on their own
	var nested func(n ast.Node)
	nested = func(n ast.Node) {
		ast.Inspect(n, func(m ast.Node) bool {
			if inner, ok := m.(*ast.FuncLit); ok {
				w.lit(inner, depth+1)
				return false
			}
			return true
		})
	}
	stmt = func(s ast.Stmt) {
		switch x := s.(type) {
		case *ast.ExprStmt:
			if name, m := lockCall(x.X); m == "Lock" || m == "RLock" {
				held = name
				return
			} else if m == "Unlock" || m == "RUnlock" {
				held = ""
				return
			}
			nested(x)
		case *ast.DeferStmt:
			// defer mu.Unlock() keeps the lock to the end of the literal: nothing to do
			if _, m := lockCall(x.Call); m == "Unlock" {
				return
			}
			nested(x)
		case *ast.GoStmt:
			nested(x)
		case *ast.AssignStmt:
			for i, lhs := range x.Lhs {
				f, indexed := c11RecvField(lhs, w.recv)
				if f == "" {
					continue
				}
				op := "store"
				if indexed {
					op = "index"
				} else if i < len(x.Rhs) {
					if c, ok := x.Rhs[i].(*ast.CallExpr); ok {
						if id, ok := c.Fun.(*ast.Ident); ok && id.Name == "append" {
							op = "append"
						}
					}
				}
				w.writes = append(w.writes, c11Write{Field: f, Op: op, Locked: held != "", Lock: held,
					Line: w.fset.Position(x.Pos()).Line, Depth: depth})
			}
			for _, r := range x.Rhs {
				nested(r)
			}
		case *ast.IncDecStmt:
			if f, indexed := c11RecvField(x.X, w.recv); f != "" {
				op := "store"
				if indexed {
					op = "index"
				}
				w.writes = append(w.writes, c11Write{Field: f, Op: op, Locked: held != "", Lock: held,
					Line: w.fset.Position(x.Pos()).Line, Depth: depth})
			}
		case *ast.BlockStmt:
			stmts(x.List)
		case *ast.IfStmt:
			if x.Init != nil {
				stmt(x.Init)
			}
			stmts(x.Body.List)
			if x.Else != nil {
				stmt(x.Else)
			}
		case *ast.ForStmt:
			stmts(x.Body.List)
		case *ast.RangeStmt:
			stmts(x.Body.List)
		case *ast.SwitchStmt:
			stmts(x.Body.List)
		case *ast.CaseClause:
			stmts(x.Body)
		case *ast.SelectStmt:
			stmts(x.Body.List)
		case *ast.CommClause:
			stmts(x.Body)
		case *ast.LabeledStmt:
			stmt(x.Stmt)
		default:
			if s != nil {
				nested(s)
			}
		}
	}
	stmts = func(list []ast.Stmt) {
		for _, s := range list {
			stmt(s)
		}
	}
	stmts(fl.Body.List)
}

func TestVerifC11Shape(t *testing.T) {
	var res c11Shape
	defer func() {
		b, _ := json.Marshal(res)
		_ = os.WriteFile(os.Getenv("VERIF_OUT"), append(b, '\n'), 0o644)
	}()
	fset := token.NewFileSet()
	f, err := parser.ParseFile(fset, os.Getenv("VERIF_SRC"), nil, 0)
	if err != nil {
		res.Err = err.Error()
		return
	}
	for _, d := range f.Decls {
		fd, ok := d.(*ast.FuncDecl)
		if !ok || fd.Name.Name != "Build" || fd.Recv == nil || len(fd.Recv.List) != 1 {
			continue
		}
		st, ok := fd.Recv.List[0].Type.(*ast.StarExpr)
		if !ok {
			continue
		}
		if id, ok := st.X.(*ast.Ident); !ok || id.Name != "AhocorasickSlimtrie" {
			continue
		}
		if len(fd.Recv.List[0].Names) != 1 {
			continue
		}
		res.Found = true
		res.Recv = fd.Recv.List[0].Names[0].Name
		w := &c11Walker{fset: fset, recv: res.Recv}
		// every function literal directly under Build is started concurrently (wg.Go(func..), go func..)
		ast.Inspect(fd.Body, func(n ast.Node) bool {
			if fl, ok := n.(*ast.FuncLit); ok {
				w.lit(fl, 1)
				return false
			}
			return true
		})
		res.Writes = w.writes
	}
}

// ---- stress exploration ----

type c11StressCase struct {
	N      int `json:"n"`      // number of one-pattern sets = bit length
	Builds int `json:"builds"` // how many matchers are built and probed
	Procs  int `json:"procs"`  // GOMAXPROCS during the builds (0 = leave)
}

type c11StressLoss struct {
	Build int    `json:"build"`
	Idx   int    `json:"idx"`
	Kind  string `json:"kind"`
	Pat   string `json:"pat"`
	Name  string `json:"name"`
	Got   []int  `json:"got"` // bits set for the name
	Panic string `json:"panic,omitempty"`
}

func c11MatchNoPanic(m *AhocorasickSlimtrie, name string) (bm []uint32, pan string) {
	defer func() {
		if e := recover(); e != nil {
			pan = fmt.Sprint(e)
		}
	}()
	return m.MatchDomainBitmap(name), ""
}

type c11StressResult struct {
	Procs  int             `json:"procs"`
	CPUs   int             `json:"cpus"`
	Probes int             `json:"probes"`
	Losses []c11StressLoss `json:"losses"` // first few
	NLoss  int             `json:"nloss"`
	Err    string          `json:"err,omitempty"`
}

// set i: kind by i%3, one pattern that only the name of i matches
func c11StressSet(i int) (kind string, pat string, name string) {
	switch i % 3 {
	case 0:
		return "full", fmt.Sprintf("f%d.example.com", i), fmt.Sprintf("f%d.example.com", i)
	case 1:
		return "suffix", fmt.Sprintf("s%d.example.org", i), fmt.Sprintf("www.s%d.example.org", i)
	default:
		return "keyword", fmt.Sprintf("k%dk", i), fmt.Sprintf("a.xk%dkx.net", i)
	}
}

func TestVerifC11Stress(t *testing.T) {
	verifEachLine(t, func(line []byte) any {
		var c c11StressCase
		var res c11StressResult
		if err := json.Unmarshal(line, &c); err != nil {
			res.Err = err.Error()
			return res
		}
		if c.Procs > 0 {
			defer runtime.GOMAXPROCS(runtime.GOMAXPROCS(c.Procs))
		}
		res.Procs = runtime.GOMAXPROCS(0)
		res.CPUs = runtime.NumCPU()
		log := logrus.New()
		log.SetOutput(io.Discard)
		for b := 0; b < c.Builds; b++ {
			m := NewAhocorasickSlimtrie(log, c.N)
			for i := 0; i < c.N; i++ {
				kind, pat, _ := c11StressSet(i)
				var k consts.RoutingDomainKey
				switch kind {
				case "full":
					k = consts.RoutingDomainKey_Full
				case "suffix":
					k = consts.RoutingDomainKey_Suffix
				default:
					k = consts.RoutingDomainKey_Keyword
				}
				m.AddSet(i, []string{pat}, k)
			}
			if err := m.Build(); err != nil {
				res.Err = err.Error()
				return res
			}
			for i := 0; i < c.N; i++ {
				kind, pat, name := c11StressSet(i)
				bm, pan := c11MatchNoPanic(m, name)
				res.Probes++
				if pan != "" {
					res.NLoss++
					if len(res.Losses) < 5 {
						res.Losses = append(res.Losses, c11StressLoss{Build: b, Idx: i, Kind: kind, Pat: pat, Name: name, Got: []int{}, Panic: pan})
					}
					continue
				}
				got := []int{}
				for w, v := range bm {
					for bit := 0; bit < 32; bit++ {
						if v&(1<<uint(bit)) != 0 {
							got = append(got, w*32+bit)
						}
					}
				}
				if len(got) != 1 || got[0] != i {
					res.NLoss++
					if len(res.Losses) < 5 {
						res.Losses = append(res.Losses, c11StressLoss{Build: b, Idx: i, Kind: kind, Pat: pat, Name: name, Got: got})
					}
				}
			}
		}
		return res
	})
}
