//go:build verif

package trie

// C11 harness for the succinct trie itself: NewTrie / HasPrefix on arbitrary key sets, with a dump of
// the built structure (leaves, labelBitmap, labels, rank and select samples) so that the Coq model of
// the construction is compared field by field, not only through query answers.
// Self-contained (own line reader) because other properties inject their own files into this package.

import (
	"bufio"
	"encoding/hex"
	"encoding/json"
	"fmt"
	"math/bits"
	"os"
	"testing"
)

type c11TrieCase struct {
	Alpha string   `json:"alpha"` // hex: the ValidChars byte list, in order
	Keys  []string `json:"keys"`  // hex
	Words []string `json:"words"` // hex
}

type c11TrieResult struct {
	Err     string   `json:"err"`
	Leaves  []string `json:"leaves"` // uint64 words, hex
	Lbm     []string `json:"lbm"`
	Labels  []uint64 `json:"labels"`
	Ranks   []uint64 `json:"ranks"`
	Selects []uint64 `json:"selects"`
	Has     []int    `json:"has"`   // per word: 0 false, 1 true, 2 panic
	Panic   string   `json:"panic,omitempty"`
}

func c11Unhex(s string) string {
	b, err := hex.DecodeString(s)
	if err != nil {
		panic(err)
	}
	return string(b)
}

// a select sample list whose largest entry is 0 has unit size 0; Get on it indexes an empty buffer.
// HasPrefix never reads it in that situation (the only node is the root), so the dump reads it as 0.
func c11GetNoPanic(t *Trie, i int) (v uint64) {
	defer func() {
		if e := recover(); e != nil {
			v = 0
		}
	}()
	return t.selectsBL.Get(i)
}

func c11Has(t *Trie, w string) (r int) {
	defer func() {
		if e := recover(); e != nil {
			r = 2
		}
	}()
	if t.HasPrefix(w) {
		return 1
	}
	return 0
}

func c11TrieRun(c *c11TrieCase) (res c11TrieResult) {
	defer func() {
		if r := recover(); r != nil {
			res.Panic = fmt.Sprint(r)
		}
	}()
	chars := NewValidChars([]byte(c11Unhex(c.Alpha)))
	keys := make([]string, len(c.Keys))
	for i, k := range c.Keys {
		keys[i] = c11Unhex(k)
	}
	t, err := NewTrie(keys, chars)
	if err != nil {
		res.Err = err.Error()
		return res
	}
	zeros, ones := 0, 0
	for _, w := range t.leaves {
		res.Leaves = append(res.Leaves, fmt.Sprintf("%x", w))
	}
	for _, w := range t.labelBitmap {
		res.Lbm = append(res.Lbm, fmt.Sprintf("%x", w))
		ones += bits.OnesCount64(w)
	}
	// number of label slots: every bit up to and including the last one-bit is a slot of the bitmap
	last := -1
	for i := len(t.labelBitmap)*64 - 1; i >= 0; i-- {
		if getBit(t.labelBitmap, i) != 0 {
			last = i
			break
		}
	}
	zeros = last + 1 - ones
	for i := 0; i < zeros; i++ {
		res.Labels = append(res.Labels, t.labels.Get(i))
	}
	for i := 0; i <= len(t.labelBitmap); i++ {
		res.Ranks = append(res.Ranks, t.ranksBL.Get(i))
	}
	for i := 0; i < (ones+63)/64; i++ {
		res.Selects = append(res.Selects, c11GetNoPanic(t, i))
	}
	for _, w := range c.Words {
		res.Has = append(res.Has, c11Has(t, c11Unhex(w)))
	}
	return res
}

func TestVerifC11Trie(t *testing.T) {
	in, err := os.Open(os.Getenv("VERIF_IN"))
	if err != nil {
		t.Fatalf("VERIF_IN: %v", err)
	}
	defer in.Close()
	out, err := os.Create(os.Getenv("VERIF_OUT"))
	if err != nil {
		t.Fatalf("VERIF_OUT: %v", err)
	}
	defer out.Close()
	w := bufio.NewWriterSize(out, 1<<20)
	defer w.Flush()
	sc := bufio.NewScanner(in)
	sc.Buffer(make([]byte, 1<<20), 1<<28)
	enc := json.NewEncoder(w)
	for sc.Scan() {
		line := sc.Bytes()
		if len(line) == 0 {
			continue
		}
		var c c11TrieCase
		var res c11TrieResult
		if err := json.Unmarshal(line, &c); err != nil {
			res.Panic = "bad case json: " + err.Error()
		} else {
			res = c11TrieRun(&c)
		}
		if err := enc.Encode(res); err != nil {
			t.Fatalf("encode: %v", err)
		}
		w.Flush()
	}
}
