//go:build verif

package cmd

// C20 harness: drives the real reload serialisation functions of package cmd at call granularity
// (tryQueueReloadRequest via reloadManager.queueReloadRequest, clearReloadPending,
// releaseReloadPendingAfterRetirement via finishReloadSuccess, finishReloadFailure, beginHandoff,
// coalesceReloadRequest, startControlPlaneRetirement, waitReloadReadyOrSignal) and the suppression
// counter of component/outbound/dialer, and prints one observation per call.

import (
	"context"
	"encoding/json"
	"fmt"
	"io"
	"os"
	"path/filepath"
	"runtime"
	"strconv"
	"strings"
	"sync"
	"sync/atomic"
	"syscall"
	"testing"
	"time"

	"github.com/daeuniverse/dae/common/consts"
	outbounddialer "github.com/daeuniverse/dae/component/outbound/dialer"
	"github.com/daeuniverse/dae/control"
	"github.com/sirupsen/logrus"
)

// c20Long is the overall deadline for an event the protocol promises (a channel closed, a goroutine
// finished).  Outcomes are derived from events, never from short sleeps; the orchestrator re-runs a
// case with VERIF_C20_SCALE = 4 and 16 before it believes that something is stuck.
func c20Long() time.Duration {
	scale := 1
	if v, err := strconv.Atoi(os.Getenv("VERIF_C20_SCALE")); err == nil && v > 0 {
		scale = v
	}
	return time.Duration(scale) * 2500 * time.Millisecond
}

func c20Dump() string {
	buf := make([]byte, 1<<16)
	n := runtime.Stack(buf, true)
	return string(buf[:n])
}

// clock seam: the build-time overlay of tools/c20.py sends the timer constructors used inside
// waitReloadReadyOrSignal through these wrappers (same behaviour; the harness counts how often a timeout
// is armed)
var verifC20Timers atomic.Int64

func verifC20NewTimer(d time.Duration) *time.Timer {
	verifC20Timers.Add(1)
	return time.NewTimer(d)
}

func verifC20After(d time.Duration) <-chan time.Time {
	verifC20Timers.Add(1)
	return time.After(d)
}

func newC20Logger() *logrus.Logger {
	l := logrus.New()
	l.SetOutput(io.Discard)
	return l
}

type c20Op struct {
	Op   string `json:"op"`
	B    bool   `json:"b,omitempty"`
	Code string `json:"code,omitempty"`
	D    int    `json:"d,omitempty"`
	// retirement circumstances (RF) and probes (WD, RB); times in ns unless named _ms
	Abort     bool  `json:"abort,omitempty"`
	Overlap   bool  `json:"overlap,omitempty"`
	ElapsedNs int64 `json:"elapsed_ns,omitempty"`
	Zero      bool  `json:"zero,omitempty"`
	Sessions  int   `json:"sessions,omitempty"`
	WaitMs    int   `json:"wait_ms,omitempty"`
	MaxWaitNs int64 `json:"maxw_ns,omitempty"`
	IdleMs    int   `json:"idle_ms,omitempty"`   // -1: never
	CancelMs  int   `json:"cancel_ms,omitempty"` // -1: never
	WatchMs   int   `json:"watch_ms,omitempty"`
	BudgetNs  int64 `json:"budget_ns,omitempty"`
}

// c20Plane is the old generation as the retirement code sees it (retirementDrainPlane)
type c20Plane struct {
	active  atomic.Int32
	idleCh  chan struct{}
	once    sync.Once
	aborted atomic.Bool
}

func newC20Plane(n int) *c20Plane {
	p := &c20Plane{idleCh: make(chan struct{})}
	p.active.Store(int32(n))
	return p
}
func (p *c20Plane) ActiveSessionCount() int      { return int(p.active.Load()) }
func (p *c20Plane) DrainIdleCh() <-chan struct{} { return p.idleCh }
func (p *c20Plane) AbortConnections() error      { p.aborted.Store(true); return nil }
func (p *c20Plane) drain() {
	p.active.Store(0)
	p.once.Do(func() { close(p.idleCh) })
}

type c20Case struct {
	Cap int     `json:"cap"`
	Ops []c20Op `json:"ops"`
}

type c20Obs struct {
	Pending    bool   `json:"pending"`
	Active     bool   `json:"active"`
	Reloading  bool   `json:"reloading"`
	Supp       int32  `json:"supp"`
	Qlen       int    `json:"qlen"`
	Code       string `json:"code"`
	Msg        string `json:"msg"`
	Suppressed bool   `json:"suppressed"`
	Ret        int64  `json:"ret"`
	Note       string `json:"note,omitempty"`
	File       int    `json:"file,omitempty"`      // writer runs: what a reader of the progress file sees (0 old, w+1 writer w, 99 bad)
	Done0      bool   `json:"done0,omitempty"`     // atomic-step runs: the first retirement's done channel is closed
	GenClosed0 bool   `json:"genclosed0,omitempty"` // ... and its old generation's Close() has returned
}

type c20Result struct {
	Obs       []c20Obs `json:"obs"`
	QuiesceNs int64    `json:"quiesce_ns"`
	UntilOk   bool     `json:"until_ok"` // every deadline set was now+quiesce (within 2 s)
	Codes     [5]int   `json:"codes"`    // numeric values of ReloadSend..ReloadBusy
	Dump      string   `json:"dump,omitempty"` // all goroutines at the first event that did not arrive
	Panic     string   `json:"panic,omitempty"`
}

type c20Progress struct {
	onBusy    func() // runs once, inside the next busy report, before it is written
	mu        sync.Mutex
	code      byte
	content   string
	expectSet bool
	clears    int // completed clearRejectedReloadProgress calls
	cond      *sync.Cond
}

func (p *c20Progress) set(code byte, content string) error {
	p.mu.Lock()
	if code == consts.ReloadBusy && p.onBusy != nil {
		// another goroutine gets to run between the caller's failed CompareAndSwap and its report
		f := p.onBusy
		p.onBusy = nil
		p.mu.Unlock()
		f()
		p.mu.Lock()
	}
	p.code, p.content = code, content
	if p.expectSet && code == consts.ReloadDone && content == "" {
		p.expectSet = false
		p.clears++
		p.cond.Broadcast()
	}
	p.mu.Unlock()
	return nil
}

// get is only called by clearRejectedReloadProgress: its return decides whether a set follows
func (p *c20Progress) get() (byte, string, error) {
	p.mu.Lock()
	defer p.mu.Unlock()
	if p.code == consts.ReloadBusy {
		p.expectSet = true
	} else {
		p.clears++
		p.cond.Broadcast()
	}
	return p.code, p.content, nil
}

func (p *c20Progress) waitClears(n int, d time.Duration) bool {
	deadline := time.Now().Add(d)
	timer := time.AfterFunc(d, func() { p.mu.Lock(); p.cond.Broadcast(); p.mu.Unlock() })
	defer timer.Stop()
	p.mu.Lock()
	defer p.mu.Unlock()
	for p.clears < n {
		if time.Now().After(deadline) {
			return false
		}
		p.cond.Wait()
	}
	return true
}

func c20CodeName(c byte) string {
	switch c {
	case consts.ReloadSend:
		return "Send"
	case consts.ReloadProcessing:
		return "Processing"
	case consts.ReloadDone:
		return "Done"
	case consts.ReloadError:
		return "Error"
	case consts.ReloadBusy:
		return "Busy"
	}
	return fmt.Sprintf("?%d", c)
}

func c20CodeByte(s string) byte {
	switch s {
	case "Send":
		return consts.ReloadSend
	case "Processing":
		return consts.ReloadProcessing
	case "Done":
		return consts.ReloadDone
	case "Error":
		return consts.ReloadError
	case "Busy":
		return consts.ReloadBusy
	}
	panic("bad code " + s)
}

func c20Run(cs c20Case) (res c20Result) {
	defer func() {
		if r := recover(); r != nil {
			res.Panic = fmt.Sprint(r)
		}
	}()
	res.QuiesceNs = int64(outbounddialer.VerifC20Quiesce())
	res.Codes = [5]int{consts.ReloadSend, consts.ReloadProcessing, consts.ReloadDone, consts.ReloadError, consts.ReloadBusy}
	res.UntilOk = true
	outbounddialer.VerifC20ResetSuppression()

	prog := &c20Progress{code: consts.ReloadDone}
	prog.cond = sync.NewCond(&prog.mu)
	oldSet, oldGet := setRunSignalProgress, getRunSignalProgress
	setRunSignalProgress = prog.set
	getRunSignalProgress = prog.get
	defer func() { setRunSignalProgress, getRunSignalProgress = oldSet, oldGet }()

	log := newC20Logger()
	capn := cs.Cap
	if capn <= 0 {
		capn = 1
	}
	m := newReloadManager(make(chan reloadRequest, capn), make(chan struct{}, 1), make(chan os.Signal, 1))
	var cur reloadRequest

	type retirement struct {
		gate    chan struct{}
		opened  bool
		done    <-chan struct{}
		closed  bool
		waiters int
		plane   *c20Plane
		cancel  context.CancelFunc
	}
	var rets []*retirement
	defer func() {
		// let every retirement goroutine finish
		// ... and every release goroutine waiting on one (it would otherwise touch the process-global
		// suppression counter during the next case)
		for _, r := range rets {
			if !r.closed {
				before := func() int { prog.mu.Lock(); defer prog.mu.Unlock(); return prog.clears }()
				if !r.opened {
					close(r.gate)
				}
				if r.cancel != nil {
					r.cancel()
				}
				select {
				case <-r.done:
				case <-time.After(c20Long()):
				}
				if r.waiters > 0 {
					prog.waitClears(before+r.waiters, c20Long())
				}
			}
		}
	}()
	pendingDone := func() <-chan struct{} {
		m.mu.Lock()
		defer m.mu.Unlock()
		return m.pendingRetirementDone
	}
	lastUntil := int64(0)
	for _, op := range cs.Ops {
		ret := int64(0)
		note := ""
		switch op.Op {
		case "Q":
			if m.queueReloadRequest(log, reloadRequest{isSuspend: op.B, requestedAt: time.Now(), requestedAtMono: monotonicNowNano()}) {
				ret = 1
			}
		case "QK":
			// the request's busy report is overtaken by the holder's clearReloadPending
			prog.mu.Lock()
			prog.onBusy = func() { clearReloadPending(&m.reloadPending) }
			prog.mu.Unlock()
			if m.queueReloadRequest(log, reloadRequest{isSuspend: op.B, requestedAt: time.Now(), requestedAtMono: monotonicNowNano()}) {
				ret = 1
			}
			prog.mu.Lock()
			prog.onBusy = nil
			prog.mu.Unlock()
		case "T":
			select {
			case r := <-m.reloadReqs:
				cur = r
				if r.isSuspend {
					ret = 1
				}
			default:
				ret = 2
			}
		case "A":
			m.reloadActive.Store(op.B)
		case "L":
			m.reloading.Store(op.B)
		case "C":
			cur = m.coalesceReloadRequest(cur)
			if cur.isSuspend {
				ret = 1
			}
		case "P":
			_ = setRunSignalProgress(c20CodeByte(op.Code), "x")
		case "K":
			clearReloadPending(&m.reloadPending)
		case "H":
			m.beginHandoff()
			select {
			case <-m.runStateChanges:
			default:
				note = "no-notification"
			}
		case "N":
			notifyRunStateChange(m.runStateChanges)
			select {
			case <-m.runStateChanges:
			default:
				note = "no-notification"
			}
		case "O":
			before := func() int { prog.mu.Lock(); defer prog.mu.Unlock(); return prog.clears }()
			ch := pendingDone()
			async := false
			if ch != nil {
				for _, r := range rets {
					if r.done == ch {
						if r.closed {
							async = true // the goroutine finds the channel closed and runs at once
						} else {
							r.waiters++
						}
					}
				}
			}
			m.finishReloadSuccess()
			if async && !prog.waitClears(before+1, c20Long()) {
				note = "release-goroutine-stuck"
				if res.Dump == "" {
					res.Dump = c20Dump()
				}
			}
		case "F":
			m.finishReloadFailure()
		case "R":
			gate := make(chan struct{})
			m.setPendingReloadMetadata(time.Now(), monotonicNowNano())
			m.startControlPlaneRetirement(log, &control.ControlPlane{}, nil, func() { <-gate }, false, false)
			rets = append(rets, &retirement{gate: gate, done: pendingDone()})
			_ = gate
		case "X":
			m.clearPendingRetirement()
		case "RF":
			// startControlPlaneRetirement with a plane whose sessions the harness controls (the real method
			// wants a concrete *control.ControlPlane): same statements, real budget computation, real
			// retireControlPlaneConnections in the goroutine
			m.lastRetirementMu.Lock()
			if m.lastRetirementCancel != nil {
				m.lastRetirementCancel()
			}
			retireCtx, retireCancel := context.WithCancel(context.Background())
			m.lastRetirementCancel = retireCancel
			m.lastRetirementMu.Unlock()
			startedAt := time.Time{}
			if !op.Zero {
				startedAt = time.Now().Add(-time.Duration(op.ElapsedNs))
			}
			m.setPendingReloadMetadata(startedAt, monotonicNowNano())
			done := make(chan struct{})
			m.mu.Lock()
			m.pendingRetirementDone = done
			drainBudget := remainingReloadRetirementBudget(m.pendingReloadRequestedAt, reloadTotalSwitchBudget)
			m.mu.Unlock()
			gate := make(chan struct{})
			plane := newC20Plane(op.Sessions)
			abort, overlap := op.Abort, op.Overlap
			go func(done chan struct{}) {
				defer close(done)
				<-gate
				retireControlPlaneConnections(log, retireCtx, plane, abort, overlap, drainBudget)
			}(done)
			rets = append(rets, &retirement{gate: gate, done: done, plane: plane, cancel: retireCancel})
		case "SD":
			if op.D < len(rets) && rets[op.D].plane != nil {
				rets[op.D].plane.drain()
			}
		case "D":
			if op.D < len(rets) && !rets[op.D].closed {
				r := rets[op.D]
				before := func() int { prog.mu.Lock(); defer prog.mu.Unlock(); return prog.clears }()
				if !r.opened {
					close(r.gate)
					r.opened = true
				}
				// the generator asks for this only when nothing has to be waited for any more (abort, no
				// overlap, no sessions, budget used up, sessions ended, context cancelled): wait for the
				// event itself
				select {
				case <-r.done:
					r.closed = true
				case <-time.After(c20Long()):
					if res.Dump == "" {
						res.Dump = c20Dump()
					}
					if r.plane == nil {
						note = "retirement-stuck"
					}
				}
				if r.closed {
					if r.waiters > 0 && !prog.waitClears(before+r.waiters, c20Long()) {
						note = "release-goroutine-stuck"
						if res.Dump == "" {
							res.Dump = c20Dump()
						}
					}
					r.waiters = 0
				}
			}
		case "WD":
			// the real waitForControlPlaneDrain against sessions that drain after idle_ms (or never), a context
			// cancelled after cancel_ms (or never), watched for watch_ms
			plane := newC20Plane(op.Sessions)
			ctx, cancel := context.WithCancel(context.Background())
			resCh := make(chan controlPlaneDrainWaitResult, 1)
			go func() {
				resCh <- waitForControlPlaneDrain(log, ctx, plane, time.Duration(op.MaxWaitNs), 0)
			}()
			// at most one source of wake-up per probe, triggered as an event (no competing real timers)
			if op.IdleMs >= 0 {
				plane.drain()
			}
			if op.CancelMs >= 0 {
				cancel()
			}
			if op.Sessions > 0 && op.IdleMs < 0 && op.CancelMs < 0 && op.MaxWaitNs >= int64(5*time.Second) {
				// seconds of budget left and nothing happens: it must still be waiting; a short look is
				// enough (load can only make a return later)
				select {
				case r := <-resCh:
					ret = int64(r)
				case <-time.After(50 * time.Millisecond):
					ret = 3
					cancel()
					<-resCh
				}
			} else {
				select {
				case r := <-resCh:
					ret = int64(r)
				case <-time.After(c20Long()):
					ret = 3
					if res.Dump == "" {
						res.Dump = c20Dump()
					}
					cancel()
					<-resCh
				}
			}
			cancel()
		case "RB":
			startedAt := time.Time{}
			if !op.Zero {
				startedAt = time.Now().Add(-time.Duration(op.ElapsedNs))
			}
			ret = int64(remainingReloadRetirementBudget(startedAt, time.Duration(op.BudgetNs)))
		case "SW":
			// k reload/suspend/hangup signals arrive one after the other while the main loop waits for the new
			// generation (each is sent when the previous one has been taken: events, no sleeps), then readiness
			// is reported.  Observable: how many timers the wait armed.
			long := c20Long()
			sigs := make(chan os.Signal) // unbuffered: a send returns when the loop has taken the signal
			ready := make(chan bool, 1)
			before := verifC20Timers.Load()
			k := op.D
			go func() {
				kinds := []os.Signal{syscall.SIGUSR1, syscall.SIGUSR2, syscall.SIGHUP}
				for i := 0; i < k; i++ {
					select {
					case sigs <- kinds[i%3]:
					case <-time.After(long):
					}
				}
				ready <- true
			}()
			r, _ := waitReloadReadyOrSignal(log, sigs, ready, 8*long)
			if r != reloadReadyWaitReady {
				note = fmt.Sprintf("wait-result-%d", r)
			}
			ret = verifC20Timers.Load() - before
		case "S":
			// a reload signal arrives while the main loop is inside waitReloadReadyOrSignal
			sigs := make(chan os.Signal, 1)
			ready := make(chan bool, 1)
			sigs <- syscall.SIGUSR1
			long := c20Long()
			go func() {
				deadline := time.Now().Add(long)
				for len(sigs) > 0 && time.Now().Before(deadline) {
					time.Sleep(time.Millisecond)
				}
				ready <- true
			}()
			r, _ := waitReloadReadyOrSignal(log, sigs, ready, 4*long)
			if r != reloadReadyWaitReady {
				note = fmt.Sprintf("wait-result-%d", r)
			}
		case "E":
			outbounddialer.EndReloadProxyFailureSuppression()
		default:
			panic("unknown op " + op.Op)
		}
		supp, until := outbounddialer.VerifC20Suppression()
		if until != lastUntil {
			delta := until - time.Now().UnixNano()
			if delta > res.QuiesceNs || delta < res.QuiesceNs-int64(10*time.Second) {
				res.UntilOk = false
			}
			lastUntil = until
		}
		prog.mu.Lock()
		code, content := prog.code, prog.content
		prog.mu.Unlock()
		msg := "Other"
		switch content {
		case "":
			msg = "None"
		case reloadBusyActiveMessage:
			msg = "Active"
		case reloadBusyRetiringMessage:
			msg = "Retiring"
		}
		res.Obs = append(res.Obs, c20Obs{
			Pending: m.reloadPending.Load(), Active: m.reloadActive.Load(), Reloading: m.reloading.Load(),
			Supp: supp, Qlen: len(m.reloadReqs), Code: c20CodeName(code), Msg: msg,
			Suppressed: outbounddialer.VerifC20Suppressed(), Ret: ret, Note: note,
		})
	}
	return res
}

func TestVerifC20(t *testing.T) {
	verifEachLine(t, func(line []byte) any {
		var cs c20Case
		if err := json.Unmarshal(line, &cs); err != nil {
			return c20Result{Panic: "bad case: " + err.Error()}
		}
		return c20Run(cs)
	})
}

// ------------------------------------------------------------------------------------------------
// Atomic-step correspondence: a deterministic scheduler runs 2-3 signal goroutines, the holder and the
// release goroutine through the yield points that tools/c20.py inserts (build-time overlay copy of
// cmd/run.go and dialer/sticky_cache.go) before every statement of tryQueueReloadRequest,
// clearReloadPending, releaseReloadPendingAfterRetirement and Begin/EndReloadProxyFailureSuppression.
// Exactly one managed goroutine runs at any time; everything is parked on channels (events), never on
// sleeps.

// verifC20Yield is the hook the instrumented run.go calls.
var verifC20Yield = func(fn, label string) {}

type c20Park struct {
	fn, label string
	done      bool
	ret       int64
}

type c20Thread struct {
	kind   string // sig | holder | releaser
	resume chan struct{}
	parked chan c20Park
	at     c20Park
	susp   bool
	ops    []c20Op
}

type c20Sched struct {
	cur     *c20Thread
	spawned chan *c20Thread
}

func (s *c20Sched) yield(fn, label string) {
	if label == "spawned" {
		kind := "releaser"
		if strings.HasPrefix(fn, "startControlPlaneRetirement") {
			kind = "retirer"
		}
		th := &c20Thread{kind: kind, resume: make(chan struct{}), parked: make(chan c20Park, 1)}
		th.at = c20Park{fn: fn, label: "spawned"}
		s.spawned <- th
		<-th.resume
		return
	}
	th := s.cur
	if label == "exit" {
		// deferred at the top of a spawned goroutine: it is over
		th.parked <- c20Park{done: true}
		return
	}
	th.parked <- c20Park{fn: fn, label: label}
	<-th.resume
}

type c20MicroStep struct {
	T      int    `json:"t"`
	Close  int    `json:"close"`
	Until  string `json:"until,omitempty"` // "fn/label-substring" | "done"
	N      int    `json:"n,omitempty"`
	IsClose bool  `json:"is_close,omitempty"`
}

type c20MicroCase struct {
	Threads []struct {
		Kind string  `json:"kind"`
		B    bool    `json:"b"`
		Ops  []c20Op `json:"ops"`
	} `json:"threads"`
	Steps []c20MicroStep `json:"steps"`
	Drain bool           `json:"drain"`
}

type c20MicroRec struct {
	T     int    `json:"t"` // -1: the scheduler closed a retirement channel
	Fn    string `json:"fn"`
	Label string `json:"label"`
	Obs   c20Obs `json:"obs"`
	Done  bool   `json:"done,omitempty"`
	Ret   int64  `json:"ret,omitempty"`
	Close int    `json:"close,omitempty"`
}

type c20MicroResult struct {
	Recs    []c20MicroRec `json:"recs"`
	Kinds   []string      `json:"kinds"` // kind of every thread, spawned ones included
	Rets    []int64       `json:"rets"`  // -1 unfinished
	Note    string        `json:"note,omitempty"`
	Dump    string        `json:"dump,omitempty"`
	Panic   string        `json:"panic,omitempty"`
}

func c20RunMicro(cs c20MicroCase) (res c20MicroResult) {
	defer func() {
		if r := recover(); r != nil {
			res.Panic = fmt.Sprint(r)
		}
	}()
	outbounddialer.VerifC20ResetSuppression()
	prog := &c20Progress{code: consts.ReloadDone}
	prog.cond = sync.NewCond(&prog.mu)
	oldSet, oldGet := setRunSignalProgress, getRunSignalProgress
	setRunSignalProgress = prog.set
	getRunSignalProgress = prog.get
	sched := &c20Sched{spawned: make(chan *c20Thread, 8)}
	oldY, oldDY := verifC20Yield, outbounddialer.VerifC20Yield
	verifC20Yield = sched.yield
	outbounddialer.VerifC20Yield = sched.yield
	defer func() {
		setRunSignalProgress, getRunSignalProgress = oldSet, oldGet
		verifC20Yield, outbounddialer.VerifC20Yield = oldY, oldDY
	}()
	log := newC20Logger()
	m := newReloadManager(make(chan reloadRequest, 1), make(chan struct{}, 1), make(chan os.Signal, 1))
	var dones []chan struct{}
	var closed []bool
	var threads []*c20Thread
	var lastTaken, firstDone <-chan struct{}
	genClosed0 := false
	isClosed := func(ch <-chan struct{}) bool {
		if ch == nil {
			return false
		}
		select {
		case <-ch:
			return true
		default:
			return false
		}
	}

	observe := func() c20Obs {
		supp, _ := outbounddialer.VerifC20Suppression()
		prog.mu.Lock()
		code, content := prog.code, prog.content
		prog.mu.Unlock()
		msg := "Other"
		switch content {
		case "":
			msg = "None"
		case reloadBusyActiveMessage:
			msg = "Active"
		case reloadBusyRetiringMessage:
			msg = "Retiring"
		}
		return c20Obs{Pending: m.reloadPending.Load(), Active: m.reloadActive.Load(), Reloading: m.reloading.Load(),
			Supp: supp, Qlen: len(m.reloadReqs), Code: c20CodeName(code), Msg: msg}
	}
	// writer runs: goroutines in the real writeSignalProgressBytesFile on one path in a private directory
	var wpath string
	var wpayloads [][]byte
	oldRecord := encodeSignalProgress(consts.ReloadDone, "previous answer")
	readerSees := func() int {
		b, err := os.ReadFile(wpath)
		if err != nil {
			return 99
		}
		if string(b) == string(oldRecord) {
			return 0
		}
		for w, p := range wpayloads {
			if string(b) == string(p) {
				return w + 1
			}
		}
		return 99
	}
	observeMicro := func() c20Obs {
		o := observe()
		if wpath != "" {
			o.File = readerSees()
		}
		if firstDone == nil && m.mu.TryLock() { // the parked holder may be inside the critical section
			firstDone = m.pendingRetirementDone
			m.mu.Unlock()
		}
		o.Done0 = isClosed(firstDone)
		o.GenClosed0 = genClosed0
		return o
	}
	start := func(th *c20Thread, body func() int64) {
		th.resume = make(chan struct{})
		th.parked = make(chan c20Park, 1)
		th.at = c20Park{fn: "start", label: ""}
		go func() {
			<-th.resume
			r := body()
			th.parked <- c20Park{done: true, ret: r}
		}()
	}
	for _, t := range cs.Threads {
		th := &c20Thread{kind: t.Kind, susp: t.B, ops: t.Ops}
		switch t.Kind {
		case "sig":
			susp := t.B
			start(th, func() int64 {
				if m.queueReloadRequest(log, reloadRequest{isSuspend: susp, requestedAt: time.Now()}) {
					return 1
				}
				return 0
			})
		case "writer":
			if wpath == "" {
				dir, err := os.MkdirTemp("", "verif-c20-progress-")
				if err != nil {
					panic(err)
				}
				defer os.RemoveAll(dir)
				wpath = filepath.Join(dir, "dae.progress")
				if err := os.WriteFile(wpath, oldRecord, 0644); err != nil {
					panic(err)
				}
			}
			w := len(wpayloads)
			// records of clearly different lengths, so that a splice cannot look like a record
			payload := encodeSignalProgress(byte(consts.ReloadProcessing+w), strings.Repeat(string(rune('a'+w)), 8*(w+1)))
			wpayloads = append(wpayloads, payload)
			path := wpath
			start(th, func() int64 {
				if err := writeSignalProgressBytesFile(path, payload); err != nil {
					return 5
				}
				return 0
			})
		case "holder":
			ops := t.Ops
			start(th, func() int64 {
				for _, op := range ops {
					sched.yield("op", op.Op)
					switch op.Op {
					case "T":
						select {
						case <-m.reloadReqs:
						default:
							panic("holder scheduled on an empty channel")
						}
					case "A":
						m.reloadActive.Store(op.B)
					case "L":
						m.reloading.Store(op.B)
					case "K":
						clearReloadPending(&m.reloadPending)
					case "F":
						m.finishReloadFailure()
					case "O":
						m.mu.Lock()
						taken := m.pendingRetirementDone
						m.mu.Unlock()
						lastTaken = taken
						m.finishReloadSuccess()
					case "H":
						m.beginHandoff()
					case "X":
						m.clearPendingRetirement()
					case "RD":
						ch := make(chan struct{})
						dones = append(dones, ch)
						closed = append(closed, false)
						m.mu.Lock()
						m.pendingRetirementDone = ch
						m.mu.Unlock()
					case "RS":
						// the real retirement goroutine on an empty old generation (nothing to drain)
						m.setPendingReloadMetadata(time.Now(), 0)
						m.startControlPlaneRetirement(log, &control.ControlPlane{}, &control.ControlPlane{}, func() {}, false, false)
					default:
						panic("unknown holder op " + op.Op)
					}
				}
				return 0
			})
		default:
			panic("unknown thread kind " + t.Kind)
		}
		threads = append(threads, th)
	}
	stuck := func(what string) {
		if res.Note == "" {
			res.Note = what
			res.Dump = c20Dump()
		}
	}
	// which retirement channel a release goroutine waits for: the one published when it was spawned
	waitsFor := map[*c20Thread]<-chan struct{}{}
	enabled := func(th *c20Thread) bool {
		if th.at.done {
			return false
		}
		if th.kind == "holder" && th.at.fn == "op" && th.at.label == "T" {
			return len(m.reloadReqs) > 0
		}
		if th.kind == "releaser" && strings.Contains(th.at.label, "recv") {
			return isClosed(waitsFor[th])
		}
		return true
	}
	step := func(ti int) bool {
		if ti < 0 || ti >= len(threads) {
			return false
		}
		th := threads[ti]
		if !enabled(th) {
			return false
		}
		before := th.at
		wasGo := before.label == "go"
		sched.cur = th
		th.resume <- struct{}{}
		select {
		case p := <-th.parked:
			th.at = p
		case <-time.After(c20Long()):
			stuck("thread-stuck")
			th.at = c20Park{done: true, ret: -2}
		}
		if wasGo {
			select {
			case nt := <-sched.spawned:
				// the goroutine waits on the channel that finishReloadSuccess took
				if nt.kind == "releaser" {
					waitsFor[nt] = lastTaken
				}
				threads = append(threads, nt)
			case <-time.After(c20Long()):
				stuck("spawn-stuck")
			}
		}
		if th.kind == "retirer" {
			for _, l := range strings.Split(before.label, ",") {
				if l == "tail:close" && th.at.ret != -2 {
					genClosed0 = true // the statement containing oldControlPlane.Close() has been executed
				}
			}
		}
		res.Recs = append(res.Recs, c20MicroRec{T: ti, Fn: before.fn, Label: before.label, Obs: observeMicro(), Done: th.at.done, Ret: th.at.ret})
		return true
	}
	matches := func(th *c20Thread, until string) bool {
		if th.at.done {
			return true
		}
		if until == "done" {
			return false
		}
		parts := strings.SplitN(until, "/", 2)
		if len(parts) == 2 {
			return strings.Contains(th.at.fn, parts[0]) && strings.Contains(th.at.label, parts[1])
		}
		return strings.Contains(th.at.label, until)
	}
	closeDone := func(d int) {
		if d >= 0 && d < len(dones) && !closed[d] {
			close(dones[d])
			closed[d] = true
			if d == 0 {
				genClosed0 = true // a harness-made retirement: generation gone and done closed in one go
			}
			res.Recs = append(res.Recs, c20MicroRec{T: -1, Fn: "close", Close: d, Obs: observeMicro()})
		}
	}
	for _, st := range cs.Steps {
		if st.IsClose {
			closeDone(st.Close)
			continue
		}
		if st.Until != "" {
			for i := 0; i < 200 && st.T < len(threads) && !matches(threads[st.T], st.Until); i++ {
				if !step(st.T) {
					break
				}
			}
			continue
		}
		n := st.N
		if n <= 0 {
			n = 1
		}
		for i := 0; i < n; i++ {
			if !step(st.T) {
				break
			}
		}
	}
	if cs.Drain {
		for round := 0; round < 400; round++ {
			progress := false
			for ti := 0; ti < len(threads); ti++ {
				if step(ti) {
					progress = true
				}
			}
			if !progress {
				// only goroutines waiting for a retirement can be left: let the retirements finish
				opened := false
				for d := range dones {
					if !closed[d] {
						closeDone(d)
						opened = true
					}
				}
				if !opened {
					break
				}
			}
		}
	}
	for _, th := range threads {
		if th.at.done {
			res.Rets = append(res.Rets, th.at.ret)
		} else {
			res.Rets = append(res.Rets, -1)
		}
		res.Kinds = append(res.Kinds, th.kind)
	}
	// release whatever is still parked so that no goroutine outlives the case
	for d := range dones {
		if !closed[d] {
			close(dones[d])
			closed[d] = true
		}
	}
	for guard := 0; guard < 2000; guard++ {
		any := false
		for ti := 0; ti < len(threads); ti++ {
			th := threads[ti]
			if th.at.done {
				continue
			}
			if th.kind == "holder" && th.at.fn == "op" && th.at.label == "T" && len(m.reloadReqs) == 0 {
				// it would wait for a request for ever: feed it one so that it can end
				m.reloadReqs <- reloadRequest{}
			}
			if !enabled(th) {
				continue // a release goroutine whose retirement has not finished yet: its turn comes later
			}
			wasGo := th.at.label == "go"
			sched.cur = th
			th.resume <- struct{}{}
			select {
			case p := <-th.parked:
				th.at = p
			case <-time.After(c20Long()):
				th.at = c20Park{done: true, ret: -2}
			}
			if wasGo {
				// the spawned goroutine must register with THIS case's scheduler before the case ends
				select {
				case nt := <-sched.spawned:
					if nt.kind == "releaser" {
						waitsFor[nt] = lastTaken
					}
					threads = append(threads, nt)
				case <-time.After(c20Long()):
				}
			}
			any = true
		}
		if !any {
			break
		}
	}
	return res
}

func TestVerifC20Micro(t *testing.T) {
	verifEachLine(t, func(line []byte) any {
		var cs c20MicroCase
		if err := json.Unmarshal(line, &cs); err != nil {
			return c20MicroResult{Panic: "bad case: " + err.Error()}
		}
		return c20RunMicro(cs)
	})
}
