//go:build verif

package dns

// C12 harness, DNS response routing: ip(...) rules of ResponseMatcherBuilder / ResponseMatcher.Match.

import (
	"encoding/json"
	"fmt"
	"net/netip"
	"testing"

	"github.com/daeuniverse/dae/common/consts"
	"github.com/daeuniverse/dae/component/routing"
	"github.com/daeuniverse/dae/pkg/config_parser"
	"github.com/sirupsen/logrus"
)

type c12RespRule struct {
	Not    bool     `json:"not"`
	Values []string `json:"values"`
}

type c12RespCase struct {
	Kind    string        `json:"kind"` // response
	Rules   []c12RespRule `json:"rules"`
	Answers [][]string    `json:"answers"` // one list of addresses per lookup
}

type c12RespResult struct {
	Err     string `json:"err,omitempty"`
	Panic   string `json:"panic,omitempty"`
	Matches []int  `json:"matches"` // rule index, -1 fallback
}

var c12RespLog = func() *logrus.Logger {
	l := logrus.New()
	l.SetLevel(logrus.PanicLevel)
	return l
}()

func c12RunResponse(cs c12RespCase) (res c12RespResult) {
	defer func() {
		if r := recover(); r != nil {
			res.Panic = fmt.Sprint(r)
		}
	}()
	names := map[string]uint8{}
	for i := range cs.Rules {
		names[fmt.Sprintf("u%d", i)] = uint8(i)
	}
	b := &ResponseMatcherBuilder{log: c12RespLog, upstreamName2Id: names}
	parser := routing.IpParserFactory(b.addIp)
	for i, r := range cs.Rules {
		if err := parser(c12RespLog, &config_parser.Function{Not: r.Not}, "", r.Values, &routing.Outbound{Name: fmt.Sprintf("u%d", i)}); err != nil {
			res.Err = fmt.Sprintf("rule %d: %v", i, err)
			return res
		}
	}
	if err := b.addFallback("accept"); err != nil {
		res.Err = "fallback: " + err.Error()
		return res
	}
	m, err := b.Build()
	if err != nil {
		res.Err = "build: " + err.Error()
		return res
	}
	for _, ans := range cs.Answers {
		ips := make([]netip.Addr, 0, len(ans))
		for _, s := range ans {
			ips = append(ips, netip.MustParseAddr(s))
		}
		up, err := m.Match("example.com.", 1, ips, consts.DnsRequestOutboundIndex(0))
		if err != nil {
			res.Err = "match: " + err.Error()
			return res
		}
		if up == consts.DnsResponseOutboundIndex_Accept {
			res.Matches = append(res.Matches, -1)
		} else {
			res.Matches = append(res.Matches, int(up))
		}
	}
	return res
}

func TestVerifC12Response(t *testing.T) {
	verifEachLine(t, func(line []byte) any {
		var cs c12RespCase
		if err := json.Unmarshal(line, &cs); err != nil {
			t.Fatalf("bad case: %v", err)
		}
		return c12RunResponse(cs)
	})
}
