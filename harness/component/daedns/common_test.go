//go:build verif

package daedns

// Shared helpers of the verification harness (injected into package daedns by go test -overlay).

import (
	"bufio"
	"encoding/json"
	"os"
	"testing"
)

func verifEachLine(t *testing.T, fn func(line []byte) any) {
	t.Helper()
	in, err := os.Open(os.Getenv("VERIF_IN"))
	if err != nil {
		t.Fatalf("VERIF_IN: %v", err)
	}
	defer in.Close()
	out, err := os.Create(os.Getenv("VERIF_OUT"))
	if err != nil {
		t.Fatalf("VERIF_OUT: %v", err)
	}
	defer out.Close()
	w := bufio.NewWriterSize(out, 1<<20)
	defer w.Flush()
	sc := bufio.NewScanner(in)
	sc.Buffer(make([]byte, 1<<20), 1<<28)
	enc := json.NewEncoder(w)
	for sc.Scan() {
		line := sc.Bytes()
		if len(line) == 0 {
			continue
		}
		res := fn(line)
		if err := enc.Encode(res); err != nil {
			t.Fatalf("encode: %v", err)
		}
	}
	if err := sc.Err(); err != nil {
		t.Fatalf("scan: %v", err)
	}
}
