//go:build verif

package daedns

// C07 harness, internal-resolver part.  Drives the REAL daedns.NewWithOption (optimizers, request-rule split, request
// matcher, sub/node/subnode matchers), MatchNodeUpstream / MatchSubscriptionUpstream, WrapNodeDialer /
// WrapSubscriptionDialer and the wrapped dialer's LookupIPAddr.  Upstreams are https:// with IP-literal hosts, so the
// only network-facing call is the package test seam sendHTTPDNSFunc, replaced by a recorder; the bootstrap resolver
// list is emptied (its use is observed as the "bootstrap resolver is not configured" error); the base dialer records
// LookupIPAddr calls.

import (
	"context"
	"encoding/json"
	"fmt"
	"io"
	"net"
	"net/http"
	"regexp"
	"strings"
	"sync"
	"testing"
	"time"

	"github.com/daeuniverse/dae/common/assets"
	componentdns "github.com/daeuniverse/dae/component/dns"
	"github.com/daeuniverse/dae/config"
	"github.com/daeuniverse/dae/pkg/config_parser"
	"github.com/daeuniverse/outbound/netproxy"
	dnsmessage "github.com/miekg/dns"
	"github.com/sirupsen/logrus"
)

type c07Cond struct {
	F      string      `json:"f"`
	Not    bool        `json:"not"`
	Params [][2]string `json:"params"`
}
type c07Rule struct {
	Conds  []c07Cond `json:"conds"`
	Target string    `json:"target"`
}
type c07RProbe struct {
	Kind   string `json:"kind"` // node | sub
	SubTag string `json:"subtag"`
	Name   string `json:"name"`
	Link   string `json:"link"`
	Host   string `json:"host"`   // node: AddressHost (control host); sub: taken from the link by the code
	Lookup string `json:"lookup"` // the host name the wrapped dialer is asked to resolve
	Net    string `json:"net"`    // network of the family-aware lookup: tcp udp tcp4 udp4 tcp6 udp6
}
type c07RCase struct {
	Ups      []string    `json:"ups"`
	Req      []c07Rule   `json:"req"`
	Fallback string      `json:"fallback"`
	RProbes  []c07RProbe `json:"rprobes"`
	Regex    []string    `json:"sel_regex"` // every regex pattern written in a selector
	QRegex   []string    `json:"regex"`     // every regex pattern written in a qname condition
}
type c07RProbeRes struct {
	Named    string      `json:"named"` // Match*Upstream result
	NamedOk  bool        `json:"named_ok"`
	Wrapped  bool        `json:"wrapped"`
	DName    string      `json:"d_name"`
	DControl string      `json:"d_control"`
	Plan     string      `json:"plan"` // first resolver asked by a tcp4 lookup: up:<i> | base | bootstrap | err:<text> | unwrapped
	Sent     [][2]int    `json:"sent"` // lookup on Net: the questions that reached an upstream, (qtype, upstream), in order
	By       string      `json:"by"`   // lookup on Net: who produced the result: up | base | bootstrap | err:<text>
	Hits     [][2]string `json:"hits"` // (field "1" tag/subtag, "2" name, "3" link; pattern) pairs that match
	QHits    []string    `json:"qhits"`
	Panic    string      `json:"panic,omitempty"`
}
type c07RResult struct {
	NewErr  string         `json:"new_err,omitempty"`
	Nil     bool           `json:"nil"`
	Panic   string         `json:"panic,omitempty"`
	RProbes []c07RProbeRes `json:"rprobes"`
}

func c07Rules(rs []c07Rule) []*config_parser.RoutingRule {
	out := make([]*config_parser.RoutingRule, 0, len(rs))
	for _, r := range rs {
		rule := &config_parser.RoutingRule{Outbound: config_parser.Function{Name: r.Target}}
		for _, c := range r.Conds {
			f := &config_parser.Function{Name: c.F, Not: c.Not}
			for _, p := range c.Params {
				f.Params = append(f.Params, &config_parser.Param{Key: p[0], Val: p[1]})
			}
			rule.AndFunctions = append(rule.AndFunctions, f)
		}
		out = append(out, rule)
	}
	return out
}

type c07Base struct {
	mu    sync.Mutex
	calls []string
}

func (b *c07Base) DialContext(ctx context.Context, network, addr string) (netproxy.Conn, error) {
	return nil, fmt.Errorf("c07: base dial")
}
func (b *c07Base) LookupIPAddr(ctx context.Context, network, host string) ([]net.IPAddr, error) {
	b.mu.Lock()
	b.calls = append(b.calls, host)
	b.mu.Unlock()
	return []net.IPAddr{{IP: net.IPv4(192, 0, 2, 77)}}, nil
}

func c07RHits(patterns []string, p c07RProbe) [][2]string {
	hits := [][2]string{}
	fields := [][2]string{{"1", p.SubTag}, {"2", p.Name}, {"3", p.Link}}
	for _, pat := range patterns {
		re, err := regexp.Compile(pat)
		if err != nil {
			continue
		}
		for _, f := range fields {
			if re.MatchString(f[1]) {
				hits = append(hits, [2]string{f[0], pat})
			}
		}
	}
	return hits
}

func c07QHits(patterns []string, name string) []string {
	norm := strings.ToLower(strings.TrimSuffix(name, "."))
	hits := []string{}
	for _, p := range patterns {
		re, err := regexp.Compile(p)
		if err != nil {
			continue
		}
		if name != "" && re.MatchString(norm) { // no hits for an absent name; the root name "." is matched as ""
			hits = append(hits, p)
		}
	}
	return hits
}

func c07RunR(cs *c07RCase) (res c07RResult) {
	defer func() {
		if r := recover(); r != nil {
			res.Panic = fmt.Sprint(r)
		}
	}()
	log := logrus.New()
	log.SetOutput(io.Discard)
	log.SetLevel(logrus.PanicLevel)
	conf := &config.Dns{}
	codeOf := map[string]int{}
	for i, tag := range cs.Ups {
		host := fmt.Sprintf("10.0.%d.%d", i/250, 1+i%250)
		conf.Upstream = append(conf.Upstream, config.KeyableString(fmt.Sprintf("%s:https://%s/dns-query", tag, host)))
		codeOf[host] = i
	}
	conf.Routing.Request.Rules = c07Rules(cs.Req)
	conf.Routing.Request.Fallback = cs.Fallback
	conf.Routing.Response.Fallback = "accept"
	router, err := NewWithOption(log, &config.Global{}, conf, &NewOption{LocationFinder: assets.NewLocationFinder(nil)})
	if err != nil {
		res.NewErr = err.Error()
		return res
	}
	if router == nil {
		res.Nil = true
	} else {
		router.bootstrapDns = nil
	}
	var mu sync.Mutex
	var asked []int
	var askedQ [][2]int
	origSend := sendHTTPDNSFunc
	defer func() { sendHTTPDNSFunc = origSend }()
	sendHTTPDNSFunc = func(ctx context.Context, client *http.Client, target string, upstream *componentdns.Upstream, data []byte) (*dnsmessage.Msg, error) {
		mu.Lock()
		code, ok := codeOf[upstream.Hostname]
		if !ok {
			code = -1
		}
		asked = append(asked, code)
		var q dnsmessage.Msg
		if err := q.Unpack(data); err != nil {
			mu.Unlock()
			return nil, err
		}
		qt := 0
		if len(q.Question) > 0 {
			qt = int(q.Question[0].Qtype)
		}
		askedQ = append(askedQ, [2]int{qt, code})
		mu.Unlock()
		m := &dnsmessage.Msg{}
		m.SetReply(&q)
		if len(q.Question) > 0 {
			if qt == int(dnsmessage.TypeAAAA) {
				m.Answer = []dnsmessage.RR{&dnsmessage.AAAA{Hdr: dnsmessage.RR_Header{Name: q.Question[0].Name, Rrtype: dnsmessage.TypeAAAA, Class: dnsmessage.ClassINET, Ttl: 60}, AAAA: net.ParseIP("2001:db8::55")}}
			} else {
				m.Answer = []dnsmessage.RR{&dnsmessage.A{Hdr: dnsmessage.RR_Header{Name: q.Question[0].Name, Rrtype: dnsmessage.TypeA, Class: dnsmessage.ClassINET, Ttl: 60}, A: net.IPv4(192, 0, 2, 55)}}
			}
		}
		return m, nil
	}
	for _, p := range cs.RProbes {
		res.RProbes = append(res.RProbes, c07RProbe1(router, cs, p, &mu, &asked, &askedQ))
	}
	return res
}

// c07WaitIdle waits until no shared lookup call is registered.  lookupTypeDedup coalesces a lookup with an identical
// one (same upstream, host, qtype) that is in flight OR has just finished but whose goroutine has not yet removed
// the entry: a back-to-back identical lookup would then be served without a new question.  The property is about
// where a question goes when one is sent; the harness asks its lookups one after the other on an idle router.
func c07WaitIdle(router *Router) {
	if router == nil {
		return
	}
	for i := 0; i < 20000; i++ {
		router.lookupMu.Lock()
		n := len(router.lookupCalls)
		router.lookupMu.Unlock()
		if n == 0 {
			return
		}
		time.Sleep(100 * time.Microsecond)
	}
}

func c07RProbe1(router *Router, cs *c07RCase, p c07RProbe, mu *sync.Mutex, asked *[]int, askedQ *[][2]int) (pr c07RProbeRes) {
	defer func() {
		if r := recover(); r != nil {
			pr.Panic = fmt.Sprint(r)
			pr.Plan = "err:PANIC " + pr.Panic
		}
	}()
	pr.Hits = c07RHits(cs.Regex, p)
	pr.QHits = c07QHits(cs.QRegex, p.Lookup)
	base := &c07Base{}
	var d netproxy.Dialer
	var err error
	if p.Kind == "sub" {
		raw := p.Link
		if p.SubTag != "" {
			raw = p.SubTag + ":" + p.Link
		}
		pr.Named, pr.NamedOk = router.MatchSubscriptionUpstream(raw)
		d, err = router.WrapSubscriptionDialer(base, raw)
	} else {
		meta := NodeMeta{SubscriptionTag: p.SubTag, Name: p.Name, Link: p.Link, AddressHost: p.Host}
		pr.Named, pr.NamedOk = router.MatchNodeUpstream(meta)
		d, err = router.WrapNodeDialer(base, meta)
	}
	if err != nil {
		pr.Plan = "err:wrap " + err.Error()
		return pr
	}
	rd, ok := d.(*resolvingDialer)
	if !ok {
		pr.Plan = "unwrapped"
		return pr
	}
	pr.Wrapped = true
	pr.DName, pr.DControl = rd.upstreamName, rd.controlHost
	mu.Lock()
	*asked = nil
	mu.Unlock()
	c07WaitIdle(router)
	ips, lerr := rd.LookupIPAddr(context.Background(), "tcp4", p.Lookup)
	c07WaitIdle(router)
	mu.Lock()
	got := append([]int{}, (*asked)...)
	mu.Unlock()
	base.mu.Lock()
	nb := len(base.calls)
	base.mu.Unlock()
	switch {
	case len(got) > 0 && nb == 0 && lerr == nil && len(ips) > 0:
		pr.Plan = fmt.Sprintf("up:%d", got[0])
		if len(got) > 1 {
			pr.Plan = fmt.Sprintf("err:%d upstream queries for one A lookup", len(got))
		}
	case len(got) == 0 && nb > 0 && lerr == nil:
		pr.Plan = "base"
	case len(got) == 0 && nb == 0 && lerr != nil && strings.Contains(lerr.Error(), "bootstrap resolver is not configured"):
		pr.Plan = "bootstrap"
	case lerr != nil:
		pr.Plan = "err:" + lerr.Error()
	default:
		pr.Plan = fmt.Sprintf("err:unclassified upstream=%v base=%d ips=%d", got, nb, len(ips))
	}
	// the family-aware lookup: one question per requested family
	netw := p.Net
	if netw == "" {
		netw = "tcp"
	}
	mu.Lock()
	*askedQ = nil
	mu.Unlock()
	base.mu.Lock()
	base.calls = nil
	base.mu.Unlock()
	ips2, lerr2 := rd.LookupIPAddr(context.Background(), netw, p.Lookup)
	c07WaitIdle(router)
	mu.Lock()
	pr.Sent = append([][2]int{}, (*askedQ)...)
	mu.Unlock()
	base.mu.Lock()
	nb2 := len(base.calls)
	base.mu.Unlock()
	switch {
	case lerr2 != nil && strings.Contains(lerr2.Error(), "bootstrap resolver is not configured") && nb2 == 0:
		pr.By = "bootstrap"
	case lerr2 != nil:
		pr.By = "err:" + lerr2.Error()
	case nb2 > 0:
		pr.By = "base"
	case len(pr.Sent) > 0 && len(ips2) == len(pr.Sent):
		pr.By = "up"
	default:
		pr.By = fmt.Sprintf("err:unclassified sent=%v base=%d ips=%d", pr.Sent, nb2, len(ips2))
	}
	return pr
}

func TestVerifC07R(t *testing.T) {
	verifEachLine(t, func(line []byte) any {
		var cs c07RCase
		if err := json.Unmarshal(line, &cs); err != nil {
			return c07RResult{Panic: "bad case json: " + err.Error()}
		}
		return c07RunR(&cs)
	})
}
