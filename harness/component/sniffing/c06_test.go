//go:build verif

package sniffing

// C06 harness: drives the REAL Sniffer/ConnSniffer (stream side through a scripted net.Conn, packet
// side through NewPacketSniffer/AppendData/SniffUdp) and reports canonical observations.
// QUIC Initial packets are built here from RFC 9000/9001/9369 (own salts, labels, packet-type bits),
// not with the repository's quicutils, so that the decrypt direction is checked independently.

import (
	"bytes"
	"context"
	"crypto/aes"
	"crypto/cipher"
	"crypto/sha256"
	"encoding/binary"
	"encoding/hex"
	"encoding/json"
	"errors"
	"fmt"
	"io"
	"net"
	"os"
	"sync"
	"sync/atomic"
	"syscall"
	"testing"
	"time"

	"golang.org/x/crypto/hkdf"
)

// ---------------------------------------------------------------- scripted connection

type c06Event struct {
	D  string `json:"d"`  // hex
	St string `json:"st"` // ok | eof | timeout | err | eofspin
}

type c06Read struct {
	W  int    `json:"w"`
	D  string `json:"d"`
	St string `json:"st"`
	N  int    `json:"n,omitempty"` // repetitions collapsed (eofspin)
}

type c06Timeout struct{}

func (c06Timeout) Error() string   { return "i/o timeout" }
func (c06Timeout) Timeout() bool   { return true }
func (c06Timeout) Temporary() bool { return true }

type c06Conn struct {
	events   [][]byte
	status   []string
	idx      int
	deadline time.Time
	log      []c06Read
	sets     []bool // SetReadDeadline calls: true = armed, false = cleared
	armed    []time.Time // every non-zero read deadline the sniffer armed, in order
	closed   bool
}

func (c *c06Conn) logRead(w int, d []byte, st string) {
	if st == "eof" && len(d) == 0 && len(c.log) > 0 {
		last := &c.log[len(c.log)-1]
		if last.St == "eof" && last.D == "" {
			last.N++
			return
		}
	}
	c.log = append(c.log, c06Read{W: w, D: hex.EncodeToString(d), St: st, N: 1})
}

func (c *c06Conn) Read(p []byte) (int, error) {
	for {
		if c.idx >= len(c.events) {
			if !c.deadline.IsZero() {
				c.logRead(len(p), nil, "timeout")
				return 0, &net.OpError{Op: "read", Net: "tcp", Err: c06Timeout{}}
			}
			c.logRead(len(p), nil, "eof")
			return 0, io.EOF
		}
		st := c.status[c.idx]
		d := c.events[c.idx]
		switch st {
		case "ok":
			if len(d) == 0 {
				// an empty successful read (allowed by io.Reader)
				c.idx++
				c.logRead(len(p), nil, "ok")
				return 0, nil
			}
			n := copy(p, d)
			if n < len(d) {
				c.events[c.idx] = d[n:]
			} else {
				c.idx++
			}
			c.logRead(len(p), p[:n], "ok")
			return n, nil
		case "eof":
			c.idx++
			c.logRead(len(p), nil, "eof")
			return 0, io.EOF
		case "eofspin":
			// a peer that has closed: EOF until the armed deadline passes (what a TCP socket does)
			if !c.deadline.IsZero() && time.Now().After(c.deadline) {
				c.idx++
				c.logRead(len(p), nil, "timeout")
				return 0, &net.OpError{Op: "read", Net: "tcp", Err: c06Timeout{}}
			}
			if c.deadline.IsZero() {
				c.idx++
			}
			c.logRead(len(p), nil, "eof")
			return 0, io.EOF
		case "timeout":
			c.idx++
			if c.deadline.IsZero() {
				// no deadline armed: the pause is simply over, go on with the next event
				continue
			}
			n := copy(p, d)
			c.logRead(len(p), p[:n], "timeout")
			return n, &net.OpError{Op: "read", Net: "tcp", Err: c06Timeout{}}
		default: // err: a reset connection keeps failing (the event is not consumed)
			n := copy(p, d)
			c.events[c.idx] = nil
			c.logRead(len(p), p[:n], "err")
			return n, &net.OpError{Op: "read", Net: "tcp", Err: syscall.ECONNRESET}
		}
	}
}
func (c *c06Conn) Write(p []byte) (int, error) { return len(p), nil }
func (c *c06Conn) Close() error                { c.closed = true; return nil }
func (c *c06Conn) LocalAddr() net.Addr         { return &net.TCPAddr{IP: net.IPv4(127, 0, 0, 1), Port: 1} }
func (c *c06Conn) RemoteAddr() net.Addr        { return &net.TCPAddr{IP: net.IPv4(127, 0, 0, 1), Port: 2} }
func (c *c06Conn) SetDeadline(t time.Time) error {
	return c.SetReadDeadline(t)
}
func (c *c06Conn) SetReadDeadline(t time.Time) error {
	c.deadline = t
	c.sets = append(c.sets, !t.IsZero())
	if !t.IsZero() {
		c.armed = append(c.armed, t)
	}
	return nil
}
func (c *c06Conn) SetWriteDeadline(t time.Time) error { return nil }

func (c *c06Conn) unread() []c06Event {
	var r []c06Event
	for i := c.idx; i < len(c.events); i++ {
		r = append(r, c06Event{D: hex.EncodeToString(c.events[i]), St: c.status[i]})
	}
	return r
}

// ---------------------------------------------------------------- case / result

type c06Pkt struct {
	Ver     uint32 `json:"ver"`
	Type    int    `json:"type"` // long packet type bits
	Dcid    string `json:"dcid"`
	Scid    string `json:"scid"`
	Token   string `json:"token"`
	Pn      uint32 `json:"pn"`
	PnLen   int    `json:"pnlen"`
	LenEnc  int    `json:"lenenc"` // varint width of the Length field: 1,2,4,8
	Payload string `json:"payload"`
	Salt    string `json:"salt"`  // "v1" | "v2"
	Flip    [][2]int `json:"flip"` // after encryption: [pos, xor]
}

type c06Dgram struct {
	Raw  string   `json:"raw,omitempty"`
	Pkts []c06Pkt `json:"pkts,omitempty"`
	Tail string   `json:"tail,omitempty"`
}

type c06Case struct {
	Kind      string     `json:"kind"` // tcp | quic
	Script    []c06Event `json:"script,omitempty"`
	Drain     string     `json:"drain,omitempty"` // read | prefix | writeto
	P         int        `json:"p,omitempty"`
	TimeoutMs int        `json:"timeout_ms,omitempty"`
	Sched     string     `json:"sched,omitempty"` // async: late | drain
	Init      string     `json:"init,omitempty"`
	Dgrams    []c06Dgram `json:"dgrams,omitempty"`
}

type c06Step struct {
	Dgram    string   `json:"dgram"`
	Class    string   `json:"class"`
	Name     string   `json:"name"`
	NeedMore bool     `json:"needmore"`
	Oracle   []string `json:"oracle"`
	DataOK   bool     `json:"data_ok"`
	Panic    string   `json:"panic,omitempty"`
}

type c06Result struct {
	Class     string     `json:"class"`
	Name      string     `json:"name"`
	Err       string     `json:"err,omitempty"`
	Panic     string     `json:"panic,omitempty"`
	Buf       string     `json:"buf"`
	Cap       int        `json:"cap"`
	DataErr   bool       `json:"dataerr"`
	SniffLog  int        `json:"sniff_reads"` // log entries consumed by the sniffer
	Log       []c06Read  `json:"log"`
	Unread    []c06Event `json:"unread"`
	Relay     string     `json:"relay"`
	RelaySt   string     `json:"relay_st"`
	RelayPanic string    `json:"relay_panic,omitempty"`
	ElapsedMs float64    `json:"elapsed_ms"`
	ArmedLeft bool       `json:"armed_left"` // a read deadline is still armed after sniffing
	Slow      bool       `json:"slow,omitempty"` // a generous harness deadline was hit: the case must be retried
	// Deadlines: every read deadline armed during SniffTcp, as nanoseconds after the instant just BEFORE the
	// sniffer was constructed; CtorNs: how long the construction took; TimeoutNs: the sniff timeout.  A sniffer
	// that bounds the whole sniff arms every read with construction time + timeout, i.e. every value lies in
	// [TimeoutNs, TimeoutNs+CtorNs] and all are equal - a deterministic observable, independent of machine load.
	Deadlines []int64 `json:"deadlines"`
	CtorNs    int64   `json:"ctor_ns"`
	TimeoutNs int64   `json:"timeout_ns"`
	Steps     []c06Step  `json:"steps,omitempty"`
}

func c06Class(d string, err error) string {
	switch {
	case err == nil:
		return "found"
	case errors.Is(err, context.DeadlineExceeded):
		return "timeout"
	case errors.Is(err, ErrNotFound):
		return "notfound"
	case errors.Is(err, ErrNotApplicable):
		// SniffTcp wraps the final error with an earlier ErrNeedMore: the final one decides
		return "notapplicable"
	default:
		var ne net.Error
		if errors.As(err, &ne) {
			if ne.Timeout() {
				return "timeout"
			}
			return "ioerr"
		}
		if errors.Is(err, ErrNeedMore) {
			return "needmore"
		}
		return "ioerr"
	}
}

func c06ErrStatus(err error) string {
	if err == nil || err == io.EOF {
		return "eof"
	}
	var ne net.Error
	if errors.Is(err, context.DeadlineExceeded) || errors.Is(err, os.ErrDeadlineExceeded) || (errors.As(err, &ne) && ne.Timeout()) {
		return "timeout"
	}
	return "err"
}

func c06Hex(s string) []byte {
	b, err := hex.DecodeString(s)
	if err != nil {
		panic("bad hex: " + err.Error())
	}
	return b
}

func c06RunTcp(cs c06Case) (res c06Result) {
	conn := &c06Conn{}
	for _, e := range cs.Script {
		conn.events = append(conn.events, c06Hex(e.D))
		conn.status = append(conn.status, e.St)
	}
	to := time.Duration(cs.TimeoutMs) * time.Millisecond
	if to <= 0 {
		to = 200 * time.Millisecond
	}
	tBefore := time.Now()
	sn := NewConnSniffer(conn, to)
	tAfter := time.Now()
	// a millisecond passes between construction and use: a deadline computed in the read path instead of the
	// constructor is then strictly later than construction time + timeout, also for a single read
	time.Sleep(time.Millisecond)
	// NOTE: the sniffer is deliberately not Closed: its pooled buffer must not be handed to the next
	// case, so that every case starts from a fresh buffer (deterministic first read window).
	t0 := time.Now()
	func() {
		defer func() {
			if r := recover(); r != nil {
				res.Panic = fmt.Sprint(r)
				res.Class = "panic"
			}
		}()
		d, err := sn.SniffTcp()
		res.Class = c06Class(d, err)
		res.Name = hex.EncodeToString([]byte(d))
		if err != nil {
			res.Err = err.Error()
		}
	}()
	res.ElapsedMs = float64(time.Since(t0).Microseconds()) / 1000
	res.SniffLog = len(conn.log)
	res.Deadlines = []int64{}
	for _, d := range conn.armed {
		res.Deadlines = append(res.Deadlines, d.Sub(tBefore).Nanoseconds())
	}
	res.CtorNs, res.TimeoutNs = tAfter.Sub(tBefore).Nanoseconds(), to.Nanoseconds()
	if sn.Sniffer.buf != nil {
		res.Buf = hex.EncodeToString(sn.Sniffer.buf.Bytes())
		res.Cap = sn.Sniffer.buf.Cap()
	}
	res.DataErr = sn.Sniffer.dataError != nil
	res.ArmedLeft = !conn.deadline.IsZero()
	if res.Panic != "" {
		// the connection handler is dead; nothing is relayed
		res.Log = conn.log
		res.Unread = conn.unread()
		res.RelaySt = "panic"
		return
	}
	// relay phase
	select {
	case <-sn.Sniffer.dataReady:
	default:
		// never block the harness: a sniffer that did not signal readiness withholds the payload
		res.RelaySt = "blocked"
		res.Log = conn.log
		res.Unread = conn.unread()
		return
	}
	p := cs.P
	if p <= 0 {
		p = 32 << 10
	}
	var out bytes.Buffer
	func() {
		defer func() {
			if r := recover(); r != nil {
				res.RelayPanic = fmt.Sprint(r)
				res.RelaySt = "panic"
			}
		}()
		switch cs.Drain {
		case "prefix":
			out.Write(sn.TakeRelayPrefix())
			_, err := sn.CopyRelayRemainder(&out, make([]byte, p))
			res.RelaySt = c06ErrStatus(err)
		case "writeto":
			_, err := sn.WriteTo(&out)
			res.RelaySt = c06ErrStatus(err)
		default:
			buf := make([]byte, p)
			for i := 0; i < 1<<20; i++ {
				n, err := sn.Read(buf)
				out.Write(buf[:n])
				if err != nil {
					res.RelaySt = c06ErrStatus(err)
					break
				}
			}
		}
	}()
	res.Relay = hex.EncodeToString(out.Bytes())
	res.Log = conn.log
	res.Unread = conn.unread()
	return
}

// ---------------------------------------------------------------- QUIC Initial builder (RFC 9001 / 9369)

var (
	c06SaltV1 = c06Hex("38762cf7f55934b34d179ae6a4c80cadccbb7f0a")
	c06SaltV2 = c06Hex("0dede3def700a6db819381be6e269dcbf9bd2ed9")
)

func c06ExpandLabel(secret []byte, label string, n int) []byte {
	info := make([]byte, 0, 32)
	info = binary.BigEndian.AppendUint16(info, uint16(n))
	info = append(info, byte(6+len(label)))
	info = append(info, "tls13 "...)
	info = append(info, label...)
	info = append(info, 0)
	out := make([]byte, n)
	if _, err := io.ReadFull(hkdf.Expand(sha256.New, secret, info), out); err != nil {
		panic(err)
	}
	return out
}

func c06Varint(v uint64, width int) []byte {
	if width == 0 {
		switch {
		case v < 1<<6:
			width = 1
		case v < 1<<14:
			width = 2
		case v < 1<<30:
			width = 4
		default:
			width = 8
		}
	}
	b := make([]byte, width)
	for i := width - 1; i >= 0; i-- {
		b[i] = byte(v)
		v >>= 8
	}
	b[0] |= map[int]byte{1: 0x00, 2: 0x40, 4: 0x80, 8: 0xc0}[width]
	return b
}

func c06BuildPkt(p c06Pkt) []byte {
	dcid, scid, token, payload := c06Hex(p.Dcid), c06Hex(p.Scid), c06Hex(p.Token), c06Hex(p.Payload)
	salt, pfx := c06SaltV1, "quic "
	if p.Salt == "v2" {
		salt, pfx = c06SaltV2, "quicv2 "
	}
	initial := hkdf.Extract(sha256.New, dcid, salt)
	client := c06ExpandLabel(initial, "client in", 32)
	key := c06ExpandLabel(client, pfx+"key", 16)
	iv := c06ExpandLabel(client, pfx+"iv", 12)
	hp := c06ExpandLabel(client, pfx+"hp", 16)
	pnLen := p.PnLen
	if pnLen < 1 || pnLen > 4 {
		pnLen = 1
	}
	hdr := []byte{0xc0 | byte(p.Type&3)<<4 | byte(pnLen-1)}
	hdr = binary.BigEndian.AppendUint32(hdr, p.Ver)
	hdr = append(hdr, byte(len(dcid)))
	hdr = append(hdr, dcid...)
	hdr = append(hdr, byte(len(scid)))
	hdr = append(hdr, scid...)
	hdr = append(hdr, c06Varint(uint64(len(token)), 0)...)
	hdr = append(hdr, token...)
	hdr = append(hdr, c06Varint(uint64(pnLen+len(payload)+16), p.LenEnc)...)
	pnOff := len(hdr)
	for i := pnLen - 1; i >= 0; i-- {
		hdr = append(hdr, byte(p.Pn>>(8*uint(i))))
	}
	blk, _ := aes.NewCipher(key)
	aead, _ := cipher.NewGCM(blk)
	nonce := append([]byte{}, iv...)
	binary.BigEndian.PutUint64(nonce[4:], binary.BigEndian.Uint64(nonce[4:])^uint64(p.Pn))
	pkt := aead.Seal(append([]byte{}, hdr...), nonce, payload, hdr)
	if len(pkt) >= pnOff+4+16 {
		hb, _ := aes.NewCipher(hp)
		mask := make([]byte, 16)
		hb.Encrypt(mask, pkt[pnOff+4:pnOff+4+16])
		pkt[0] ^= mask[0] & 0x0f
		for i := 0; i < pnLen; i++ {
			pkt[pnOff+i] ^= mask[1+i]
		}
	}
	for _, f := range p.Flip {
		if f[0] >= 0 && f[0] < len(pkt) {
			pkt[f[0]] ^= byte(f[1])
		}
	}
	return pkt
}

func c06RunQuic(cs c06Case) (res c06Result) {
	var init []byte
	if cs.Init != "" {
		init = c06Hex(cs.Init)
	}
	sn := NewPacketSniffer(init, 200*time.Millisecond)
	orig := [][]byte{append([]byte{}, init...)}
	res.Class = "none"
	t0 := time.Now()
	for _, dg := range cs.Dgrams {
		var d []byte
		if dg.Raw != "" {
			d = c06Hex(dg.Raw)
		}
		for _, p := range dg.Pkts {
			d = append(d, c06BuildPkt(p)...)
		}
		d = append(d, c06Hex(dg.Tail)...)
		st := c06Step{Dgram: hex.EncodeToString(d)}
		orig = append(orig, append([]byte{}, d...))
		before := len(sn.quicPlaintexts)
		func() {
			defer func() {
				if r := recover(); r != nil {
					st.Panic = fmt.Sprint(r)
					st.Class = "panic"
				}
			}()
			sn.AppendData(d)
			name, err := sn.SniffUdp()
			st.Class = c06Class(name, err)
			st.Name = hex.EncodeToString([]byte(name))
		}()
		st.NeedMore = sn.NeedMore()
		st.Oracle = []string{}
		for _, pt := range sn.quicPlaintexts[before:] {
			st.Oracle = append(st.Oracle, hex.EncodeToString(pt))
		}
		data := sn.Data()
		st.DataOK = len(data) == len(orig)
		if st.DataOK {
			for i := range data {
				if !bytes.Equal(data[i], orig[i]) {
					st.DataOK = false
				}
			}
		}
		res.Steps = append(res.Steps, st)
		if st.Panic != "" {
			break
		}
	}
	res.ElapsedMs = float64(time.Since(t0).Microseconds()) / 1000
	return
}

// ---------------------------------------------------------------- asynchronous fallback (no read deadlines)

// c06AsyncConn is a connection whose SetReadDeadline fails: NewConnSniffer then uses
// readStreamOnceAsync.  Reads are serialised like on a socket (one read lock); a "pause" event
// blocks the Read that reaches it until the harness releases it (the client is silent).
type c06AsyncConn struct {
	mu       sync.Mutex
	events   [][]byte
	status   []string
	idx      int
	release  chan struct{}
	lateDone chan struct{}
	paused   chan struct{}
	once     sync.Once
	ponce    sync.Once
	holder   atomic.Bool
	waiting  atomic.Int32
}

func (c *c06AsyncConn) Read(p []byte) (int, error) {
	if c.holder.Load() {
		c.waiting.Add(1) // a second reader queues behind the outstanding read (like the fd read lock)
	}
	c.mu.Lock()
	defer c.mu.Unlock()
	passed := false
	defer func() {
		if passed {
			c.once.Do(func() { close(c.lateDone) })
		}
	}()
	for {
		if c.idx >= len(c.events) {
			return 0, io.EOF
		}
		st, d := c.status[c.idx], c.events[c.idx]
		switch st {
		case "pause":
			c.idx++
			c.holder.Store(true)
			c.ponce.Do(func() { close(c.paused) })
			<-c.release
			c.holder.Store(false)
			passed = true
			continue
		case "eof":
			c.idx++
			return 0, io.EOF
		default:
			n := copy(p, d)
			if n < len(d) {
				c.events[c.idx] = d[n:]
			} else {
				c.idx++
			}
			return n, nil
		}
	}
}
func (c *c06AsyncConn) Write(p []byte) (int, error)        { return len(p), nil }
func (c *c06AsyncConn) Close() error                       { return nil }
func (c *c06AsyncConn) LocalAddr() net.Addr                { return &net.TCPAddr{IP: net.IPv4(127, 0, 0, 1), Port: 1} }
func (c *c06AsyncConn) RemoteAddr() net.Addr               { return &net.TCPAddr{IP: net.IPv4(127, 0, 0, 1), Port: 2} }
func (c *c06AsyncConn) SetDeadline(t time.Time) error      { return os.ErrNoDeadline }
func (c *c06AsyncConn) SetReadDeadline(t time.Time) error  { return os.ErrNoDeadline }
func (c *c06AsyncConn) SetWriteDeadline(t time.Time) error { return os.ErrNoDeadline }

// c06GateCtx replaces the sniffer's deadline context in the async cases: the "deadline" fires when
// the harness closes done, i.e. exactly when the scripted reader has reached its pause - an event,
// not a wait, so machine load cannot reorder it.  Err() is context.DeadlineExceeded as for a real
// deadline context.
type c06GateCtx struct{ done chan struct{} }

func (c *c06GateCtx) Deadline() (time.Time, bool) { return time.Time{}, false }
func (c *c06GateCtx) Done() <-chan struct{}       { return c.done }
func (c *c06GateCtx) Err() error {
	select {
	case <-c.done:
		return context.DeadlineExceeded
	default:
		return nil
	}
}
func (c *c06GateCtx) Value(key any) any { return nil }

func c06Scale() time.Duration {
	switch os.Getenv("VERIF_TIME_SCALE") {
	case "4":
		return 4
	case "16":
		return 16
	}
	return 1
}

// c06WaitFor polls cond (an event gate on state the code under test does not signal) with a generous deadline.
func c06WaitFor(cond func() bool, limit time.Duration) bool {
	t0 := time.Now()
	for !cond() {
		if time.Since(t0) > limit*c06Scale() {
			return false
		}
		time.Sleep(200 * time.Microsecond)
	}
	return true
}

func c06RunAsync(cs c06Case) (res c06Result) {
	conn := &c06AsyncConn{release: make(chan struct{}), lateDone: make(chan struct{}), paused: make(chan struct{})}
	for _, e := range cs.Script {
		conn.events = append(conn.events, c06Hex(e.D))
		conn.status = append(conn.status, e.St)
	}
	const generous = 30 * time.Second
	sn := NewConnSniffer(conn, time.Hour)
	gate := &c06GateCtx{done: make(chan struct{})}
	sn.Sniffer.ctxOnce.Do(func() { sn.Sniffer.ctx, sn.Sniffer.cancel = gate, func() {} })
	t0 := time.Now()
	sniffDone := make(chan struct{})
	go func() {
		defer close(sniffDone)
		defer func() {
			if r := recover(); r != nil {
				res.Panic = fmt.Sprint(r)
				res.Class = "panic"
			}
		}()
		d, err := sn.SniffTcp()
		res.Class = c06Class(d, err)
		res.Name = hex.EncodeToString([]byte(d))
		if err != nil {
			res.Err = err.Error()
		}
	}()
	outstanding := false
	select {
	case <-sniffDone:
	case <-conn.paused:
		// the client is silent and a read of the sniffer is outstanding: now the deadline passes
		outstanding = true
		close(gate.done)
		select {
		case <-sniffDone:
		case <-time.After(generous * c06Scale()):
			res.Class, res.RelaySt, res.Slow = "hang", "blocked", true
			close(conn.release)
			return
		}
	case <-time.After(generous * c06Scale()):
		res.Class, res.RelaySt, res.Slow = "hang", "blocked", true
		close(conn.release)
		return
	}
	res.ElapsedMs = float64(time.Since(t0).Microseconds()) / 1000
	res.DataErr = sn.Sniffer.dataError != nil
	res.ArmedLeft = outstanding // reused: a read of the sniffer is still outstanding
	if res.Panic != "" {
		close(conn.release)
		res.RelaySt = "panic"
		return
	}
	select {
	case <-sn.Sniffer.dataReady:
	case <-time.After(generous * c06Scale()):
		close(conn.release)
		res.RelaySt, res.Slow = "blocked", true
		return
	}
	p := cs.P
	if p <= 0 {
		p = 32 << 10
	}
	var out bytes.Buffer
	var relaySt, relayPanic string
	drain := func() {
		defer func() {
			if r := recover(); r != nil {
				relayPanic = fmt.Sprint(r)
				relaySt = "panic"
			}
		}()
		switch cs.Drain {
		case "prefix":
			out.Write(sn.TakeRelayPrefix())
			_, err := sn.CopyRelayRemainder(&out, make([]byte, p))
			relaySt = c06ErrStatus(err)
		case "writeto":
			_, err := sn.WriteTo(&out)
			relaySt = c06ErrStatus(err)
		default:
			buf := make([]byte, p)
			for i := 0; i < 1<<20; i++ {
				n, err := sn.Read(buf)
				out.Write(buf[:n])
				if err != nil {
					relaySt = c06ErrStatus(err)
					break
				}
			}
		}
	}
	runDrain := func() bool {
		done := make(chan struct{})
		go func() { drain(); close(done) }()
		select {
		case <-done:
			return true
		case <-time.After(generous * c06Scale()):
			return false
		}
	}
	if !outstanding {
		close(conn.release) // a pause the sniffer never reached is over by the time the relay reads
		if !runDrain() {
			res.RelaySt, res.Slow = "blocked", true
			return
		}
	} else if cs.Sched == "late" {
		// the client's next bytes arrive before the relay touches the sniffer: release the outstanding
		// read, wait until it has returned AND ReadFromOnce has published the new length
		before := sn.Sniffer.buf.Len()
		next := 0
		if conn.idx < len(conn.events) { // idx is stable: the only reader is parked in the pause
			next = len(conn.events[conn.idx])
		}
		close(conn.release)
		okGate := true
		select {
		case <-conn.lateDone:
		case <-time.After(generous * c06Scale()):
			okGate = false
		}
		if okGate && next > 0 {
			okGate = c06WaitFor(func() bool { return sn.Sniffer.buf.Len() >= before+1 }, generous)
		} else if okGate {
			time.Sleep(2 * time.Millisecond) // nothing observable changes on a late EOF
		}
		if !okGate || !runDrain() {
			res.RelaySt, res.Slow = "blocked", true
			return
		}
	} else {
		// the relay takes the buffer first; the client goes on only once the relay has either finished
		// or is queued behind the outstanding read on the connection
		done := make(chan struct{})
		go func() { drain(); close(done) }()
		finished := false
		okGate := c06WaitFor(func() bool {
			select {
			case <-done:
				finished = true
				return true
			default:
				return conn.waiting.Load() >= 1
			}
		}, generous)
		close(conn.release)
		if okGate && !finished {
			select {
			case <-done:
			case <-time.After(generous * c06Scale()):
				okGate = false
			}
		}
		select {
		case <-conn.lateDone:
		case <-time.After(generous * c06Scale()):
			okGate = false
		}
		if !okGate {
			res.RelaySt, res.Slow = "blocked", true
			return
		}
	}
	res.RelaySt, res.RelayPanic = relaySt, relayPanic
	res.Relay = hex.EncodeToString(out.Bytes())
	return
}

func TestVerifC06(t *testing.T) {
	verifEachLine(t, func(line []byte) any {
		var cs c06Case
		if err := json.Unmarshal(line, &cs); err != nil {
			return c06Result{Class: "badcase", Err: err.Error()}
		}
		if cs.Kind == "quic" {
			return c06RunQuic(cs)
		}
		if cs.Kind == "async" {
			return c06RunAsync(cs)
		}
		return c06RunTcp(cs)
	})
}
