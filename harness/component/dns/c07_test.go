//go:build verif

package dns

// C07 harness, matcher part.  Drives the REAL dns.New (optimizers + lowering + both matcher builders),
// Dns.RequestSelect and Dns.ResponseSelect on generated dns sections, questions and answers, and dumps the
// match-set arrays the builders produce when run without optimizers (NewRequestMatcherBuilder /
// NewResponseMatcherBuilder) for a structural comparison with the model's lowering.

import (
	"context"
	"encoding/json"
	"fmt"
	"io"
	"net"
	"net/netip"
	"net/url"
	"regexp"
	"strings"
	"sync"
	"testing"

	"github.com/daeuniverse/dae/common/assets"
	"github.com/daeuniverse/dae/config"
	"github.com/daeuniverse/dae/pkg/config_parser"
	dnsmessage "github.com/miekg/dns"
	"github.com/sirupsen/logrus"
)

type c07Cond struct {
	F      string      `json:"f"`
	Not    bool        `json:"not"`
	Params [][2]string `json:"params"` // key, value
}
type c07Rule struct {
	Conds  []c07Cond `json:"conds"`
	Target string    `json:"target"`
}
type c07Routing struct {
	Rules    []c07Rule `json:"rules"`
	Fallback string    `json:"fallback"`
}
type c07Probe struct {
	Resp  bool     `json:"resp"`
	Name  string   `json:"name"`
	QType uint16   `json:"qtype"`
	Ans   []string `json:"ans"`  // "A:1.2.3.4" "AAAA:2001:db8::1" "O:5"
	From  int      `json:"from"` // -1 = as-is, else upstream index
}
type c07Case struct {
	Ups    []string   `json:"ups"`
	Req    c07Routing `json:"req"`
	Resp   c07Routing `json:"resp"`
	Probes []c07Probe `json:"probes"`
	Regex  []string   `json:"regex"` // every regex pattern written in the rules
}

type c07Set struct {
	T   int    `json:"t"`
	V   uint16 `json:"v"`
	Not bool   `json:"not"`
	Up  uint8  `json:"up"`
}
type c07DomSet struct {
	Key     string   `json:"key"`
	Index   int      `json:"index"`
	Domains []string `json:"domains"`
}
type c07Dump struct {
	Err     string      `json:"err,omitempty"`
	Sets    []c07Set    `json:"sets"`
	DomSets []c07DomSet `json:"domsets"`
	IpSets  int         `json:"ipsets"`
}
type c07ProbeRes struct {
	Verdict int      `json:"verdict"` // dns.New path: index, 0xFC, 0xFD; -1 on error
	Err     string   `json:"err,omitempty"`
	Raw     int      `json:"raw"` // the same through matchers built without the optimizers; Bm is the bitmap of that matcher
	RawErr  string   `json:"raw_err,omitempty"`
	Bm      []uint32 `json:"bm"`
	Hits    []string `json:"hits"` // regex patterns matching the normalised name (Go regexp, independent of the matcher)
}
type c07Result struct {
	SplitErr string        `json:"split_err,omitempty"` // NewNormalizedRequestRoutingProgram without optimizers
	Split    [4][]int      `json:"split"`               // indices (into the written request list) of program.Rules, SubscriptionRules, NodeRules, SubNodeRules
	NewErr   string        `json:"new_err,omitempty"`
	Panic    string        `json:"panic,omitempty"`
	ReqDump  *c07Dump      `json:"req_dump"`
	RespDump *c07Dump      `json:"resp_dump"`
	Probes   []c07ProbeRes `json:"probes"`
}

func c07Rules(rs []c07Rule) []*config_parser.RoutingRule {
	out := make([]*config_parser.RoutingRule, 0, len(rs))
	for _, r := range rs {
		rule := &config_parser.RoutingRule{Outbound: config_parser.Function{Name: r.Target}}
		for _, c := range r.Conds {
			f := &config_parser.Function{Name: c.F, Not: c.Not}
			for _, p := range c.Params {
				f.Params = append(f.Params, &config_parser.Param{Key: p[0], Val: p[1]})
			}
			rule.AndFunctions = append(rule.AndFunctions, f)
		}
		out = append(out, rule)
	}
	return out
}

func c07UpstreamLine(i int, tag string) config.KeyableString {
	return config.KeyableString(fmt.Sprintf("%s:udp://10.0.%d.%d:53", tag, i/250, 1+i%250))
}

func c07Msg(p c07Probe) *dnsmessage.Msg {
	m := &dnsmessage.Msg{}
	m.Response = true
	m.Question = []dnsmessage.Question{{Name: p.Name, Qtype: p.QType, Qclass: dnsmessage.ClassINET}}
	for _, a := range p.Ans {
		kind, val, _ := strings.Cut(a, ":")
		switch kind {
		case "A":
			m.Answer = append(m.Answer, &dnsmessage.A{Hdr: dnsmessage.RR_Header{Name: p.Name, Rrtype: dnsmessage.TypeA, Class: dnsmessage.ClassINET, Ttl: 300},
				A: net.IP(netip.MustParseAddr(val).AsSlice())})
		case "AAAA":
			b := netip.MustParseAddr(val).As16()
			m.Answer = append(m.Answer, &dnsmessage.AAAA{Hdr: dnsmessage.RR_Header{Name: p.Name, Rrtype: dnsmessage.TypeAAAA, Class: dnsmessage.ClassINET, Ttl: 300},
				AAAA: net.IP(b[:])})
		default:
			m.Answer = append(m.Answer, &dnsmessage.CNAME{Hdr: dnsmessage.RR_Header{Name: p.Name, Rrtype: dnsmessage.TypeCNAME, Class: dnsmessage.ClassINET, Ttl: 300},
				Target: "alias.example."})
		}
	}
	return m
}

func c07DumpReq(log *logrus.Logger, cs *c07Case, n2id map[string]uint8) (d *c07Dump, m *RequestMatcher) {
	d = &c07Dump{}
	defer func() {
		if r := recover(); r != nil {
			d.Err = fmt.Sprintf("PANIC: %v", r)
		}
	}()
	// the un-optimized path with the split: what NewRequestMatcherBuilder does, minus its refusal of internal selectors
	program, err := NewNormalizedRequestRoutingProgram(c07Rules(cs.Req.Rules), cs.Req.Fallback)
	if err != nil {
		d.Err = err.Error()
		return d, nil
	}
	b, err := NewRequestMatcherBuilderFromProgram(log, program, n2id)
	if err != nil {
		d.Err = err.Error()
		return d, nil
	}
	for _, r := range b.rules {
		d.Sets = append(d.Sets, c07Set{T: int(r.Type), V: r.Value, Not: r.Not, Up: r.Upstream})
	}
	for _, s := range b.simulatedDomainSet {
		d.DomSets = append(d.DomSets, c07DomSet{Key: string(s.Key), Index: s.RuleIndex, Domains: s.Domains})
	}
	if m, err = b.Build(); err != nil {
		d.Err = "build: " + err.Error()
		return d, nil
	}
	return d, m
}

func c07DumpResp(log *logrus.Logger, cs *c07Case, n2id map[string]uint8) (d *c07Dump, m *ResponseMatcher) {
	d = &c07Dump{}
	defer func() {
		if r := recover(); r != nil {
			d.Err = fmt.Sprintf("PANIC: %v", r)
		}
	}()
	b, err := NewResponseMatcherBuilder(log, c07Rules(cs.Resp.Rules), n2id, cs.Resp.Fallback)
	if err != nil {
		d.Err = err.Error()
		return d, nil
	}
	for _, r := range b.rules {
		d.Sets = append(d.Sets, c07Set{T: int(r.Type), V: r.Value, Not: r.Not, Up: r.Upstream})
	}
	for _, s := range b.simulatedDomainSet {
		d.DomSets = append(d.DomSets, c07DomSet{Key: string(s.Key), Index: s.RuleIndex, Domains: s.Domains})
	}
	d.IpSets = len(b.ipSet)
	if m, err = b.Build(); err != nil {
		d.Err = "build: " + err.Error()
		return d, nil
	}
	return d, m
}

func c07Hits(patterns []string, name string) []string {
	norm := strings.ToLower(strings.TrimSuffix(name, "."))
	hits := []string{}
	for _, p := range patterns {
		re, err := regexp.Compile(p)
		if err != nil {
			continue
		}
		if name != "" && re.MatchString(norm) { // no hits for an absent name; the root name "." is matched as ""
			hits = append(hits, p)
		}
	}
	return hits
}

// c07Split runs the split alone and maps every rule of the four lists back to its position in the written list
// (the lists hold deep clones: matched by printed form, in order).
func c07Split(cs *c07Case, res *c07Result) {
	defer func() {
		if r := recover(); r != nil {
			res.SplitErr = fmt.Sprintf("PANIC: %v", r)
		}
	}()
	orig := c07Rules(cs.Req.Rules)
	program, err := NewNormalizedRequestRoutingProgram(orig, cs.Req.Fallback)
	if err != nil {
		res.SplitErr = err.Error()
		return
	}
	used := make([]bool, len(orig))
	lists := [4][]*config_parser.RoutingRule{program.Rules, program.SubscriptionRules, program.NodeRules, program.SubNodeRules}
	for li, l := range lists {
		res.Split[li] = []int{}
		next := 0
		for _, r := range l {
			found := -1
			for j := next; j < len(orig); j++ {
				if !used[j] && orig[j].String(false, false, false) == r.String(false, false, false) {
					found = j
					break
				}
			}
			if found < 0 {
				res.Split[li] = append(res.Split[li], -1)
				continue
			}
			used[found] = true
			next = found + 1
			res.Split[li] = append(res.Split[li], found)
		}
	}
	for j := range used {
		if !used[j] {
			res.SplitErr = fmt.Sprintf("DROPPED: written rule %d is in none of the four lists", j)
		}
	}
}

func c07Run(cs *c07Case) (res c07Result) {
	defer func() {
		if r := recover(); r != nil {
			res.Panic = fmt.Sprint(r)
		}
	}()
	log := logrus.New()
	log.SetOutput(io.Discard)
	log.SetLevel(logrus.PanicLevel)

	// the name table exactly as dns.New builds it
	n2id := map[string]uint8{}
	conf := &config.Dns{}
	for i, tag := range cs.Ups {
		conf.Upstream = append(conf.Upstream, c07UpstreamLine(i, tag))
		n2id[tag] = uint8(i)
	}
	c07Split(cs, &res)
	var rawReq *RequestMatcher
	var rawResp *ResponseMatcher
	res.ReqDump, rawReq = c07DumpReq(log, cs, n2id)
	res.RespDump, rawResp = c07DumpResp(log, cs, n2id)

	conf.Routing.Request.Rules = c07Rules(cs.Req.Rules)
	conf.Routing.Request.Fallback = cs.Req.Fallback
	conf.Routing.Response.Rules = c07Rules(cs.Resp.Rules)
	conf.Routing.Response.Fallback = cs.Resp.Fallback
	s, err := New(conf, &NewOption{Logger: log, LocationFinder: assets.NewLocationFinder(nil),
		UpstreamReadyCallback: func(*Upstream) error { return nil }})
	if err != nil {
		res.NewErr = err.Error()
		return res
	}
	ctx := context.Background()
	asis := &Upstream{Scheme: "udp", Hostname: "192.0.2.1", Port: 53}
	// a second Dns over the same resolved upstreams whose matchers come from the un-optimized lowering
	for _, u := range s.upstream {
		if _, err := u.GetUpstream(ctx); err != nil {
			res.Panic = "HARNESS: upstream init: " + err.Error()
			return res
		}
	}
	var raw *Dns
	if rawReq != nil && rawResp != nil {
		raw = &Dns{log: log, upstream: s.upstream, reqMatcher: rawReq, respMatcher: rawResp}
		s.upstream2Index.Range(func(k, v any) bool { raw.upstream2Index.Store(k, v); return true })
	}
	for _, p := range cs.Probes {
		pr := c07Probe1(ctx, s, cs, p, asis)
		if raw != nil {
			rp := c07Probe1(ctx, raw, cs, p, asis)
			pr.Raw, pr.RawErr, pr.Bm = rp.Verdict, rp.Err, rp.Bm
		} else {
			pr.Raw, pr.RawErr, pr.Bm = -1, "raw builders failed: "+res.ReqDump.Err+" / "+res.RespDump.Err, nil
		}
		res.Probes = append(res.Probes, pr)
	}
	return res
}

func c07Probe1(ctx context.Context, s *Dns, cs *c07Case, p c07Probe, asis *Upstream) (pr c07ProbeRes) {
	defer func() {
		if r := recover(); r != nil {
			pr.Verdict = -1
			pr.Err = fmt.Sprintf("PANIC: %v", r)
		}
	}()
	pr.Hits = c07Hits(cs.Regex, p.Name)
	if !p.Resp {
		pr.Bm = s.reqMatcher.domainMatcher.MatchDomainBitmap(p.Name)
		idx, up, err := s.RequestSelect(ctx, p.Name, p.QType)
		if err != nil {
			pr.Verdict, pr.Err = -1, err.Error()
			return pr
		}
		pr.Verdict = int(idx)
		// glue: a user upstream comes with its resolved *Upstream, the sentinels with nil
		if (up == nil) != (int(idx) >= 0xFC) {
			pr.Err = "GLUE: upstream pointer does not fit the index"
			pr.Verdict = -1
		}
		return pr
	}
	pr.Bm = s.respMatcher.domainMatcher.MatchDomainBitmap(p.Name)
	from := asis
	if p.From >= 0 {
		u, err := s.upstream[p.From].GetUpstream(ctx)
		if err != nil {
			pr.Verdict, pr.Err = -1, "HARNESS: "+err.Error()
			return pr
		}
		from = u
	}
	idx, up, err := s.ResponseSelect(ctx, c07Msg(p), from)
	if err != nil {
		pr.Verdict, pr.Err = -1, err.Error()
		return pr
	}
	pr.Verdict = int(idx)
	if (up == nil) != (int(idx) >= 0xFC) {
		pr.Err = "GLUE: upstream pointer does not fit the index"
		pr.Verdict = -1
	} else if up != nil {
		want, _ := s.upstream[idx].GetUpstream(ctx)
		if want != up {
			pr.Err = "GLUE: next upstream is not the one at the index"
			pr.Verdict = -1
		}
	}
	return pr
}

func TestVerifC07(t *testing.T) {
	verifEachLine(t, func(line []byte) any {
		var cs c07Case
		if err := json.Unmarshal(line, &cs); err != nil {
			return c07Result{Panic: "bad case json: " + err.Error()}
		}
		return c07Run(&cs)
	})
}

// ---- concurrent lazy initialisation of an upstream (UpstreamResolver.GetUpstream) ----
// N callers of Dns.RequestSelect for a question routed to the not yet initialised upstream u1 are all held inside
// the initialisation (package seam newUpstreamFunc) until every one of them has entered the slow path; then they are
// let go ONE AT A TIME in a scripted order, each running to completion before the next is released.  No timing
// verdicts: the schedule is fixed by the gates.  Per caller (in completion order): is the *Upstream it got registered
// in upstream2Index, under which index, and what does ResponseSelect decide for an answer coming from it under
// `upstream(u1) -> reject; fallback: accept`.  A last caller arrives after all (fast path).

type c07InitCase struct {
	N     int   `json:"n"`
	Order []int `json:"order"` // tickets (order of entering the slow path) in the order they are let go
}
type c07InitCaller struct {
	Registered bool   `json:"registered"`
	Index      int    `json:"index"`
	Verdict    int    `json:"verdict"` // ResponseSelect index (0xFC accept, 0xFD reject), -1 on error
	Err        string `json:"err,omitempty"`
}
type c07InitResult struct {
	Callers []c07InitCaller `json:"callers"` // completion order = Order; the late fast-path caller last
	Panic   string          `json:"panic,omitempty"`
}

func c07RunInit(cs *c07InitCase) (res c07InitResult) {
	defer func() {
		if r := recover(); r != nil {
			res.Panic = fmt.Sprint(r)
		}
	}()
	log := logrus.New()
	log.SetOutput(io.Discard)
	conf := &config.Dns{Upstream: []config.KeyableString{"u0:udp://10.0.0.1:53", "u1:udp://10.0.0.2:53"}}
	conf.Routing.Request.Fallback = "u1"
	conf.Routing.Response.Rules = c07Rules([]c07Rule{{Conds: []c07Cond{{F: "upstream", Params: [][2]string{{"", "u1"}}}}, Target: "reject"}})
	conf.Routing.Response.Fallback = "accept"
	s, err := New(conf, &NewOption{Logger: log, LocationFinder: assets.NewLocationFinder(nil),
		UpstreamReadyCallback: func(*Upstream) error { return nil }})
	if err != nil {
		panic(err)
	}
	var mu sync.Mutex
	ticket := 0
	entered := make(chan int, cs.N)
	release := make([]chan struct{}, cs.N)
	for i := range release {
		release[i] = make(chan struct{})
	}
	original := newUpstreamFunc
	defer func() { newUpstreamFunc = original }()
	newUpstreamFunc = func(ctx context.Context, raw *url.URL, network string, resolve resolveUpstreamIp46Func) (*Upstream, error) {
		if raw.Hostname() != "10.0.0.2" {
			return original(ctx, raw, network, resolve)
		}
		mu.Lock()
		t := ticket
		ticket++
		mu.Unlock()
		if t < cs.N {
			entered <- t
			<-release[t]
		}
		return original(ctx, raw, network, resolve)
	}
	ctx := context.Background()
	results := make(chan *Upstream, cs.N)
	errs := make(chan error, cs.N)
	for i := 0; i < cs.N; i++ {
		go func() {
			defer func() {
				if r := recover(); r != nil {
					errs <- fmt.Errorf("PANIC: %v", r)
					results <- nil
				}
			}()
			_, up, err := s.RequestSelect(ctx, "www.example.com.", 1)
			errs <- err
			results <- up
		}()
	}
	for i := 0; i < cs.N; i++ {
		<-entered // every caller is now past the state load, inside the build
	}
	observe := func(up *Upstream, err error) c07InitCaller {
		c := c07InitCaller{Index: -1, Verdict: -1}
		if err != nil || up == nil {
			c.Err = fmt.Sprint("no upstream: ", err)
			return c
		}
		if v, ok := s.upstream2Index.Load(up); ok {
			c.Registered, c.Index = true, v.(int)
		}
		idx, _, rerr := s.ResponseSelect(ctx, c07Msg(c07Probe{Resp: true, Name: "www.example.com.", QType: 1, Ans: []string{"A:192.0.2.9"}}), up)
		if rerr != nil {
			c.Err = rerr.Error()
			return c
		}
		c.Verdict = int(idx)
		return c
	}
	for _, t := range cs.Order {
		close(release[t])
		err := <-errs
		up := <-results
		res.Callers = append(res.Callers, observe(up, err))
	}
	_, up, err := s.RequestSelect(ctx, "www.example.com.", 1)
	res.Callers = append(res.Callers, observe(up, err))
	return res
}

func TestVerifC07Init(t *testing.T) {
	verifEachLine(t, func(line []byte) any {
		var cs c07InitCase
		if err := json.Unmarshal(line, &cs); err != nil {
			return c07InitResult{Panic: "bad case json: " + err.Error()}
		}
		return c07RunInit(&cs)
	})
}
