/* verif C03: drives the real parse functions and the four real TC hook bodies of control/kern/tproxy.c
   (host build, see tools/cbuild.py) on scripted packet sequences and dumps everything observable.

   input (text, one directive per line):
     CASE id
     PARAM control_plane_pid dae_socket_mark use_redirect_peer dae0_ifindex
     RULES n            then n lines:  type not outbound must mark w0 w1 w2 w3   (the 16-byte value, LE words)
     ALIVE key value
     PROC cookie pid pname_hex32     |  UNPROC cookie
     PARSE link proto_hex pull_fail linear framehex
     STEP hook link proto_hex pull_fail linear now skbmark ingress_ifindex cookie sockpresent sockmark sockstate framehex
          hook: 0 lan_ingress 1 wan_egress 2 wan_ingress 3 lan_egress
     END
   output: one JSON object per PARSE/STEP line, plus a first LAYOUT line. */
#include "tproxy.c"
#include "maprt.h"
#include "maps_reg.h"
#include <ctype.h>

static unsigned char fbuf[VFRAME_MAX];
static char line[3 * VFRAME_MAX];

static int hexval(int c) { return isdigit(c) ? c - '0' : (tolower(c) - 'a' + 10); }
static unsigned parse_hex(const char *s, unsigned char *out, unsigned max)
{
	unsigned n = 0;
	while (isxdigit((unsigned char)s[0]) && isxdigit((unsigned char)s[1]) && n < max) {
		out[n++] = (unsigned char)(hexval(s[0]) * 16 + hexval(s[1]));
		s += 2;
	}
	return n;
}
static void put_hex(const unsigned char *p, unsigned n)
{
	for (unsigned i = 0; i < n; i++) printf("%02x", p[i]);
}
static int cmp_ent(const void *a, const void *b, void *ks)
{
	return memcmp(((const struct vment *)a)->k, ((const struct vment *)b)->k, *(unsigned *)ks);
}
static void dump_map(const char *label, const char *name)
{
	struct vmap *m = vmap_find(name);
	printf("\"%s\":[", label);
	if (m) {
		/* canonical order */
		for (unsigned i = 0; i < m->n; i++)
			for (unsigned j = i + 1; j < m->n; j++)
				if (memcmp(m->e[i].k, m->e[j].k, m->ks) > 0) { struct vment t = m->e[i]; m->e[i] = m->e[j]; m->e[j] = t; }
		for (unsigned i = 0; i < m->n; i++) {
			printf("%s[\"", i ? "," : "");
			put_hex(m->e[i].k, m->ks);
			printf("\",\"");
			put_hex(m->e[i].v, m->vs);
			printf("\"]");
		}
	}
	printf("]");
}
static void dump_ctx(const char *label, int ret, const struct parse_transport_ctx *c)
{
	printf("\"%s\":{\"ret\":%d,\"hproto\":%u,\"hsrc\":\"", label, ret, (unsigned)bpf_ntohs(c->ethh.h_proto));
	put_hex(c->ethh.h_source, 6);
	printf("\",\"hdst\":\"");
	put_hex(c->ethh.h_dest, 6);
	printf("\",\"ver\":%u,\"iihl\":%u,\"tos\":%u,\"ipproto\":%u,\"saddr\":%u,\"daddr\":%u,",
	       (unsigned)c->iph.version, (unsigned)c->iph.ihl, (unsigned)c->iph.tos, (unsigned)c->iph.protocol,
	       (unsigned)bpf_ntohl(c->iph.saddr), (unsigned)bpf_ntohl(c->iph.daddr));
	printf("\"b0\":%u,\"b1\":%u,\"s6\":\"", ((const unsigned char *)&c->ipv6h)[0], ((const unsigned char *)&c->ipv6h)[1]);
	put_hex((const unsigned char *)&c->ipv6h.saddr, 16);
	printf("\",\"d6\":\"");
	put_hex((const unsigned char *)&c->ipv6h.daddr, 16);
	printf("\",\"icmp\":%u,\"tsp\":%u,\"tdp\":%u,\"syn\":%u,\"ack\":%u,\"fin\":%u,\"rst\":%u,\"usp\":%u,\"udp\":%u,"
	       "\"ihl\":%u,\"l4\":%u,\"lis\":%u}",
	       (unsigned)c->icmp6h.icmp6_type, (unsigned)bpf_ntohs(c->tcph.source), (unsigned)bpf_ntohs(c->tcph.dest),
	       (unsigned)c->tcph.syn, (unsigned)c->tcph.ack, (unsigned)c->tcph.fin, (unsigned)c->tcph.rst,
	       (unsigned)bpf_ntohs(c->udph.source), (unsigned)bpf_ntohs(c->udph.dest),
	       (unsigned)c->ihl, (unsigned)c->l4proto, (unsigned)c->listener_l4proto);
}

#define ROUTE_SENTINEL 0x7777777777LL

int main(int argc, char **argv)
{
	vmaps_register_all();
	printf("{\"layout\":{\"conn_state\":[%zu,%zu,%zu,%zu,%zu,%zu,%zu,%zu,%zu,%zu,%zu,%zu],"
	       "\"handoff\":[%zu,%zu,%zu,%zu,%zu,%zu,%zu,%zu,%zu,%zu],\"tuples_key\":[%zu,%zu,%zu,%zu,%zu,%zu],\"tcp_state\":{\"active\":%d,\"closing\":%d}}}\n",
	       sizeof(struct conn_state), offsetof(struct conn_state, is_wan_ingress_direction), offsetof(struct conn_state, state),
	       offsetof(struct conn_state, last_seen_ns), offsetof(struct conn_state, meta.data.mark),
	       offsetof(struct conn_state, meta.data.outbound), offsetof(struct conn_state, meta.data.must),
	       offsetof(struct conn_state, meta.data.dscp), offsetof(struct conn_state, meta.data.has_routing),
	       offsetof(struct conn_state, mac), offsetof(struct conn_state, pname), offsetof(struct conn_state, pid),
	       sizeof(struct routing_handoff_entry), offsetof(struct routing_handoff_entry, last_seen_ns),
	       offsetof(struct routing_handoff_entry, result), offsetof(struct routing_result, mark),
	       offsetof(struct routing_result, must), offsetof(struct routing_result, mac), offsetof(struct routing_result, outbound),
	       offsetof(struct routing_result, pname), offsetof(struct routing_result, pid), offsetof(struct routing_result, dscp),
	       sizeof(struct tuples_key), offsetof(struct tuples_key, sip), offsetof(struct tuples_key, dip),
	       offsetof(struct tuples_key, sport), offsetof(struct tuples_key, dport), offsetof(struct tuples_key, l4proto),
	       (int)TCP_STATE_ACTIVE, (int)TCP_STATE_CLOSING);
	long caseid = 0;
	int stepno = 0;
	while (fgets(line, sizeof(line), stdin)) {
		if (!strncmp(line, "CASE", 4)) {
			caseid = atol(line + 5);
			stepno = 0;
			vmap_clear_all();
			memset((void *)&PARAM, 0, sizeof(PARAM));
			vsock_tcp_present = vsock_udp_present = 0;
			vcookie = 0;
		} else if (!strncmp(line, "PARAM", 5)) {
			unsigned a, b, c, d;
			sscanf(line + 6, "%u %u %u %u", &a, &b, &c, &d);
			PARAM.control_plane_pid = a; PARAM.dae_socket_mark = b; PARAM.use_redirect_peer = (__u8)c; PARAM.dae0_ifindex = d;
			PARAM.tproxy_port = 12345;
			PARAM.dae0peer_mac[0] = 0x02; PARAM.dae0peer_mac[5] = 0xee;
		} else if (!strncmp(line, "RULES", 5)) {
			unsigned n = (unsigned)atoi(line + 6);
			__u32 zero = 0;
			for (unsigned i = 0; i < n; i++) {
				unsigned type, not, outbound, must, mark, w[4];
				if (!fgets(line, sizeof(line), stdin)) return 2;
				sscanf(line, "%u %u %u %u %u %u %u %u %u", &type, &not, &outbound, &must, &mark, &w[0], &w[1], &w[2], &w[3]);
				struct match_set ms;
				memset(&ms, 0, sizeof(ms));
				memcpy(ms.__value, w, 16);
				ms.type = type; ms.not = (__u8)not; ms.outbound = (__u8)outbound; ms.must = (__u8)must; ms.mark = mark;
				__u32 k = i;
				bpf_map_update_elem(&routing_map, &k, &ms, 0);
			}
			bpf_map_update_elem(&routing_meta_map, &zero, &n, 0);
		} else if (!strncmp(line, "ALIVE", 5)) {
			__u32 k, v;
			sscanf(line + 6, "%u %u", &k, &v);
			bpf_map_update_elem(&outbound_connectivity_map, &k, &v, 0);
		} else if (!strncmp(line, "PROC", 4)) {
			unsigned long long cookie; unsigned pid; char hex[64] = {0};
			sscanf(line + 5, "%llu %u %63s", &cookie, &pid, hex);
			struct pid_pname pp;
			memset(&pp, 0, sizeof(pp));
			pp.pid = pid;
			parse_hex(hex, (unsigned char *)pp.pname, 16);
			__u64 ck = cookie;
			bpf_map_update_elem(&cookie_pid_map, &ck, &pp, 0);
		} else if (!strncmp(line, "UNPROC", 6)) {
			__u64 ck = strtoull(line + 7, NULL, 10);
			bpf_map_delete_elem(&cookie_pid_map, &ck);
		} else if (!strncmp(line, "PARSE", 5)) {
			unsigned link, proto, pf, linear; int off = 0;
			sscanf(line + 6, "%u %x %u %u %n", &link, &proto, &pf, &linear, &off);
			unsigned n = parse_hex(line + 6 + off, fbuf, VFRAME_MAX);
			struct __sk_buff skb;
			static struct parse_transport_ctx cf, cs;
			memset(&cf, 0xa5, sizeof(cf)); memset(&cs, 0x5a, sizeof(cs));
			vskb_init(&skb, fbuf, n, linear); skb.protocol = bpf_htons((__u16)proto); vpull_fail = (int)pf;
			int rf = parse_transport_fast(&skb, link, &cf);
			vskb_init(&skb, fbuf, n, linear); skb.protocol = bpf_htons((__u16)proto); vpull_fail = (int)pf;
			int rs = parse_transport_slow(&skb, link, &cs);
			printf("{\"case\":%ld,\"step\":%d,", caseid, stepno++);
			dump_ctx("fast", rf, &cf); printf(","); dump_ctx("slow", rs, &cs);
			printf("}\n");
		} else if (!strncmp(line, "STEP", 4)) {
			unsigned hook, link, proto, pf, linear, skbmark, ingif, sockp, sockmark, sockstate; int off = 0;
			unsigned long long now, cookie;
			sscanf(line + 5, "%u %u %x %u %u %llu %u %u %llu %u %u %u %n", &hook, &link, &proto, &pf, &linear, &now, &skbmark,
			       &ingif, &cookie, &sockp, &sockmark, &sockstate, &off);
			unsigned n = parse_hex(line + 5 + off, fbuf, VFRAME_MAX);
			struct __sk_buff skb;
			vskb_init(&skb, fbuf, n, linear);
			skb.protocol = bpf_htons((__u16)proto); skb.mark = skbmark; skb.ingress_ifindex = ingif; skb.ifindex = 3;
			vpull_fail = (int)pf; vclock_ns = now; vcookie = cookie;
			vsock_tcp_present = vsock_udp_present = (int)sockp;
			memset(&vsock_tcp, 0, sizeof(vsock_tcp)); memset(&vsock_udp, 0, sizeof(vsock_udp));
			vsock_tcp.mark = vsock_udp.mark = sockmark; vsock_tcp.state = vsock_udp.state = sockstate;
			vredir.kind = 0; vredir.ifindex = 0;
			__u32 zk = 0;
			struct route_ctx *rc = bpf_map_lookup_elem(&route_ctx_scratch_map, &zk);
			rc->result = ROUTE_SENTINEL;
			struct parsed_packet *pkt = bpf_map_lookup_elem(&pkt_scratch_map, &zk);
			/* what parse_packet returns for this frame (the hooks call it themselves; parsing has no side effect) */
			static struct parsed_packet pprobe;
			int pret = parse_packet(&skb, link, &pprobe);
			vskb_init(&skb, fbuf, n, linear);
			skb.protocol = bpf_htons((__u16)proto); skb.mark = skbmark; skb.ingress_ifindex = ingif; skb.ifindex = 3;
			memset(pkt, 0, sizeof(*pkt));
			int act;
			switch (hook) {
			case 0: act = do_tproxy_lan_ingress(&skb, link); break;
			case 1: act = do_tproxy_wan_egress(&skb, link); break;
			case 2: act = do_tproxy_wan_ingress(&skb, link); break;
			default: act = do_tproxy_lan_egress(&skb, link); break;
			}
			int changed = (vframe_len != n) || memcmp(vframe, fbuf, n) != 0;
			printf("{\"case\":%ld,\"step\":%d,\"pret\":%d,\"act\":%d,\"mark\":%u,\"cb0\":%u,\"cb1\":%u,\"redir\":%d,\"ifx\":%u,\"changed\":%d,",
			       caseid, stepno++, pret, act, (unsigned)skb.mark, (unsigned)skb.cb[0], (unsigned)skb.cb[1], vredir.kind, (unsigned)vredir.ifindex, changed);
			if (rc->result == ROUTE_SENTINEL) {
				printf("\"route\":null,");
			} else {
				long long w = rc->result >= 0 ? rc->result : -EPERM;
				printf("\"route\":{\"w\":%lld,\"l4\":%u,\"ipv\":%u,\"pname\":\"", w, rc->flag[0], rc->flag[1]);
				put_hex((unsigned char *)&rc->flag[2], 16);
				printf("\",\"dscp\":%u,\"wan\":%u,\"mac\":\"", rc->flag[6], (unsigned)rc->is_wan);
				put_hex((unsigned char *)rc->mac, 16);
				printf("\",\"sport\":%u,\"dport\":%u,\"sip\":\"", (unsigned)rc->h_sport, (unsigned)rc->h_dport);
				put_hex((unsigned char *)rc->lpm_key_saddr.data, 16);
				printf("\",\"dip\":\"");
				put_hex((unsigned char *)rc->lpm_key_daddr.data, 16);
				printf("\"},");
			}
			printf("\"tuple\":\"");
			put_hex((unsigned char *)&pkt->tuples.five, sizeof(pkt->tuples.five));
			printf("\",");
			dump_map("conn", "conn_state_map"); printf(",");
			dump_map("hand", "routing_handoff_map");
			printf("}\n");
		}
	}
	fflush(stdout);
	return 0;
}
