/* verif C02: calls the real route() of control/kern/tproxy.c (host build, see tools/cbuild.py) over maps filled
   with the bytes the Go side produces (harness/control/c02_test.go), and prints the result word per packet.

   input (text, one directive per line; all byte strings in hex):
     LAYOUT                               print one JSON line: struct layout and enum/limit values as the C compiler sees them
     C id                                 start a case: routing_map / routing_meta_map cleared, every lpm_array_map slot
                                          points at a "stale" trie that matches every key (what earlier reloads left behind
                                          must never be consulted)
     R key hex(sizeof struct match_set)   routing_map[key] = bytes
     N len                                routing_meta_map[0] = len
     T slot                               lpm_array_map[slot] = a fresh LPM trie; following K lines fill it
     K hex(sizeof struct lpm_key)         trie[key] = 1
     P id l4 ipver pname(32) dscp wan sport dport src(32) dst(32) mac(12) dkey(32|-) dval(256|-)
                                          domain_routing_map = { dkey -> dval } (or empty), then route() with arguments
                                          built the way do_tproxy_lan_ingress / do_tproxy_wan_egress_{tcp,udp} build them
   output: "id pktid result" per P line. */
#define VMAP_MAX 1400
#include "tproxy.c"
#include "maprt.h"
#include "maps_reg.h"
#include <ctype.h>
#include <stddef.h>

static char line[8192];

static int hexval(int c) { return isdigit(c) ? c - '0' : (tolower(c) - 'a' + 10); }
static int parse_hex(const char *s, unsigned char *out, unsigned want)
{
	unsigned n = 0;
	while (isxdigit((unsigned char)s[0]) && isxdigit((unsigned char)s[1]) && n < want) {
		out[n++] = (unsigned char)(hexval(s[0]) * 16 + hexval(s[1]));
		s += 2;
	}
	if (n != want || isxdigit((unsigned char)s[0])) { fprintf(stderr, "bad hex field (want %u bytes): %.40s\n", want, s); exit(4); }
	return 0;
}

#define POOL_MAX 1100
static struct vmap *pool[POOL_MAX];
static unsigned pool_n, pool_used;
static struct vmap *stale, *cur;

static struct vmap *fresh_lpm(void)
{
	if (pool_used == pool_n) {
		if (pool_n == POOL_MAX) { fprintf(stderr, "too many tries in one case\n"); exit(4); }
		pool[pool_n++] = vmap_new_lpm();
	}
	struct vmap *m = pool[pool_used++];
	vmap_clear(m);
	return m;
}

static void print_layout(void)
{
	printf("{\"ms_size\":%zu,\"ms_value\":%zu,\"ms_not\":%zu,\"ms_type\":%zu,\"ms_outbound\":%zu,\"ms_must\":%zu,\"ms_mark\":%zu,",
	       sizeof(struct match_set), offsetof(struct match_set, __value), offsetof(struct match_set, not),
	       offsetof(struct match_set, type), offsetof(struct match_set, outbound), offsetof(struct match_set, must),
	       offsetof(struct match_set, mark));
	printf("\"ms_index\":%zu,\"ms_index_size\":%zu,\"ms_port_range\":%zu,\"ms_l4proto_type\":%zu,\"ms_l4proto_size\":%zu,"
	       "\"ms_ip_version\":%zu,\"ms_ip_version_size\":%zu,\"ms_pname\":%zu,\"ms_pname_size\":%zu,\"ms_dscp\":%zu,\"ms_type_size\":%zu,",
	       offsetof(struct match_set, index), sizeof(((struct match_set *)0)->index), offsetof(struct match_set, port_range),
	       offsetof(struct match_set, l4proto_type), sizeof(((struct match_set *)0)->l4proto_type),
	       offsetof(struct match_set, ip_version), sizeof(((struct match_set *)0)->ip_version),
	       offsetof(struct match_set, pname), sizeof(((struct match_set *)0)->pname), offsetof(struct match_set, dscp),
	       sizeof(((struct match_set *)0)->type));
	printf("\"lpm_size\":%zu,\"lpm_prefixlen\":%zu,\"lpm_data\":%zu,\"dr_size\":%zu,\"dr_bitmap\":%zu,"
	       "\"pr_size\":%zu,\"pr_start\":%zu,\"pr_end\":%zu,",
	       sizeof(struct lpm_key), offsetof(struct lpm_key, prefixlen), offsetof(struct lpm_key, data),
	       sizeof(struct domain_routing), offsetof(struct domain_routing, bitmap),
	       sizeof(struct port_range), offsetof(struct port_range, port_start), offsetof(struct port_range, port_end));
	printf("\"max_match_set_len\":%d,\"max_lpm_num\":%d,\"task_comm_len\":%d,", MAX_MATCH_SET_LEN, MAX_LPM_NUM, TASK_COMM_LEN);
	printf("\"MatchType_DomainSet\":%d,\"MatchType_IpSet\":%d,\"MatchType_SourceIpSet\":%d,\"MatchType_Port\":%d,"
	       "\"MatchType_SourcePort\":%d,\"MatchType_L4Proto\":%d,\"MatchType_IpVersion\":%d,\"MatchType_Mac\":%d,"
	       "\"MatchType_ProcessName\":%d,\"MatchType_Dscp\":%d,\"MatchType_Fallback\":%d,",
	       MatchType_DomainSet, MatchType_IpSet, MatchType_SourceIpSet, MatchType_Port, MatchType_SourcePort, MatchType_L4Proto,
	       MatchType_IpVersion, MatchType_Mac, MatchType_ProcessName, MatchType_Dscp, MatchType_Fallback);
	printf("\"OutboundDirect\":%d,\"OutboundBlock\":%d,\"OutboundMustRules\":%d,\"OutboundControlPlaneRouting\":%d,"
	       "\"OutboundLogicalOr\":%d,\"OutboundLogicalAnd\":%d,\"OutboundLogicalMask\":%d,",
	       OUTBOUND_DIRECT, OUTBOUND_BLOCK, OUTBOUND_MUST_RULES, OUTBOUND_CONTROL_PLANE_ROUTING, OUTBOUND_LOGICAL_OR,
	       OUTBOUND_LOGICAL_AND, OUTBOUND_LOGICAL_MASK);
	printf("\"L4ProtoType_TCP\":%d,\"L4ProtoType_UDP\":%d,\"IpVersion_4\":%d,\"IpVersion_6\":%d,",
	       L4ProtoType_TCP, L4ProtoType_UDP, IpVersionType_4, IpVersionType_6);
	printf("\"ROUTE_STATE_BAD_RULE\":%d,\"ROUTE_STATE_GOOD_SUBRULE\":%d,\"ROUTE_STATE_MUST\":%d,\"ROUTE_STATE_DNS_QUERY\":%d,"
	       "\"EFAULT\":%d,\"EINVAL\":%d,\"EPERM\":%d,\"ENOEXEC\":%d}\n",
	       ROUTE_STATE_BAD_RULE, ROUTE_STATE_GOOD_SUBRULE, ROUTE_STATE_MUST, ROUTE_STATE_DNS_QUERY, EFAULT, EINVAL, EPERM, ENOEXEC);
}

int main(int argc, char **argv)
{
	FILE *in = argc > 1 ? fopen(argv[1], "r") : stdin;
	if (!in) { perror("input"); return 2; }
	vmaps_register_all();
	struct vmap *rm = vmap_of(&routing_map), *mm = vmap_of(&routing_meta_map), *lam = vmap_of(&lpm_array_map),
		    *drm = vmap_of(&domain_routing_map);
	stale = vmap_new_lpm();
	{
		struct lpm_key k = { 0 }; __u32 one = 1;
		bpf_map_update_elem(stale, &k, &one, 0);   /* prefixlen 0: matches every key */
	}
	long caseid = -1;
	while (fgets(line, sizeof line, in)) {
		char *s = line;
		if (s[0] == '\n' || s[0] == 0) continue;
		if (!strncmp(s, "LAYOUT", 6)) { print_layout(); continue; }
		char op = s[0];
		s += 2;
		if (op == 'C') {
			caseid = atol(s);
			vmap_clear(rm); vmap_clear(mm); vmap_clear(drm);
			for (unsigned i = 0; i < lam->max; i++) lam->inner[i] = stale;
			pool_used = 0; cur = NULL;
		} else if (op == 'R') {
			unsigned char b[sizeof(struct match_set)];
			char *e; __u32 key = strtoul(s, &e, 10);
			parse_hex(e + 1, b, sizeof b);
			if (bpf_map_update_elem(&routing_map, &key, b, 0)) { fprintf(stderr, "routing_map update %u failed\n", key); exit(4); }
		} else if (op == 'N') {
			__u32 zero = 0, n = strtoul(s, NULL, 10);
			bpf_map_update_elem(&routing_meta_map, &zero, &n, 0);
		} else if (op == 'T') {
			__u32 slot = strtoul(s, NULL, 10);
			if (slot >= lam->max) { fprintf(stderr, "lpm_array_map update %u: out of range\n", slot); exit(4); }
			cur = fresh_lpm();
			lam->inner[slot] = cur;
		} else if (op == 'K') {
			unsigned char b[sizeof(struct lpm_key)]; __u32 one = 1;
			parse_hex(s, b, sizeof b);
			if (!cur || bpf_map_update_elem(cur, b, &one, 0)) { fprintf(stderr, "lpm update failed\n"); exit(4); }
		} else if (op == 'P') {
			long pid; unsigned l4, ipver, dscp, wan, sport, dport;
			char pn[40], src[40], dst[40], mac[20], dkey[40], dval[300];
			if (sscanf(s, "%ld %u %u %32s %u %u %u %u %32s %32s %12s %32s %256s", &pid, &l4, &ipver, pn, &dscp, &wan, &sport, &dport,
				   src, dst, mac, dkey, dval) != 13) { fprintf(stderr, "bad P line: %s\n", s); exit(4); }
			unsigned char pnb[16], sb[16], db[16], mb[6];
			parse_hex(pn, pnb, 16); parse_hex(src, sb, 16); parse_hex(dst, db, 16); parse_hex(mac, mb, 6);
			vmap_clear(drm);
			if (dkey[0] != '-') {
				unsigned char kb[16], vb[sizeof(struct domain_routing)];
				parse_hex(dkey, kb, 16); parse_hex(dval, vb, sizeof vb);
				bpf_map_update_elem(&domain_routing_map, kb, vb, 0);
			}
			/* arguments as the hooks build them */
			__u32 flag[8] = { 0 };
			flag[0] = l4; flag[1] = ipver;
			memcpy(&flag[2], pnb, TASK_COMM_LEN);
			flag[6] = dscp; flag[7] = wan;
			__be32 mac_be[4] = {
				0, 0,
				bpf_htonl(((__u32)mb[0] << 8) | (__u32)mb[1]),
				bpf_htonl(((__u32)mb[2] << 24) | ((__u32)mb[3] << 16) | ((__u32)mb[4] << 8) | (__u32)mb[5]),
			};
			struct tcphdr th = { 0 }; struct udphdr uh = { 0 };
			th.source = bpf_htons(sport); th.dest = bpf_htons(dport);
			uh.source = bpf_htons(sport); uh.dest = bpf_htons(dport);
			__be32 sa[4], da[4];
			memcpy(sa, sb, 16); memcpy(da, db, 16);
			__s64 r = route(flag, l4 == L4ProtoType_TCP ? (const void *)&th : (const void *)&uh, sa, da, mac_be);
			printf("%ld %ld %lld\n", caseid, pid, (long long)r);
		} else {
			fprintf(stderr, "unknown directive %c\n", op); exit(4);
		}
	}
	return 0;
}
