/* verif: in-process stand-in for the kernel BPF map and helper runtime, so that the real functions of
   control/kern/tproxy.c can be called on the host.  Trusted part of the C correspondence harness
   (DESIGN.md section 8): array / hash / LPM-trie (true longest-prefix) / array-of-maps / per-CPU array
   semantics, a controllable clock, an skb backed by a static frame buffer, recorded redirects.
   Include AFTER tproxy.c (needs its types), then include the generated maps_reg.h. */
#ifndef VERIF_MAPRT_H
#define VERIF_MAPRT_H
#include <stdio.h>
#include <stdlib.h>
#include <string.h>

struct vment { unsigned char *k; unsigned char *v; };
struct vmap {
	void *addr; const char *name; int type; unsigned ks, vs, max;
	struct vment *e; unsigned n, cap;
	unsigned char *arr;       /* ARRAY / PERCPU_ARRAY storage */
	struct vmap **inner;      /* ARRAY_OF_MAPS slots */
};
#ifndef VMAP_MAX   /* a driver that needs many inner maps (C02: one LPM per ring slot) may define it before including */
#define VMAP_MAX 96
#endif
static struct vmap vmaps[VMAP_MAX];
static unsigned vmap_n;

static struct vmap *vmap_register(void *addr, const char *name, int type, unsigned ks, unsigned vs, unsigned max)
{
	struct vmap *m = &vmaps[vmap_n++];
	if (vmap_n > VMAP_MAX) { fprintf(stderr, "too many maps\n"); exit(3); }
	memset(m, 0, sizeof(*m));
	m->addr = addr; m->name = name; m->type = type; m->ks = ks; m->vs = vs; m->max = max;
	if (type == BPF_MAP_TYPE_ARRAY || type == BPF_MAP_TYPE_PERCPU_ARRAY)
		m->arr = calloc(max ? max : 1, vs ? vs : 1);
	if (type == BPF_MAP_TYPE_ARRAY_OF_MAPS)
		m->inner = calloc(max ? max : 1, sizeof(struct vmap *));
	return m;
}
static struct vmap *vmap_new_lpm(void)
{
	return vmap_register(NULL, "inner_lpm", BPF_MAP_TYPE_LPM_TRIE, sizeof(struct lpm_key), sizeof(__u32), MAX_LPM_SIZE);
}
static struct vmap *vmap_of(void *map)
{
	if ((char *)map >= (char *)vmaps && (char *)map < (char *)(vmaps + VMAP_MAX))
		return (struct vmap *)map;
	for (unsigned i = 0; i < vmap_n; i++)
		if (vmaps[i].addr == map)
			return &vmaps[i];
	fprintf(stderr, "unregistered map %p\n", map);
	exit(3);
}
static struct vmap *vmap_find(const char *name)
{
	for (unsigned i = 0; i < vmap_n; i++)
		if (vmaps[i].name && !strcmp(vmaps[i].name, name))
			return &vmaps[i];
	return NULL;
}
static void vmap_clear(struct vmap *m)
{
	for (unsigned i = 0; i < m->n; i++) { free(m->e[i].k); free(m->e[i].v); }
	m->n = 0;
	if (m->arr) memset(m->arr, 0, (size_t)(m->max ? m->max : 1) * (m->vs ? m->vs : 1));
	if (m->inner) memset(m->inner, 0, (size_t)(m->max ? m->max : 1) * sizeof(struct vmap *));
}
static void vmap_clear_all(void)
{
	for (unsigned i = 0; i < vmap_n; i++) vmap_clear(&vmaps[i]);
}
static int lpm_match(const unsigned char *entry, const unsigned char *key, unsigned ks)
{
	__u32 plen, klen;
	memcpy(&plen, entry, 4); memcpy(&klen, key, 4);
	if (plen > klen || plen > (ks - 4) * 8) return -1;
	const unsigned char *a = entry + 4, *b = key + 4;
	unsigned full = plen / 8, rem = plen % 8;
	if (memcmp(a, b, full)) return -1;
	if (rem) { unsigned char mask = (unsigned char)(0xff << (8 - rem)); if ((a[full] & mask) != (b[full] & mask)) return -1; }
	return (int)plen;
}
void *bpf_map_lookup_elem(void *map, const void *key)
{
	struct vmap *m = vmap_of(map);
	switch (m->type) {
	case BPF_MAP_TYPE_ARRAY: case BPF_MAP_TYPE_PERCPU_ARRAY: {
		__u32 i; memcpy(&i, key, 4);
		return i < m->max ? m->arr + (size_t)i * m->vs : NULL; }
	case BPF_MAP_TYPE_ARRAY_OF_MAPS: {
		__u32 i; memcpy(&i, key, 4);
		return i < m->max ? (void *)m->inner[i] : NULL; }
	case BPF_MAP_TYPE_LPM_TRIE: {
		int best = -1; void *bv = NULL;
		for (unsigned i = 0; i < m->n; i++) { int l = lpm_match(m->e[i].k, key, m->ks); if (l > best) { best = l; bv = m->e[i].v; } }
		return bv; }
	default:
		for (unsigned i = 0; i < m->n; i++) if (!memcmp(m->e[i].k, key, m->ks)) return m->e[i].v;
		return NULL;
	}
}
long bpf_map_update_elem(void *map, const void *key, const void *value, __u64 flags)
{
	struct vmap *m = vmap_of(map);
	if (m->type == BPF_MAP_TYPE_ARRAY || m->type == BPF_MAP_TYPE_PERCPU_ARRAY) {
		__u32 i; memcpy(&i, key, 4);
		if (i >= m->max) return -E2BIG;
		if (flags == BPF_NOEXIST) return -EEXIST;
		memcpy(m->arr + (size_t)i * m->vs, value, m->vs); return 0;
	}
	for (unsigned i = 0; i < m->n; i++)
		if (!memcmp(m->e[i].k, key, m->ks)) {
			if (flags == BPF_NOEXIST) return -EEXIST;
			memcpy(m->e[i].v, value, m->vs); return 0;
		}
	if (flags == BPF_EXIST) return -ENOENT;
	if (m->n >= m->max) return -E2BIG;
	if (m->n == m->cap) { m->cap = m->cap ? m->cap * 2 : 16; m->e = realloc(m->e, m->cap * sizeof(*m->e)); }
	m->e[m->n].k = malloc(m->ks); memcpy(m->e[m->n].k, key, m->ks);
	m->e[m->n].v = malloc(m->vs ? m->vs : 1); memcpy(m->e[m->n].v, value, m->vs);
	m->n++;
	return 0;
}
long bpf_map_delete_elem(void *map, const void *key)
{
	struct vmap *m = vmap_of(map);
	for (unsigned i = 0; i < m->n; i++)
		if (!memcmp(m->e[i].k, key, m->ks)) {
			free(m->e[i].k); free(m->e[i].v);
			m->e[i] = m->e[m->n - 1]; m->n--; return 0;
		}
	return -ENOENT;
}

/* ---- clock ---- */
static __u64 vclock_ns = 1000000000ULL;
__u64 bpf_ktime_get_ns(void) { return vclock_ns; }

/* ---- skb: frame bytes live in a static buffer (skb->data is a __u32: link -no-pie) ---- */
#define VFRAME_MAX 4096
static unsigned char vframe[VFRAME_MAX];
static unsigned vframe_len;      /* total packet length */
static int vpull_fail;           /* bpf_skb_pull_data fails */
static unsigned vpull_calls;
long bpf_skb_load_bytes(const struct __sk_buff *skb, __u32 offset, void *to, __u32 len)
{
	if ((unsigned long)offset + len > vframe_len) { memset(to, 0, len); return -EFAULT; }
	memcpy(to, vframe + offset, len); return 0;
}
long bpf_skb_store_bytes(struct __sk_buff *skb, __u32 offset, const void *from, __u32 len, __u64 flags)
{
	if ((unsigned long)offset + len > vframe_len) return -EFAULT;
	memcpy(vframe + offset, from, len); return 0;
}
long bpf_skb_pull_data(struct __sk_buff *skb, __u32 len)
{
	vpull_calls++;
	if (vpull_fail) return -ENOMEM;
	unsigned want = len ? len : vframe_len;
	if (want > vframe_len) want = vframe_len;
	unsigned cur = skb->data_end - skb->data;
	if (want > cur) skb->data_end = skb->data + want;
	return 0;
}
static void vskb_init(struct __sk_buff *skb, const unsigned char *frame, unsigned len, unsigned linear)
{
	memset(skb, 0, sizeof(*skb));
	if (len > VFRAME_MAX) len = VFRAME_MAX;
	memcpy(vframe, frame, len); vframe_len = len;
	if (linear > len) linear = len;
	skb->data = (__u32)(unsigned long)vframe;
	skb->data_end = skb->data + linear;
	skb->len = len;
	vpull_calls = 0;
}
long bpf_skb_change_type(struct __sk_buff *skb, __u32 type) { skb->pkt_type = type; return 0; }
long bpf_skb_change_head(struct __sk_buff *skb, __u32 len, __u64 flags) { return 0; }

/* ---- redirects, sockets, task: recorded / scripted by the driver ---- */
static struct { int kind; __u32 ifindex; __u64 flags; } vredir;  /* kind: 0 none 1 redirect 2 redirect_peer */
long bpf_redirect(__u32 ifindex, __u64 flags) { vredir.kind = 1; vredir.ifindex = ifindex; vredir.flags = flags; return TC_ACT_REDIRECT; }
long bpf_redirect_peer(__u32 ifindex, __u64 flags) { vredir.kind = 2; vredir.ifindex = ifindex; vredir.flags = flags; return TC_ACT_REDIRECT; }
static __u64 vcookie;
__u64 bpf_get_socket_cookie(void *ctx) { return vcookie; }
static struct bpf_sock vsock_tcp, vsock_udp;
static int vsock_tcp_present, vsock_udp_present;
static unsigned vsk_release_calls, vsk_assign_calls;
struct bpf_sock *bpf_skc_lookup_tcp(void *ctx, struct bpf_sock_tuple *tuple, __u32 tuple_size, __u64 netns, __u64 flags) { return vsock_tcp_present ? &vsock_tcp : NULL; }
struct bpf_sock *bpf_sk_lookup_udp(void *ctx, struct bpf_sock_tuple *tuple, __u32 tuple_size, __u64 netns, __u64 flags) { return vsock_udp_present ? &vsock_udp : NULL; }
struct bpf_sock *bpf_sk_fullsock(struct bpf_sock *sk) { return sk; }
long bpf_sk_release(void *sock) { vsk_release_calls++; return 0; }
long bpf_sk_assign(void *ctx, void *sk, __u64 flags) { vsk_assign_calls++; return 0; }
static struct mm_struct vmm; static struct task_struct vtask = { .mm = &vmm };
static __u64 vpid_tgid;
__u64 bpf_get_current_task(void) { return (__u64)(unsigned long)&vtask; }
__u64 bpf_get_current_pid_tgid(void) { return vpid_tgid; }
long bpf_get_current_comm(void *buf, __u32 n) { memset(buf, 0, n); strncpy(buf, vtask.comm, n < 16 ? n : 16); return 0; }
long bpf_core_read_user_str(void *dst, int sz, const void *src) { if (!src) return -EFAULT; strncpy(dst, src, sz); ((char *)dst)[sz - 1] = 0; return strlen(dst) + 1; }
long bpf_loop(__u32 nr_loops, void *callback_fn, void *callback_ctx, __u64 flags)
{
	long (*cb)(__u32, void *) = callback_fn; __u32 i;
	for (i = 0; i < nr_loops; i++) if (cb(i, callback_ctx)) { i++; break; }
	return i;
}
long bpf_msg_redirect_hash(struct sk_msg_md *msg, void *map, void *key, __u64 flags) { return SK_PASS; }
static unsigned vringbuf_events;
long bpf_ringbuf_output(void *ringbuf, void *data, __u64 size, __u64 flags) { vringbuf_events++; return 0; }

#define VREG_T(m) vmap_register(&(m), #m, sizeof(*(m).type) / sizeof(int), sizeof(*(m).key), sizeof(*(m).value), sizeof(*(m).max_entries) / sizeof(int))
#define VREG_S(m, ks, vs) vmap_register(&(m), #m, sizeof(*(m).type) / sizeof(int), ks, vs, sizeof(*(m).max_entries) / sizeof(int))
#endif
