#include "tproxy.c"
#include "maprt.h"
#include "maps_reg.h"
int main(void)
{
	vmaps_register_all();
	struct match_set ms = {0};
	ms.type = MatchType_Fallback; ms.outbound = 7; ms.mark = 0x1234; ms.must = 0;
	__u32 k = 0, n = 1;
	bpf_map_update_elem(&routing_map, &k, &ms, 0);
	bpf_map_update_elem(&routing_meta_map, &k, &n, 0);
	__u32 flag[8] = { L4ProtoType_TCP, IpVersionType_4, 0, 0, 0, 0, 0, 0 };
	struct tcphdr th = {0}; th.dest = bpf_htons(443); th.source = bpf_htons(1000);
	__be32 a[4] = {0}, mac[4] = {0};
	__s64 r = route(flag, &th, a, a, mac);
	printf("route=%lld sizeof(conn_state)=%zu\n", (long long)r, sizeof(struct conn_state));
	th.dest = bpf_htons(53);
	printf("route53=%lld\n", (long long)route(flag, &th, a, a, mac));
	return 0;
}
