/* verif host shim for libbpf's bpf_helpers.h: map-definition macros as in libbpf, helper prototypes
   implemented by the harness runtime (harness/c/maprt.h). */
#ifndef VERIF_BPF_HELPERS_H
#define VERIF_BPF_HELPERS_H
#define SEC(name) __attribute__((section(".verif." name), used))
#undef SEC
#define SEC(name)
#define __uint(name, val) int (*name)[val]
#define __type(name, val) typeof(val) *name
#define __array(name, val) typeof(val) *name[]
#define __always_inline inline __attribute__((always_inline))
#define __noinline __attribute__((noinline))
#define __weak __attribute__((weak))
#define barrier() __asm__ __volatile__("" : : : "memory")
#define bpf_htons(x) __builtin_bswap16(x)
#define bpf_ntohs(x) __builtin_bswap16(x)
#define bpf_htonl(x) __builtin_bswap32(x)
#define bpf_ntohl(x) __builtin_bswap32(x)
#define bpf_printk(...) ((void)0)
#define BPF_CORE_READ(s, a, b) ((s)->a->b)

void *bpf_map_lookup_elem(void *map, const void *key);
long bpf_map_update_elem(void *map, const void *key, const void *value, __u64 flags);
long bpf_map_delete_elem(void *map, const void *key);
__u64 bpf_ktime_get_ns(void);
long bpf_skb_load_bytes(const struct __sk_buff *skb, __u32 offset, void *to, __u32 len);
long bpf_skb_store_bytes(struct __sk_buff *skb, __u32 offset, const void *from, __u32 len, __u64 flags);
long bpf_skb_pull_data(struct __sk_buff *skb, __u32 len);
long bpf_skb_change_type(struct __sk_buff *skb, __u32 type);
long bpf_skb_change_head(struct __sk_buff *skb, __u32 len, __u64 flags);
long bpf_redirect(__u32 ifindex, __u64 flags);
long bpf_redirect_peer(__u32 ifindex, __u64 flags);
__u64 bpf_get_socket_cookie(void *ctx);
struct bpf_sock *bpf_skc_lookup_tcp(void *ctx, struct bpf_sock_tuple *tuple, __u32 tuple_size, __u64 netns, __u64 flags);
struct bpf_sock *bpf_sk_lookup_udp(void *ctx, struct bpf_sock_tuple *tuple, __u32 tuple_size, __u64 netns, __u64 flags);
struct bpf_sock *bpf_sk_fullsock(struct bpf_sock *sk);
long bpf_sk_release(void *sock);
long bpf_sk_assign(void *ctx, void *sk, __u64 flags);
__u64 bpf_get_current_task(void);
__u64 bpf_get_current_pid_tgid(void);
long bpf_get_current_comm(void *buf, __u32 size_of_buf);
long bpf_core_read_user_str(void *dst, int sz, const void *src);
long bpf_loop(__u32 nr_loops, void *callback_fn, void *callback_ctx, __u64 flags);
long bpf_msg_redirect_hash(struct sk_msg_md *msg, void *map, void *key, __u64 flags);
long bpf_ringbuf_output(void *ringbuf, void *data, __u64 size, __u64 flags);
#endif
