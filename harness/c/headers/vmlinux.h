/* verif host shim for control/kern/headers/vmlinux.h: the real header is an (empty here) submodule.
   UAPI types come from the host's <linux/...> headers; kernel-internal types used by tproxy.c are
   minimal stand-ins. */
#ifndef VERIF_VMLINUX_H
#define VERIF_VMLINUX_H
#include <stddef.h>
#include <stdbool.h>
#include <string.h>
#include <errno.h>
#include <linux/types.h>
#include <linux/bpf.h>
#include <linux/if_ether.h>
#include <linux/in.h>
#include <linux/in6.h>
#include <linux/ip.h>
#include <linux/ipv6.h>
#include <linux/tcp.h>
#include <linux/udp.h>
#include <linux/icmpv6.h>
#include <linux/pkt_cls.h>
#include <linux/if_packet.h>
#include <linux/socket.h>
typedef __u8 u8; typedef __u16 u16; typedef __u32 u32; typedef __u64 u64;
typedef __s8 s8; typedef __s16 s16; typedef __s32 s32; typedef __s64 s64;
struct mm_struct { unsigned long arg_start; unsigned long arg_end; };
struct task_struct { struct mm_struct *mm; int pid; int tgid; char comm[16]; };
struct frag_hdr { __u8 nexthdr; __u8 reserved; __be16 frag_off; __be32 identification; };
#define LIBBPF_PIN_BY_NAME 1
#ifndef AF_INET
#define AF_INET 2
#endif
#ifndef AF_INET6
#define AF_INET6 10
#endif
#ifndef IPPROTO_ICMPV6
#define IPPROTO_ICMPV6 58
#endif
#endif
