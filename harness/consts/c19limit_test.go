//go:build verif

package consts

// C19: the limits the control plane runs with after package initialisation.  The orchestrator links this test
// binary once per probed N with -ldflags "-X .../common/consts.MaxMatchSetLen_=N" (as the Makefile does); a refused N
// shows as the init() panic of the process.

import (
	"fmt"
	"os"
	"testing"
)

func TestVerifC19Limit(t *testing.T) {
	// rule-count limit, and the number of 32-bit words the domain matchers allocate for a bitmap (len/32)
	if err := os.WriteFile(os.Getenv("VERIF_OUT"), []byte(fmt.Sprintf("%d %d\n", MaxMatchSetLen, MaxMatchSetLen/32)), 0o644); err != nil {
		t.Fatal(err)
	}
}
