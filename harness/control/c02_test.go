//go:build verif

package control

// C02 harness (Go side).  Routing programs written as dae config text go through the real parser, config.New and
// NewRoutingMatcherBuilder; this file then produces, with the real code, everything buildRoutingKernspace would
// install into the kernel maps:
//   - builder.rules as raw bytes of struct bpfMatchSet (the port-range bytes come from the real
//     bpfPortRange.Encode, lifted from control/bpf_utils.go by tools/c02.py because that file is excluded by the
//     dae_stub_ebpf tag: c02LiftedEncode / c02LiftedParsePortRange / c02LiftedCidrToBpfLpmKey / c02LiftedSlotPar / c02LiftedSlotSer),
//   - the ring allocation (real reserveLpmRingSlots after a history of earlier reloads), the rewritten kernel rules
//     (real rewriteKernRulesWithRingLpmIndex), the LPM keys per trie, the routing_map keys and the meta length,
//   - per probe the domain_routing_map entry (real buildDomainRoutingOwnerSnapshot over the real domain matcher's
//     bitmap) and the answer of the real userspace matcher (RoutingMatcher.Match).
// The orchestrator hands the bytes to the C driver (harness/c/c02_route.c -> the real route()) and to the Coq model.

import (
	"encoding/hex"
	"encoding/json"
	"fmt"
	"io"
	"net/netip"
	"testing"
	"unsafe"

	"github.com/daeuniverse/dae/common"
	"github.com/daeuniverse/dae/common/consts"
	"github.com/daeuniverse/dae/config"
	"github.com/daeuniverse/dae/pkg/config_parser"
	dnsmessage "github.com/miekg/dns"
	"github.com/sirupsen/logrus"
)

type c02Packet struct {
	Src    string `json:"src"`
	Dst    string `json:"dst"`
	Sport  uint16 `json:"sport"`
	Dport  uint16 `json:"dport"`
	L4     uint8  `json:"l4"`
	IpVer  uint8  `json:"ipver"`
	Domain string `json:"domain"`
	Pname  string `json:"pname"` // 32 hex digits
	Mac    string `json:"mac"`   // 12 hex digits
	Dscp   uint8  `json:"dscp"`
	Wan    bool   `json:"wan"`
}

type c02Case struct {
	Layout  bool             `json:"layout"`
	Text    string           `json:"text"`
	Groups  map[string]uint8 `json:"groups"`
	Reloads []uint32         `json:"reloads"` // LPM counts of earlier reloads (ring history)
	Order   string           `json:"order"`   // S = builder.KernspaceSnapshot(), U = builder.BuildUserspace(), I = snapshot.BuildKernspace(); default "SIU"
	Packets []c02Packet      `json:"packets"`
}

type c02Res struct {
	O    uint8    `json:"o"`
	Mark uint32   `json:"mark"`
	Must bool     `json:"must"`
	Err  string   `json:"err,omitempty"`
	Bm   []uint32 `json:"bm"`
	DKey string   `json:"dkey"` // domain_routing_map key (16 bytes) or "" when nothing is installed for this probe
	DVal string   `json:"dval"` // struct domain_routing (128 bytes)
	Src  string   `json:"src16"`
	Dst  string   `json:"dst16"`
}

// c02Install is one replayed call of buildRoutingKernspace(log, bpf, s.rules, s.simulatedLpmTries, s.dedupCount) on a
// routingKernspaceSnapshot: everything is read from the snapshot AT THE TIME OF THE CALL.
type c02Install struct {
	Tries   [][]string `json:"tries"` // the prefix lists found in the snapshot
	Kern    []string   `json:"kern"`  // rules written to routing_map
	RKeys   []uint32   `json:"rkeys"` // their keys
	MetaLen uint32     `json:"metalen"`
	Alloc   uint32     `json:"alloc"`
	Next    uint32     `json:"next"` // globalNextLpmIndex afterwards
	Slots   []uint32   `json:"slots"`
	Keys    [][]string `json:"keys"` // per trie: struct lpm_key bytes (20 each)
	KernErr string     `json:"kernerr,omitempty"`
}

func c02PrefixText(p netip.Prefix) string {
	fam := "6"
	if p.Addr().Is4() {
		fam = "4"
	}
	a := p.Addr().As16()
	return fam + hex.EncodeToString(a[:]) + "/" + fmt.Sprint(p.Bits())
}

// c02ReplayBuildKernspace follows buildRoutingKernspace step by step (its map writes cannot run here: no kernel).
func c02ReplayBuildKernspace(s *routingKernspaceSnapshot) (in c02Install) {
	rules, tries := s.rules, s.simulatedLpmTries
	in.Tries, in.Keys = [][]string{}, [][]string{}
	for _, t := range tries {
		ps, ks := []string{}, []string{}
		for _, p := range t {
			ps = append(ps, c02PrefixText(p))
			k := c02LiftedCidrToBpfLpmKey(p)
			ks = append(ks, c02Bytes(&k))
		}
		in.Tries = append(in.Tries, ps)
		in.Keys = append(in.Keys, ks)
	}
	if len(rules) == 0 {
		in.KernErr = "no routing rules to build"
		in.Next = globalNextLpmIndex.Load()
		return in
	}
	lpmCount := uint32(len(tries))
	alloc, err := reserveLpmRingSlots(lpmCount)
	in.Next = globalNextLpmIndex.Load()
	if err != nil {
		in.KernErr = err.Error()
		return in
	}
	in.Alloc = alloc
	for i := range tries {
		// serial conversion when lpmCount < 4 (or a single CPU), parallel otherwise
		slot := c02LiftedSlotPar(alloc, i)
		if lpmCount < 4 {
			slot = c02LiftedSlotSer(alloc, i)
		}
		in.Slots = append(in.Slots, slot)
	}
	if rules[len(rules)-1].Type != uint8(consts.MatchType_Fallback) {
		in.KernErr = "fallback rule MUST be the last"
	} else if kern, e := rewriteKernRulesWithRingLpmIndex(rules, alloc, lpmCount); e != nil {
		in.KernErr = e.Error()
	} else {
		for i := range kern {
			in.Kern = append(in.Kern, c02Bytes(&kern[i]))
		}
		in.MetaLen = uint32(len(rules))
		in.RKeys = common.ARangeU32(in.MetaLen)
	}
	return in
}

type c02Result struct {
	Stage     string         `json:"stage,omitempty"`
	Err       string         `json:"err,omitempty"`
	Layout    map[string]int `json:"layout,omitempty"`
	Msets     []c01Mset      `json:"msets"`
	Tries     [][]string     `json:"tries"`
	DomSets   []c01DomSet    `json:"domsets"`
	Raw       []string       `json:"raw"`                 // builder.rules, 24 bytes each (before the ring rewrite)
	Order     string         `json:"order"`               // steps as executed
	Installs  []c02Install   `json:"installs"`            // one per replayed snapshot.BuildKernspace call
	PortCodec string         `json:"portcodec,omitempty"` // bpfPortRange.Encode and ParsePortRange are not inverse on some range
	Results   []c02Res       `json:"results"`
}

func c02Bytes[T any](v *T) string {
	return hex.EncodeToString(unsafe.Slice((*byte)(unsafe.Pointer(v)), unsafe.Sizeof(*v)))
}

func c02Layout() map[string]int {
	var m bpfMatchSet
	var k _bpfLpmKey
	var d bpfDomainRouting
	var p bpfPortRange
	return map[string]int{
		"ms_size": int(unsafe.Sizeof(m)), "ms_value": int(unsafe.Offsetof(m.Value)), "ms_not": int(unsafe.Offsetof(m.Not)),
		"ms_type": int(unsafe.Offsetof(m.Type)), "ms_outbound": int(unsafe.Offsetof(m.Outbound)), "ms_must": int(unsafe.Offsetof(m.Must)),
		"ms_mark":  int(unsafe.Offsetof(m.Mark)),
		"lpm_size": int(unsafe.Sizeof(k)), "lpm_prefixlen": int(unsafe.Offsetof(k.PrefixLen)), "lpm_data": int(unsafe.Offsetof(k.Data)),
		"dr_size": int(unsafe.Sizeof(d)), "dr_bitmap": int(unsafe.Offsetof(d.Bitmap)),
		"pr_size": int(unsafe.Sizeof(p)), "pr_start": int(unsafe.Offsetof(p.PortStart)), "pr_end": int(unsafe.Offsetof(p.PortEnd)),
		"max_match_set_len": consts.MaxMatchSetLen, "task_comm_len": consts.TaskCommLen,
	}
}

func c02Run(cs c02Case) (res c02Result) {
	defer func() {
		if r := recover(); r != nil {
			res.Stage = "panic"
			res.Err = fmt.Sprint(r)
		}
	}()
	if cs.Layout {
		return c02Result{Layout: c02Layout()}
	}
	log := logrus.New()
	log.SetOutput(io.Discard)
	sections, err := config_parser.Parse(cs.Text)
	if err != nil {
		return c02Result{Stage: "parse", Err: err.Error()}
	}
	conf, err := config.New(sections)
	if err != nil {
		return c02Result{Stage: "config", Err: err.Error()}
	}
	builder, err := NewRoutingMatcherBuilder(log, conf.Routing.Rules, cs.Groups, nil, conf.Routing.Fallback)
	if err != nil {
		return c02Result{Stage: "build", Err: err.Error()}
	}
	if len(builder.rules) != len(builder.compiledRules) {
		return c02Result{Stage: "harness", Err: "rules / compiledRules length"}
	}
	// stub build: bpfPortRange.Encode() is a zero-returning stub, so the builder's own array lacks the port bytes;
	// put the production bytes (lifted Encode) in place, so that everything that later reads the builder's array or a
	// snapshot sharing it sees what production sees
	rules := builder.rules
	for i, c := range builder.compiledRules {
		res.Msets = append(res.Msets, c01Mset{Type: uint8(c.matchType), Not: c.not, Out: uint8(c.outbound), Mark: c.mark, Must: c.must,
			Lpm: c.lpmIndex, Ps: c.portStart, Pe: c.portEnd, Mask: c.mask, Pname: hex.EncodeToString(c.pname[:]), Dscp: c.dscp})
		if c.matchType == consts.MatchType_Port || c.matchType == consts.MatchType_SourcePort {
			if rules[i].Value != [16]byte{} {
				return c02Result{Stage: "harness", Err: "stub Encode no longer returns zero bytes: revisit the port patch"}
			}
			rules[i].Value = c02LiftedEncode(bpfPortRange{PortStart: c.portStart, PortEnd: c.portEnd})
			ps, pe := c02LiftedParsePortRange(rules[i].Value[:])
			if (ps != c.portStart || pe != c.portEnd) && res.PortCodec == "" {
				// not fatal here: the kernel reads these bytes next, so the probes show the consequence
				res.PortCodec = fmt.Sprintf("ParsePortRange(Encode(%d,%d)) = (%d,%d)", c.portStart, c.portEnd, ps, pe)
			}
		}
		// production BuildUserspace decodes the bytes again only when compiledRules is missing; compare the decoder anyway
		if c.matchType != consts.MatchType_Port && c.matchType != consts.MatchType_SourcePort {
			d, e := compileRoutingMatch(rules[i])
			if (e != nil || d != c) && res.PortCodec == "" {
				// not fatal here: the kernel reads rules[i], the userspace matcher compiledRules[i]; the probes show the consequence
				res.PortCodec = fmt.Sprintf("compileRoutingMatch(rules[%d]) differs from compiledRules[%d]", i, i)
			}
		}
		res.Raw = append(res.Raw, c02Bytes(&rules[i]))
	}
	for _, t := range builder.simulatedLpmTries {
		ps := []string{}
		for _, p := range t {
			ps = append(ps, c02PrefixText(p))
		}
		res.Tries = append(res.Tries, ps)
	}
	for _, d := range builder.simulatedDomainSet {
		res.DomSets = append(res.DomSets, c01DomSet{Idx: d.RuleIndex, Key: string(d.Key), Values: d.Domains})
	}

	// ---- the ControlPlane's steps, in the requested order (NewControlPlane: S, then I unless delayDatapathCommit, then U;
	// CommitPreparedDatapath / RebuildReloadDatapath: I from the snapshot kept in the ControlPlane) ----
	globalNextLpmIndex.Store(0)
	for _, c := range cs.Reloads {
		if _, e := reserveLpmRingSlots(c); e != nil {
			return c02Result{Stage: "harness", Err: "reload history: " + e.Error()}
		}
	}
	order := cs.Order
	if order == "" {
		order = "SIU"
	}
	res.Order = order
	res.Installs = []c02Install{}
	var snap *routingKernspaceSnapshot
	var matcher *RoutingMatcher
	for _, st := range order {
		switch st {
		case 'S':
			snap = builder.KernspaceSnapshot()
		case 'U':
			if matcher, err = builder.BuildUserspace(); err != nil {
				res.Stage, res.Err = "userspace", err.Error()
				return res
			}
		case 'I':
			if snap == nil {
				return c02Result{Stage: "harness", Err: "install before snapshot"}
			}
			res.Installs = append(res.Installs, c02ReplayBuildKernspace(snap))
		default:
			return c02Result{Stage: "harness", Err: "bad order"}
		}
	}
	if matcher == nil {
		return c02Result{Stage: "harness", Err: "order without BuildUserspace"}
	}
	for _, p := range cs.Packets {
		var pr c02Res
		func() {
			defer func() {
				if r := recover(); r != nil {
					pr.Err = "panic: " + fmt.Sprint(r)
				}
			}()
			src, e1 := netip.ParseAddr(p.Src)
			dst, e2 := netip.ParseAddr(p.Dst)
			pname, e3 := c01Arr16(p.Pname)
			macb, e4 := hex.DecodeString(p.Mac)
			if e1 != nil || e2 != nil || e3 != nil || e4 != nil || len(macb) != 6 {
				pr.Err = "harness: bad packet"
				return
			}
			var mac16 [16]uint8
			copy(mac16[10:], macb)
			s16, d16 := src.As16(), dst.As16()
			pr.Src, pr.Dst = hex.EncodeToString(s16[:]), hex.EncodeToString(d16[:])
			o, mark, must, err := matcher.Match(s16, d16, p.Sport, p.Dport, consts.IpVersionType(p.IpVer),
				consts.L4ProtoType(p.L4), p.Domain, pname, p.Dscp, mac16)
			pr.O, pr.Mark, pr.Must = uint8(o), mark, must
			if err != nil {
				pr.Err = err.Error()
			}
			if p.Domain != "" {
				pr.Bm = matcher.domainMatcher.MatchDomainBitmap(p.Domain)
				// the control plane binds the domain's bitmap to the addresses of the answer
				var rr dnsmessage.RR = &dnsmessage.AAAA{AAAA: d16[:]}
				if dst.Is4() || dst.Is4In6() {
					rr = &dnsmessage.A{A: dst.Unmap().AsSlice()}
				}
				cache := &DnsCache{DomainBitmap: pr.Bm, Answer: []dnsmessage.RR{rr}}
				snap, e := buildDomainRoutingOwnerSnapshot(cache)
				if e != nil {
					pr.Err = "snapshot: " + e.Error()
					return
				}
				if len(snap.ips) == 1 && !isZeroDomainRoutingBitmap(snap.bitmap) { // desiredBitmapForKeyLocked
					for k := range snap.ips {
						pr.DKey = c02Bytes(&k)
					}
					pr.DVal = c02Bytes(&snap.bitmap)
				}
			}
		}()
		res.Results = append(res.Results, pr)
	}
	return res
}

func TestVerifC02(t *testing.T) {
	verifEachLine(t, func(line []byte) any {
		var cs c02Case
		if err := json.Unmarshal(line, &cs); err != nil {
			return c02Result{Stage: "harness", Err: err.Error()}
		}
		return c02Run(cs)
	})
}
