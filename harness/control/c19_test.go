//go:build verif

package control

// C19 harness: prints the compiled layout of every stub-build mirror type and runs the real key
// constructors of the control plane on generated entities, reporting raw memory images as hex.
// The real-build functions cidrToBpfLpmKey and bpfPortRange.Encode are stubs in this build; the
// orchestrator lifts their source text from control/bpf_utils.go into
// zz_verif_c19_lifted_test.go (verifC19RealCidrToBpfLpmKey / verifC19RealPortRangeEncode) on every run.

import (
	"encoding/hex"
	"encoding/json"
	"fmt"
	"net/netip"
	"reflect"
	"sort"
	"testing"
	"unsafe"

	"github.com/daeuniverse/dae/common/consts"
	"github.com/daeuniverse/dae/component/outbound/dialer"
	"github.com/daeuniverse/dae/component/routing"
	"github.com/daeuniverse/dae/pkg/config_parser"
	dnsmessage "github.com/miekg/dns"
)

type c19In struct {
	Op       string `json:"op"`
	Src      string `json:"src,omitempty"`
	Dst      string `json:"dst,omitempty"`
	Proto    uint8  `json:"proto,omitempty"`
	Outbound int    `json:"outbound,omitempty"`
	L4       string `json:"l4,omitempty"`
	IpV      string `json:"ipv,omitempty"`
	IsDns    bool   `json:"isdns,omitempty"`
	Dom      int    `json:"dom,omitempty"`
	Prefix   string `json:"prefix,omitempty"`
	IP       string `json:"ip,omitempty"`
	Kind     string `json:"kind,omitempty"`
	A        uint32 `json:"a,omitempty"`
	B        uint32 `json:"b,omitempty"`
	Pname    string `json:"pname,omitempty"` // hex, 16 bytes
	Not      bool   `json:"not,omitempty"`
	Must     bool   `json:"must,omitempty"`
	Mark     uint32 `json:"mark,omitempty"`
	KeyHex   string   `json:"keyhex,omitempty"` // raw conn_state_map key as the kernel wrote it
	ValHex   string   `json:"valhex,omitempty"` // raw conn_state_map value as the kernel wrote it
	Ages     []uint64 `json:"ages,omitempty"`   // ns after the entry's last_seen_ns at which the janitor sweeps
}

type c19Leaf struct {
	Path string `json:"path"`
	Off  uint64 `json:"off"`
	Size uint64 `json:"size"`
	N    uint64 `json:"n"`
}

type c19Layout struct {
	Name   string    `json:"name"`
	Size   uint64    `json:"size"`
	Align  uint64    `json:"align"`
	Leaves []c19Leaf `json:"leaves"`
}

type c19Out struct {
	Layouts []c19Layout       `json:"layouts,omitempty"`
	Consts  map[string]uint64 `json:"consts,omitempty"`
	Hex     string            `json:"hex,omitempty"`
	Key     *uint32           `json:"key,omitempty"`
	Keys    []string          `json:"keys,omitempty"`
	Deleted []bool            `json:"deleted,omitempty"`
	State   *uint8            `json:"state,omitempty"`
	Err     string            `json:"err,omitempty"`
}

func c19Leaves(t reflect.Type, base uintptr, path string, out *[]c19Leaf) {
	switch t.Kind() {
	case reflect.Struct:
		for i := 0; i < t.NumField(); i++ {
			f := t.Field(i)
			p := f.Name
			if path != "" {
				p = path + "." + p
			}
			c19Leaves(f.Type, base+f.Offset, p, out)
		}
	case reflect.Array:
		ek := t.Elem().Kind()
		if ek != reflect.Struct && ek != reflect.Array {
			*out = append(*out, c19Leaf{path, uint64(base), uint64(t.Elem().Size()), uint64(t.Len())})
			return
		}
		for i := 0; i < t.Len(); i++ {
			c19Leaves(t.Elem(), base+uintptr(i)*t.Elem().Size(), fmt.Sprintf("%s[%d]", path, i), out)
		}
	default:
		*out = append(*out, c19Leaf{path, uint64(base), uint64(t.Size()), 1})
	}
}

func c19LayoutOf(name string, v any) c19Layout {
	t := reflect.TypeOf(v)
	l := c19Layout{Name: name, Size: uint64(t.Size()), Align: uint64(t.Align()), Leaves: []c19Leaf{}}
	c19Leaves(t, 0, "", &l.Leaves)
	return l
}

func c19Mem[T any](v *T) string {
	return hex.EncodeToString(unsafe.Slice((*byte)(unsafe.Pointer(v)), unsafe.Sizeof(*v)))
}

func c19Run(in c19In) (out c19Out) {
	defer func() {
		if r := recover(); r != nil {
			out.Err = "panic: " + fmt.Sprint(r)
		}
	}()
	switch in.Op {
	case "layout":
		out.Layouts = []c19Layout{
			c19LayoutOf("_bpfLpmKey", _bpfLpmKey{}),
			c19LayoutOf("bpfConnState", bpfConnState{}),
			c19LayoutOf("bpfDaeEvent", bpfDaeEvent{}),
			c19LayoutOf("bpfDaeParam", bpfDaeParam{}),
			c19LayoutOf("bpfDomainRouting", bpfDomainRouting{}),
			c19LayoutOf("bpfIfParams", bpfIfParams{}),
			c19LayoutOf("bpfMatchSet", bpfMatchSet{}),
			c19LayoutOf("bpfPidPname", bpfPidPname{}),
			c19LayoutOf("bpfPortRange", bpfPortRange{}),
			c19LayoutOf("bpfRedirectEntry", bpfRedirectEntry{}),
			c19LayoutOf("bpfRedirectTuple", bpfRedirectTuple{}),
			c19LayoutOf("bpfRoutingHandoffEntry", bpfRoutingHandoffEntry{}),
			c19LayoutOf("bpfRoutingResult", bpfRoutingResult{}),
			c19LayoutOf("bpfTuplesKey", bpfTuplesKey{}),
		}
		// the compiled values of the shared constants (second opinion on the go/types evaluation)
		out.Consts = map[string]uint64{
			"consts.MatchType_DomainSet": uint64(consts.MatchType_DomainSet), "consts.MatchType_IpSet": uint64(consts.MatchType_IpSet),
			"consts.MatchType_SourceIpSet": uint64(consts.MatchType_SourceIpSet), "consts.MatchType_Port": uint64(consts.MatchType_Port),
			"consts.MatchType_SourcePort": uint64(consts.MatchType_SourcePort), "consts.MatchType_L4Proto": uint64(consts.MatchType_L4Proto),
			"consts.MatchType_IpVersion": uint64(consts.MatchType_IpVersion), "consts.MatchType_Mac": uint64(consts.MatchType_Mac),
			"consts.MatchType_ProcessName": uint64(consts.MatchType_ProcessName), "consts.MatchType_Dscp": uint64(consts.MatchType_Dscp),
			"consts.MatchType_Fallback": uint64(consts.MatchType_Fallback), "consts.MatchType_MustRules": uint64(consts.MatchType_MustRules),
			"consts.MatchType_Upstream": uint64(consts.MatchType_Upstream), "consts.MatchType_QType": uint64(consts.MatchType_QType),
			"consts.L4ProtoType_TCP": uint64(consts.L4ProtoType_TCP), "consts.L4ProtoType_UDP": uint64(consts.L4ProtoType_UDP),
			"consts.L4ProtoType_X": uint64(consts.L4ProtoType_X),
			"consts.IpVersion_4": uint64(consts.IpVersion_4), "consts.IpVersion_6": uint64(consts.IpVersion_6), "consts.IpVersion_X": uint64(consts.IpVersion_X),
			"consts.OutboundDirect": uint64(consts.OutboundDirect), "consts.OutboundBlock": uint64(consts.OutboundBlock),
			"consts.OutboundMustRules": uint64(consts.OutboundMustRules), "consts.OutboundControlPlaneRouting": uint64(consts.OutboundControlPlaneRouting),
			"consts.OutboundLogicalOr": uint64(consts.OutboundLogicalOr), "consts.OutboundLogicalAnd": uint64(consts.OutboundLogicalAnd),
			"consts.OutboundLogicalMask": uint64(consts.OutboundLogicalMask),
			"consts.var.MaxMatchSetLen":  uint64(consts.MaxMatchSetLen), "consts.TaskCommLen": uint64(consts.TaskCommLen),
			"consts.TproxyMark": uint64(consts.TproxyMark), "consts.ZeroKey": uint64(consts.ZeroKey), "consts.OneKey": uint64(consts.OneKey),
			"consts.TwoKey": uint64(consts.TwoKey), "consts.IPPROTO_TCP": uint64(consts.IPPROTO_TCP), "consts.IPPROTO_UDP": uint64(consts.IPPROTO_UDP),
			"control(stub).defaultConnStateMapMaxEntries":  uint64(defaultConnStateMapMaxEntries),
			"control(stub).fastSockPlaceholderMaxEntries":  uint64(fastSockPlaceholderMaxEntries),
			"control.outboundConnectivitySlotsPerOutbound": uint64(outboundConnectivitySlotsPerOutbound),
			"control.outboundConnectivitySlotsPerDomain":   uint64(outboundConnectivitySlotsPerDomain),
			"control.outboundConnectivityDomainTCP":        uint64(outboundConnectivityDomainTCP),
			"control.outboundConnectivityDomainDnsUDP":     uint64(outboundConnectivityDomainDnsUDP),
			"control.outboundConnectivityDomainDataUDP":    uint64(outboundConnectivityDomainDataUDP),
		}
	case "tuple":
		src, err := netip.ParseAddrPort(in.Src)
		if err != nil {
			return c19Out{Err: err.Error()}
		}
		dst, err := netip.ParseAddrPort(in.Dst)
		if err != nil {
			return c19Out{Err: err.Error()}
		}
		k := bpfTuplesKeyFromAddrPorts(src, dst, in.Proto)
		out.Hex = c19Mem(&k)
	case "conn":
		nt := &dialer.NetworkType{IsDns: in.IsDns, UdpHealthDomain: dialer.UdpHealthDomain(in.Dom)}
		if in.L4 == "udp" {
			nt.L4Proto = consts.L4ProtoStr_UDP
		} else {
			nt.L4Proto = consts.L4ProtoStr_TCP
		}
		if in.IpV == "6" {
			nt.IpVersion = consts.IpVersionStr_6
		} else {
			nt.IpVersion = consts.IpVersionStr_4
		}
		k := outboundConnectivityMapKey(uint8(in.Outbound), nt)
		out.Key = &k
	case "lpm":
		p, err := netip.ParsePrefix(in.Prefix)
		if err != nil {
			return c19Out{Err: err.Error()}
		}
		k := verifC19RealCidrToBpfLpmKey(p)
		out.Hex = c19Mem(&k)
	case "domkey":
		// the production path that builds domain_routing_map keys
		ip, err := netip.ParseAddr(in.IP)
		if err != nil {
			return c19Out{Err: err.Error()}
		}
		cache := &DnsCache{DomainBitmap: make([]uint32, len(bpfDomainRouting{}.Bitmap))}
		if ip.Is4() {
			cache.Answer = append(cache.Answer, &dnsmessage.A{Hdr: dnsmessage.RR_Header{Name: "x.", Rrtype: dnsmessage.TypeA, Class: dnsmessage.ClassINET, Ttl: 60}, A: ip.AsSlice()})
		} else {
			cache.Answer = append(cache.Answer, &dnsmessage.AAAA{Hdr: dnsmessage.RR_Header{Name: "x.", Rrtype: dnsmessage.TypeAAAA, Class: dnsmessage.ClassINET, Ttl: 60}, AAAA: ip.AsSlice()})
		}
		snap, err := buildDomainRoutingOwnerSnapshot(cache)
		if err != nil {
			return c19Out{Err: err.Error()}
		}
		out.Keys = []string{}
		for k := range snap.ips {
			kk := k
			out.Keys = append(out.Keys, c19Mem(&kk))
		}
		sort.Strings(out.Keys)
	case "janitor":
		// the selection loop of ControlPlane.cleanupConnStateMapBeforeLocked (lifted source text: c19JanitorSelect) on the
		// bytes the kernel code wrote into conn_state_map
		kb, err1 := hex.DecodeString(in.KeyHex)
		vb, err2 := hex.DecodeString(in.ValHex)
		var key bpfTuplesKey
		var val bpfConnState
		if err1 != nil || err2 != nil || len(kb) != int(unsafe.Sizeof(key)) || len(vb) != int(unsafe.Sizeof(val)) {
			return c19Out{Err: fmt.Sprintf("kernel key/value image has %d/%d bytes, Go types have %d/%d", len(kb), len(vb), unsafe.Sizeof(key), unsafe.Sizeof(val))}
		}
		copy(unsafe.Slice((*byte)(unsafe.Pointer(&key)), unsafe.Sizeof(key)), kb)
		copy(unsafe.Slice((*byte)(unsafe.Pointer(&val)), unsafe.Sizeof(val)), vb)
		st := val.State
		out.State = &st
		out.Deleted = []bool{}
		for _, age := range in.Ages {
			c19Clock = int64(val.LastSeenNs + age)
			udpDel, tcpDel, _, _ := c19JanitorSelect(false, 0, []bpfTuplesKey{key}, []bpfConnState{val})
			out.Deleted = append(out.Deleted, len(udpDel)+len(tcpDel) > 0)
		}
	case "mackey":
		// mac(...) rule: the prefixes addSourceMac registers, turned into LPM keys by the real cidrToBpfLpmKey
		raw, _ := hex.DecodeString(in.Pname)
		var mac [6]byte
		copy(mac[:], raw)
		b := &RoutingMatcherBuilder{outboundName2Id: map[string]uint8{"g": 2}, lpmDedup: map[uint64]lpmDedupEntry{}, referencedOutbounds: map[string]struct{}{}}
		if err := b.addSourceMac(&config_parser.Function{}, [][6]byte{mac}, &routing.Outbound{Name: "g"}); err != nil {
			return c19Out{Err: err.Error()}
		}
		out.Keys = []string{}
		for _, p := range b.simulatedLpmTries[len(b.simulatedLpmTries)-1] {
			k := verifC19RealCidrToBpfLpmKey(p)
			out.Keys = append(out.Keys, c19Mem(&k))
		}
	case "matchset":
		b := &RoutingMatcherBuilder{outboundName2Id: map[string]uint8{"g": uint8(in.Outbound)}, lpmDedup: map[uint64]lpmDedupEntry{}, referencedOutbounds: map[string]struct{}{}}
		f := &config_parser.Function{Not: in.Not}
		ob := &routing.Outbound{Name: "g", Mark: in.Mark, Must: in.Must}
		var err error
		switch in.Kind {
		case "port":
			err = b.addPort(f, [][2]uint16{{uint16(in.A), uint16(in.B)}}, ob)
		case "sport":
			err = b.addSourcePort(f, [][2]uint16{{uint16(in.A), uint16(in.B)}}, ob)
		case "l4proto":
			err = b.addL4Proto(f, consts.L4ProtoType(in.A), ob)
		case "ipversion":
			err = b.addIpVersion(f, consts.IpVersionType(in.A), ob)
		case "dscp":
			err = b.addDscp(f, []uint8{uint8(in.A)}, ob)
		case "pname":
			raw, _ := hex.DecodeString(in.Pname)
			var v [consts.TaskCommLen]byte
			copy(v[:], raw)
			err = b.addProcessName(f, [][consts.TaskCommLen]byte{v}, ob)
		case "ip", "sip", "mac":
			// in.A lpm tries registered before this one, so that the index is in.A
			for i := uint32(0); i < in.A; i++ {
				b.simulatedLpmTries = append(b.simulatedLpmTries, nil)
			}
			switch in.Kind {
			case "ip":
				err = b.addIp(f, []netip.Prefix{netip.MustParsePrefix("10.0.0.0/8")}, ob)
			case "sip":
				err = b.addSourceIp(f, []netip.Prefix{netip.MustParsePrefix("10.0.0.0/8")}, ob)
			default:
				err = b.addSourceMac(f, [][6]byte{{1, 2, 3, 4, 5, 6}}, ob)
			}
		case "domain":
			err = b.addDomain(f, "suffix", []string{"example.com"}, ob)
		case "fallback":
			err = b.addFallback("g")
		default:
			return c19Out{Err: "unknown kind " + in.Kind}
		}
		if err != nil {
			return c19Out{Err: err.Error()}
		}
		if len(b.rules) == 0 {
			return c19Out{Err: "no rule appended"}
		}
		r := b.rules[len(b.rules)-1]
		if in.Kind == "port" || in.Kind == "sport" {
			// Encode is a stub in this build: substitute the lifted real encoder, exactly as addPort composes it
			r.Value = verifC19RealPortRangeEncode(bpfPortRange{PortStart: uint16(in.A), PortEnd: uint16(in.B)})
		}
		out.Hex = c19Mem(&r)
	default:
		out.Err = "unknown op " + in.Op
	}
	return out
}

func TestVerifC19(t *testing.T) {
	verifEachLine(t, func(line []byte) any {
		var in c19In
		if err := json.Unmarshal(line, &in); err != nil {
			return c19Out{Err: "bad input: " + err.Error()}
		}
		return c19Run(in)
	})
}
