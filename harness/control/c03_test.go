//go:build verif

package control

// C03 correspondence harness, Go half: the control plane's reading of the records the kernel program
// writes.  The C driver (harness/c/c03_driver.c) dumps the raw bytes of conn_state_map and
// routing_handoff_map after every packet; here they are decoded with the real bpfConnState /
// bpfRoutingHandoffEntry / bpfTuplesKey types, the flow key is built by the real
// bpfTuplesKeyFromAddrPorts, and the routing result is recovered in the order of
// controlPlaneCore.RetrieveRoutingResult (conn_state first, needs HasRouting; then the handoff entry
// unless routingHandoffExpired) through the real routingResultFromConnState / routingHandoffExpired.
// (The real RetrieveRoutingResult needs live *ebpf.Map objects, which this sandbox cannot create.)
// Health bits: the slot of outbound_connectivity_map written for (outbound, network type) is computed by the
// real outboundConnectivityMapKey; the C driver stores the value there and the hooks read it back through
// wan_outbound_is_alive.

import (
	"encoding/hex"
	"encoding/json"
	"fmt"
	"net/netip"
	"testing"
	"unsafe"

	stderrors "errors"

	"github.com/cilium/ebpf"
	"github.com/daeuniverse/dae/common/consts"
	"github.com/daeuniverse/dae/component/outbound/dialer"
	"golang.org/x/sys/unix"
)

type c03Flow struct {
	Sip   string `json:"sip"` // 16 bytes hex
	Dip   string `json:"dip"`
	Sport uint16 `json:"sport"`
	Dport uint16 `json:"dport"`
	Proto uint8  `json:"proto"`
}

type c03In struct {
	Layout bool        `json:"layout"`
	// Slots: (outbound, domain 0 tcp / 1 dns-udp / 2 data-udp, ip index 0 v4 / 1 v6) -> the slot of
	// outbound_connectivity_map the control plane writes, by the real outboundConnectivityMapKey.
	Slots [][3]int `json:"slots"`
	Conn   [][2]string `json:"conn"`
	Hand   [][2]string `json:"hand"`
	Flows  []c03Flow   `json:"flows"`
	// Recov: earlier redirected packets whose handling by dae was deferred; dae recovers their routing
	// result now, in this order, before the packet of Flows, on ONE instance of the maps.
	Recov []c03Flow `json:"recov"`
	// Jan: one sweep of the conn_state_map janitor over these entries (selection only)
	Jan *c03JanIn `json:"jan"`
	Now    uint64      `json:"now"`
}

type c03JanEntry struct {
	Sip   string `json:"sip"`
	Dip   string `json:"dip"`
	Sport uint16 `json:"sport"`
	Dport uint16 `json:"dport"`
	Proto uint8  `json:"proto"`
	State uint8  `json:"state"`
	Last  uint64 `json:"last"`
}
type c03JanIn struct {
	Sample     uint64        `json:"sample"`
	Aggressive bool          `json:"aggressive"`
	Stale      uint64        `json:"stale"`
	Entries    []c03JanEntry `json:"entries"`
}

type c03Res struct {
	Mark  uint32 `json:"mark"`
	Must  uint8  `json:"must"`
	Out   uint8  `json:"out"`
	Mac   string `json:"mac"`
	Pname string `json:"pname"`
	Pid   uint32 `json:"pid"`
	Dscp  uint8  `json:"dscp"`
}

func c03ResOf(r bpfRoutingResult) *c03Res {
	return &c03Res{Mark: r.Mark, Must: r.Must, Out: r.Outbound, Mac: hex.EncodeToString(r.Mac[:]),
		Pname: hex.EncodeToString(r.Pname[:]), Pid: r.Pid, Dscp: r.Dscp}
}

func c03DecodeConn(b []byte) (cs bpfConnState, err error) {
	if uintptr(len(b)) != unsafe.Sizeof(cs) {
		return cs, fmt.Errorf("conn_state size: C %d, Go %d", len(b), unsafe.Sizeof(cs))
	}
	copy((*[unsafe.Sizeof(cs)]byte)(unsafe.Pointer(&cs))[:], b)
	return cs, nil
}

func c03DecodeHand(b []byte) (e bpfRoutingHandoffEntry, err error) {
	if uintptr(len(b)) != unsafe.Sizeof(e) {
		return e, fmt.Errorf("routing_handoff_entry size: C %d, Go %d", len(b), unsafe.Sizeof(e))
	}
	copy((*[unsafe.Sizeof(e)]byte)(unsafe.Pointer(&e))[:], b)
	return e, nil
}

func c03AddrPort(h string, port uint16) (netip.AddrPort, error) {
	b, err := hex.DecodeString(h)
	if err != nil || len(b) != 16 {
		return netip.AddrPort{}, fmt.Errorf("bad address %q", h)
	}
	var a [16]byte
	copy(a[:], b)
	return netip.AddrPortFrom(netip.AddrFrom16(a), port), nil
}

func TestVerifC03(t *testing.T) {
	verifEachLine(t, func(line []byte) (out any) {
		defer func() {
			if r := recover(); r != nil {
				out = map[string]any{"panic": fmt.Sprint(r)}
			}
		}()
		var in c03In
		if err := json.Unmarshal(line, &in); err != nil {
			return map[string]any{"error": err.Error()}
		}
		if in.Jan != nil {
			// the selection part of ControlPlane.cleanupConnStateMapBeforeLocked, lifted as source text
			// (zz_verif_c03_lifted_test.go: c03JanitorSelect), on real bpfTuplesKey / bpfConnState values,
			// with the clock read replaced by the case's sample
			keys := make([]bpfTuplesKey, 0, len(in.Jan.Entries))
			vals := make([]bpfConnState, 0, len(in.Jan.Entries))
			for _, e := range in.Jan.Entries {
				src, err1 := c03AddrPort(e.Sip, e.Sport)
				dst, err2 := c03AddrPort(e.Dip, e.Dport)
				if err1 != nil || err2 != nil {
					return map[string]any{"error": "bad janitor entry address"}
				}
				nk := bpfTuplesKeyFromAddrPorts(src, dst, e.Proto)
				for _, k0 := range keys {
					if k0 == nk {
						return map[string]any{"error": "janitor case lists one key twice (a map has one entry per key)"}
					}
				}
				keys = append(keys, nk)
				var v bpfConnState
				v.State = e.State
				v.LastSeenNs = e.Last
				vals = append(vals, v)
			}
			c03Clock = in.Jan.Sample
			udpDel, tcpDel, _, _ := c03JanitorSelect(in.Jan.Aggressive, in.Jan.Stale, keys, vals)
			sel := make([]bool, len(keys))
			for _, d := range append(append([]bpfTuplesKey{}, udpDel...), tcpDel...) {
				found := false
				for i := range keys {
					if keys[i] == d && !sel[i] {
						sel[i], found = true, true
						break
					}
				}
				if !found {
					return map[string]any{"error": "janitor selected a key that is not in the map"}
				}
			}
			return map[string]any{"jan": sel}
		}
		if in.Slots != nil {
			keys := make([]uint32, 0, len(in.Slots))
			for _, q := range in.Slots {
				nt := &dialer.NetworkType{L4Proto: consts.L4ProtoStr_TCP, IpVersion: consts.IpVersionStr_4}
				if q[2] == 1 {
					nt.IpVersion = consts.IpVersionStr_6
				}
				switch q[1] {
				case 1:
					nt.L4Proto = consts.L4ProtoStr_UDP
					nt.UdpHealthDomain = dialer.UdpHealthDomainDns
					nt.IsDns = true
				case 2:
					nt.L4Proto = consts.L4ProtoStr_UDP
					nt.UdpHealthDomain = dialer.UdpHealthDomainData
				}
				keys = append(keys, outboundConnectivityMapKey(uint8(q[0]), nt))
			}
			return map[string]any{"slots": keys}
		}
		if in.Layout {
			var cs bpfConnState
			var he bpfRoutingHandoffEntry
			var tk bpfTuplesKey
			return map[string]any{"layout": map[string][]uintptr{
				"conn_state": {unsafe.Sizeof(cs), unsafe.Offsetof(cs.IsWanIngressDirection), unsafe.Offsetof(cs.State),
					unsafe.Offsetof(cs.LastSeenNs), unsafe.Offsetof(cs.Meta) + unsafe.Offsetof(cs.Meta.Data) + unsafe.Offsetof(cs.Meta.Data.Mark),
					unsafe.Offsetof(cs.Meta) + unsafe.Offsetof(cs.Meta.Data) + unsafe.Offsetof(cs.Meta.Data.Outbound),
					unsafe.Offsetof(cs.Meta) + unsafe.Offsetof(cs.Meta.Data) + unsafe.Offsetof(cs.Meta.Data.Must),
					unsafe.Offsetof(cs.Meta) + unsafe.Offsetof(cs.Meta.Data) + unsafe.Offsetof(cs.Meta.Data.Dscp),
					unsafe.Offsetof(cs.Meta) + unsafe.Offsetof(cs.Meta.Data) + unsafe.Offsetof(cs.Meta.Data.HasRouting),
					unsafe.Offsetof(cs.Mac), unsafe.Offsetof(cs.Pname), unsafe.Offsetof(cs.Pid)},
				"handoff": {unsafe.Sizeof(he), unsafe.Offsetof(he.LastSeenNs), unsafe.Offsetof(he.Result),
					unsafe.Offsetof(he.Result.Mark), unsafe.Offsetof(he.Result.Must), unsafe.Offsetof(he.Result.Mac),
					unsafe.Offsetof(he.Result.Outbound), unsafe.Offsetof(he.Result.Pname), unsafe.Offsetof(he.Result.Pid),
					unsafe.Offsetof(he.Result.Dscp)},
				"tuples_key": {unsafe.Sizeof(tk), unsafe.Offsetof(tk.Sip), unsafe.Offsetof(tk.Dip), unsafe.Offsetof(tk.Sport),
					unsafe.Offsetof(tk.Dport), unsafe.Offsetof(tk.L4proto)},
			}}
		}
		conn := map[string]bpfConnState{}
		hand := map[string]bpfRoutingHandoffEntry{}
		connOut := []map[string]any{}
		handOut := []map[string]any{}
		for _, kv := range in.Conn {
			b, _ := hex.DecodeString(kv[1])
			cs, err := c03DecodeConn(b)
			if err != nil {
				return map[string]any{"error": err.Error()}
			}
			conn[kv[0]] = cs
			connOut = append(connOut, map[string]any{"k": kv[0], "wan": cs.IsWanIngressDirection, "state": cs.State,
				"last": cs.LastSeenNs, "mark": cs.Meta.Data.Mark, "out": cs.Meta.Data.Outbound, "must": cs.Meta.Data.Must,
				"dscp": cs.Meta.Data.Dscp, "has": cs.Meta.Data.HasRouting, "mac": hex.EncodeToString(cs.Mac[:]),
				"pname": hex.EncodeToString(cs.Pname[:]), "pid": cs.Pid})
		}
		for _, kv := range in.Hand {
			b, _ := hex.DecodeString(kv[1])
			e, err := c03DecodeHand(b)
			if err != nil {
				return map[string]any{"error": err.Error()}
			}
			hand[kv[0]] = e
			handOut = append(handOut, map[string]any{"k": kv[0], "last": e.LastSeenNs, "res": c03ResOf(e.Result)})
		}
		// dae's recoveries through the lifted text of controlPlaneCore.RetrieveRoutingResult /
		// retrieveEmbeddedRoutingResult / retrieveRoutingHandoffResult (zz_verif_c03_lifted_test.go, generated by
		// tools/c03.py from control/utils.go with only the receiver type, the map type and the clock replaced),
		// all on one instance of the two maps: what one recovery does to the maps is seen by the next.
		core := &c03Core{}
		core.bpf.o = &c03Objs{ConnStateMap: &c03Map{m: map[string][]byte{}}, RoutingHandoffMap: &c03Map{m: map[string][]byte{}}}
		for _, kv := range in.Conn {
			b, _ := hex.DecodeString(kv[1])
			core.bpf.o.ConnStateMap.m[kv[0]] = b
		}
		for _, kv := range in.Hand {
			b, _ := hex.DecodeString(kv[1])
			core.bpf.o.RoutingHandoffMap.m[kv[0]] = b
		}
		c03Clock = in.Now
		realOut := []map[string]any{}
		for _, f := range append(append([]c03Flow{}, in.Recov...), in.Flows...) {
			src, err1 := c03AddrPort(f.Sip, f.Sport)
			dst, err2 := c03AddrPort(f.Dip, f.Dport)
			if err1 != nil || err2 != nil {
				return map[string]any{"error": "bad flow address"}
			}
			key := bpfTuplesKeyFromAddrPorts(src, dst, f.Proto)
			kh := hex.EncodeToString((*[unsafe.Sizeof(key)]byte)(unsafe.Pointer(&key))[:])
			rr, err := core.RetrieveRoutingResult(src, dst, f.Proto)
			var res *c03Res
			if err == nil && rr != nil {
				res = c03ResOf(*rr)
			} else if err != nil && !stderrors.Is(err, ebpf.ErrKeyNotExist) {
				return map[string]any{"error": "RetrieveRoutingResult: " + err.Error()}
			}
			realOut = append(realOut, map[string]any{"key": kh, "res": res})
		}
		flows := []map[string]any{}
		for _, f := range in.Flows {
			src, err1 := c03AddrPort(f.Sip, f.Sport)
			dst, err2 := c03AddrPort(f.Dip, f.Dport)
			if err1 != nil || err2 != nil {
				return map[string]any{"error": "bad flow address"}
			}
			key := bpfTuplesKeyFromAddrPorts(src, dst, f.Proto)
			kh := hex.EncodeToString((*[unsafe.Sizeof(key)]byte)(unsafe.Pointer(&key))[:])
			var res *c03Res
			// controlPlaneCore.RetrieveRoutingResult: embedded conn-state result first ...
			if cs, ok := conn[kh]; ok && cs.Meta.Data.HasRouting != 0 && (f.Proto == 6 || f.Proto == 17) {
				res = c03ResOf(routingResultFromConnState(cs.Meta.Data.Mark, cs.Meta.Data.Must, cs.Meta.Data.Outbound,
					cs.Mac, cs.Meta.Data.Dscp, cs.Pname, cs.Pid))
			} else if e, ok := hand[kh]; ok && !routingHandoffExpired(in.Now, e.LastSeenNs) {
				// ... then the tuple-miss handoff entry
				res = c03ResOf(routingResultFromConnState(e.Result.Mark, e.Result.Must, e.Result.Outbound, e.Result.Mac,
					e.Result.Dscp, e.Result.Pname, e.Result.Pid))
			}
			flows = append(flows, map[string]any{"key": kh, "res": res})
		}
		return map[string]any{"conn": connOut, "hand": handOut, "flows": flows, "real": realOut}
	})
}

// ---- map and clock stand-ins the lifted functions run on ----
var c03Clock uint64

func c03MonotonicNowNano() (uint64, error) { return c03Clock, nil }

func c03ClockGettime(ts *unix.Timespec) error {
	ts.Sec = int64(c03Clock / 1000000000)
	ts.Nsec = int64(c03Clock % 1000000000)
	return nil
}

type c03JanLog struct{}

func (c03JanLog) Errorf(format string, args ...any) {}

type c03JanCtx struct{ log c03JanLog }

type c03Map struct{ m map[string][]byte }

func c03KeyHex(key any) (string, error) {
	k, ok := key.(*bpfTuplesKey)
	if !ok {
		return "", fmt.Errorf("c03Map: unexpected key type %T", key)
	}
	return hex.EncodeToString((*[unsafe.Sizeof(*k)]byte)(unsafe.Pointer(k))[:]), nil
}

func (m *c03Map) Lookup(key any, out any) error {
	kh, err := c03KeyHex(key)
	if err != nil {
		return err
	}
	v, ok := m.m[kh]
	if !ok {
		return ebpf.ErrKeyNotExist
	}
	switch o := out.(type) {
	case *bpfConnState:
		cs, err := c03DecodeConn(v)
		if err != nil {
			return err
		}
		*o = cs
	case *bpfRoutingHandoffEntry:
		e, err := c03DecodeHand(v)
		if err != nil {
			return err
		}
		*o = e
	default:
		return fmt.Errorf("c03Map: unexpected value type %T", out)
	}
	return nil
}

func (m *c03Map) Delete(key any) error {
	kh, err := c03KeyHex(key)
	if err != nil {
		return err
	}
	if _, ok := m.m[kh]; !ok {
		return ebpf.ErrKeyNotExist
	}
	delete(m.m, kh)
	return nil
}

type c03Objs struct {
	ConnStateMap      *c03Map
	RoutingHandoffMap *c03Map
}
type c03Holder struct{ o *c03Objs }

func (h *c03Holder) Load() *c03Objs { return h.o }

type c03Core struct{ bpf c03Holder }
