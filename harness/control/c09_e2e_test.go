//go:build verif

package control

// C09 full-stack replays: real DnsController + real DoUDP / DoTCP (pipelinedConn) over in-memory fake
// upstreams.  Sequential client queries; the upstream follows a per-query script of messages sent on
// receipt of the query (message id -1 = the wire id of the query just received).

import (
	"context"
	"encoding/binary"
	"fmt"
	"io"
	"net"
	"net/netip"
	"sort"
	"sync"
	"time"

	"github.com/daeuniverse/dae/common/consts"
	componentdns "github.com/daeuniverse/dae/component/dns"
	"github.com/daeuniverse/dae/config"
	"github.com/daeuniverse/outbound/netproxy"
	dnsmessage "github.com/miekg/dns"
	"github.com/sirupsen/logrus"
)

type c09E2EQuery struct {
	ID     int        `json:"id"`
	Name   string     `json:"name"`
	QType  uint16     `json:"qtype"`
	Script []c09Dgram `json:"script"`
}

type c09E2ECase struct {
	Proto   string        `json:"proto"` // udp | tcp
	Queries []c09E2EQuery `json:"queries"`
}

type c09E2EResult struct {
	Kind    string          `json:"kind"`
	Replies []c09Outcome    `json:"replies"`
	Cache   []c09CacheEntry `json:"cache"`
	Stuck   bool            `json:"stuck,omitempty"`
	Dump    string          `json:"dump,omitempty"`
	Panic   string          `json:"panic,omitempty"`
}

func c09ScriptBytes(script []c09Dgram, wireID int) [][]byte {
	out := [][]byte{}
	for _, dg := range script {
		d := dg
		if d.T == "msg" && d.M != nil && d.M.ID < 0 {
			m := *d.M
			m.ID = wireID
			d.M = &m
		}
		out = append(out, d.bytes())
	}
	return out
}

func c09RunE2E(cs c09E2ECase) (res c09E2EResult) {
	res.Kind = "e2e"
	defer func() {
		if r := recover(); r != nil {
			res.Panic = fmt.Sprint(r)
		}
	}()
	log := logrus.New()
	log.SetOutput(io.Discard)
	scheme := "udp"
	if cs.Proto == "tcp" {
		scheme = "tcp"
	}
	routing, err := componentdns.New(&config.Dns{
		Upstream: []config.KeyableString{config.KeyableString("u:" + scheme + "://198.51.100.53:53")},
		Routing: config.DnsRouting{
			Request:  config.DnsRequestRouting{Fallback: "u"},
			Response: config.DnsResponseRouting{Fallback: "accept"},
		},
	}, &componentdns.NewOption{Logger: log, UpstreamReadyCallback: func(*componentdns.Upstream) error { return nil }})
	if err != nil {
		panic(err)
	}
	addr := netip.MustParseAddrPort("198.51.100.53:53")
	var mu sync.Mutex
	var cur []c09Dgram
	takeScript := func() []c09Dgram {
		mu.Lock()
		defer mu.Unlock()
		s := cur
		cur = nil
		return s
	}
	original := dnsForwarderFactory
	defer func() { dnsForwarderFactory = original }()
	dnsForwarderFactory = func(upstream *componentdns.Upstream, dialArg dialArgument, _ *logrus.Logger) (DnsForwarder, error) {
		if dialArg.l4proto == consts.L4ProtoStr_TCP {
			d := &DoTCP{Upstream: *upstream, dialArgument: dialArg}
			d.getOrInit(func() *connPool {
				return newConnPool(4, func(context.Context) (netproxy.Conn, error) {
					cli, srv := net.Pipe()
					go func() {
						defer srv.Close()
						for {
							var hdr [2]byte
							if _, err := io.ReadFull(srv, hdr[:]); err != nil {
								return
							}
							buf := make([]byte, binary.BigEndian.Uint16(hdr[:]))
							if _, err := io.ReadFull(srv, buf); err != nil {
								return
							}
							wire := int(binary.BigEndian.Uint16(buf[:2]))
							for _, b := range c09ScriptBytes(takeScript(), wire) {
								f := make([]byte, 2+len(b))
								binary.BigEndian.PutUint16(f, uint16(len(b)))
								copy(f[2:], b)
								_ = srv.SetWriteDeadline(time.Now().Add(c09D(30 * time.Second)))
								if _, err := srv.Write(f); err != nil {
									return
								}
							}
						}
					}()
					return cli, nil
				})
			})
			return d, nil
		}
		d := &DoUDP{Upstream: *upstream, dialArgument: dialArg}
		d.pool = newUdpConnPool(dnsUdpPoolMaxIdle, dnsUdpPoolMaxActive, func(context.Context) (netproxy.Conn, error) {
			s := &c09Sock{addr: addr}
			s.onWrite = func() [][]byte { return nil }
			return s, nil
		})
		return &c09UdpScripted{DoUDP: d, take: takeScript}, nil
	}
	ctrl, err := NewDnsController(routing, &DnsControllerOption{
		Log:                 log,
		LifecycleContext:    context.Background(),
		CacheAccessCallback: func(*DnsCache) error { return nil },
		CacheRemoveCallback: func(*DnsCache) error { return nil },
		NewCache: func(fqdn string, answers, ns, extra []dnsmessage.RR, deadline, originalDeadline time.Time) (*DnsCache, error) {
			return &DnsCache{Answer: answers, NS: ns, Extra: extra, Deadline: deadline, OriginalDeadline: originalDeadline}, nil
		},
		BestDialerChooser: func(ctx context.Context, req *udpRequest, upstream *componentdns.Upstream) (*dialArgument, error) {
			l4 := consts.L4ProtoStr_UDP
			if cs.Proto == "tcp" {
				l4 = consts.L4ProtoStr_TCP
			}
			return &dialArgument{l4proto: l4, ipversion: consts.IpVersionStr_4, bestTarget: addr}, nil
		},
		TimeoutExceedCallback: func(*dialArgument, error) {},
	})
	if err != nil {
		panic(err)
	}
	defer ctrl.Close()
	req := &udpRequest{realSrc: netip.MustParseAddrPort("192.0.2.10:41000"), realDst: netip.MustParseAddrPort("192.0.2.1:53"), routingResult: &bpfRoutingResult{}}
	for _, q := range cs.Queries {
		mu.Lock()
		cur = q.Script
		mu.Unlock()
		w := &c09Writer{}
		done := make(chan error, 1)
		go func() {
			defer func() {
				if r := recover(); r != nil {
					done <- fmt.Errorf("panic: %v", r)
				}
			}()
			done <- ctrl.HandleWithResponseWriter_(context.Background(), c09Query(q.ID, q.Name, q.QType), req, w)
		}()
		var herr error
		select {
		case herr = <-done:
		case <-time.After(c09D(60 * time.Second)):
			herr = fmt.Errorf("c09: handler did not return")
			res.Stuck = true
			res.Dump = c09Dump()
		}
		switch {
		case len(w.msgs) > 0:
			res.Replies = append(res.Replies, c09Outcome{Res: "reply", M: c09Decode(w.msgs[0])})
		case herr != nil:
			res.Replies = append(res.Replies, c09Outcome{Res: "error", Err: herr.Error()})
		default:
			res.Replies = append(res.Replies, c09Outcome{Res: "none"})
		}
	}
	ctrl.dnsCache.Range(func(k, v any) bool {
		cache := v.(*DnsCache)
		e := c09CacheEntry{Key: k.(string), Ans: c09Decode(&dnsmessage.Msg{Answer: cache.Answer}).Ans, Deadline: cache.deadlineNano.Load() != 0}
		res.Cache = append(res.Cache, e)
		return true
	})
	sort.Slice(res.Cache, func(i, j int) bool { return res.Cache[i].Key < res.Cache[j].Key })
	return res
}

// c09UdpScripted wraps the real DoUDP: before each exchange it arms the pooled (or freshly dialed)
// in-memory socket with the datagrams the upstream will send for this query.
type c09UdpScripted struct {
	*DoUDP
	take func() []c09Dgram
}

func (f *c09UdpScripted) ForwardDNS(ctx context.Context, data []byte) (*dnsmessage.Msg, error) {
	script := f.take()
	wire := 0
	if len(data) >= 2 {
		wire = int(binary.BigEndian.Uint16(data[:2]))
	}
	arm := func(s *c09Sock) {
		s.mu.Lock()
		s.onWrite = func() [][]byte {
			s.onWrite = func() [][]byte { return nil }
			return c09ScriptBytes(script, wire)
		}
		s.mu.Unlock()
	}
	pool := f.DoUDP.getPool()
	// arm the idle socket, if there is one (peek by cycling the idle channel), and future dials
	select {
	case idle := <-pool.idleConns:
		if s, ok := idle.conn.(*c09Sock); ok {
			arm(s)
		}
		pool.idleConns <- idle
	default:
	}
	prev := pool.dialer
	pool.dialer = func(c context.Context) (netproxy.Conn, error) {
		conn, err := prev(c)
		if s, ok := conn.(*c09Sock); ok {
			arm(s)
		}
		return conn, err
	}
	defer func() { pool.dialer = prev }()
	return f.DoUDP.ForwardDNS(ctx, data)
}
