//go:build verif

package control

// C09 harness: drives the real cachedDnsForwarder (through yield points injected by the check's
// source overlay), the real pipelinedConn over net.Pipe, the real DoUDP receive loop over in-memory
// pooled sockets, and the real DnsController.HandleWithResponseWriter_ with scripted forwarders.

import (
	"context"
	"encoding/binary"
	"encoding/json"
	"errors"
	"fmt"
	"io"
	"net"
	"net/netip"
	"os"
	"runtime"
	"sort"
	"strconv"
	"strings"
	"sync"
	"sync/atomic"
	"testing"
	"time"

	"github.com/daeuniverse/dae/common/consts"
	componentdns "github.com/daeuniverse/dae/component/dns"
	"github.com/daeuniverse/dae/config"
	"github.com/daeuniverse/outbound/netproxy"
	dnsmessage "github.com/miekg/dns"
	"github.com/sirupsen/logrus"
)

// ---------------------------------------------------------------------------------------------
// messages
// ---------------------------------------------------------------------------------------------

type c09RR struct {
	Name   string `json:"name"`
	Type   uint16 `json:"type"`
	Serial int    `json:"serial"`
}

type c09Msg struct {
	ID     int     `json:"id"`
	IDOf   *int    `json:"idof,omitempty"` // pipe: use the wire id of this client's request
	NoQ    bool    `json:"noq,omitempty"`
	QName  string  `json:"qname"`
	QType  uint16  `json:"qtype"`
	QClass uint16  `json:"qclass"`
	Rcode  int     `json:"rcode"`
	TC     bool    `json:"tc"`
	Ans    []c09RR `json:"ans"`
}

func c09MakeRR(r c09RR) dnsmessage.RR {
	hi, lo := byte(r.Serial>>8), byte(r.Serial)
	switch r.Type {
	case dnsmessage.TypeAAAA:
		ip := make(net.IP, 16)
		ip[0], ip[1], ip[14], ip[15] = 0x20, 0x01, hi, lo
		return &dnsmessage.AAAA{Hdr: dnsmessage.RR_Header{Name: r.Name, Rrtype: r.Type, Class: dnsmessage.ClassINET, Ttl: 3600}, AAAA: ip}
	case dnsmessage.TypeTXT:
		return &dnsmessage.TXT{Hdr: dnsmessage.RR_Header{Name: r.Name, Rrtype: r.Type, Class: dnsmessage.ClassINET, Ttl: 3600}, Txt: []string{"s" + strconv.Itoa(r.Serial)}}
	default:
		return &dnsmessage.A{Hdr: dnsmessage.RR_Header{Name: r.Name, Rrtype: dnsmessage.TypeA, Class: dnsmessage.ClassINET, Ttl: 3600}, A: net.IP{10, 9, hi, lo}}
	}
}

func c09Build(m c09Msg) *dnsmessage.Msg {
	msg := new(dnsmessage.Msg)
	msg.Id = uint16(m.ID)
	msg.Response = true
	msg.RecursionAvailable = true
	msg.Rcode = m.Rcode
	msg.Truncated = m.TC
	if !m.NoQ {
		qc := m.QClass
		if qc == 0 {
			qc = dnsmessage.ClassINET
		}
		msg.Question = []dnsmessage.Question{{Name: m.QName, Qtype: m.QType, Qclass: qc}}
	}
	for _, r := range m.Ans {
		msg.Answer = append(msg.Answer, c09MakeRR(r))
	}
	return msg
}

func c09Decode(msg *dnsmessage.Msg) *c09Msg {
	if msg == nil {
		return nil
	}
	out := &c09Msg{ID: int(msg.Id), Rcode: msg.Rcode, TC: msg.Truncated, Ans: []c09RR{}}
	if len(msg.Question) == 0 {
		out.NoQ = true
	} else {
		out.QName, out.QType, out.QClass = msg.Question[0].Name, msg.Question[0].Qtype, msg.Question[0].Qclass
	}
	for _, rr := range msg.Answer {
		r := c09RR{Name: strings.ToLower(rr.Header().Name), Type: rr.Header().Rrtype, Serial: -1}
		switch b := rr.(type) {
		case *dnsmessage.A:
			if ip := b.A.To4(); ip != nil {
				r.Serial = int(ip[2])<<8 | int(ip[3])
			}
		case *dnsmessage.AAAA:
			if len(b.AAAA) == 16 {
				r.Serial = int(b.AAAA[14])<<8 | int(b.AAAA[15])
			}
		case *dnsmessage.TXT:
			if len(b.Txt) > 0 {
				r.Serial, _ = strconv.Atoi(strings.TrimPrefix(b.Txt[0], "s"))
			}
		}
		out.Ans = append(out.Ans, r)
	}
	return out
}

func c09Query(id int, name string, qtype uint16) *dnsmessage.Msg {
	q := new(dnsmessage.Msg)
	q.Id = uint16(id)
	q.RecursionDesired = true
	q.Question = []dnsmessage.Question{{Name: name, Qtype: qtype, Qclass: dnsmessage.ClassINET}}
	return q
}

// ---------------------------------------------------------------------------------------------
// cooperative scheduler over VerifYield
// ---------------------------------------------------------------------------------------------

func c09Goid() int64 {
	var buf [64]byte
	n := runtime.Stack(buf[:], false)
	f := strings.Fields(string(buf[:n]))
	if len(f) < 2 {
		return -1
	}
	id, _ := strconv.ParseInt(f[1], 10, 64)
	return id
}

type c09Thread struct {
	fail     bool
	result   int
	release  chan struct{}
	parked   chan string
	done     chan struct{}
	finished bool
	at       string
	ok       bool
}

type c09Sched struct {
	mu      sync.Mutex
	threads map[int64]*c09Thread
}

func (s *c09Sched) yield(point string) {
	s.mu.Lock()
	th := s.threads[c09Goid()]
	s.mu.Unlock()
	if th == nil {
		return
	}
	th.parked <- point
	<-th.release
}

func (s *c09Sched) current() *c09Thread {
	s.mu.Lock()
	defer s.mu.Unlock()
	return s.threads[c09Goid()]
}

func (s *c09Sched) spawn(body func(th *c09Thread)) *c09Thread {
	th := &c09Thread{release: make(chan struct{}), parked: make(chan string), done: make(chan struct{})}
	go func() {
		id := c09Goid()
		s.mu.Lock()
		s.threads[id] = th
		s.mu.Unlock()
		s.yield("start")
		body(th)
		s.mu.Lock()
		delete(s.threads, id)
		s.mu.Unlock()
		close(th.done)
	}()
	th.at = <-th.parked
	return th
}

// step lets the thread run up to its next yield point (one atomic operation of the code under test).
func (s *c09Sched) step(th *c09Thread) {
	if th.finished {
		return
	}
	th.release <- struct{}{}
	select {
	case p := <-th.parked:
		th.at = p
	case <-th.done:
		th.finished = true
		th.at = "done"
	}
}

// c09D scales every real-time deadline of the harness by $VERIF_WAIT_SCALE (the driver re-runs a case that
// reported stuck with scale 4 and 16 before it believes it).  No verdict depends on a deadline elapsing:
// all waits are for events; a deadline that does elapse marks the result as stuck.
func c09D(d time.Duration) time.Duration {
	if v, err := strconv.Atoi(os.Getenv("VERIF_WAIT_SCALE")); err == nil && v > 1 {
		return d * time.Duration(v)
	}
	return d
}

func c09Dump() string {
	buf := make([]byte, 1<<20)
	n := runtime.Stack(buf, true)
	if n > 20000 {
		n = 20000
	}
	return string(buf[:n])
}

// verifYieldTrue is referenced by the instrumented copy of endUse (see tools/c09.py).
func verifYieldTrue(point string) bool {
	verifYield(point)
	return true
}

// ---------------------------------------------------------------------------------------------
// kind "fwd": forwarder lifecycle
// ---------------------------------------------------------------------------------------------

type c09CountingForwarder struct {
	inUse         atomic.Int32
	closes        atomic.Int32
	closeInFlight atomic.Bool
}

func (f *c09CountingForwarder) ForwardDNS(ctx context.Context, data []byte) (*dnsmessage.Msg, error) {
	f.inUse.Add(1)
	if f.closes.Load() > 0 { // a query entered a forwarder that is already closed
		f.closeInFlight.Store(true)
	}
	verifYield("fwd.using")
	f.inUse.Add(-1)
	return nil, nil
}

func (f *c09CountingForwarder) Close() error {
	f.closes.Add(1)
	if f.inUse.Load() > 0 {
		f.closeInFlight.Store(true)
	}
	return nil
}

type c09FwdResult struct {
	Kind          string     `json:"kind"`
	Effective     [][]any    `json:"effective"` // schedule actually executed, including the final drain
	Trace         []string   `json:"trace"`     // where the stepped thread parked after each event
	Users         []string   `json:"users"`     // ok / fail per user
	Closes        int        `json:"closes"`
	CloseInFlight bool       `json:"close_in_flight"`
	InFlight      int        `json:"inflight"`
	Retired       bool       `json:"retired"`
	Instrumented  bool       `json:"instrumented"`
	Panic         string     `json:"panic,omitempty"`
}

func c09RunFwd(events [][]any) (res c09FwdResult) {
	res.Kind = "fwd"
	defer func() {
		if r := recover(); r != nil {
			res.Panic = fmt.Sprint(r)
		}
	}()
	sched := &c09Sched{threads: map[int64]*c09Thread{}}
	VerifYield = sched.yield
	defer func() { VerifYield = nil }()
	fake := &c09CountingForwarder{}
	entry := newCachedDnsForwarder(fake, time.Now())
	var users, rets []*c09Thread
	getUser := func(i int) *c09Thread {
		for len(users) <= i {
			users = append(users, sched.spawn(func(th *c09Thread) {
				if entry.beginUse() {
					th.ok = true
					_, _ = entry.forwarder.ForwardDNS(context.Background(), nil)
					entry.endUse()
				}
			}))
		}
		return users[i]
	}
	getRet := func(j int) *c09Thread {
		for len(rets) <= j {
			rets = append(rets, sched.spawn(func(th *c09Thread) { _ = entry.retire() }))
		}
		return rets[j]
	}
	do := func(kind string, i int) {
		var th *c09Thread
		if kind == "u" {
			th = getUser(i)
		} else {
			th = getRet(i)
		}
		sched.step(th)
		res.Effective = append(res.Effective, []any{kind, i})
		res.Trace = append(res.Trace, th.at)
		if th.at == "fwd.begin.after_load" || th.at == "fwd.retire.after_store" {
			res.Instrumented = true
		}
	}
	for _, e := range events {
		kind, _ := e[0].(string)
		idx, _ := e[1].(float64)
		do(kind, int(idx))
	}
	// drain: run every started thread to completion, one thread after the other (users first)
	for i, th := range users {
		for !th.finished {
			do("u", i)
		}
	}
	for j, th := range rets {
		for !th.finished {
			do("r", j)
		}
	}
	for _, th := range users {
		if th.ok {
			res.Users = append(res.Users, "ok")
		} else {
			res.Users = append(res.Users, "fail")
		}
	}
	res.Closes = int(fake.closes.Load())
	res.CloseInFlight = fake.closeInFlight.Load()
	res.InFlight = int(entry.inFlight.Load())
	res.Retired = entry.retired.Load()
	return res
}

// ---------------------------------------------------------------------------------------------
// kind "fcache": the forwarder cache of DnsController (getOrCreate / use / retire-by-key / retireAll / closeAll)
// ---------------------------------------------------------------------------------------------

type c09Inst struct {
	id     int
	sched  *c09Sched
	inUse  atomic.Int32
	closes atomic.Int32
	cif    atomic.Bool
}

func (f *c09Inst) ForwardDNS(ctx context.Context, data []byte) (*dnsmessage.Msg, error) {
	f.inUse.Add(1)
	if f.closes.Load() > 0 {
		f.cif.Store(true)
	}
	verifYield("fcache.using")
	f.inUse.Add(-1)
	if th := f.sched.current(); th != nil && th.fail {
		return nil, fmt.Errorf("c09: scripted upstream failure")
	}
	return c09Build(c09Msg{ID: 1, QName: "x.", QType: 1}), nil
}

func (f *c09Inst) Close() error {
	f.closes.Add(1)
	if f.inUse.Load() > 0 {
		f.cif.Store(true)
	}
	return nil
}

type c09FcacheResult struct {
	Kind      string   `json:"kind"`
	Effective [][]any  `json:"effective"`
	Trace     []string `json:"trace"`
	Results   []int    `json:"results"`   // per query: 0 answered, 1 forward error, 2 retired before start
	Closes    []int    `json:"closes"`    // per instance, in creation order
	Cif       []bool   `json:"cif"`       // per instance: closed while a query was inside it / used after close
	Cached    int      `json:"cached"`    // entries left in dnsForwarderCache after closeAll
	Panic     string   `json:"panic,omitempty"`
}

func c09RunFcache(events [][]any) (res c09FcacheResult) {
	res.Kind = "fcache"
	defer func() {
		if r := recover(); r != nil {
			res.Panic = fmt.Sprint(r)
		}
	}()
	sched := &c09Sched{threads: map[int64]*c09Thread{}}
	// the atomic operations inside beginUse/endUse/retire are not scheduling points of this family
	VerifYield = func(point string) {
		if strings.HasPrefix(point, "fwd.") {
			return
		}
		sched.yield(point)
	}
	defer func() { VerifYield = nil }()
	log := logrus.New()
	log.SetOutput(io.Discard)
	var imu sync.Mutex
	var insts []*c09Inst
	original := dnsForwarderFactory
	defer func() { dnsForwarderFactory = original }()
	dnsForwarderFactory = func(upstream *componentdns.Upstream, dialArg dialArgument, _ *logrus.Logger) (DnsForwarder, error) {
		verifYield("fcache.factory")
		imu.Lock()
		defer imu.Unlock()
		in := &c09Inst{id: len(insts), sched: sched}
		insts = append(insts, in)
		return in, nil
	}
	ctrl, err := NewDnsController(nil, &DnsControllerOption{Log: log, LifecycleContext: context.Background(),
		TimeoutExceedCallback: func(*dialArgument, error) {}})
	if err != nil {
		panic(err)
	}
	defer ctrl.Close()
	upstream := &componentdns.Upstream{Scheme: componentdns.UpstreamScheme_UDP, Hostname: "198.51.100.53", Port: 53}
	dialArg := &dialArgument{l4proto: consts.L4ProtoStr_UDP, ipversion: consts.IpVersionStr_4, bestTarget: netip.MustParseAddrPort("198.51.100.53:53")}
	data, _ := c09Query(7, "x.", 1).Pack()
	var qs []*c09Thread
	stepQ := func(t int) {
		if t < 0 || t >= len(qs) {
			return
		}
		sched.step(qs[t])
		res.Effective = append(res.Effective, []any{"q", t})
		res.Trace = append(res.Trace, qs[t].at)
	}
	for _, e := range events {
		kind, _ := e[0].(string)
		switch kind {
		case "s":
			fail, _ := e[1].(bool)
			th := sched.spawn(func(th *c09Thread) {
				_, err := ctrl.forwardWithDialArg(context.Background(), upstream, dialArg, data)
				switch {
				case err == nil:
					th.result = 0
				case strings.Contains(err.Error(), "retired before request could start"):
					th.result = 2
				default:
					th.result = 1
				}
			})
			th.fail = fail
			qs = append(qs, th)
			res.Effective = append(res.Effective, []any{"s", fail})
		case "q":
			idx, _ := e[1].(float64)
			stepQ(int(idx))
		case "reload":
			_ = ctrl.retireAllDnsForwarders()
			res.Effective = append(res.Effective, []any{"reload"})
		}
	}
	for t, th := range qs {
		for !th.finished {
			stepQ(t)
		}
	}
	_ = ctrl.closeAllDnsForwarders()
	res.Effective = append(res.Effective, []any{"closeall"})
	for _, th := range qs {
		res.Results = append(res.Results, th.result)
	}
	for _, in := range insts {
		res.Closes = append(res.Closes, int(in.closes.Load()))
		res.Cif = append(res.Cif, in.cif.Load())
	}
	ctrl.dnsForwarderCache.Range(func(k, v any) bool { res.Cached++; return true })
	return res
}

// ---------------------------------------------------------------------------------------------
// kind "pipe": pipelinedConn
// ---------------------------------------------------------------------------------------------

type c09PipeEvent struct {
	Op    string  `json:"op"` // start | resp | timeout | finish (output only)
	C     int     `json:"c"`
	Name  string  `json:"name,omitempty"`
	QType uint16  `json:"qtype,omitempty"`
	M     *c09Msg `json:"m,omitempty"`
}

type c09PipeClient struct {
	C      int     `json:"c"`
	WireID int     `json:"wire_id"`
	Res    string  `json:"res"` // ok | err | pending
	Err    string  `json:"err,omitempty"`
	M      *c09Msg `json:"m,omitempty"`
}

type c09PipeResult struct {
	Kind      string          `json:"kind"`
	Effective []c09PipeEvent  `json:"effective"`
	Clients   []c09PipeClient `json:"clients"`
	Closed    bool            `json:"closed"`
	Stuck     bool            `json:"stuck,omitempty"`
	Dump      string          `json:"dump,omitempty"`
	ElapsedMs int64           `json:"elapsed_ms"`
	Panic     string          `json:"panic,omitempty"`
}

type c09rt struct {
	msg *dnsmessage.Msg
	err error
}

func c09RunPipe(events []c09PipeEvent) (res c09PipeResult) {
	res.Kind = "pipe"
	t0 := time.Now()
	defer func() { res.ElapsedMs = time.Since(t0).Milliseconds() }()
	defer func() {
		if r := recover(); r != nil {
			res.Panic = fmt.Sprint(r)
		}
	}()
	cli, srv := net.Pipe()
	pc := newPipelinedConn(cli)
	defer pc.Close()
	defer srv.Close()
	type frame struct {
		id   int
		name string
	}
	frames := make(chan frame, 64)
	go func() {
		for {
			var hdr [2]byte
			if _, err := io.ReadFull(srv, hdr[:]); err != nil {
				close(frames)
				return
			}
			buf := make([]byte, binary.BigEndian.Uint16(hdr[:]))
			if _, err := io.ReadFull(srv, buf); err != nil {
				close(frames)
				return
			}
			var m dnsmessage.Msg
			_ = m.Unpack(buf)
			frames <- frame{id: int(m.Id)}
		}
	}()
	type client struct {
		out    chan c09rt
		cancel context.CancelFunc
		wire   int
		done   bool
		rec    c09PipeClient
	}
	clients := map[int]*client{}
	order := []int{}
	owner := map[int]int{} // wire id -> client currently believed to hold it
	isClosed := func() bool {
		select {
		case <-pc.closed:
			return true
		default:
			return false
		}
	}
	collect := func(c int, wait time.Duration) bool {
		cl := clients[c]
		if cl == nil || cl.done {
			return false
		}
		select {
		case r := <-cl.out:
			cl.done = true
			if r.err != nil {
				cl.rec.Res, cl.rec.Err = "err", r.err.Error()
			} else {
				cl.rec.Res, cl.rec.M = "ok", c09Decode(r.msg)
			}
			if owner[cl.wire] == c {
				delete(owner, cl.wire)
			}
			res.Effective = append(res.Effective, c09PipeEvent{Op: "finish", C: c})
			return true
		case <-time.After(c09D(wait)):
			res.Stuck = true
			if res.Dump == "" {
				res.Dump = c09Dump()
			}
			return false
		}
	}
	writeFrame := func(m *dnsmessage.Msg) {
		b, err := m.Pack()
		if err != nil {
			panic(err)
		}
		buf := make([]byte, 2+len(b))
		binary.BigEndian.PutUint16(buf, uint16(len(b)))
		copy(buf[2:], b)
		_ = srv.SetWriteDeadline(time.Now().Add(c09D(30 * time.Second)))
		_, _ = srv.Write(buf)
	}
	doTimeout := func(c int) {
		cl := clients[c]
		if cl == nil || cl.done {
			return
		}
		res.Effective = append(res.Effective, c09PipeEvent{Op: "timeout", C: c})
		cl.cancel()
		collect(c, 30*time.Second)
		for _, o := range order {
			collect(o, 30*time.Second)
		}
	}
	for _, e := range events {
		switch e.Op {
		case "start":
			if clients[e.C] != nil {
				continue
			}
			ctx, cancel := context.WithCancel(context.Background())
			cl := &client{out: make(chan c09rt, 1), cancel: cancel, wire: -1, rec: c09PipeClient{C: e.C, WireID: -1, Res: "pending"}}
			clients[e.C] = cl
			order = append(order, e.C)
			data, _ := c09Query(0x7777, e.Name, e.QType).Pack()
			go func() {
				m, err := pc.RoundTrip(ctx, data)
				cl.out <- c09rt{m, err}
			}()
			res.Effective = append(res.Effective, c09PipeEvent{Op: "start", C: e.C})
			select {
			case f, ok := <-frames:
				if ok {
					cl.wire, cl.rec.WireID = f.id, f.id
					owner[f.id] = e.C
				} else {
					collect(e.C, 30*time.Second)
				}
			case r := <-cl.out:
				cl.out <- r
				collect(e.C, 30*time.Second)
			case <-time.After(c09D(30 * time.Second)):
				res.Stuck = true
			}
		case "resp":
			m := *e.M
			if m.IDOf != nil {
				if cl := clients[*m.IDOf]; cl != nil && cl.wire >= 0 {
					m.ID = cl.wire
				}
				m.IDOf = nil
			}
			res.Effective = append(res.Effective, c09PipeEvent{Op: "resp", M: &m})
			if isClosed() {
				continue
			}
			expect := -1
			if m.ID < dnsPipelineMaxIDs && pc.pending[m.ID].Load() != nil {
				if c, ok := owner[m.ID]; ok {
					expect = c
				}
			}
			writeFrame(c09Build(m))
			writeFrame(c09Build(c09Msg{ID: 0xffff, QName: "barrier.", QType: 1})) // id >= 4096: ignored by readLoop
			if expect >= 0 {
				collect(expect, 30*time.Second)
			}
		case "timeout":
			doTimeout(e.C)
		}
	}
	// drain: a client still waiting at the end of the script times out (which fails every waiter)
	for _, c := range order {
		doTimeout(c)
	}
	res.Closed = isClosed()
	for _, c := range order {
		res.Clients = append(res.Clients, clients[c].rec)
	}
	// release goroutines still waiting
	pc.Close()
	for _, c := range order {
		if !clients[c].done {
			select {
			case <-clients[c].out:
			case <-time.After(time.Second):
			}
		}
	}
	return res
}

// ---------------------------------------------------------------------------------------------
// kind "udp": DoUDP over in-memory pooled sockets
// ---------------------------------------------------------------------------------------------

type c09Dgram struct {
	T  string  `json:"t"` // short | garbage | msg
	ID int     `json:"id,omitempty"`
	M  *c09Msg `json:"m,omitempty"`
}

func (d c09Dgram) bytes() []byte {
	switch d.T {
	case "short":
		return []byte{0}
	case "garbage":
		return []byte{byte(d.ID >> 8), byte(d.ID), 0xff, 0xff, 0xff}
	default:
		b, err := c09Build(*d.M).Pack()
		if err != nil {
			panic(err)
		}
		return b
	}
}

type c09Timeout struct{}

func (c09Timeout) Error() string   { return "i/o timeout" }
func (c09Timeout) Timeout() bool   { return true }
func (c09Timeout) Temporary() bool { return true }

type c09Sock struct {
	mu      sync.Mutex
	queue   [][]byte
	onWrite func() [][]byte
	closed  bool
	addr    netip.AddrPort
}

func (s *c09Sock) Read(b []byte) (int, error)  { n, _, err := s.ReadFrom(b); return n, err }
func (s *c09Sock) Write(b []byte) (int, error) { return s.WriteTo(b, "") }
func (s *c09Sock) WriteTo(p []byte, _ string) (int, error) {
	s.mu.Lock()
	defer s.mu.Unlock()
	if s.closed {
		return 0, net.ErrClosed
	}
	if s.onWrite != nil {
		s.queue = append(s.queue, s.onWrite()...)
	}
	return len(p), nil
}
func (s *c09Sock) ReadFrom(p []byte) (int, netip.AddrPort, error) {
	s.mu.Lock()
	defer s.mu.Unlock()
	if s.closed {
		return 0, netip.AddrPort{}, net.ErrClosed
	}
	if len(s.queue) == 0 {
		return 0, netip.AddrPort{}, c09Timeout{}
	}
	n := copy(p, s.queue[0])
	s.queue = s.queue[1:]
	return n, s.addr, nil
}
func (s *c09Sock) Close() error {
	s.mu.Lock()
	s.closed = true
	s.mu.Unlock()
	return nil
}
func (s *c09Sock) SetDeadline(time.Time) error      { return nil }
func (s *c09Sock) SetReadDeadline(time.Time) error  { return nil }
func (s *c09Sock) SetWriteDeadline(time.Time) error { return nil }

type c09UdpEvent struct {
	Op     string     `json:"op"` // q | late
	ID     int        `json:"id"`
	Name   string     `json:"name"`
	QType  uint16     `json:"qtype"`
	Script []c09Dgram `json:"script"`
	D      *c09Dgram  `json:"d"`
}

type c09UdpQ struct {
	Res string  `json:"res"` // ok | trunc | timeout | stale | unpack | err
	Err string  `json:"err,omitempty"`
	M   *c09Msg `json:"m,omitempty"`
}

type c09UdpResult struct {
	Kind    string    `json:"kind"`
	Queries []c09UdpQ `json:"queries"`
	Sockets int       `json:"sockets"`
	Panic   string    `json:"panic,omitempty"`
}

func c09RunUdp(events []c09UdpEvent) (res c09UdpResult) {
	res.Kind = "udp"
	defer func() {
		if r := recover(); r != nil {
			res.Panic = fmt.Sprint(r)
		}
	}()
	addr := netip.MustParseAddrPort("198.51.100.53:53")
	var last *c09Sock
	var cur []c09Dgram
	d := &DoUDP{dialArgument: dialArgument{bestTarget: addr}}
	d.pool = newUdpConnPool(dnsUdpPoolMaxIdle, dnsUdpPoolMaxActive, func(context.Context) (netproxy.Conn, error) {
		res.Sockets++
		s := &c09Sock{addr: addr}
		s.onWrite = func() [][]byte {
			last = s
			out := [][]byte{}
			for _, dg := range cur {
				out = append(out, dg.bytes())
			}
			cur = nil
			return out
		}
		return s, nil
	})
	defer d.Close()
	for _, e := range events {
		switch e.Op {
		case "late":
			if last != nil {
				last.mu.Lock()
				if !last.closed {
					last.queue = append(last.queue, e.D.bytes())
				}
				last.mu.Unlock()
			}
		case "q":
			cur = e.Script
			data, _ := c09Query(e.ID, e.Name, e.QType).Pack()
			ctx, cancel := context.WithTimeout(context.Background(), c09D(60*time.Second))
			msg, err := d.ForwardDNS(ctx, data)
			cancel()
			var q c09UdpQ
			var ne net.Error
			switch {
			case err == nil:
				q.Res, q.M = "ok", c09Decode(msg)
			case errors.Is(err, ErrDNSTruncated):
				q.Res, q.M = "trunc", c09Decode(msg)
			case errors.As(err, &ne) && ne.Timeout():
				q.Res = "timeout"
			case strings.Contains(err.Error(), "too many"):
				q.Res, q.Err = "stale", err.Error()
			default:
				q.Res, q.Err = "unpack", err.Error()
			}
			res.Queries = append(res.Queries, q)
		}
	}
	return res
}

// ---------------------------------------------------------------------------------------------
// kind "ctl": DnsController with scripted forwarders
// ---------------------------------------------------------------------------------------------

type c09FRes struct {
	T string  `json:"t"` // err | trunc | msg
	M *c09Msg `json:"m,omitempty"`
}

type c09Client struct {
	ID    int    `json:"id"`
	Name  string `json:"name"`
	QType uint16 `json:"qtype"`
}

type c09CtlCase struct {
	Reload   bool                 `json:"reload"` // between rounds every cache entry goes through CloneForReload (as a reload does)
	Fallback bool                 `json:"fallback"`
	Rounds   [][]c09Client        `json:"rounds"`
	UDP      map[string][]c09FRes `json:"udp"` // key "lowername|qtype"
	TCP      map[string][]c09FRes `json:"tcp"`
}

type c09Outcome struct {
	Res string  `json:"res"` // reply | error | none
	Err string  `json:"err,omitempty"`
	M   *c09Msg `json:"m,omitempty"`
}

type c09CacheEntry struct {
	Key      string  `json:"key"`
	Ans      []c09RR `json:"ans"`
	Deadline bool    `json:"deadline_nano_set"`
}

type c09CtlResult struct {
	Kind     string          `json:"kind"`
	Rounds   [][]c09Outcome  `json:"rounds"`
	Calls    [][]string      `json:"calls"` // per round: keys for which the primary forwarder was invoked
	TcpCalls [][]string      `json:"tcp_calls"`
	Cache    []c09CacheEntry `json:"cache"`
	Settled  []bool          `json:"settled"`
	Stuck       bool         `json:"stuck,omitempty"`
	Dump        string       `json:"dump,omitempty"`
	ElapsedMs   int64        `json:"elapsed_ms"`
	SharedMsg   bool         `json:"shared_msg"` // two waiters of a round were handed the same *Msg
	FreshPacked bool         `json:"fresh_packed"` // an entry had deadlineNano set right after its insertion
	Closes   map[string]int  `json:"closes"`
	Panic    string          `json:"panic,omitempty"`
}

// c09Writer is the client-facing dns.ResponseWriter of the harness.  It records the *Msg it is handed and,
// when a gate is set, stays inside WriteMsg until the round controller has seen every live client either
// finished or inside its own WriteMsg; only then does it pack the message (a writer goroutine descheduled
// between entering WriteMsg and Pack).
type c09Writer struct {
	mu   sync.Mutex
	msgs []*dnsmessage.Msg // decoded from the packed bytes
	ptrs []*dnsmessage.Msg // the objects handed to WriteMsg
	gate chan struct{}
}

//go:noinline
func c09WriteGate(ch chan struct{}) { <-ch }

func (w *c09Writer) LocalAddr() net.Addr  { return &net.UDPAddr{IP: net.IPv4(127, 0, 0, 1), Port: 53} }
func (w *c09Writer) RemoteAddr() net.Addr { return &net.UDPAddr{IP: net.IPv4(127, 0, 0, 1), Port: 40000} }
func (w *c09Writer) WriteMsg(m *dnsmessage.Msg) error {
	w.mu.Lock()
	w.ptrs = append(w.ptrs, m)
	w.mu.Unlock()
	if w.gate != nil {
		c09WriteGate(w.gate)
	}
	packed, err := m.Pack()
	if err != nil {
		return err
	}
	out := new(dnsmessage.Msg)
	if err = out.Unpack(packed); err != nil {
		return err
	}
	w.mu.Lock()
	w.msgs = append(w.msgs, out)
	w.mu.Unlock()
	return nil
}
func (w *c09Writer) Write(b []byte) (int, error) {
	var m dnsmessage.Msg
	if err := m.Unpack(b); err != nil {
		return 0, err
	}
	return len(b), w.WriteMsg(&m)
}
func (w *c09Writer) Close() error        { return nil }
func (w *c09Writer) TsigStatus() error   { return nil }
func (w *c09Writer) TsigTimersOnly(bool) {}
func (w *c09Writer) Hijack()             {}

type c09Scripted struct {
	proto  string
	mu     *sync.Mutex
	script map[string][]c09FRes
	calls  *[]string
	gate   *chan struct{}
	closes *map[string]int
}

//go:noinline
func c09Gate(ch chan struct{}) { <-ch }

func (f *c09Scripted) ForwardDNS(ctx context.Context, data []byte) (*dnsmessage.Msg, error) {
	var q dnsmessage.Msg
	if err := q.Unpack(data); err != nil || len(q.Question) == 0 {
		return nil, fmt.Errorf("c09: bad query")
	}
	key := strings.ToLower(q.Question[0].Name) + "|" + strconv.Itoa(int(q.Question[0].Qtype))
	f.mu.Lock()
	*f.calls = append(*f.calls, key)
	gate := *f.gate
	f.mu.Unlock()
	c09Gate(gate)
	f.mu.Lock()
	var r c09FRes
	if s := f.script[key]; len(s) > 0 {
		r, f.script[key] = s[0], s[1:]
	} else {
		r = c09FRes{T: "err"}
	}
	f.mu.Unlock()
	switch r.T {
	case "msg":
		m := *r.M
		if m.ID < 0 {
			m.ID = int(q.Id)
		}
		return c09Build(m), nil
	case "trunc":
		if f.proto == "udp" {
			tm := c09Build(c09Msg{ID: int(q.Id), QName: q.Question[0].Name, QType: q.Question[0].Qtype, TC: true})
			return tm, ErrDNSTruncated
		}
		return nil, fmt.Errorf("c09: scripted failure")
	default:
		return nil, fmt.Errorf("c09: scripted failure")
	}
}

func (f *c09Scripted) Close() error {
	f.mu.Lock()
	(*f.closes)[f.proto]++
	f.mu.Unlock()
	return nil
}

//go:noinline
func c09ClientMain(ctrl *DnsController, q *dnsmessage.Msg, req *udpRequest, w *c09Writer) error {
	return ctrl.HandleWithResponseWriter_(context.Background(), q, req, w)
}

// c09Parked reports whether every live client goroutine is blocked in one of the given functions
// (forwarder gate, singleflight's WaitGroup, the writer gate).
func c09Parked(live int, markers ...string) bool {
	buf := make([]byte, 1<<20)
	n := runtime.Stack(buf, true)
	parked := 0
	for _, g := range strings.Split(string(buf[:n]), "\n\n") {
		if !strings.Contains(g, "c09ClientMain") {
			continue
		}
		for _, m := range markers {
			if strings.Contains(g, m) {
				parked++
				break
			}
		}
	}
	return parked >= live
}

func c09RunCtl(cs c09CtlCase) (res c09CtlResult) {
	res.Kind = "ctl"
	t0 := time.Now()
	defer func() { res.ElapsedMs = time.Since(t0).Milliseconds() }()
	defer func() {
		if r := recover(); r != nil {
			res.Panic = fmt.Sprint(r)
		}
	}()
	log := logrus.New()
	log.SetOutput(io.Discard)
	scheme := "udp"
	if cs.Fallback {
		scheme = "tcp+udp"
	}
	routing, err := componentdns.New(&config.Dns{
		Upstream: []config.KeyableString{config.KeyableString("u:" + scheme + "://198.51.100.53:53")},
		Routing: config.DnsRouting{
			Request:  config.DnsRequestRouting{Fallback: "u"},
			Response: config.DnsResponseRouting{Fallback: "accept"},
		},
	}, &componentdns.NewOption{Logger: log, UpstreamReadyCallback: func(*componentdns.Upstream) error { return nil }})
	if err != nil {
		panic(err)
	}
	var mu sync.Mutex
	var calls, tcpCalls []string
	closes := map[string]int{}
	gate := make(chan struct{})
	udpScript, tcpScript := map[string][]c09FRes{}, map[string][]c09FRes{}
	for k, v := range cs.UDP {
		udpScript[k] = append([]c09FRes(nil), v...)
	}
	for k, v := range cs.TCP {
		tcpScript[k] = append([]c09FRes(nil), v...)
	}
	original := dnsForwarderFactory
	defer func() { dnsForwarderFactory = original }()
	dnsForwarderFactory = func(upstream *componentdns.Upstream, dialArg dialArgument, _ *logrus.Logger) (DnsForwarder, error) {
		if dialArg.l4proto == consts.L4ProtoStr_TCP {
			return &c09Scripted{proto: "tcp", mu: &mu, script: tcpScript, calls: &tcpCalls, gate: &gate, closes: &closes}, nil
		}
		return &c09Scripted{proto: "udp", mu: &mu, script: udpScript, calls: &calls, gate: &gate, closes: &closes}, nil
	}
	ctrl, err := NewDnsController(routing, &DnsControllerOption{
		Log:                 log,
		LifecycleContext:    context.Background(),
		CacheAccessCallback: func(*DnsCache) error { return nil },
		CacheRemoveCallback: func(*DnsCache) error { return nil },
		NewCache: func(fqdn string, answers, ns, extra []dnsmessage.RR, deadline, originalDeadline time.Time) (*DnsCache, error) {
			return &DnsCache{Answer: answers, NS: ns, Extra: extra, Deadline: deadline, OriginalDeadline: originalDeadline}, nil
		},
		BestDialerChooser: func(ctx context.Context, req *udpRequest, upstream *componentdns.Upstream) (*dialArgument, error) {
			l4 := consts.L4ProtoStr_UDP
			if upstream != nil && upstream.Scheme == componentdns.UpstreamScheme_TCP {
				l4 = consts.L4ProtoStr_TCP
			}
			return &dialArgument{l4proto: l4, ipversion: consts.IpVersionStr_4, bestTarget: netip.MustParseAddrPort("198.51.100.53:53")}, nil
		},
		TimeoutExceedCallback: func(*dialArgument, error) {},
	})
	if err != nil {
		panic(err)
	}
	req := &udpRequest{realSrc: netip.MustParseAddrPort("192.0.2.10:41000"), realDst: netip.MustParseAddrPort("192.0.2.1:53"), routingResult: &bpfRoutingResult{}}
	reloaded := map[*DnsCache]bool{}
	for _, round := range cs.Rounds {
		mu.Lock()
		calls, tcpCalls = nil, nil
		gate = make(chan struct{})
		g := gate
		mu.Unlock()
		n := len(round)
		writers := make([]*c09Writer, n)
		wgate := make(chan struct{})
		errs := make([]error, n)
		var finished atomic.Int32
		var wg sync.WaitGroup
		for i, c := range round {
			writers[i] = &c09Writer{gate: wgate}
			wg.Add(1)
			go func(i int, c c09Client) {
				defer wg.Done()
				defer finished.Add(1)
				defer func() {
					if r := recover(); r != nil {
						errs[i] = fmt.Errorf("panic: %v", r)
					}
				}()
				errs[i] = c09ClientMain(ctrl, c09Query(c.ID, c.Name, c.QType), req, writers[i])
			}(i, c)
		}
		// event-driven settling: poll the goroutine dump until every live client is parked; the deadline is
		// long and only marks the case as stuck (the driver retries such a case with longer deadlines)
		waitParked := func(markers ...string) bool {
			deadline := time.Now().Add(c09D(60 * time.Second))
			pause := 200 * time.Microsecond
			for time.Now().Before(deadline) {
				if c09Parked(n-int(finished.Load()), markers...) {
					return true
				}
				time.Sleep(pause)
				if pause < 20*time.Millisecond {
					pause *= 2
				}
			}
			return false
		}
		settled := waitParked("c09Gate", "sync.(*WaitGroup).Wait", "c09WriteGate")
		if !settled && res.Dump == "" {
			res.Dump = c09Dump()
		}
		close(g)
		// second barrier: every client that is going to write is inside WriteMsg before anybody packs
		settled2 := waitParked("c09WriteGate")
		if !settled2 && res.Dump == "" {
			res.Dump = c09Dump()
		}
		if !(settled && settled2) {
			res.Stuck = true
		}
		res.Settled = append(res.Settled, settled && settled2)
		close(wgate)
		wg.Wait()
		seen := map[*dnsmessage.Msg]bool{}
		for i := range round {
			if len(writers[i].ptrs) > 0 {
				if seen[writers[i].ptrs[0]] {
					res.SharedMsg = true
				}
				seen[writers[i].ptrs[0]] = true
			}
		}
		outs := make([]c09Outcome, n)
		for i := range round {
			switch {
			case len(writers[i].msgs) > 0:
				outs[i] = c09Outcome{Res: "reply", M: c09Decode(writers[i].msgs[0])}
				if len(writers[i].msgs) > 1 {
					outs[i].Err = fmt.Sprintf("%d replies", len(writers[i].msgs))
				}
			case errs[i] != nil:
				outs[i] = c09Outcome{Res: "error", Err: errs[i].Error()}
			default:
				outs[i] = c09Outcome{Res: "none"}
			}
		}
		res.Rounds = append(res.Rounds, outs)
		ctrl.dnsCache.Range(func(k, v any) bool {
			cache := v.(*DnsCache)
			if cache.deadlineNano.Load() != 0 && !reloaded[cache] {
				res.FreshPacked = true
			}
			return true
		})
		if cs.Reload {
			ctrl.dnsCache.Range(func(k, v any) bool {
				n := v.(*DnsCache).CloneForReload()
				reloaded[n] = true
				ctrl.dnsCache.Store(k, n)
				return true
			})
		}
		mu.Lock()
		sort.Strings(calls)
		sort.Strings(tcpCalls)
		res.Calls = append(res.Calls, append([]string{}, calls...))
		res.TcpCalls = append(res.TcpCalls, append([]string{}, tcpCalls...))
		mu.Unlock()
	}
	ctrl.dnsCache.Range(func(k, v any) bool {
		cache := v.(*DnsCache)
		e := c09CacheEntry{Key: k.(string), Ans: []c09RR{}, Deadline: cache.deadlineNano.Load() != 0}
		e.Ans = c09Decode(&dnsmessage.Msg{Answer: cache.Answer}).Ans
		res.Cache = append(res.Cache, e)
		return true
	})
	sort.Slice(res.Cache, func(i, j int) bool { return res.Cache[i].Key < res.Cache[j].Key })
	_ = ctrl.Close()
	mu.Lock()
	res.Closes = map[string]int{}
	for k, v := range closes {
		res.Closes[k] = v
	}
	mu.Unlock()
	return res
}

// ---------------------------------------------------------------------------------------------

func TestVerifC09(t *testing.T) {
	verifEachLine(t, func(line []byte) any {
		var head struct {
			Kind   string          `json:"kind"`
			Events json.RawMessage `json:"events"`
		}
		if err := json.Unmarshal(line, &head); err != nil {
			return map[string]string{"panic": "bad json: " + err.Error()}
		}
		switch head.Kind {
		case "fwd":
			var ev [][]any
			_ = json.Unmarshal(head.Events, &ev)
			return c09RunFwd(ev)
		case "fcache":
			var ev [][]any
			_ = json.Unmarshal(head.Events, &ev)
			return c09RunFcache(ev)
		case "pipe":
			var ev []c09PipeEvent
			_ = json.Unmarshal(head.Events, &ev)
			return c09RunPipe(ev)
		case "udp":
			var ev []c09UdpEvent
			_ = json.Unmarshal(head.Events, &ev)
			return c09RunUdp(ev)
		case "ctl":
			var cs c09CtlCase
			_ = json.Unmarshal(line, &cs)
			return c09RunCtl(cs)
		case "pref":
			var cs c09PrefCase
			_ = json.Unmarshal(line, &cs)
			return c09RunPref(cs)
		case "tcp":
			var cs c09TcpCase
			_ = json.Unmarshal(line, &cs)
			return c09RunTcp(cs)
		case "flight":
			var cs c09FlightCase
			_ = json.Unmarshal(line, &cs)
			return c09RunFlight(cs)
		case "e2e":
			var cs c09E2ECase
			_ = json.Unmarshal(line, &cs)
			return c09RunE2E(cs)
		}
		return map[string]string{"panic": "unknown kind " + head.Kind}
	})
}
