//go:build verif

package control

// C10, second stream: the DNS controller wired with the PRODUCTION callbacks (ControlPlane.dnsControllerOption)
// so that insert / replace / remove / family removal / expiry / LRU eviction reach the tracker the way
// they do in dae.  After every operation the live cache is dumped next to the kernel shadow map.

import (
	"context"
	"encoding/json"
	"fmt"
	"io"
	"net/netip"
	"sort"
	"sync"
	"sync/atomic"
	"testing"
	"time"

	"github.com/daeuniverse/dae/common"
	"github.com/daeuniverse/dae/common/consts"
	componentdns "github.com/daeuniverse/dae/component/dns"
	"github.com/daeuniverse/dae/config"
	dnsmessage "github.com/miekg/dns"
	"github.com/sirupsen/logrus"
)

type c10CtlOp struct {
	Kind  string   `json:"kind"` // insert | remove | family | janitor
	Host  string   `json:"host"`
	Qtype uint16   `json:"qtype"`
	Scope string   `json:"scope"`
	IPs   []string `json:"ips"`
	TTL   int      `json:"ttl"`
	AtSec int      `json:"at_sec"`        // janitor: synthetic now = real now + at_sec
	Tag   int      `json:"tag,omitempty"` // insert: label of the stored *DnsCache (for evict ops)
	Ref   int      `json:"ref,omitempty"` // evict: evictDnsRespCacheIfSame(key, pointer stored by insert `ref`)
}

type c10CtlCase struct {
	Bitmaps2           map[string]string `json:"bitmaps2"` // fqdn -> bitmap hex under the rule set loaded by a reload
	Bitmaps            map[string]string `json:"bitmaps"`  // fqdn -> bitmap hex
	MaxCacheSize       int               `json:"max_cache_size"`
	OptimisticCache    bool              `json:"optimistic_cache,omitempty"`
	OptimisticCacheTtl int               `json:"optimistic_cache_ttl,omitempty"`
	HoldWorker         bool              `json:"hold_worker,omitempty"` // reload: park the re-sync worker at its first kernel write until every entry is queued
	Quiet              bool              `json:"quiet,omitempty"`       // dump cache and kernel map after the LAST operation only (large histories)
	Ops                []c10CtlOp        `json:"ops"`
}

type c10CtlLive struct {
	Key      string   `json:"key"`
	Bitmap   string   `json:"bitmap"`
	A        []string `json:"a"`        // A records
	AAAA     []string `json:"aaaa"`     // AAAA records
	Owner    string   `json:"owner"`    // RouteOwnerKey
	Deadline int64    `json:"deadline"` // Deadline, unix ns
	Last     int64    `json:"last"`     // lastAccessNano
	Ans      []string `json:"ans"`      // address answers in order, "4:<ip>" / "6:<ip>"
}

// one tracker call as seen by VerifDomainRoutingObserver (owner key) while one of the production
// callbacks of dnsControllerOption was running (kind, and the cache value it was given)
type c10CtlCall struct {
	Owner  string   `json:"owner"`
	Kind   string   `json:"kind"` // update | remove | ? (observer reached outside the two callbacks)
	Bitmap string   `json:"bitmap,omitempty"`
	Ans    []string `json:"ans,omitempty"` // update: address answers in order, "4:<ip>" / "6:<ip>"
}

type c10CtlStep struct {
	Live   []c10CtlLive `json:"live"`
	Shadow [][2]string  `json:"shadow"`
	Err    string       `json:"err,omitempty"`
	Calls  []c10CtlCall `json:"calls"`
	Now    int64        `json:"now,omitempty"`  // janitor: the now passed; lookup: clock before the call
	Now2   int64        `json:"now2,omitempty"` // lookup: clock after the call
	Key    string       `json:"key"`            // the scoped cache key of the operation
	Base   string       `json:"base"`           // its base key (fqdn + qtype)
	Fqdn   string       `json:"fqdn"`           // the fqdn handed to NewCache
}

type c10CtlResult struct {
	Keys  map[string]string `json:"keys"`
	Steps []c10CtlStep      `json:"steps"`
	Panic string            `json:"panic,omitempty"`
}

func c10CtlRun(cs c10CtlCase) (res c10CtlResult) {
	defer func() {
		if r := recover(); r != nil {
			res.Panic = fmt.Sprint(r)
		}
	}()
	res.Keys = map[string]string{}
	lg := logrus.New()
	lg.SetOutput(io.Discard)
	core := &controlPlaneCore{}
	core.bpf.Store(&bpfObjects{})
	shadow := map[[4]uint32]bpfDomainRouting{}
	// call recording: the production callbacks are wrapped (they still run unchanged); the observer, which
	// runs inside syncOwner, notes the owner key it was given together with the callback in progress.
	var callMu sync.Mutex // serialises the wrapped callbacks (main goroutine vs async re-sync worker)
	var recMu sync.Mutex  // protects calls
	var calls []c10CtlCall
	curKind := ""
	var curCache *DnsCache
	// hold_worker: the async re-sync worker is parked at the kernel-write step of its FIRST task of a reload
	// (a slow write) until RestoreReloadCache has queued every entry; then it is released.  Event-driven.
	var holdArmed atomic.Bool
	var holdOnce *sync.Once
	var workerHeld, workerRelease chan struct{}
	VerifDomainRoutingObserver = func(owner string, ku [][4]uint32, vu []bpfDomainRouting, kd [][4]uint32) {
		if holdArmed.Load() {
			holdOnce.Do(func() {
				close(workerHeld)
				<-workerRelease
			})
		}
		for i := range ku {
			shadow[ku[i]] = vu[i]
		}
		for _, k := range kd {
			delete(shadow, k)
		}
		call := c10CtlCall{Owner: owner, Kind: curKind}
		if call.Kind == "" {
			call.Kind = "?"
		}
		if call.Kind == "update" && curCache != nil {
			bm := bpfDomainRouting{}
			copy(bm.Bitmap[:], curCache.DomainBitmap)
			call.Bitmap = c10BitmapHex(bm)
			for _, rr := range curCache.Answer {
				switch b := rr.(type) {
				case *dnsmessage.A:
					ip, _ := netip.AddrFromSlice(b.A)
					call.Ans = append(call.Ans, "4:"+ip.String())
				case *dnsmessage.AAAA:
					ip, _ := netip.AddrFromSlice(b.AAAA)
					call.Ans = append(call.Ans, "6:"+ip.String())
				}
			}
		}
		recMu.Lock()
		calls = append(calls, call)
		recMu.Unlock()
	}
	defer func() { VerifDomainRoutingObserver = nil }()
	wrapOpt := func(o *DnsControllerOption) {
		acc, del := o.CacheAccessCallback, o.CacheDeleteCallback
		o.CacheAccessCallback = func(cache *DnsCache) error {
			callMu.Lock()
			defer callMu.Unlock()
			curKind, curCache = "update", cache
			defer func() { curKind, curCache = "", nil }()
			return acc(cache)
		}
		o.CacheDeleteCallback = func(cacheKey string, cache *DnsCache) error {
			callMu.Lock()
			defer callMu.Unlock()
			curKind, curCache = "remove", cache
			defer func() { curKind, curCache = "", nil }()
			return del(cacheKey, cache)
		}
	}
	countCalls := func() int {
		recMu.Lock()
		defer recMu.Unlock()
		return len(calls)
	}
	stored := map[int]*DnsCache{} // insert tag -> the pointer that insert stored
	cp := &ControlPlane{core: core, log: lg, ctx: context.Background()}
	opt := cp.dnsControllerOption()
	wrapOpt(opt)
	opt.OptimisticCache = cs.OptimisticCache
	opt.OptimisticCacheTtl = cs.OptimisticCacheTtl
	curBitmaps := cs.Bitmaps
	bitmapOf := func(fqdn string) []uint32 {
		hex, ok := curBitmaps[fqdn]
		if !ok {
			hex = "0"
		}
		return c10BitmapWords(hex)
	}
	newCache := func(fqdn string, answers, ns, extra []dnsmessage.RR, deadline, originalDeadline time.Time) (*DnsCache, error) {
		return &DnsCache{DomainBitmap: bitmapOf(fqdn), Answer: answers, NS: ns, Extra: extra, Deadline: deadline, OriginalDeadline: originalDeadline}, nil
	}
	opt.NewCache = func(fqdn string, answers, ns, extra []dnsmessage.RR, deadline, originalDeadline time.Time) (*DnsCache, error) {
		hex, ok := curBitmaps[fqdn]
		if !ok {
			hex = "0"
		}
		return &DnsCache{DomainBitmap: c10BitmapWords(hex), Answer: answers, NS: ns, Extra: extra, Deadline: deadline, OriginalDeadline: originalDeadline}, nil
	}
	opt.MaxCacheSize = cs.MaxCacheSize
	routing, err := componentdns.New(&config.Dns{
		Routing: config.DnsRouting{
			Request:  config.DnsRequestRouting{Fallback: "asis"},
			Response: config.DnsResponseRouting{Fallback: "accept"},
		},
	}, &componentdns.NewOption{Logger: lg, UpstreamReadyCallback: func(*componentdns.Upstream) error { return nil }})
	if err != nil {
		panic(err)
	}
	ctrl, err := NewDnsController(routing, opt)
	if err != nil {
		panic(err)
	}
	defer func() { ctrl.Close() }()
	for opIdx, op := range cs.Ops {
		var opErr error
		var stepNow, stepNow2 int64
		fqdn := dnsmessage.CanonicalName(op.Host)
		key := ctrl.cacheKey(fqdn, op.Qtype)
		base := key
		if op.Scope != "" {
			key = key + "|" + op.Scope
		}
		switch op.Kind {
		case "insert":
			var answers []dnsmessage.RR
			for _, s := range op.IPs {
				ip := netip.MustParseAddr(s)
				ip6 := ip.As16()
				res.Keys[s] = c10KeyHex(common.Ipv6ByteSliceToUint32Array(ip6[:]))
				rr := c10RR(ip)
				rr.Header().Name = fqdn
				answers = append(answers, rr)
			}
			opErr = ctrl.UpdateDnsCacheTtlWithKey(key, op.Host, op.Qtype, answers, nil, nil, op.TTL)
			if op.Tag != 0 {
				if v, ok := ctrl.dnsCache.Load(key); ok {
					stored[op.Tag] = v.(*DnsCache)
				}
			}
		case "evict":
			ptr := stored[op.Ref]
			if ptr == nil {
				ptr = &DnsCache{} // a pointer that is in no cache
			}
			ctrl.evictDnsRespCacheIfSame(key, ptr)
		case "lookup":
			stepNow = time.Now().UnixNano()
			ctrl.LookupDnsRespCache(key, false)
			stepNow2 = time.Now().UnixNano()
		case "remove":
			ctrl.RemoveDnsRespCache(key)
		case "family":
			ctrl.RemoveDnsRespCacheFamily(base)
		case "janitor":
			jnow := time.Now().Add(time.Duration(op.AtSec) * time.Second)
			stepNow = jnow.UnixNano()
			ctrl.evictExpiredDnsCache(jnow)
		case "reload_reuse":
			// staged reload WITH controller reuse, in the order ControlPlane.Serve uses: snapshot of the cache,
			// new generation (fresh core/tracker, cleared kernel map), the REAL replayDnsReloadCache into the new
			// generation's temporary controller, then ReuseDNSControllerFrom: the running controller and its
			// cache are adopted.  Same rule set (the reused cache keeps its bitmaps).
			prev := cp
			prev.dnsController = ctrl
			snapshot := ctrl.CloneCacheForReload()
			core = &controlPlaneCore{domainRouting: newDomainRoutingTracker()}
			core.bpf.Store(&bpfObjects{})
			for k := range shadow {
				delete(shadow, k)
			}
			next := &ControlPlane{core: core, log: lg, ctx: context.Background(),
				controlPlaneGenerationState: controlPlaneGenerationState{routingMatcher: &RoutingMatcher{domainMatcher: c10CtlMatcher(bitmapOf)}}}
			next.dnsRouting = routing
			tmpOpt := next.dnsControllerOption()
			tmpOpt.NewCache = newCache
			tmpOpt.MaxCacheSize = cs.MaxCacheSize
			tmpOpt.OptimisticCache = cs.OptimisticCache
			tmpOpt.OptimisticCacheTtl = cs.OptimisticCacheTtl
			tmp, errT := NewDnsController(routing, tmpOpt)
			if errT != nil {
				panic(errT)
			}
			next.dnsController = tmp
			next.pendingDnsReloadCache = snapshot
			callsBefore := countCalls()
			next.replayDnsReloadCache()
			// quiescence: one observer call per entry the replay restored into the temporary controller
			deadline := time.Now().Add(3 * time.Second)
			for time.Now().Before(deadline) {
				restored, pending := 0, 0
				tmp.dnsCache.Range(func(_, v any) bool {
					restored++
					c := v.(*DnsCache)
					if h := c.ComputeBpfDataHash(); h != 0 && c.lastBpfDataHash.Load() != h {
						pending++
					}
					return true
				})
				if pending == 0 && countCalls()-callsBefore >= restored {
					break
				}
				time.Sleep(200 * time.Microsecond)
			}
			if !next.ReuseDNSControllerFrom(prev) {
				panic("ReuseDNSControllerFrom returned false")
			}
			cp = next
			ctrl = next.dnsController
		case "reload":
			// reload hand-over as ControlPlane does it: clone the cache, a new generation with a fresh
			// core/tracker and a cleared kernel map, new rule set (bitmaps2), replay the cloned entries.
			entries := ctrl.CloneCacheForReload()
			ctrl.Close()
			if cs.Bitmaps2 != nil {
				curBitmaps = cs.Bitmaps2
			}
			core = &controlPlaneCore{}
			core.bpf.Store(&bpfObjects{})
			for k := range shadow {
				delete(shadow, k)
			}
			cp = &ControlPlane{core: core, log: lg, ctx: context.Background()}
			opt2 := cp.dnsControllerOption()
			wrapOpt(opt2)
			opt2.OptimisticCache = cs.OptimisticCache
			opt2.OptimisticCacheTtl = cs.OptimisticCacheTtl
			opt2.NewCache = newCache
			opt2.MaxCacheSize = cs.MaxCacheSize
			ctrl2, err2 := NewDnsController(routing, opt2)
			if err2 != nil {
				panic(err2)
			}
			ctrl = ctrl2
			callsBefore := countCalls()
			if cs.HoldWorker && len(entries) > 0 {
				holdOnce, workerHeld, workerRelease = &sync.Once{}, make(chan struct{}), make(chan struct{})
				holdArmed.Store(true)
			}
			ctrl.RestoreReloadCache(entries, bitmapOf, time.Now())
			if holdArmed.Load() {
				// every entry has been offered to the queue; the worker is (or will be) parked on its first task
				select {
				case <-workerHeld:
				case <-time.After(20 * time.Second):
					panic("hold_worker: the re-sync worker never reached its first kernel write")
				}
				holdArmed.Store(false)
				close(workerRelease)
			}
			// quiescence: every restored entry with addresses has been synced by the async worker
			deadline := time.Now().Add(3 * time.Second)
			for time.Now().Before(deadline) {
				pending := 0
				ctrl.dnsCache.Range(func(_, v any) bool {
					c := v.(*DnsCache)
					if h := c.ComputeBpfDataHash(); h != 0 && c.lastBpfDataHash.Load() != h {
						pending++
					}
					return true
				})
				if pending == 0 {
					break
				}
				time.Sleep(time.Millisecond)
			}
			// ... and the worker has made one call per restored entry (entries without addresses included)
			for time.Now().Before(deadline) && countCalls()-callsBefore < len(entries) {
				time.Sleep(200 * time.Microsecond)
			}
		default:
			panic("bad op " + op.Kind)
		}
		// quiescence: eviction side effects may be queued to the evictor goroutine
		for i := 0; i < 200; i++ {
			ctrl.evictorMu.Lock()
			pending := len(ctrl.evictorBuf)
			ctrl.evictorMu.Unlock()
			if pending == 0 && (ctrl.evictorQ == nil || len(ctrl.evictorQ) == 0) {
				break
			}
			time.Sleep(time.Millisecond)
		}
		if cs.Quiet && opIdx != len(cs.Ops)-1 {
			recMu.Lock()
			calls = nil
			recMu.Unlock()
			qs := c10CtlStep{Live: []c10CtlLive{}, Shadow: [][2]string{}, Calls: []c10CtlCall{}, Key: key, Base: base, Fqdn: fqdn}
			if opErr != nil {
				qs.Err = opErr.Error()
			}
			res.Steps = append(res.Steps, qs)
			continue
		}
		time.Sleep(200 * time.Microsecond)
		st := c10CtlStep{Live: []c10CtlLive{}, Shadow: [][2]string{}, Calls: []c10CtlCall{}, Now: stepNow, Now2: stepNow2, Key: key, Base: base, Fqdn: fqdn}
		callMu.Lock() // no callback in progress
		recMu.Lock()
		st.Calls = append(st.Calls, calls...)
		calls = nil
		recMu.Unlock()
		callMu.Unlock()
		if opErr != nil {
			st.Err = opErr.Error()
		}
		ctrl.dnsCache.Range(func(k, v any) bool {
			cache := v.(*DnsCache)
			bm := bpfDomainRouting{}
			copy(bm.Bitmap[:], cache.DomainBitmap)
			l := c10CtlLive{Key: k.(string), Bitmap: c10BitmapHex(bm), A: []string{}, AAAA: []string{},
				Owner: cache.RouteOwnerKey, Deadline: cache.Deadline.UnixNano(), Last: cache.lastAccessNano.Load()}
			for _, rr := range cache.Answer {
				switch b := rr.(type) {
				case *dnsmessage.A:
					ip, _ := netip.AddrFromSlice(b.A)
					l.A = append(l.A, ip.String())
					l.Ans = append(l.Ans, "4:"+ip.String())
				case *dnsmessage.AAAA:
					ip, _ := netip.AddrFromSlice(b.AAAA)
					l.AAAA = append(l.AAAA, ip.String())
					l.Ans = append(l.Ans, "6:"+ip.String())
				}
			}
			st.Live = append(st.Live, l)
			return true
		})
		sort.Slice(st.Live, func(i, j int) bool { return st.Live[i].Key < st.Live[j].Key })
		for k, v := range shadow {
			st.Shadow = append(st.Shadow, [2]string{c10KeyHex(k), c10BitmapHex(v)})
		}
		sort.Slice(st.Shadow, func(i, j int) bool { return st.Shadow[i][0] < st.Shadow[j][0] })
		res.Steps = append(res.Steps, st)
	}
	return res
}

func TestVerifC10Ctl(t *testing.T) {
	verifEachLine(t, func(line []byte) any {
		var cs c10CtlCase
		if err := json.Unmarshal(line, &cs); err != nil {
			t.Fatalf("bad case: %v", err)
		}
		return c10CtlRun(cs)
	})
}

// c10CtlMatcher: the domain matcher of a generation as the harness's bitmap table
type c10CtlMatcher func(fqdn string) []uint32

func (m c10CtlMatcher) AddSet(int, []string, consts.RoutingDomainKey) {}
func (m c10CtlMatcher) Build() error                                  { return nil }
func (m c10CtlMatcher) MatchDomainBitmap(domain string) []uint32      { return m(domain) }
