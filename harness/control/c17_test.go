//go:build verif

package control

// C17 — configuration text becomes exactly the configuration it spells, or a clean error.
// One JSON request per line: parse / build / compile / merge.  Every call runs under recover; a panic
// is reported as {"panic": "..."}.  Panics in foreign goroutines kill the process: the orchestrator
// runs "compile" requests in separate child processes and bisects.

import (
	"encoding/base64"
	"encoding/json"
	"fmt"
	"io"
	"os"
	"path/filepath"
	"sort"
	"strings"
	"testing"

	"github.com/daeuniverse/dae/common/assets"
	"github.com/daeuniverse/dae/component/dns"
	"github.com/daeuniverse/dae/component/routing"
	"github.com/daeuniverse/dae/config"
	"github.com/daeuniverse/dae/pkg/config_parser"
	"github.com/sirupsen/logrus"
)

type c17File struct {
	Path string `json:"path"` // relative to the scratch root
	Text string `json:"text"` // base64
	Mode uint32 `json:"mode"` // permission bits; 0 => 0600
	Dir  bool   `json:"dir"`
	Link string `json:"link"` // symbolic link target ("@ROOT@" is replaced by the scratch root)
}

type c17Req struct {
	Op    string    `json:"op"`
	Text  string    `json:"text"`  // base64
	Files []c17File `json:"files"` // merge
	Entry string    `json:"entry"` // merge: relative to scratch root
	Stage string    `json:"stage"` // compile: routing|dns|both
	Globs []string  `json:"globs"` // merge: include patterns as written, expanded with filepath.Glob as dfsMerge does
}

type c17KV struct {
	K string `json:"k"`
	V string `json:"v"`
}

type c17Func struct {
	Name string  `json:"n"`
	Not  bool    `json:"not"`
	P    []c17KV `json:"p"`
	Deep bool    `json:"deep,omitempty"` // a parameter carried functions/annotations (never produced by the walker)
}

type c17Item struct {
	T     string    `json:"t"` // p | r | s
	K     string    `json:"k,omitempty"`
	V     string    `json:"v,omitempty"`
	F     []c17Func `json:"f,omitempty"`
	A     []c17KV   `json:"a,omitempty"`
	O     *c17Func  `json:"o,omitempty"`
	Name  string    `json:"name,omitempty"`
	Items []c17Item `json:"items,omitempty"`
}

type c17Section struct {
	Name  string    `json:"name"`
	Items []c17Item `json:"items"`
}

type c17Res struct {
	Ok       bool           `json:"ok"`
	Err      string         `json:"err,omitempty"`
	Panic    string         `json:"panic,omitempty"`
	Sections []c17Section   `json:"sections,omitempty"`
	Entries  []string       `json:"entries,omitempty"` // merge: files read, relative to scratch root
	Conf     map[string]any `json:"conf,omitempty"`    // build: projection of the typed configuration
	Stage    string         `json:"stage,omitempty"`   // which stage produced err/panic
	Globs    map[string][]string `json:"globs,omitempty"` // merge: pattern as written -> filepath.Glob result
}

func c17KVs(ps []*config_parser.Param) (out []c17KV, deep bool) {
	for _, p := range ps {
		if p == nil {
			out = append(out, c17KV{K: "<nil>"})
			deep = true
			continue
		}
		if p.AndFunctions != nil || p.Annotation != nil {
			deep = true
		}
		out = append(out, c17KV{K: p.Key, V: p.Val})
	}
	return
}

func c17F(f *config_parser.Function) c17Func {
	if f == nil {
		return c17Func{Name: "<nil>", Deep: true}
	}
	kv, deep := c17KVs(f.Params)
	return c17Func{Name: f.Name, Not: f.Not, P: kv, Deep: deep}
}

func c17Fs(fs []*config_parser.Function) []c17Func {
	var out []c17Func
	for _, f := range fs {
		out = append(out, c17F(f))
	}
	return out
}

func c17Items(items []*config_parser.Item) []c17Item {
	out := make([]c17Item, 0, len(items))
	for _, it := range items {
		switch v := it.Value.(type) {
		case *config_parser.Param:
			a, _ := c17KVs(v.Annotation)
			out = append(out, c17Item{T: "p", K: v.Key, V: v.Val, F: c17Fs(v.AndFunctions), A: a})
		case *config_parser.RoutingRule:
			o := c17F(&v.Outbound)
			out = append(out, c17Item{T: "r", F: c17Fs(v.AndFunctions), O: &o})
		case *config_parser.Section:
			out = append(out, c17Item{T: "s", Name: v.Name, Items: c17Items(v.Items)})
		default:
			out = append(out, c17Item{T: "?"})
		}
	}
	return out
}

func c17Sections(secs []*config_parser.Section) []c17Section {
	out := make([]c17Section, 0, len(secs))
	for _, s := range secs {
		out = append(out, c17Section{Name: s.Name, Items: c17Items(s.Items)})
	}
	return out
}

func c17Text(b64 string) string {
	b, err := base64.StdEncoding.DecodeString(b64)
	if err != nil {
		panic("bad base64 in request")
	}
	return string(b)
}

func c17Parse(text string) (res c17Res) {
	defer func() {
		if r := recover(); r != nil {
			res = c17Res{Panic: fmt.Sprint(r), Stage: "parse"}
		}
	}()
	secs, err := config_parser.Parse(text)
	if err != nil {
		return c17Res{Err: err.Error(), Stage: "parse"}
	}
	return c17Res{Ok: true, Sections: c17Sections(secs)}
}

func c17FuncOrString(v any) any {
	switch x := v.(type) {
	case nil:
		return nil
	case string:
		return map[string]any{"s": x}
	case *config_parser.Function:
		return map[string]any{"f": []c17Func{c17F(x)}}
	case []*config_parser.Function:
		return map[string]any{"f": c17Fs(x)}
	default:
		return map[string]any{"other": fmt.Sprintf("%T", v)}
	}
}

func c17Strs[T ~string](xs []T) []string {
	out := make([]string, 0, len(xs))
	for _, x := range xs {
		out = append(out, string(x))
	}
	return out
}

func c17Rules(rs []*config_parser.RoutingRule) []c17Item {
	out := make([]c17Item, 0, len(rs))
	for _, r := range rs {
		o := c17F(&r.Outbound)
		out = append(out, c17Item{T: "r", F: c17Fs(r.AndFunctions), O: &o})
	}
	return out
}

func c17Conf(c *config.Config) map[string]any {
	groups := []any{}
	for _, g := range c.Group {
		fl := []any{}
		for i, f := range g.Filter {
			var ann []c17KV
			if i < len(g.FilterAnnotation) {
				ann, _ = c17KVs(g.FilterAnnotation[i])
			}
			fl = append(fl, map[string]any{"f": c17Fs(f), "a": ann})
		}
		groups = append(groups, map[string]any{"name": g.Name, "filter": fl, "policy": c17FuncOrString(g.Policy),
			"n_annot": len(g.FilterAnnotation)})
	}
	return map[string]any{
		"global": map[string]any{
			"tproxy_port":            c.Global.TproxyPort,
			"tproxy_port_protect":    c.Global.TproxyPortProtect,
			"so_mark_from_dae":       c.Global.SoMarkFromDae,
			"so_mark_from_dae_set":   c.Global.SoMarkFromDaeSet,
			"log_level":              c.Global.LogLevel,
			"tcp_check_url":          c.Global.TcpCheckUrl,
			"tcp_check_http_method":  c.Global.TcpCheckHttpMethod,
			"udp_check_dns":          c.Global.UdpCheckDns,
			"check_interval_ns":      int64(c.Global.CheckInterval),
			"check_tolerance_ns":     int64(c.Global.CheckTolerance),
			"lan_interface":          c.Global.LanInterface,
			"wan_interface":          c.Global.WanInterface,
			"allow_insecure":         c.Global.AllowInsecure,
			"dial_mode":              c.Global.DialMode,
			"sniffing_timeout_ns":    int64(c.Global.SniffingTimeout),
			"tls_implementation":     c.Global.TlsImplementation,
			"utls_imitate":           c.Global.UtlsImitate,
			"fallback_resolver":      c.Global.FallbackResolver,
			"bootstrap_resolver":     c.Global.BootstrapResolver,
			"pprof_port":             c.Global.PprofPort,
			"bandwidth_max_tx":       c.Global.BandwidthMaxTx,
			"disable_thp":            c.Global.DisableTHP,
			"bpf_conn_state_map_sz":  c.Global.BpfConnStateMapSize,
			"tls_fragment_length":    c.Global.TlsFragmentLength,
			"mptcp":                  c.Global.Mptcp,
			"udphop_interval_ns":     int64(c.Global.UDPHopInterval),
			"disable_waiting_network": c.Global.DisableWaitingNetwork,
		},
		"subscription": c17Strs(c.Subscription),
		"node":         c17Strs(c.Node),
		"group":        groups,
		"routing":      map[string]any{"rules": c17Rules(c.Routing.Rules), "fallback": c17FuncOrString(c.Routing.Fallback)},
		"dns": map[string]any{
			"ipversion_prefer":     c.Dns.IpVersionPrefer,
			"fixed_domain_ttl":     c17Strs(c.Dns.FixedDomainTtl),
			"upstream":             c17Strs(c.Dns.Upstream),
			"bind":                 c.Dns.Bind,
			"optimistic_cache":     c.Dns.OptimisticCache,
			"optimistic_cache_ttl": c.Dns.OptimisticCacheTtl,
			"max_cache_size":       c.Dns.MaxCacheSize,
			"request":              map[string]any{"rules": c17Rules(c.Dns.Routing.Request.Rules), "fallback": c17FuncOrString(c.Dns.Routing.Request.Fallback)},
			"response":             map[string]any{"rules": c17Rules(c.Dns.Routing.Response.Rules), "fallback": c17FuncOrString(c.Dns.Routing.Response.Fallback)},
		},
	}
}

func c17Build(text string) (res c17Res, conf *config.Config) {
	defer func() {
		if r := recover(); r != nil {
			res = c17Res{Panic: fmt.Sprint(r), Stage: "build"}
			conf = nil
		}
	}()
	secs, err := config_parser.Parse(text)
	if err != nil {
		return c17Res{Err: err.Error(), Stage: "parse"}, nil
	}
	conf, err = config.New(secs)
	if err != nil {
		return c17Res{Err: err.Error(), Stage: "build"}, nil
	}
	return c17Res{Ok: true, Conf: c17Conf(conf)}, conf
}

// compile: the routing program through the production builder (lowering + userspace matcher) and the DNS
// request/response matchers through dns.New.
func c17Compile(text string, stage string) (res c17Res) {
	cur := "build"
	defer func() {
		if r := recover(); r != nil {
			res = c17Res{Panic: fmt.Sprint(r), Stage: cur}
		}
	}()
	r0, conf := c17Build(text)
	if !r0.Ok {
		return r0
	}
	log := logrus.New()
	log.SetOutput(io.Discard)
	if stage == "routing" || stage == "both" || stage == "" {
		cur = "routing"
		name2id := map[string]uint8{"direct": 0, "block": 1, "must_rules": 0xFC}
		for i, g := range conf.Group {
			name2id[g.Name] = uint8(2 + i%200)
		}
		// as control.NewControlPlane does: optimizers, then lowering into the builder
		locationFinder := assets.NewLocationFinder(nil)
		program, err := routing.NewNormalizedProgram(conf.Routing.Rules, conf.Routing.Fallback,
			&routing.AliasOptimizer{},
			&routing.DatReaderOptimizer{Logger: log, LocationFinder: locationFinder},
			&routing.MergeAndSortRulesOptimizer{},
			&routing.DeduplicateParamsOptimizer{},
		)
		if err != nil {
			return c17Res{Err: err.Error(), Stage: cur}
		}
		b, err := NewRoutingMatcherBuilderFromProgram(log, program, name2id, nil)
		if err != nil {
			return c17Res{Err: err.Error(), Stage: cur}
		}
		if _, err = b.BuildUserspace(); err != nil {
			return c17Res{Err: err.Error(), Stage: cur}
		}
	}
	if stage == "dns" || stage == "both" || stage == "" {
		cur = "dns"
		_, err := dns.New(&conf.Dns, &dns.NewOption{Logger: log, LocationFinder: assets.NewLocationFinder(nil)})
		if err != nil {
			return c17Res{Err: err.Error(), Stage: cur}
		}
	}
	return c17Res{Ok: true}
}

func c17Merge(req *c17Req) (res c17Res) {
	root, err := os.MkdirTemp("", "c17merge")
	if err != nil {
		panic(err)
	}
	defer os.RemoveAll(root)
	root, _ = filepath.EvalSymlinks(root)
	defer func() {
		if r := recover(); r != nil {
			res = c17Res{Panic: fmt.Sprint(r), Stage: "merge"}
		}
	}()
	for _, f := range req.Files {
		p := filepath.Join(root, f.Path)
		if f.Dir {
			if err := os.MkdirAll(p, 0755); err != nil {
				panic(err)
			}
			continue
		}
		if err := os.MkdirAll(filepath.Dir(p), 0755); err != nil {
			panic(err)
		}
		if f.Link != "" {
			if err := os.Symlink(strings.ReplaceAll(f.Link, "@ROOT@", root), p); err != nil {
				panic(err)
			}
			continue
		}
		mode := os.FileMode(f.Mode)
		if mode == 0 {
			mode = 0600
		}
		txt := strings.ReplaceAll(c17Text(f.Text), "@ROOT@", root)
		if err := os.WriteFile(p, []byte(txt), 0600); err != nil {
			panic(err)
		}
		if err := os.Chmod(p, mode); err != nil {
			panic(err)
		}
	}
	entryDir := filepath.Dir(filepath.Join(root, req.Entry))
	globs := map[string][]string{}
	for _, w := range req.Globs {
		pat := strings.ReplaceAll(w, "@ROOT@", root)
		if !filepath.IsAbs(pat) {
			pat = filepath.Join(entryDir, pat)
		}
		ms, gerr := filepath.Glob(pat)
		if gerr != nil {
			continue
		}
		out := make([]string, 0, len(ms))
		for _, x := range ms {
			out = append(out, strings.Replace(x, root, "@ROOT@", 1))
		}
		globs[w] = out
	}
	m := config.NewMerger(filepath.Join(root, req.Entry))
	secs, entries, err := m.Merge()
	if err != nil {
		e := strings.ReplaceAll(err.Error(), root, "@ROOT@")
		return c17Res{Err: e, Stage: "merge", Globs: globs}
	}
	sort.Slice(secs, func(i, j int) bool { return secs[i].Name < secs[j].Name })
	rel := make([]string, 0, len(entries))
	for _, e := range entries {
		rel = append(rel, strings.Replace(e, root, "@ROOT@", 1))
	}
	sort.Strings(rel)
	// values that spell the scratch root (absolute include patterns) are reported with the placeholder
	var cs []c17Section
	raw, _ := json.Marshal(c17Sections(secs))
	if err := json.Unmarshal([]byte(strings.ReplaceAll(string(raw), root, "@ROOT@")), &cs); err != nil {
		panic(err)
	}
	return c17Res{Ok: true, Sections: cs, Entries: rel, Globs: globs}
}

func TestVerifC17(t *testing.T) {
	logrus.SetOutput(io.Discard)
	verifEachLine(t, func(line []byte) any {
		var req c17Req
		if err := json.Unmarshal(line, &req); err != nil {
			return c17Res{Panic: "harness: bad request: " + err.Error(), Stage: "harness"}
		}
		switch req.Op {
		case "parse":
			return c17Parse(c17Text(req.Text))
		case "build":
			r, _ := c17Build(c17Text(req.Text))
			return r
		case "compile":
			return c17Compile(c17Text(req.Text), req.Stage)
		case "merge":
			return c17Merge(&req)
		}
		return c17Res{Panic: "harness: unknown op " + req.Op, Stage: "harness"}
	})
}
