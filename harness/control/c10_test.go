//go:build verif

package control

import (
	"encoding/json"
	"fmt"
	"math/big"
	"net/netip"
	"sort"
	"testing"

	"github.com/daeuniverse/dae/common"
	dnsmessage "github.com/miekg/dns"
)

type c10Op struct {
	Owner  string   `json:"owner"`
	Remove bool     `json:"remove"`
	Bitmap string   `json:"bitmap"` // hex, bit i of the number = domain set i
	IPs    []string `json:"ips"`
	Other  int      `json:"other"` // number of non-address RRs mixed in
}

type c10Case struct {
	Ops []c10Op `json:"ops"`
}

type c10Batch struct {
	Updates [][2]string `json:"updates"` // key (4 words, hex) , bitmap hex
	Deletes []string    `json:"deletes"`
	Err     string      `json:"err,omitempty"`
}

type c10Result struct {
	Keys    map[string]string `json:"keys"` // ip string -> key hex (production key function)
	Batches []c10Batch        `json:"batches"`
	Shadow  [][2]string       `json:"shadow"` // final kernel map: key hex, bitmap hex (sorted)
	Owners  map[string]string `json:"owners"` // tracker.owners: owner -> bitmap hex "|" sorted keys
	Index   map[string]string `json:"index"`  // tracker.ips: key -> merged hex "|" sorted owner=bitmap
	Panic   string            `json:"panic,omitempty"`
}

func c10KeyHex(k [4]uint32) string {
	return fmt.Sprintf("%08x.%08x.%08x.%08x", k[0], k[1], k[2], k[3])
}

func c10BitmapHex(b bpfDomainRouting) string {
	n := new(big.Int)
	for i := len(b.Bitmap) - 1; i >= 0; i-- {
		n.Lsh(n, 32)
		n.Or(n, big.NewInt(int64(b.Bitmap[i])))
	}
	return n.Text(16)
}

func c10BitmapWords(hex string) []uint32 {
	n, ok := new(big.Int).SetString(hex, 16)
	if !ok {
		panic("bad bitmap " + hex)
	}
	words := make([]uint32, len(bpfDomainRouting{}.Bitmap))
	mask := big.NewInt(0xffffffff)
	for i := range words {
		w := new(big.Int).And(n, mask)
		words[i] = uint32(w.Uint64())
		n.Rsh(n, 32)
	}
	return words
}

func c10RR(ip netip.Addr) dnsmessage.RR {
	if ip.Is4() {
		return &dnsmessage.A{Hdr: dnsmessage.RR_Header{Name: "x.", Rrtype: dnsmessage.TypeA, Class: dnsmessage.ClassINET, Ttl: 60}, A: ip.AsSlice()}
	}
	return &dnsmessage.AAAA{Hdr: dnsmessage.RR_Header{Name: "x.", Rrtype: dnsmessage.TypeAAAA, Class: dnsmessage.ClassINET, Ttl: 60}, AAAA: ip.AsSlice()}
}

func c10Run(cs c10Case) (res c10Result) {
	defer func() {
		if r := recover(); r != nil {
			res.Panic = fmt.Sprint(r)
		}
	}()
	res.Keys = map[string]string{}
	core := &controlPlaneCore{}
	core.bpf.Store(&bpfObjects{})
	shadow := map[[4]uint32]bpfDomainRouting{}
	var cur *c10Batch
	VerifDomainRoutingObserver = func(owner string, ku [][4]uint32, vu []bpfDomainRouting, kd [][4]uint32) {
		b := c10Batch{Updates: [][2]string{}, Deletes: []string{}}
		for i := range ku {
			b.Updates = append(b.Updates, [2]string{c10KeyHex(ku[i]), c10BitmapHex(vu[i])})
			shadow[ku[i]] = vu[i]
		}
		for _, k := range kd {
			b.Deletes = append(b.Deletes, c10KeyHex(k))
			delete(shadow, k)
		}
		sort.Slice(b.Updates, func(i, j int) bool { return b.Updates[i][0] < b.Updates[j][0] })
		sort.Strings(b.Deletes)
		cur = &b
	}
	defer func() { VerifDomainRoutingObserver = nil }()
	for _, op := range cs.Ops {
		cache := &DnsCache{RouteOwnerKey: op.Owner}
		cache.DomainBitmap = c10BitmapWords(op.Bitmap)
		for i, s := range op.IPs {
			ip := netip.MustParseAddr(s)
			ip6 := ip.As16()
			res.Keys[s] = c10KeyHex(common.Ipv6ByteSliceToUint32Array(ip6[:]))
			cache.Answer = append(cache.Answer, c10RR(ip))
			if i < op.Other {
				cache.Answer = append(cache.Answer, &dnsmessage.CNAME{Hdr: dnsmessage.RR_Header{Name: "x.", Rrtype: dnsmessage.TypeCNAME, Class: dnsmessage.ClassINET, Ttl: 60}, Target: "y."})
			}
		}
		cur = nil
		var err error
		if op.Remove {
			err = core.BatchRemoveDomainRouting(cache)
		} else {
			err = core.BatchUpdateDomainRouting(cache)
		}
		b := c10Batch{Updates: [][2]string{}, Deletes: []string{}}
		if cur != nil {
			b = *cur
		}
		if err != nil {
			b.Err = err.Error()
		}
		res.Batches = append(res.Batches, b)
	}
	res.Shadow = [][2]string{}
	for k, v := range shadow {
		res.Shadow = append(res.Shadow, [2]string{c10KeyHex(k), c10BitmapHex(v)})
	}
	sort.Slice(res.Shadow, func(i, j int) bool { return res.Shadow[i][0] < res.Shadow[j][0] })
	res.Owners = map[string]string{}
	res.Index = map[string]string{}
	if tr := core.domainRouting; tr != nil {
		for o, s := range tr.owners {
			ks := []string{}
			for k := range s.ips {
				ks = append(ks, c10KeyHex(k))
			}
			sort.Strings(ks)
			res.Owners[o] = c10BitmapHex(s.bitmap) + "|" + fmt.Sprint(ks)
		}
		for k, st := range tr.ips {
			os := []string{}
			for o, b := range st.owners {
				os = append(os, o+"="+c10BitmapHex(b))
			}
			sort.Strings(os)
			res.Index[c10KeyHex(k)] = c10BitmapHex(st.merged) + "|" + fmt.Sprint(os)
		}
	}
	return res
}

func TestVerifC10(t *testing.T) {
	verifEachLine(t, func(line []byte) any {
		var cs c10Case
		if err := json.Unmarshal(line, &cs); err != nil {
			t.Fatalf("bad case: %v", err)
		}
		return c10Run(cs)
	})
}
