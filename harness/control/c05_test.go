//go:build verif

package control

// C05 harness: drives the REAL handleConn prologue (lifted textually from control/tcp.go by tools/c05.py
// into verifC05Prologue, injected by -overlay) and the REAL RelayTCPContextWithRecords over
//   (a) in-memory duplex conns under a purely virtual clock (every SetReadDeadline / CloseWrite / Close /
//       Read is recorded; waits never sleep, virtual time jumps when every reader is blocked), and
//   (b) real loopback *net.TCPConn pairs (gather-write / splice paths).
// Only event order and exact virtual milliseconds are reported, never wall-clock durations.

import (
	"context"
	"encoding/hex"
	"encoding/json"
	"errors"
	"fmt"
	"io"
	"net"
	"net/netip"
	"bufio"
	"os"
	"runtime"
	"strconv"
	"strings"
	"sync"
	"syscall"
	"testing"
	"time"

	"github.com/daeuniverse/dae/common/consts"
	"github.com/daeuniverse/dae/component/sniffing"
	"github.com/daeuniverse/outbound/netproxy"
	dnsmessage "github.com/miekg/dns"
	"github.com/sirupsen/logrus"
)

const c05Inf = int64(1) << 60

type c05In struct {
	At   int64  `json:"at"`   // virtual ms of arrival (absolute, from accept)
	Data string `json:"data"` // hex
}

type c05Side struct {
	// Fin: "" - end of stream is a separate Read returning (0, io.EOF); "eof" - the Read that returns the last
	// bytes returns io.EOF with them (io.Reader allows n > 0 together with an error: TLS record layers and
	// other framed conns do it); "reset" - the last bytes come together with a connection-reset error
	Fin    string  `json:"fin"`
	Chunks []c05In `json:"chunks"`
	EofAt  int64   `json:"eof_at"` // -1: stays open and silent for ever
}

type c05Case struct {
	Kind      string  `json:"kind"` // "mem" | "tcp"
	Port      uint16  `json:"port"`
	Outbound  uint8   `json:"outbound"`   // routingResult.Outbound
	DialIP    bool    `json:"dial_ip"`    // dial mode ip
	SniffMs   int64   `json:"sniff_ms"`   // c.sniffingTimeout
	GraceMs   int64   `json:"grace_ms"`   // 0: production constant through RelayTCPContextWithRecords
	Client    c05Side `json:"client"`     // what the client sends (read side of L)
	Server    c05Side `json:"server"`     // what the upstream sends (read side of R)
	GateAfter int     `json:"gate_after"` // real sockets: the client sends this many chunks, the rest only after the prologue returned; the relay starts when they are pending in the socket (TIOCINQ > 0)
	WaitScale int64   `json:"wait_scale"` // multiplies every real-time patience of the harness (retries under load)
	HorizonMs int64   `json:"horizon_ms"` // stop when virtual time is stuck (everything blocked for ever)

	// kind "multi"
	Conns []c05Case `json:"conns"`
	Order [][2]int  `json:"order"`
}

type c05Event struct {
	T    int64  `json:"t"`
	Conn string `json:"c"`
	What string `json:"w"` // dl (arg = relative ms), dl0, dlpast, cw (arg = bytes written so far), close, start, rdto, rdeof
	Arg  int64  `json:"a"`
}

type c05ReadRec struct {
	Stage int   `json:"s"` // 0 prologue, 1 relay
	Req   int   `json:"q"`
	N     int   `json:"n"`
	Err   int   `json:"e"` // 0 nil 1 eof 2 timeout 3 closed
	T     int64 `json:"t"`
}

type c05Result struct {
	HandledDNS  bool         `json:"handled_dns"`
	PrologueErr string       `json:"prologue_err"`
	Stack       string       `json:"stack"`
	Domain      string       `json:"domain"`
	StartMs     int64        `json:"start_ms"`
	DlAtStart   int64        `json:"dl_at_start"` // L's armed read deadline at relay start (absolute ms), -1 none
	Up          string       `json:"up"`          // hex: bytes the upstream received
	Down        string       `json:"down"`        // hex: bytes the client received
	UpWrites    []int        `json:"up_writes"`
	Events      []c05Event   `json:"events"`
	LReads      []c05ReadRec `json:"l_reads"`
	RelayErr    string       `json:"relay_err"`
	Alive       bool         `json:"alive"` // relay still running when everything is blocked for ever
	EndMs       int64        `json:"end_ms"`
	Spin        int          `json:"spin"`      // reads answered EOF while a future deadline was armed (busy loop)
	DnsParse    string       `json:"dns_parse"` // oracle answer of miekg Unpack on the first frame: none|short|err|query|response
	DnsFrame    int          `json:"dns_frame"`
	UpEOF       bool         `json:"up_eof"`   // upstream saw a write-shutdown (CloseWrite on R)
	DownEOF     bool         `json:"down_eof"` // client saw a write-shutdown (CloseWrite on L)
	CwUpN       int          `json:"cw_up_n"`
	CwDownN     int          `json:"cw_down_n"`
	Hang        string       `json:"hang,omitempty"`
	StuckStage  int          `json:"stuck_stage,omitempty"` // 1: inside the prologue, 2: inside the relay
	Panic       string       `json:"panic,omitempty"`
}

// ---------------------------------------------------------------------------------------------
// virtual clock + in-memory conns
// ---------------------------------------------------------------------------------------------

type c05Clock struct {
	mu     sync.Mutex
	cond   *sync.Cond
	now    int64
	conns  []*c05Conn
	events []c05Event
	stuck  chan struct{}
	stuckS bool
	stuckN int // number of events when everything was found blocked for ever
	stage  int
	spin   int
	dlMemo map[time.Time]int64
	// real-time history of the virtual clock: a deadline handed to SetReadDeadline is real-now-at-computation +
	// timeout; the instant of computation is recovered from the known timeouts and mapped to the virtual time
	// that was current then (so a deadline computed early and armed late keeps its early origin)
	t0       time.Time
	lastAct  time.Time // real time of the last operation any goroutine performed on a harness conn
	jumps    []c05Jump
	timeouts []int64
}

type c05Jump struct {
	real time.Time
	now  int64
}

func (k *c05Clock) setNow(v int64) {
	k.now = v
	k.jumps = append(k.jumps, c05Jump{time.Now(), v})
}

func (k *c05Clock) virtualAt(r time.Time) int64 {
	v := int64(0)
	for _, j := range k.jumps {
		if j.real.After(r) {
			break
		}
		v = j.now
	}
	return v
}

// toVirtual: absolute virtual ms of a real deadline t.
func (k *c05Clock) toVirtual(t time.Time) int64 {
	realNow := time.Now()
	// The smallest timeout whose instant of computation (t - T) lies inside this case's real-time window: a
	// larger one can only fit as well when the case has been running for longer than the difference (heavy
	// load), a smaller one only when the deadline was armed that much later than it was computed.
	best := int64(-1)
	bestT := int64(0)
	for _, T := range k.timeouts {
		r0 := t.Add(-time.Duration(T) * time.Millisecond)
		if r0.Before(k.t0) || r0.After(realNow) {
			continue
		}
		if best < 0 || T < bestT {
			best, bestT = k.virtualAt(r0)+T, T
		}
	}
	if best >= 0 {
		return best
	}
	// unknown timeout: assume it was computed just now; relative part rounded to 500 ms
	rel := t.Sub(realNow)
	return k.now + int64((rel+250*time.Millisecond)/(500*time.Millisecond)*500)
}

type c05Conn struct {
	clk  *c05Clock
	name string
	peer *c05Conn
	in   []struct {
		at   int64
		data []byte
	}
	eofAt int64
	pos   int
	off   int

	dl     int64 // absolute virtual ms, -1 none
	closed bool

	out      []byte
	writes   []int
	wclosed  bool
	cwCount  int
	cwLimbo  bool // CloseWrite done, the direction goroutine has not yet armed grace / force-closed
	blocked  bool
	wake     int64
	finished bool // this conn's reader will not read again
	idleOK   bool // reader not started yet (prologue phase: R has no reader)
	reads    []c05ReadRec
	eofSpins int
	fin      string // see c05Side.Fin
	finDone  bool   // the final (data, error) read has been delivered
}

func (k *c05Clock) ev(c *c05Conn, what string, arg int64) {
	k.lastAct = time.Now()
	k.events = append(k.events, c05Event{T: k.now, Conn: c.name, What: what, Arg: arg})
}

// maybeAdvance: called with the lock held whenever a reader blocks or finishes.
func (k *c05Clock) maybeAdvance() bool {
	minWake := c05Inf
	anyBlocked := false
	for _, c := range k.conns {
		if c.finished || c.idleOK {
			continue
		}
		if !c.blocked {
			return false // somebody is running
		}
		anyBlocked = true
		if c.wake < minWake {
			minWake = c.wake
		}
	}
	if !anyBlocked {
		return false
	}
	if minWake >= c05Inf {
		if !k.stuckS {
			k.stuckS = true
			k.stuckN = len(k.events)
			close(k.stuck)
		}
		return false
	}
	if minWake > k.now {
		k.setNow(minWake)
	}
	k.cond.Broadcast()
	return true
}

type c05TimeoutErr struct{}

func (c05TimeoutErr) Error() string   { return "i/o timeout" }
func (c05TimeoutErr) Timeout() bool   { return true }
func (c05TimeoutErr) Temporary() bool { return true }

func (c *c05Conn) rec(req, n, e int) {
	c.clk.lastAct = time.Now()
	c.reads = append(c.reads, c05ReadRec{Stage: c.clk.stage, Req: req, N: n, Err: e, T: c.clk.now})
}

func (c *c05Conn) Read(p []byte) (int, error) {
	k := c.clk
	k.mu.Lock()
	defer k.mu.Unlock()
	for {
		if c.closed {
			c.rec(len(p), 0, 3)
			return 0, &net.OpError{Op: "read", Net: "mem", Err: net.ErrClosed}
		}
		if c.dl >= 0 && c.dl <= k.now {
			c.rec(len(p), 0, 2)
			k.ev(c, "rdto", 0)
			return 0, &net.OpError{Op: "read", Net: "mem", Err: c05TimeoutErr{}}
		}
		if c.pos < len(c.in) && c.in[c.pos].at <= k.now {
			if len(p) == 0 {
				c.rec(0, 0, 0)
				return 0, nil
			}
			ch := c.in[c.pos].data[c.off:]
			n := copy(p, ch)
			c.off += n
			if c.off >= len(c.in[c.pos].data) {
				c.pos++
				c.off = 0
			}
			c.eofSpins = 0
			if c.fin != "" && c.pos >= len(c.in) && c.eofAt >= 0 && c.eofAt <= k.now {
				// the last bytes and the end of the stream in ONE Read
				c.finDone = true
				if c.fin == "reset" {
					c.rec(len(p), n, 4)
					k.ev(c, "rdreset", int64(n))
					return n, &net.OpError{Op: "read", Net: "mem", Err: syscall.ECONNRESET}
				}
				c.rec(len(p), n, 1)
				k.ev(c, "rdeof", int64(n))
				return n, io.EOF
			}
			c.rec(len(p), n, 0)
			return n, nil
		}
		if c.pos >= len(c.in) && c.eofAt >= 0 && c.eofAt <= k.now && c.fin == "reset" {
			c.rec(len(p), 0, 4)
			return 0, &net.OpError{Op: "read", Net: "mem", Err: syscall.ECONNRESET}
		}
		if c.pos >= len(c.in) && c.eofAt >= 0 && c.eofAt <= k.now {
			c.rec(len(p), 0, 1)
			if c.dl > k.now {
				// the real code would burn CPU until the deadline if it keeps reading at EOF; after a
				// bounded number of such reads jump to the deadline (documented in the report as "spin")
				c.eofSpins++
				if c.eofSpins >= 200 {
					k.spin++
					k.setNow(c.dl)
					c.eofSpins = 0
				}
			}
			k.ev(c, "rdeof", 0)
			return 0, io.EOF
		}
		wake := c05Inf
		if c.pos < len(c.in) {
			wake = c.in[c.pos].at
		} else if c.eofAt >= 0 {
			wake = c.eofAt
		}
		if c.dl >= 0 && c.dl <= wake { // tie: the deadline wins
			wake = c.dl
		}
		c.blocked, c.wake = true, wake
		k.lastAct = time.Now()
		k.maybeAdvance()
		if k.now < wake {
			k.cond.Wait()
		}
		c.blocked = false
	}
}

func (c *c05Conn) Write(p []byte) (int, error) {
	k := c.clk
	k.mu.Lock()
	defer k.mu.Unlock()
	if c.closed || c.wclosed {
		return 0, &net.OpError{Op: "write", Net: "mem", Err: errors.New("broken pipe")}
	}
	c.out = append(c.out, p...)
	c.writes = append(c.writes, len(p))
	k.lastAct = time.Now()
	return len(p), nil
}

func (c *c05Conn) CloseWrite() error {
	k := c.clk
	k.mu.Lock()
	defer k.mu.Unlock()
	c.cwCount++
	k.ev(c, "cw", int64(len(c.out)))
	if c.closed {
		return net.ErrClosed
	}
	c.wclosed = true
	c.cwLimbo = true
	return nil
}

func (c *c05Conn) Close() error {
	k := c.clk
	k.mu.Lock()
	defer k.mu.Unlock()
	k.ev(c, "close", 0)
	c.closed = true
	// a Close ends the direction that writes here (limbo over) and wakes the reader
	c.cwLimbo = false
	c.peer.finished = c.peer.finished || c.peerWriterDone()
	c.blocked = false
	k.cond.Broadcast()
	k.maybeAdvance()
	return nil
}

func (c *c05Conn) peerWriterDone() bool { return c.cwCount > 0 }

func (c *c05Conn) LocalAddr() net.Addr {
	return &net.TCPAddr{IP: net.IPv4(10, 0, 0, 1), Port: 1}
}
func (c *c05Conn) RemoteAddr() net.Addr {
	return &net.TCPAddr{IP: net.IPv4(10, 0, 0, 2), Port: 2}
}
func (c *c05Conn) SetDeadline(t time.Time) error {
	_ = c.SetReadDeadline(t)
	return nil
}
func (c *c05Conn) SetWriteDeadline(t time.Time) error { return nil }

func (c *c05Conn) SetReadDeadline(t time.Time) error {
	k := c.clk
	k.mu.Lock()
	defer k.mu.Unlock()
	switch {
	case t.IsZero():
		c.dl = -1
		k.ev(c, "dl0", 0)
	case t.Before(time.Now().Add(-time.Hour)):
		c.dl = 0
		k.ev(c, "dlpast", 0)
	default:
		abs := k.toVirtual(t)
		c.dl = abs
		k.ev(c, "dl", abs-k.now)
	}
	if k.stage == 1 {
		// relay phase: the only deadlines armed are the grace period (by the direction that has just ended
		// cleanly and writes into c) and forceClose's past deadline: either way the direction that writes
		// into c will not read its source again
		c.cwLimbo = false
		c.peer.finished = true
	}
	c.blocked = false // its reader re-evaluates with the new deadline
	k.cond.Broadcast()
	k.maybeAdvance()
	return nil
}

func c05ErrClass(err error) string {
	if err == nil {
		return "nil"
	}
	var parts []string
	type multi interface{ Unwrap() []error }
	var walk func(e error)
	walk = func(e error) {
		if m, ok := e.(multi); ok {
			for _, x := range m.Unwrap() {
				walk(x)
			}
			return
		}
		var ne net.Error
		switch {
		case errors.Is(e, context.Canceled):
			parts = append(parts, "canceled")
		case errors.Is(e, net.ErrClosed):
			parts = append(parts, "closed")
		case errors.As(e, &ne) && ne.Timeout():
			parts = append(parts, "timeout")
		case errors.Is(e, io.EOF):
			parts = append(parts, "eof")
		default:
			s := e.Error()
			if strings.Contains(s, "broken pipe") {
				parts = append(parts, "epipe")
			} else if strings.Contains(s, "closed") {
				parts = append(parts, "closed")
			} else if strings.Contains(s, "reset") {
				parts = append(parts, "reset")
			} else {
				parts = append(parts, "other:"+s)
			}
		}
	}
	walk(err)
	return strings.Join(parts, "+")
}

func c05Stack(c any) string {
	switch x := c.(type) {
	case *c05Conn:
		return "sock"
	case *net.TCPConn:
		return "tcp"
	case *bufioConn:
		return fmt.Sprintf("bufio[%d](%s)", x.reader.Buffered(), c05Stack(x.Conn))
	case *prefixedConn:
		return fmt.Sprintf("prefixed[%d](%s)", len(x.prefix)-x.off, c05Stack(x.Conn))
	case *sniffing.ConnSniffer:
		return fmt.Sprintf("sniffer(%s)", c05Stack(x.Conn))
	default:
		return fmt.Sprintf("%T", c)
	}
}

func c05DnsOracle(stream []byte) (string, int) {
	if len(stream) < 2 {
		return "none", 0
	}
	l := int(stream[0])<<8 | int(stream[1])
	if l < 12 {
		return "short", 0
	}
	if len(stream) < 2+l {
		return "none", 0
	}
	var m dnsmessage.Msg
	if err := m.Unpack(stream[2 : 2+l]); err != nil {
		return "err", 2 + l
	}
	if m.Response {
		return "response", 2 + l
	}
	return "query", 2 + l
}

func c05ControlPlane(cs *c05Case) *ControlPlane {
	lg := logrus.New()
	lg.SetOutput(io.Discard)
	c := &ControlPlane{log: lg, sniffingTimeout: time.Duration(cs.SniffMs) * time.Millisecond}
	if cs.DialIP {
		c.dialMode = consts.DialMode_Ip
	} else {
		c.dialMode = consts.DialMode_Domain
	}
	return c
}

func c05Decode(side c05Side) (in []struct {
	at   int64
	data []byte
}, all []byte) {
	for _, ch := range side.Chunks {
		b, _ := hex.DecodeString(ch.Data)
		if len(b) == 0 {
			continue
		}
		in = append(in, struct {
			at   int64
			data []byte
		}{ch.At, b})
		all = append(all, b...)
	}
	return
}

// c05Gate lets a multi-connection scenario stop a connection between "prologue returned" and "relay started"
// (in handleConn that is the time of the upstream dial).
type c05Gate struct {
	prologueDone chan struct{}
	startRelay   chan struct{}
}

func c05Scale(cs *c05Case) time.Duration {
	if cs.WaitScale > 1 {
		return time.Duration(cs.WaitScale)
	}
	return 1
}

// c05Idle: how long NOTHING may happen on the harness conns (no read, write, deadline, close; no goroutine
// entering a blocking read) while the connection is unfinished before the verdict is "stuck".  The virtual clock
// never waits in real time, so a healthy run is never quiet; the patience is only for a starved scheduler.
func c05Idle(cs *c05Case) time.Duration {
	d := 10 * time.Second
	if n, _ := strconv.Atoi(os.Getenv("C05_STUCK_SEEN")); n >= 4 {
		d = 3 * time.Second // the implementation has already been found stuck several times in this run
	}
	return d * c05Scale(cs)
}

// c05WaitQuiet waits for done; false when the conns have been quiet for longer than idle (or cap elapsed).
func c05WaitQuiet(done <-chan struct{}, clk *c05Clock, idle, hardCap time.Duration) bool {
	start := time.Now()
	tk := time.NewTicker(50 * time.Millisecond)
	defer tk.Stop()
	for {
		select {
		case <-done:
			return true
		case <-tk.C:
			clk.mu.Lock()
			last := clk.lastAct
			clk.mu.Unlock()
			if time.Since(last) > idle || time.Since(start) > hardCap {
				return false
			}
		}
	}
}

func c05Dump() string {
	buf := make([]byte, 1<<16)
	n := runtime.Stack(buf, true)
	if n > 12000 {
		n = 12000
	}
	return string(buf[:n])
}

func c05RunMem(cs *c05Case, gate *c05Gate) (res c05Result) {
	clk := &c05Clock{stuck: make(chan struct{}), dlMemo: map[time.Time]int64{}, t0: time.Now()}
	graceMs := int64(relayHalfCloseTimeout / time.Millisecond)
	if cs.GraceMs > 0 {
		graceMs = cs.GraceMs
	}
	clk.timeouts = []int64{graceMs, int64(TCPDNSFirstReadTimeout / time.Millisecond), int64(TCPDNSNextReadTimeout / time.Millisecond)}
	if cs.SniffMs > 0 {
		clk.timeouts = append(clk.timeouts, cs.SniffMs)
	}
	clk.cond = sync.NewCond(&clk.mu)
	L := &c05Conn{clk: clk, name: "L", dl: -1, eofAt: cs.Client.EofAt, fin: cs.Client.Fin}
	R := &c05Conn{clk: clk, name: "R", dl: -1, eofAt: cs.Server.EofAt, idleOK: true, fin: cs.Server.Fin}
	L.peer, R.peer = R, L
	var clientAll []byte
	L.in, clientAll = c05Decode(cs.Client)
	R.in, _ = c05Decode(cs.Server)
	clk.conns = []*c05Conn{L, R}
	res.DnsParse, res.DnsFrame = "none", 0
	if cs.Port == 53 {
		res.DnsParse, res.DnsFrame = c05DnsOracle(clientAll)
	}

	cp := c05ControlPlane(cs)
	rr := &bpfRoutingResult{Outbound: cs.Outbound}
	src := netip.MustParseAddrPort("10.0.0.2:40000")
	dst := netip.AddrPortFrom(netip.MustParseAddr("93.184.216.34"), cs.Port)

	type proOut struct {
		relay    netproxy.Conn
		domain   string
		reached  bool
		cleanups []func()
		err      error
		panicked string
	}
	done := make(chan struct{})
	var po proOut
	var relayErr error
	relayRan := false
	snap := false
	ctx, cancel := context.WithCancel(context.Background())
	defer cancel()
	go func() {
		defer close(done)
		var gateOnce sync.Once
		openGate := func() {
			if gate != nil {
				gateOnce.Do(func() { close(gate.prologueDone) })
			}
		}
		defer func() {
			if r := recover(); r != nil {
				po.panicked = fmt.Sprint(r)
				openGate()
			}
		}()
		po.relay, po.domain, po.reached, po.cleanups, po.err = cp.verifC05Prologue(ctx, L, src, dst, rr)
		clk.mu.Lock()
		res.StartMs = clk.now
		res.DlAtStart = L.dl
		if po.reached {
			res.Stack = c05Stack(po.relay)
		}
		clk.ev(L, "start", 0)
		clk.stage = 1
		R.idleOK = false
		clk.mu.Unlock()
		if gate != nil {
			openGate()
			<-gate.startRelay
		}
		if po.reached {
			relayRan = true
			if cs.GraceMs > 0 {
				core := newRelayCore(po.relay, R, defaultRelayCopyEngine{}, func(int64) {}, func(int64) {})
				core.halfCloseTimeout = time.Duration(cs.GraceMs) * time.Millisecond
				relayErr = core.run(ctx)
			} else {
				relayErr = RelayTCPContextWithRecords(ctx, po.relay, R, func(int64) {}, func(int64) {})
			}
		}
	}()

	if gate != nil {
		<-gate.startRelay
	}
	clk.mu.Lock()
	clk.lastAct = time.Now()
	clk.mu.Unlock()
	quiet := make(chan struct{})
	go func() {
		if !c05WaitQuiet(done, clk, c05Idle(cs), 60*time.Second*c05Scale(cs)) {
			close(quiet)
		}
	}()
	select {
	case <-done:
	case <-clk.stuck:
		clk.mu.Lock()
		res.Alive = clk.stage == 1
		res.EndMs = clk.now
		res.UpEOF, res.DownEOF = R.wclosed, L.wclosed
		res.CwUpN, res.CwDownN = R.cwCount, L.cwCount
		snap = true
		clk.lastAct = time.Now()
		clk.mu.Unlock()
		cancel()
		if !res.Alive {
			// stuck inside the prologue (no deadline armed, no data): unblock by closing
			_ = L.Close()
		}
		if !c05WaitQuiet(done, clk, c05Idle(cs), 30*time.Second*c05Scale(cs)) {
			res.Hang = "stuck: the relay does not end after cancellation\n" + c05Dump()
		}
	case <-quiet:
		clk.mu.Lock()
		res.Hang = fmt.Sprintf("stuck: nothing happens on either socket and the connection is not finished (virtual now=%d stage=%d Lblocked=%v Rblocked=%v Lfin=%v Rfin=%v)\n", clk.now, clk.stage, L.blocked, R.blocked, L.finished, R.finished)
		res.StuckStage = clk.stage + 1
		clk.mu.Unlock()
		res.Hang += c05Dump()
		cancel()
		_ = L.Close()
		_ = R.Close()
		select {
		case <-done:
		case <-time.After(2 * time.Second):
		}
	}
	clk.mu.Lock()
	if !res.Alive {
		res.EndMs = clk.now
	}
	nEv := len(clk.events)
	if clk.stuckS {
		// events after the harness' own cancel are not observations of the connection
		nEv = clk.stuckN
	}
	res.Events = append([]c05Event(nil), clk.events[:nEv]...)
	res.Up = hex.EncodeToString(R.out)
	res.Down = hex.EncodeToString(L.out)
	res.UpWrites = append([]int(nil), R.writes...)
	res.LReads = append([]c05ReadRec(nil), L.reads...)
	res.Spin = clk.spin
	if !snap {
		res.UpEOF, res.DownEOF = R.wclosed, L.wclosed
		res.CwUpN, res.CwDownN = R.cwCount, L.cwCount
	}
	clk.mu.Unlock()
	res.Panic = po.panicked
	res.Domain = po.domain
	res.HandledDNS = !po.reached && po.err == nil && po.panicked == ""
	res.PrologueErr = c05ErrClass(po.err)
	if relayRan {
		res.RelayErr = c05ErrClass(relayErr)
	} else {
		res.RelayErr = "norelay"
	}
	for _, f := range po.cleanups {
		f()
	}
	if res.Alive {
		// strip what our own cancel caused
		res.RelayErr = "alive"
	}
	return res
}

// ---------------------------------------------------------------------------------------------
// real loopback TCP
// ---------------------------------------------------------------------------------------------

func c05TCPPair() (a, b *net.TCPConn, err error) {
	ln, err := net.Listen("tcp", "127.0.0.1:0")
	if err != nil {
		return nil, nil, err
	}
	defer ln.Close()
	ch := make(chan net.Conn, 1)
	go func() {
		c, _ := ln.Accept()
		ch <- c
	}()
	d, err := net.Dial("tcp", ln.Addr().String())
	if err != nil {
		return nil, nil, err
	}
	acc := <-ch
	if acc == nil {
		return nil, nil, errors.New("accept failed")
	}
	return d.(*net.TCPConn), acc.(*net.TCPConn), nil
}

// c05RunTCP: client <-> (L accepted by "dae") ... (R dialed by "dae") <-> upstream, all real sockets.
// "at" values are only used as order/pauses: a pause of min(at-difference, 30ms) real time between chunks.
func c05RunTCP(cs *c05Case) (res c05Result) {
	client, L, err := c05TCPPair()
	if err != nil {
		res.Panic = "tcp pair: " + err.Error()
		return
	}
	R, upstream, err := c05TCPPair()
	if err != nil {
		res.Panic = "tcp pair: " + err.Error()
		return
	}
	defer client.Close()
	defer upstream.Close()
	_, clientAll := c05Decode(cs.Client)
	res.DnsParse, res.DnsFrame = "none", 0
	if cs.Port == 53 {
		res.DnsParse, res.DnsFrame = c05DnsOracle(clientAll)
	}
	gateCh := make(chan struct{})
	feed := func(c *net.TCPConn, side c05Side, gateAfter int) {
		in, _ := c05Decode(side)
		last := int64(0)
		for i, ch := range in {
			if gateAfter > 0 && i == gateAfter {
				<-gateCh
			}
			if d := ch.at - last; d > 0 {
				if d > 30 {
					d = 30
				}
				time.Sleep(time.Duration(d) * time.Millisecond)
			}
			last = ch.at
			if _, err := c.Write(ch.data); err != nil {
				return
			}
		}
		if gateAfter > 0 && len(in) <= gateAfter {
			<-gateCh
		}
		if side.EofAt >= 0 {
			if d := side.EofAt - last; d > 0 {
				if d > 30 {
					d = 30
				}
				time.Sleep(time.Duration(d) * time.Millisecond)
			}
			_ = c.CloseWrite()
		}
	}
	var wg sync.WaitGroup
	var up, down []byte
	var upEOF, downEOF bool
	var mu sync.Mutex
	sink := func(c *net.TCPConn, buf *[]byte, eof *bool) {
		defer wg.Done()
		_ = c.SetReadDeadline(time.Now().Add(60 * time.Second * c05Scale(cs)))
		b := make([]byte, 64<<10)
		for {
			n, err := c.Read(b)
			*buf = append(*buf, b[:n]...)
			if err != nil {
				mu.Lock()
				*eof = err == io.EOF
				mu.Unlock()
				return
			}
		}
	}
	wg.Add(2)
	go sink(upstream, &up, &upEOF)
	go sink(client, &down, &downEOF)
	go feed(client, cs.Client, cs.GateAfter)
	go feed(upstream, cs.Server, 0)

	cp := c05ControlPlane(cs)
	rr := &bpfRoutingResult{Outbound: cs.Outbound}
	src := netip.MustParseAddrPort("10.0.0.2:40000")
	dst := netip.AddrPortFrom(netip.MustParseAddr("93.184.216.34"), cs.Port)
	ctx, cancel := context.WithTimeout(context.Background(), 45*time.Second*c05Scale(cs))
	defer cancel()
	var (
		relay    netproxy.Conn
		domain   string
		reached  bool
		cleanups []func()
		perr     error
	)
	func() {
		defer func() {
			if r := recover(); r != nil {
				res.Panic = fmt.Sprint(r)
			}
		}()
		relay, domain, reached, cleanups, perr = cp.verifC05Prologue(ctx, L, src, dst, rr)
	}()
	close(gateCh)
	if cs.GateAfter > 0 && res.Panic == "" {
		// the connection is "dialing": wait until the client's next segment sits in the socket buffer
		nIn, _ := c05Decode(cs.Client)
		if len(nIn) > cs.GateAfter {
			deadline := time.Now().Add(5 * time.Second * c05Scale(cs))
			for time.Now().Before(deadline) {
				if p, err := tcpConnHasPendingReadData(L); err != nil || p {
					break
				}
				time.Sleep(time.Millisecond)
			}
		}
	}
	res.Domain = domain
	res.PrologueErr = c05ErrClass(perr)
	res.HandledDNS = !reached && perr == nil && res.Panic == ""
	res.RelayErr = "norelay"
	if reached {
		res.Stack = c05Stack(relay)
		relayDone := make(chan error, 1)
		go func() {
			if cs.GraceMs > 0 {
				core := newRelayCore(relay, R, defaultRelayCopyEngine{}, func(int64) {}, func(int64) {})
				core.halfCloseTimeout = time.Duration(cs.GraceMs) * time.Millisecond
				relayDone <- core.run(ctx)
			} else {
				relayDone <- RelayTCPContextWithRecords(ctx, relay, R, func(int64) {}, func(int64) {})
			}
		}()
		select {
		case rerr := <-relayDone:
			res.RelayErr = c05ErrClass(rerr)
		case <-time.After(60 * time.Second * c05Scale(cs)):
			// the relay's own context expired 15 s ago and it still has not returned
			res.Hang = "stuck: the relay did not return after its context expired\n" + c05Dump()
			res.Stack = c05Stack(relay)
			_ = L.Close()
			_ = R.Close()
			return res
		}
	}
	// write-shutdowns must have reached the peers while the relay was still up: give the kernel a moment,
	// then look before anything is closed
	sinksDone := make(chan struct{})
	go func() { wg.Wait(); close(sinksDone) }()
	select {
	case <-sinksDone:
	case <-time.After(5 * time.Second * c05Scale(cs)):
	}
	mu.Lock()
	res.UpEOF, res.DownEOF = upEOF, downEOF
	mu.Unlock()
	for _, f := range cleanups {
		f()
	}
	_ = L.Close()
	_ = R.Close()
	wg.Wait()
	res.Up, res.Down = hex.EncodeToString(up), hex.EncodeToString(down)
	res.DlAtStart = -1
	return res
}

func c05Dispatch(line []byte) any {
	var kd struct {
		Kind string `json:"kind"`
	}
	_ = json.Unmarshal(line, &kd)
	if kd.Kind == "writev" {
		var wc c05WritevCase
		if err := json.Unmarshal(line, &wc); err != nil {
			return c05WritevResult{Writev: true, Panic: "bad case: " + err.Error()}
		}
		return c05RunWritev(&wc)
	}
	if kd.Kind == "splice" {
		var sc c05SpliceCase
		if err := json.Unmarshal(line, &sc); err != nil {
			return c05SpliceResult{Splice: true, Panic: "bad case: " + err.Error()}
		}
		return c05RunSplice(&sc)
	}
	var cs c05Case
	if err := json.Unmarshal(line, &cs); err != nil {
		return c05Result{Panic: "bad case: " + err.Error()}
	}
	if cs.Kind == "tcp" {
		return c05RunTCP(&cs)
	}
	if cs.Kind == "multi" {
		return c05RunMulti(&cs)
	}
	return c05RunMem(&cs, nil)
}

func c05HasHang(v any) bool {
	b, _ := json.Marshal(v)
	return strings.Contains(string(b), `"hang":"`)
}

// One case per input line, the result flushed at once.  Every case has a hard wall-clock cap; a case that is
// stuck (its own verdict, or the cap) ends this process after its result is written: goroutines of the
// implementation may be blocked for ever, the driver continues with the remaining cases in a fresh process.
func TestVerifC05(t *testing.T) {
	in, err := os.Open(os.Getenv("VERIF_IN"))
	if err != nil {
		t.Fatalf("VERIF_IN: %v", err)
	}
	defer in.Close()
	out, err := os.Create(os.Getenv("VERIF_OUT"))
	if err != nil {
		t.Fatalf("VERIF_OUT: %v", err)
	}
	defer out.Close()
	sc := bufio.NewScanner(in)
	sc.Buffer(make([]byte, 1<<20), 1<<28)
	enc := json.NewEncoder(out)
	for sc.Scan() {
		line := append([]byte(nil), sc.Bytes()...)
		if len(line) == 0 {
			continue
		}
		var ws struct {
			WaitScale int64 `json:"wait_scale"`
		}
		_ = json.Unmarshal(line, &ws)
		hardCap := 150 * time.Second
		if ws.WaitScale > 1 {
			hardCap *= time.Duration(ws.WaitScale)
		}
		ch := make(chan any, 1)
		go func() { ch <- c05Dispatch(line) }()
		var res any
		stuck := false
		select {
		case res = <-ch:
			stuck = c05HasHang(res)
		case <-time.After(hardCap):
			res = map[string]any{"hang": "stuck: the case did not end within its hard wall-clock cap\n" + c05Dump(), "hard_cap": true}
			stuck = true
		}
		if err := enc.Encode(res); err != nil {
			t.Fatalf("encode: %v", err)
		}
		_ = out.Sync()
		if stuck {
			_ = out.Close()
			os.Exit(3)
		}
	}
}

// c05RunMulti: k connections over the process-wide pools.  Order is a list of [op, conn]: op 0 = run the
// connection's handleConn prologue to its end (the connection then "dials"), op 1 = run its relay to the end.
// One P, so that sync.Pool hands a buffer that was just put back to the next taker, as on a busy single core.
func c05RunMulti(m *c05Case) map[string]any {
	old := runtime.GOMAXPROCS(1)
	defer runtime.GOMAXPROCS(old)
	k := len(m.Conns)
	gates := make([]*c05Gate, k)
	outs := make([]chan c05Result, k)
	res := make([]c05Result, k)
	started := make([]bool, k)
	relayed := make([]bool, k)
	doP := func(i int) {
		if started[i] {
			return
		}
		started[i] = true
		gates[i] = &c05Gate{prologueDone: make(chan struct{}), startRelay: make(chan struct{})}
		outs[i] = make(chan c05Result, 1)
		go func() { outs[i] <- c05RunMem(&m.Conns[i], gates[i]) }()
		select {
		case <-gates[i].prologueDone:
		case <-time.After(25 * time.Second * c05Scale(m)):
			res[i].Hang = "prologue did not return\n" + c05Dump()
		}
	}
	doR := func(i int) {
		doP(i)
		if relayed[i] {
			return
		}
		relayed[i] = true
		close(gates[i].startRelay)
		select {
		case r := <-outs[i]:
			h := res[i].Hang
			res[i] = r
			if h != "" {
				res[i].Hang = h
			}
		case <-time.After(100 * time.Second * c05Scale(m)):
			res[i].Hang = "relay did not return\n" + c05Dump()
		}
	}
	for _, op := range m.Order {
		if op[1] < 0 || op[1] >= k {
			continue
		}
		if op[0] == 0 {
			doP(op[1])
		} else {
			doR(op[1])
		}
	}
	for i := 0; i < k; i++ {
		doR(i)
	}
	return map[string]any{"multi": res}
}

var _ = os.Getenv
